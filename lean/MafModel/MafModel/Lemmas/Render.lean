/-
  Lemmas behind C04: rendering a built value is a canonical fixpoint.
-/
import MafModel.Lemmas.Builtin
import MafModel.Lemmas.UuidLemmas
import MafModel.Lemmas.TextLemmas
open Model Py Spec

namespace Render

/-- equality of results is decidable (used by the `decide` witnesses of C04) -/
instance exceptDecEq {ε α : Type} [DecidableEq ε] [DecidableEq α] : DecidableEq (Except ε α)
  | .ok a, .ok b => if h : a = b then isTrue (h ▸ rfl) else isFalse (fun e => h (Except.ok.inj e))
  | .error a, .error b =>
    if h : a = b then isTrue (h ▸ rfl) else isFalse (fun e => h (Except.error.inj e))
  | .ok _, .error _ => isFalse (fun e => by cases e)
  | .error _, .ok _ => isFalse (fun e => by cases e)

/-! ### hypotheses -/

/-- One more law of CPython's `float()` beyond `FloatHost.Lawful`: it accepts
    every integer literal `int()` accepts. -/
structure FloatHost.Lawful' (H : FloatHost) : Prop extends FloatHost.Lawful H where
  parse_int : ∀ t i, pyInt t = some i → (H.parse t).isSome = true

/-- a field character: no TAB, LF, CR -/
def FieldClean (t : Text) : Prop := ∀ c ∈ t, c ≠ '\t' ∧ c ≠ '\n' ∧ c ≠ '\r'

instance (t : Text) : Decidable (FieldClean t) :=
  inferInstanceAs (Decidable (∀ c ∈ t, c ≠ '\t' ∧ c ≠ '\n' ∧ c ≠ '\r'))

/-- the enum classes whose column capitalises its input -/
def capClasses : List String := ["NullableYesOrNoEnum", "NullableYOrNEnum", "PickEnum"]

def valuesDistinct : List (String × String) → Bool
  | [] => true
  | p :: r => r.all (fun q => q.2.toList != p.2.toList) && valuesDistinct r

def cleanValue (s : Text) : Bool :=
  s.all (fun c => c != '\t' && c != '\n' && c != '\r' && c != ';')

/-- the extra conditions on a capitalising vocabulary: every value is fixed by
    `capitalize`, no value is the null spelling `"Null"`, and only a member named
    `Null` may have the empty value -/
def capOK (ms : List (String × String)) : Bool :=
  ms.all (fun q => pyCapitalize q.2.toList == q.2.toList && q.2.toList != "Null".toList &&
    (q.2.toList != [] || q.1 == "Null"))

/-- the enum classes whose values must be non-empty: those of the three columns
    whose null spelling is `""` ↦ `None`, and the element class of `SequenceOfSequencers` -/
def nonEmptyClasses : List String :=
  ["VerificationStatusEnum", "ValidationStatusEnum", "FeatureTypeEnum", "SequencerEnum"]

/-- the conditions on one enum class: values pairwise distinct; no value contains
    TAB, LF, CR or `;`; the extra conditions of a capitalising class; non-empty
    values where the empty text would be read as a null / an empty sequence -/
def classOK (p : String × List (String × String)) : Bool :=
  valuesDistinct p.2 && p.2.all (fun q => cleanValue q.2.toList) &&
  (!capClasses.contains p.1 || capOK p.2) &&
  (!nonEmptyClasses.contains p.1 || p.2.all (fun q => q.2.toList != []))

def enumsOK (E : Enums) : Bool := E.all classOK

def EnumsOK (E : Enums) : Prop := enumsOK E = true

instance (E : Enums) : Decidable (EnumsOK E) := inferInstanceAs (Decidable (_ = true))

theorem enumsOK_generated : EnumsOK Generated.enums := by decide +kernel


/-! ### enum vocabularies -/

theorem valuesDistinct_inj (ms : List (String × String)) (h : valuesDistinct ms = true) :
    ∀ a ∈ ms, ∀ b ∈ ms, a.2.toList = b.2.toList → a = b := by
  induction ms with
  | nil => simp
  | cons p r ih =>
    simp only [valuesDistinct, Bool.and_eq_true, List.all_eq_true, bne_iff_ne, ne_eq] at h
    intro a ha b hb hab
    simp only [List.mem_cons] at ha hb
    rcases ha with rfl | ha <;> rcases hb with rfl | hb
    · rfl
    · exact absurd hab.symm (h.1 b hb)
    · exact absurd hab (h.1 a ha)
    · exact ih h.2 a ha b hb hab

theorem members_ok (E : Enums) (hE : EnumsOK E) (cls : String) : classOK (cls, E.members cls) = true := by
  unfold Enums.members
  cases hf : List.find? (fun p => p.1 == cls) E with
  | none => simp [classOK, valuesDistinct, capOK]
  | some p =>
    have hm := List.mem_of_find?_eq_some hf
    have hp := List.find?_some hf
    simp only [beq_iff_eq] at hp
    have := (List.all_eq_true.mp hE) p hm
    rw [← hp]
    exact this

theorem enumLookup_name (E : Enums) (cls : String) (t : Text) (m : String)
    (h : enumLookup E cls t = some m) : ∃ p ∈ E.members cls, p.1 = m := by
  simp only [enumLookup] at h
  split at h
  · rename_i p hp
    simp only [Option.some.injEq] at h
    exact ⟨p, List.mem_of_find?_eq_some hp, h⟩
  · split at h
    · rename_i p hp
      simp only [Option.some.injEq] at h
      exact ⟨p, List.mem_of_find?_eq_some hp, h⟩
    · simp at h

/-- the value of a looked-up member is found again, as the same member -/
theorem enum_roundtrip (E : Enums) (hE : EnumsOK E) (cls : String) (t : Text) (m : String)
    (h : enumLookup E cls t = some m) :
    ∃ val, enumValue E cls m = some val ∧ enumLookup E cls val = some m ∧ cleanValue val = true
      ∧ (nonEmptyClasses.contains cls = true → val ≠ [])
      ∧ (capClasses.contains cls = true →
          pyCapitalize val = val ∧ val ≠ "Null".toList ∧ (val = [] → m = "Null")) := by
  obtain ⟨p, hp, hpm⟩ := enumLookup_name E cls t m h
  have hok := members_ok E hE cls
  simp only [classOK, Bool.and_eq_true, List.all_eq_true] at hok
  obtain ⟨⟨⟨hd, hc⟩, hcap⟩, hne⟩ := hok
  have hs : (List.find? (fun q => q.1 == m) (E.members cls)).isSome = true := by
    rw [List.find?_isSome]; exact ⟨p, hp, by simp [hpm]⟩
  obtain ⟨p', hp'⟩ := Option.isSome_iff_exists.mp hs
  have hp'm := List.mem_of_find?_eq_some hp'
  have hp'n : p'.1 = m := by simpa using List.find?_some hp'
  refine ⟨p'.2.toList, by simp [enumValue, hp'], ?_, hc p' hp'm, ?_, ?_⟩
  · have hs2 : (List.find? (fun q => q.2.toList == p'.2.toList) (E.members cls)).isSome = true := by
      rw [List.find?_isSome]; exact ⟨p', hp'm, by simp⟩
    obtain ⟨q, hq⟩ := Option.isSome_iff_exists.mp hs2
    have hqm := List.mem_of_find?_eq_some hq
    have hqv : q.2.toList = p'.2.toList := by simpa using List.find?_some hq
    have := valuesDistinct_inj _ hd q hqm p' hp'm hqv
    simp only [enumLookup, hq, this, hp'n]
  · intro hcc
    simp only [hcc, Bool.not_true, Bool.false_or, List.all_eq_true, bne_iff_ne, ne_eq] at hne
    exact hne p' hp'm
  · intro hcc
    simp only [hcc, Bool.not_true, Bool.false_or, capOK, List.all_eq_true, Bool.and_eq_true,
      Bool.or_eq_true, beq_iff_eq, bne_iff_ne, ne_eq] at hcap
    obtain ⟨⟨h1, h2⟩, h3⟩ := hcap p' hp'm
    refine ⟨h1, h2, fun h0 => ?_⟩
    rcases h3 with h3 | h3
    · exact absurd h0 h3
    · rw [← hp'n]; exact h3

/-! ### the fixpoint statement at one value -/

/-- rendering `v` under the resolved class `sp` (of column type `ty`) gives a
    field text that is accepted again with the *same* value; a null value renders
    as the preferred null spelling -/
def FixAt (C : Ctx) (sp : ColSpec) (ty : ColType) (v : PyVal) : Prop :=
  ∃ t', sp.render C.enums v = .ok t' ∧ FieldClean t' ∧ sp.accept C false t' = some v
    ∧ (sp.isNullValue v = true → some t' = preferredNull ty)

theorem fieldClean_nil : FieldClean [] := by intro c hc; simp at hc

theorem fieldClean_of_cleanValue (s : Text) (h : cleanValue s = true) :
    FieldClean s ∧ ';' ∉ s := by
  simp only [cleanValue, List.all_eq_true, Bool.and_eq_true, bne_iff_ne, ne_eq] at h
  refine ⟨fun c hc => ⟨(h c hc).1.1.1, (h c hc).1.1.2, (h c hc).1.2⟩, fun hc => (h _ hc).2 rfl⟩

theorem fieldClean_intStr (i : Int) : FieldClean (intStr i) ∧ ';' ∉ intStr i := by
  have h := intStr_chars i
  have key : ∀ c : Char, (c.isDigit = true ∨ c = '-') → c ≠ '\t' ∧ c ≠ '\n' ∧ c ≠ '\r' ∧ c ≠ ';' := by
    intro c hc
    rcases hc with hc | rfl
    · refine ⟨?_, ?_, ?_, ?_⟩ <;> (intro e; subst e; simp [Char.isDigit] at hc)
    · decide
  exact ⟨fun c hc => ⟨(key c (h c hc)).1, (key c (h c hc)).2.1, (key c (h c hc)).2.2.1⟩,
    fun hc => (key _ (h _ hc)).2.2.2 rfl⟩

theorem fieldClean_uuidStr (n : Nat) : FieldClean (uuidStr n) ∧ ';' ∉ uuidStr n := by
  have h := uuidStr_no_sep n
  refine ⟨fun c hc => ⟨?_, ?_, ?_⟩, h.2.2.2.1⟩
  · intro e; subst e; exact h.1 hc
  · intro e; subst e; exact h.2.2.1 hc
  · intro e; subst e; exact h.2.1 hc

/-! ### scalar column types -/

section Scalar
set_option linter.unusedSimpArgs false

attribute [local simp] namedBuild nullOr intAtLeast ColSpec.render NullVal.toPy runString pyStr atomStr
  ColSpec.isNullValue ColSpec.nullValues preferredNull namedNulls baseName lookupName capEnums
  plainEnums nullableEnums enumOf

theorem fix_NullableStringColumn (C : Ctx) (t : Text) (v : PyVal) (hclean : FieldClean t)
    (hacc : Expected.NullableStringColumn.accept C false t = some v) :
    FixAt C Expected.NullableStringColumn (.named "NullableStringColumn") v := by
  rw [Accept.accept_NullableStringColumn] at hacc
  by_cases ht : t = []
  · simp [namedBuild, nullOr, ht] at hacc
    subst hacc
    refine ⟨[], ?_, fieldClean_nil, ?_, ?_⟩
    · simp [ColSpec.render, Expected.NullableStringColumn, NullVal.toPy]
    · rw [Accept.accept_NullableStringColumn]; simp [namedBuild, nullOr]
    · intro _; simp [preferredNull, namedNulls, baseName]
  · simp [namedBuild, nullOr, ht] at hacc
    subst hacc
    refine ⟨t, ?_, hclean, ?_, ?_⟩
    · simp [ColSpec.render, Expected.NullableStringColumn, NullVal.toPy, runString, pyStr, atomStr]
    · rw [Accept.accept_NullableStringColumn]; simp [namedBuild, nullOr, ht]
    · simp [ColSpec.isNullValue, ColSpec.nullValues, Expected.NullableStringColumn, NullVal.toPy]

theorem fix_StringColumn (C : Ctx) (t : Text) (v : PyVal) (hclean : FieldClean t)
    (hacc : Expected.StringColumn.accept C false t = some v) :
    FixAt C Expected.StringColumn (.named "StringColumn") v := by
  rw [Accept.accept_StringColumn] at hacc
  by_cases ht : t = []
  · simp [ht] at hacc
  · simp [ht] at hacc
    subst hacc
    refine ⟨t, ?_, hclean, ?_, ?_⟩
    · simp [Expected.StringColumn]
    · rw [Accept.accept_StringColumn]; simp [ht]
    · simp [Expected.StringColumn]

theorem fix_NullableDnaString (C : Ctx) (t : Text) (v : PyVal) (hclean : FieldClean t)
    (hacc : Expected.NullableDnaString.accept C false t = some v) :
    FixAt C Expected.NullableDnaString (.named "NullableDnaString") v := by
  rw [Accept.accept_NullableDnaString] at hacc
  by_cases ht : t = []
  · simp [ht] at hacc
    subst hacc
    refine ⟨[], ?_, fieldClean_nil, ?_, ?_⟩
    · simp [Expected.NullableDnaString]
    · rw [Accept.accept_NullableDnaString]; simp
    · intro _; simp
  · simp [ht] at hacc
    obtain ⟨hd, rfl⟩ := hacc
    refine ⟨t, ?_, hclean, ?_, ?_⟩
    · simp [Expected.NullableDnaString]
    · rw [Accept.accept_NullableDnaString]; simp [ht, hd]
    · simp [Expected.NullableDnaString]

theorem fix_DnaString (C : Ctx) (t : Text) (v : PyVal) (hclean : FieldClean t)
    (hacc : Expected.DnaString.accept C false t = some v) :
    FixAt C Expected.DnaString (.named "DnaString") v := by
  rw [Accept.accept_DnaString] at hacc
  by_cases ht : t = []
  · simp [ht] at hacc
  · simp [ht] at hacc
    obtain ⟨hd, rfl⟩ := hacc
    refine ⟨t, ?_, hclean, ?_, ?_⟩
    · simp [Expected.DnaString]
    · rw [Accept.accept_DnaString]; simp [ht, hd]
    · simp [Expected.DnaString]

theorem fix_StringOrIntegerColumn (C : Ctx) (t : Text) (v : PyVal) (hclean : FieldClean t)
    (hacc : Expected.StringOrIntegerColumn.accept C false t = some v) :
    FixAt C Expected.StringOrIntegerColumn (.named "StringOrIntegerColumn") v := by
  rw [Accept.accept_StringOrIntegerColumn] at hacc
  cases hp : pyInt t with
  | none =>
    simp [hp] at hacc
    subst hacc
    refine ⟨t, ?_, hclean, ?_, ?_⟩
    · simp [Expected.StringOrIntegerColumn]
    · rw [Accept.accept_StringOrIntegerColumn]; simp [hp]
    · simp [Expected.StringOrIntegerColumn]
  | some i =>
    simp [hp] at hacc
    subst hacc
    refine ⟨intStr i, ?_, (fieldClean_intStr i).1, ?_, ?_⟩
    · simp [Expected.StringOrIntegerColumn]
    · rw [Accept.accept_StringOrIntegerColumn]; simp [pyInt_intStr]
    · simp [Expected.StringOrIntegerColumn]

theorem fix_StringIntegerOrFloatColumn (C : Ctx) (hH : FloatHost.Lawful' C.H) (t : Text) (v : PyVal) (hclean : FieldClean t)
    (hacc : Expected.StringIntegerOrFloatColumn.accept C false t = some v) :
    FixAt C Expected.StringIntegerOrFloatColumn (.named "StringIntegerOrFloatColumn") v := by
  rw [Accept.accept_StringIntegerOrFloatColumn] at hacc
  cases hf : C.H.parse t with
  | some f =>
    simp [hf] at hacc
    subst hacc
    have hc := (hH.repr_clean t f hf).2
    refine ⟨f, ?_, fun c hc' => ⟨(hc c hc').1, (hc c hc').2.1, (hc c hc').2.2.1⟩, ?_, ?_⟩
    · simp [Expected.StringIntegerOrFloatColumn]
    · rw [Accept.accept_StringIntegerOrFloatColumn]; simp [hH.parse_repr t f hf]
    · simp [Expected.StringIntegerOrFloatColumn]
  | none =>
    cases hp : pyInt t with
    | some i =>
      have := hH.parse_int t i hp
      simp [hf] at this
    | none =>
      simp [hp, hf] at hacc
      subst hacc
      refine ⟨t, ?_, hclean, ?_, ?_⟩
      · simp [Expected.StringIntegerOrFloatColumn]
      · rw [Accept.accept_StringIntegerOrFloatColumn]; simp [hp, hf]
      · simp [Expected.StringIntegerOrFloatColumn]

theorem fix_IntegerColumn (C : Ctx) (t : Text) (v : PyVal)
    (hacc : Expected.IntegerColumn.accept C false t = some v) :
    FixAt C Expected.IntegerColumn (.named "IntegerColumn") v := by
  rw [Accept.accept_IntegerColumn] at hacc
  cases hp : pyInt t with
  | none => simp [hp] at hacc
  | some i =>
    simp [hp] at hacc
    obtain rfl := hacc
    refine ⟨intStr i, ?_, (fieldClean_intStr i).1, ?_, ?_⟩
    · simp [Expected.IntegerColumn]
    · rw [Accept.accept_IntegerColumn]; simp [pyInt_intStr]
    · simp [Expected.IntegerColumn]

theorem fix_ZeroBasedIntegerColumn (C : Ctx) (t : Text) (v : PyVal)
    (hacc : Expected.ZeroBasedIntegerColumn.accept C false t = some v) :
    FixAt C Expected.ZeroBasedIntegerColumn (.named "ZeroBasedIntegerColumn") v := by
  rw [Accept.accept_ZeroBasedIntegerColumn] at hacc
  cases hp : pyInt t with
  | none => simp [hp] at hacc
  | some i =>
    simp [hp] at hacc
    obtain ⟨hb, rfl⟩ := hacc
    refine ⟨intStr i, ?_, (fieldClean_intStr i).1, ?_, ?_⟩
    · simp [Expected.ZeroBasedIntegerColumn]
    · rw [Accept.accept_ZeroBasedIntegerColumn]; simp [pyInt_intStr, hb]
    · simp [Expected.ZeroBasedIntegerColumn]

theorem fix_OneBasedIntegerColumn (C : Ctx) (t : Text) (v : PyVal)
    (hacc : Expected.OneBasedIntegerColumn.accept C false t = some v) :
    FixAt C Expected.OneBasedIntegerColumn (.named "OneBasedIntegerColumn") v := by
  rw [Accept.accept_OneBasedIntegerColumn] at hacc
  cases hp : pyInt t with
  | none => simp [hp] at hacc
  | some i =>
    simp [hp] at hacc
    obtain ⟨hb, rfl⟩ := hacc
    refine ⟨intStr i, ?_, (fieldClean_intStr i).1, ?_, ?_⟩
    · simp [Expected.OneBasedIntegerColumn]
    · rw [Accept.accept_OneBasedIntegerColumn]; simp [pyInt_intStr, hb]
    · simp [Expected.OneBasedIntegerColumn]

theorem fix_NullableIntegerColumn (C : Ctx) (t : Text) (v : PyVal)
    (hacc : Expected.NullableIntegerColumn.accept C false t = some v) :
    FixAt C Expected.NullableIntegerColumn (.named "NullableIntegerColumn") v := by
  rw [Accept.accept_NullableIntegerColumn] at hacc
  by_cases ht : t = []
  · simp [ht] at hacc
    subst hacc
    refine ⟨[], ?_, fieldClean_nil, ?_, ?_⟩
    · simp [Expected.NullableIntegerColumn]
    · rw [Accept.accept_NullableIntegerColumn]; simp
    · intro _; simp
  · cases hp : pyInt t with
    | none => simp [hp, ht] at hacc
    | some i =>
      simp [hp, ht] at hacc
      obtain rfl := hacc
      refine ⟨intStr i, ?_, (fieldClean_intStr i).1, ?_, ?_⟩
      · simp [Expected.NullableIntegerColumn]
      · rw [Accept.accept_NullableIntegerColumn]; simp [pyInt_intStr, intStr_ne_nil]
      · simp [Expected.NullableIntegerColumn]

theorem fix_NullableZeroBasedIntegerColumn (C : Ctx) (t : Text) (v : PyVal)
    (hacc : Expected.NullableZeroBasedIntegerColumn.accept C false t = some v) :
    FixAt C Expected.NullableZeroBasedIntegerColumn (.named "NullableZeroBasedIntegerColumn") v := by
  rw [Accept.accept_NullableZeroBasedIntegerColumn] at hacc
  by_cases ht : t = []
  · simp [ht] at hacc
    subst hacc
    refine ⟨[], ?_, fieldClean_nil, ?_, ?_⟩
    · simp [Expected.NullableZeroBasedIntegerColumn]
    · rw [Accept.accept_NullableZeroBasedIntegerColumn]; simp
    · intro _; simp
  · cases hp : pyInt t with
    | none => simp [hp, ht] at hacc
    | some i =>
      simp [hp, ht] at hacc
      obtain ⟨hb, rfl⟩ := hacc
      refine ⟨intStr i, ?_, (fieldClean_intStr i).1, ?_, ?_⟩
      · simp [Expected.NullableZeroBasedIntegerColumn]
      · rw [Accept.accept_NullableZeroBasedIntegerColumn]; simp [pyInt_intStr, intStr_ne_nil, hb]
      · simp [Expected.NullableZeroBasedIntegerColumn]

theorem fix_NullableOneBasedIntegerColumn (C : Ctx) (t : Text) (v : PyVal)
    (hacc : Expected.NullableOneBasedIntegerColumn.accept C false t = some v) :
    FixAt C Expected.NullableOneBasedIntegerColumn (.named "NullableOneBasedIntegerColumn") v := by
  rw [Accept.accept_NullableOneBasedIntegerColumn] at hacc
  by_cases ht : t = []
  · simp [ht] at hacc
    subst hacc
    refine ⟨[], ?_, fieldClean_nil, ?_, ?_⟩
    · simp [Expected.NullableOneBasedIntegerColumn]
    · rw [Accept.accept_NullableOneBasedIntegerColumn]; simp
    · intro _; simp
  · cases hp : pyInt t with
    | none => simp [hp, ht] at hacc
    | some i =>
      simp [hp, ht] at hacc
      obtain ⟨hb, rfl⟩ := hacc
      refine ⟨intStr i, ?_, (fieldClean_intStr i).1, ?_, ?_⟩
      · simp [Expected.NullableOneBasedIntegerColumn]
      · rw [Accept.accept_NullableOneBasedIntegerColumn]; simp [pyInt_intStr, intStr_ne_nil, hb]
      · simp [Expected.NullableOneBasedIntegerColumn]

theorem fix_EntrezGeneId (C : Ctx) (t : Text) (v : PyVal)
    (hacc : Expected.EntrezGeneId.accept C false t = some v) :
    FixAt C Expected.EntrezGeneId (.named "EntrezGeneId") v := by
  rw [Accept.accept_EntrezGeneId] at hacc
  cases hp : pyInt t with
  | none => simp [hp] at hacc
  | some i =>
    by_cases h0 : i = 0
    · simp [hp, h0] at hacc
      subst hacc
      have h00 : pyInt ['0'] = some 0 := by decide
      refine ⟨['0'], ?_, by decide, ?_, ?_⟩
      · simp [Expected.EntrezGeneId]
      · rw [Accept.accept_EntrezGeneId]; simp [h00]
      · intro _; simp
    · simp [hp, h0] at hacc
      obtain ⟨hb, rfl⟩ := hacc
      refine ⟨intStr i, ?_, (fieldClean_intStr i).1, ?_, ?_⟩
      · simp [Expected.EntrezGeneId]
      · rw [Accept.accept_EntrezGeneId]; simp [pyInt_intStr, h0, hb]
      · simp [Expected.EntrezGeneId]

theorem fix_TranscriptStrand (C : Ctx) (t : Text) (v : PyVal)
    (hacc : Expected.TranscriptStrand.accept C false t = some v) :
    FixAt C Expected.TranscriptStrand (.named "TranscriptStrand") v := by
  rw [Accept.accept_TranscriptStrand] at hacc
  by_cases ht : t = []
  · simp [ht] at hacc
    subst hacc
    refine ⟨[], ?_, fieldClean_nil, ?_, ?_⟩
    · simp [Expected.TranscriptStrand]
    · rw [Accept.accept_TranscriptStrand]; simp
    · intro _; simp
  · cases hp : pyInt t with
    | none => simp [hp, ht] at hacc
    | some i =>
      simp [hp, ht] at hacc
      obtain ⟨hb, rfl⟩ := hacc
      refine ⟨intStr i, ?_, (fieldClean_intStr i).1, ?_, ?_⟩
      · simp [Expected.TranscriptStrand]
      · rw [Accept.accept_TranscriptStrand]; simp [pyInt_intStr, intStr_ne_nil, hb]
      · simp [Expected.TranscriptStrand]

theorem fix_FloatColumn (C : Ctx) (hH : FloatHost.Lawful' C.H) (t : Text) (v : PyVal)
    (hacc : Expected.FloatColumn.accept C false t = some v) :
    FixAt C Expected.FloatColumn (.named "FloatColumn") v := by
  rw [Accept.accept_FloatColumn] at hacc
  cases hf : C.H.parse t with
  | none => simp [hf] at hacc
  | some f =>
    simp [hf] at hacc
    subst hacc
    have hc := hH.repr_clean t f hf
    refine ⟨f, ?_, fun c hc' => ⟨(hc.2 c hc').1, (hc.2 c hc').2.1, (hc.2 c hc').2.2.1⟩, ?_, ?_⟩
    · simp [Expected.FloatColumn]
    · rw [Accept.accept_FloatColumn]; simp [hH.parse_repr t f hf, hc.1]
    · simp [Expected.FloatColumn]

theorem fix_NullableFloatColumn (C : Ctx) (hH : FloatHost.Lawful' C.H) (t : Text) (v : PyVal)
    (hacc : Expected.NullableFloatColumn.accept C false t = some v) :
    FixAt C Expected.NullableFloatColumn (.named "NullableFloatColumn") v := by
  rw [Accept.accept_NullableFloatColumn] at hacc
  by_cases ht : t = []
  · simp [ht] at hacc
    subst hacc
    refine ⟨[], ?_, fieldClean_nil, ?_, ?_⟩
    · simp [Expected.NullableFloatColumn]
    · rw [Accept.accept_NullableFloatColumn]; simp
    · intro _; simp
  cases hf : C.H.parse t with
  | none => simp [hf, ht] at hacc
  | some f =>
    simp [hf, ht] at hacc
    subst hacc
    have hc := hH.repr_clean t f hf
    refine ⟨f, ?_, fun c hc' => ⟨(hc.2 c hc').1, (hc.2 c hc').2.1, (hc.2 c hc').2.2.1⟩, ?_, ?_⟩
    · simp [Expected.NullableFloatColumn]
    · rw [Accept.accept_NullableFloatColumn]; simp [hH.parse_repr t f hf, hc.1]
    · simp [Expected.NullableFloatColumn]

theorem fix_UUIDColumn (C : Ctx) (t : Text) (v : PyVal)
    (hacc : Expected.UUIDColumn.accept C false t = some v) :
    FixAt C Expected.UUIDColumn (.named "UUIDColumn") v := by
  rw [Accept.accept_UUIDColumn] at hacc
  cases hf : pyUuid t with
  | none => simp [hf] at hacc
  | some n =>
    simp [hf] at hacc
    subst hacc
    have hlt := pyUuid_lt t n hf
    refine ⟨uuidStr n, ?_, (fieldClean_uuidStr n).1, ?_, ?_⟩
    · simp [Expected.UUIDColumn]
    · rw [Accept.accept_UUIDColumn]; simp [pyUuid_uuidStr n hlt, uuidStr_ne_nil]
    · simp [Expected.UUIDColumn]

theorem fix_NullableUUIDColumn (C : Ctx) (t : Text) (v : PyVal)
    (hacc : Expected.NullableUUIDColumn.accept C false t = some v) :
    FixAt C Expected.NullableUUIDColumn (.named "NullableUUIDColumn") v := by
  rw [Accept.accept_NullableUUIDColumn] at hacc
  by_cases ht : t = []
  · simp [ht] at hacc
    subst hacc
    refine ⟨[], ?_, fieldClean_nil, ?_, ?_⟩
    · simp [Expected.NullableUUIDColumn]
    · rw [Accept.accept_NullableUUIDColumn]; simp
    · intro _; simp
  cases hf : pyUuid t with
  | none => simp [hf, ht] at hacc
  | some n =>
    simp [hf, ht] at hacc
    subst hacc
    have hlt := pyUuid_lt t n hf
    refine ⟨uuidStr n, ?_, (fieldClean_uuidStr n).1, ?_, ?_⟩
    · simp [Expected.NullableUUIDColumn]
    · rw [Accept.accept_NullableUUIDColumn]; simp [pyUuid_uuidStr n hlt, uuidStr_ne_nil]
    · simp [Expected.NullableUUIDColumn]

theorem fix_Canonical (C : Ctx) (t : Text) (v : PyVal)
    (hacc : Expected.Canonical.accept C false t = some v) :
    FixAt C Expected.Canonical (.named "Canonical") v := by
  rw [Accept.accept_Canonical] at hacc
  have hy : pyUpper ['Y', 'E', 'S'] = ['Y', 'E', 'S'] := by decide
  have hn : pyUpper [] = [] := by decide
  by_cases h1 : pyUpper t = []
  · simp [h1] at hacc
    subst hacc
    refine ⟨[], ?_, fieldClean_nil, ?_, ?_⟩
    · simp [Expected.Canonical, PyVal.truthy, Atom.truthy]
    · rw [Accept.accept_Canonical]; simp [hn]
    · simp [Expected.Canonical]
  · by_cases h2 : pyUpper t = ['Y', 'E', 'S']
    · simp [h1, h2] at hacc
      subst hacc
      refine ⟨['Y', 'E', 'S'], ?_, by decide, ?_, ?_⟩
      · simp [Expected.Canonical, PyVal.truthy, Atom.truthy]
      · rw [Accept.accept_Canonical]; simp [hy]
      · simp [Expected.Canonical]
    · simp [h1, h2] at hacc

theorem fix_BooleanColumn (C : Ctx) (t : Text) (v : PyVal)
    (hacc : Expected.BooleanColumn.accept C false t = some v) :
    FixAt C Expected.BooleanColumn (.named "BooleanColumn") v := by
  rw [Accept.accept_BooleanColumn] at hacc
  have hy : pyUpper ['T', 'r', 'u', 'e'] = ['T', 'R', 'U', 'E'] := by decide
  have hn : pyUpper ['F', 'a', 'l', 's', 'e'] = ['F', 'A', 'L', 'S', 'E'] := by decide
  by_cases h1 : pyUpper t = ['T', 'R', 'U', 'E']
  · simp [h1] at hacc
    subst hacc
    refine ⟨['T', 'r', 'u', 'e'], ?_, by decide, ?_, ?_⟩
    · simp [Expected.BooleanColumn]
    · rw [Accept.accept_BooleanColumn]; simp [hy]
    · simp [Expected.BooleanColumn]
  · by_cases h2 : pyUpper t = ['F', 'A', 'L', 'S', 'E']
    · simp [h1, h2] at hacc
      subst hacc
      refine ⟨['F', 'a', 'l', 's', 'e'], ?_, by decide, ?_, ?_⟩
      · simp [Expected.BooleanColumn]
      · rw [Accept.accept_BooleanColumn]; simp [hy, hn]
      · simp [Expected.BooleanColumn]
    · simp [h1, h2] at hacc

theorem fix_YesNoOrUnknown (C : Ctx) (hE : EnumsOK C.enums) (t : Text) (v : PyVal)
    (hacc : Expected.YesNoOrUnknown.accept C false t = some v) :
    FixAt C Expected.YesNoOrUnknown (.named "YesNoOrUnknown") v := by
  rw [Accept.accept_YesNoOrUnknown] at hacc
  cases hl : enumLookup C.enums "YesNoOrUnknownEnum" t with
  | none => simp [hl] at hacc
  | some m =>
    simp [hl] at hacc
    subst hacc
    obtain ⟨val, hv, hl2, hc, _, _⟩ := enum_roundtrip C.enums hE "YesNoOrUnknownEnum" t m hl
    refine ⟨val, ?_, (fieldClean_of_cleanValue val hc).1, ?_, ?_⟩
    · simp [Expected.YesNoOrUnknown, hv]
    · rw [Accept.accept_YesNoOrUnknown]; simp [hl2]
    · simp [Expected.YesNoOrUnknown]

theorem fix_Strand (C : Ctx) (hE : EnumsOK C.enums) (t : Text) (v : PyVal)
    (hacc : Expected.Strand.accept C false t = some v) :
    FixAt C Expected.Strand (.named "Strand") v := by
  rw [Accept.accept_Strand] at hacc
  cases hl : enumLookup C.enums "StrandEnum" t with
  | none => simp [hl] at hacc
  | some m =>
    simp [hl] at hacc
    subst hacc
    obtain ⟨val, hv, hl2, hc, _, _⟩ := enum_roundtrip C.enums hE "StrandEnum" t m hl
    refine ⟨val, ?_, (fieldClean_of_cleanValue val hc).1, ?_, ?_⟩
    · simp [Expected.Strand, hv]
    · rw [Accept.accept_Strand]; simp [hl2]
    · simp [Expected.Strand]

theorem fix_VariantClassification (C : Ctx) (hE : EnumsOK C.enums) (t : Text) (v : PyVal)
    (hacc : Expected.VariantClassification.accept C false t = some v) :
    FixAt C Expected.VariantClassification (.named "VariantClassification") v := by
  rw [Accept.accept_VariantClassification] at hacc
  cases hl : enumLookup C.enums "VariantClassificationEnum" t with
  | none => simp [hl] at hacc
  | some m =>
    simp [hl] at hacc
    subst hacc
    obtain ⟨val, hv, hl2, hc, _, _⟩ := enum_roundtrip C.enums hE "VariantClassificationEnum" t m hl
    refine ⟨val, ?_, (fieldClean_of_cleanValue val hc).1, ?_, ?_⟩
    · simp [Expected.VariantClassification, hv]
    · rw [Accept.accept_VariantClassification]; simp [hl2]
    · simp [Expected.VariantClassification]

theorem fix_VariantType (C : Ctx) (hE : EnumsOK C.enums) (t : Text) (v : PyVal)
    (hacc : Expected.VariantType.accept C false t = some v) :
    FixAt C Expected.VariantType (.named "VariantType") v := by
  rw [Accept.accept_VariantType] at hacc
  cases hl : enumLookup C.enums "VariantTypeEnum" t with
  | none => simp [hl] at hacc
  | some m =>
    simp [hl] at hacc
    subst hacc
    obtain ⟨val, hv, hl2, hc, _, _⟩ := enum_roundtrip C.enums hE "VariantTypeEnum" t m hl
    refine ⟨val, ?_, (fieldClean_of_cleanValue val hc).1, ?_, ?_⟩
    · simp [Expected.VariantType, hv]
    · rw [Accept.accept_VariantType]; simp [hl2]
    · simp [Expected.VariantType]

theorem fix_VariantSupport (C : Ctx) (hE : EnumsOK C.enums) (t : Text) (v : PyVal)
    (hacc : Expected.VariantSupport.accept C false t = some v) :
    FixAt C Expected.VariantSupport (.named "VariantSupport") v := by
  rw [Accept.accept_VariantSupport] at hacc
  cases hl : enumLookup C.enums "VariantSupportEnum" t with
  | none => simp [hl] at hacc
  | some m =>
    simp [hl] at hacc
    subst hacc
    obtain ⟨val, hv, hl2, hc, _, _⟩ := enum_roundtrip C.enums hE "VariantSupportEnum" t m hl
    refine ⟨val, ?_, (fieldClean_of_cleanValue val hc).1, ?_, ?_⟩
    · simp [Expected.VariantSupport, hv]
    · rw [Accept.accept_VariantSupport]; simp [hl2]
    · simp [Expected.VariantSupport]

theorem fix_MutationStatus (C : Ctx) (hE : EnumsOK C.enums) (t : Text) (v : PyVal)
    (hacc : Expected.MutationStatus.accept C false t = some v) :
    FixAt C Expected.MutationStatus (.named "MutationStatus") v := by
  rw [Accept.accept_MutationStatus] at hacc
  cases hl : enumLookup C.enums "MutationStatusEnum" t with
  | none => simp [hl] at hacc
  | some m =>
    simp [hl] at hacc
    subst hacc
    obtain ⟨val, hv, hl2, hc, _, _⟩ := enum_roundtrip C.enums hE "MutationStatusEnum" t m hl
    refine ⟨val, ?_, (fieldClean_of_cleanValue val hc).1, ?_, ?_⟩
    · simp [Expected.MutationStatus, hv]
    · rw [Accept.accept_MutationStatus]; simp [hl2]
    · simp [Expected.MutationStatus]

theorem fix_Sequencer (C : Ctx) (hE : EnumsOK C.enums) (t : Text) (v : PyVal)
    (hacc : Expected.Sequencer.accept C false t = some v) :
    FixAt C Expected.Sequencer (.named "Sequencer") v := by
  rw [Accept.accept_Sequencer] at hacc
  cases hl : enumLookup C.enums "SequencerEnum" t with
  | none => simp [hl] at hacc
  | some m =>
    simp [hl] at hacc
    subst hacc
    obtain ⟨val, hv, hl2, hc, _, _⟩ := enum_roundtrip C.enums hE "SequencerEnum" t m hl
    refine ⟨val, ?_, (fieldClean_of_cleanValue val hc).1, ?_, ?_⟩
    · simp [Expected.Sequencer, hv]
    · rw [Accept.accept_Sequencer]; simp [hl2]
    · simp [Expected.Sequencer]

theorem fix_Impact (C : Ctx) (hE : EnumsOK C.enums) (t : Text) (v : PyVal)
    (hacc : Expected.Impact.accept C false t = some v) :
    FixAt C Expected.Impact (.named "Impact") v := by
  rw [Accept.accept_Impact] at hacc
  cases hl : enumLookup C.enums "ImpactEnum" t with
  | none => simp [hl] at hacc
  | some m =>
    simp [hl] at hacc
    subst hacc
    obtain ⟨val, hv, hl2, hc, _, _⟩ := enum_roundtrip C.enums hE "ImpactEnum" t m hl
    refine ⟨val, ?_, (fieldClean_of_cleanValue val hc).1, ?_, ?_⟩
    · simp [Expected.Impact, hv]
    · rw [Accept.accept_Impact]; simp [hl2]
    · simp [Expected.Impact]

theorem fix_MC3Overlap (C : Ctx) (hE : EnumsOK C.enums) (t : Text) (v : PyVal)
    (hacc : Expected.MC3Overlap.accept C false t = some v) :
    FixAt C Expected.MC3Overlap (.named "MC3Overlap") v := by
  rw [Accept.accept_MC3Overlap] at hacc
  cases hl : enumLookup C.enums "MC3OverlapEnum" t with
  | none => simp [hl] at hacc
  | some m =>
    simp [hl] at hacc
    subst hacc
    obtain ⟨val, hv, hl2, hc, _, _⟩ := enum_roundtrip C.enums hE "MC3OverlapEnum" t m hl
    refine ⟨val, ?_, (fieldClean_of_cleanValue val hc).1, ?_, ?_⟩
    · simp [Expected.MC3Overlap, hv]
    · rw [Accept.accept_MC3Overlap]; simp [hl2]
    · simp [Expected.MC3Overlap]

theorem fix_GdcValidationStatus (C : Ctx) (hE : EnumsOK C.enums) (t : Text) (v : PyVal)
    (hacc : Expected.GdcValidationStatus.accept C false t = some v) :
    FixAt C Expected.GdcValidationStatus (.named "GdcValidationStatus") v := by
  rw [Accept.accept_GdcValidationStatus] at hacc
  cases hl : enumLookup C.enums "GdcValidationStatusEnum" t with
  | none => simp [hl] at hacc
  | some m =>
    simp [hl] at hacc
    subst hacc
    obtain ⟨val, hv, hl2, hc, _, _⟩ := enum_roundtrip C.enums hE "GdcValidationStatusEnum" t m hl
    refine ⟨val, ?_, (fieldClean_of_cleanValue val hc).1, ?_, ?_⟩
    · simp [Expected.GdcValidationStatus, hv]
    · rw [Accept.accept_GdcValidationStatus]; simp [hl2]
    · simp [Expected.GdcValidationStatus]

theorem fix_VerificationStatus (C : Ctx) (hE : EnumsOK C.enums) (t : Text) (v : PyVal)
    (hacc : Expected.VerificationStatus.accept C false t = some v) :
    FixAt C Expected.VerificationStatus (.named "VerificationStatus") v := by
  rw [Accept.accept_VerificationStatus] at hacc
  by_cases ht : t = []
  · simp [ht] at hacc
    subst hacc
    refine ⟨[], ?_, fieldClean_nil, ?_, ?_⟩
    · simp [Expected.VerificationStatus]
    · rw [Accept.accept_VerificationStatus]; simp
    · intro _; simp
  · cases hl : enumLookup C.enums "VerificationStatusEnum" t with
    | none => simp [hl, ht] at hacc
    | some m =>
      simp [hl, ht] at hacc
      subst hacc
      obtain ⟨val, hv, hl2, hc, hne, _⟩ := enum_roundtrip C.enums hE "VerificationStatusEnum" t m hl
      have hv0 : val ≠ [] := hne (by decide)
      refine ⟨val, ?_, (fieldClean_of_cleanValue val hc).1, ?_, ?_⟩
      · simp [Expected.VerificationStatus, hv]
      · rw [Accept.accept_VerificationStatus]; simp [hl2, hv0]
      · simp [Expected.VerificationStatus]

theorem fix_ValidationStatus (C : Ctx) (hE : EnumsOK C.enums) (t : Text) (v : PyVal)
    (hacc : Expected.ValidationStatus.accept C false t = some v) :
    FixAt C Expected.ValidationStatus (.named "ValidationStatus") v := by
  rw [Accept.accept_ValidationStatus] at hacc
  by_cases ht : t = []
  · simp [ht] at hacc
    subst hacc
    refine ⟨[], ?_, fieldClean_nil, ?_, ?_⟩
    · simp [Expected.ValidationStatus]
    · rw [Accept.accept_ValidationStatus]; simp
    · intro _; simp
  · cases hl : enumLookup C.enums "ValidationStatusEnum" t with
    | none => simp [hl, ht] at hacc
    | some m =>
      simp [hl, ht] at hacc
      subst hacc
      obtain ⟨val, hv, hl2, hc, hne, _⟩ := enum_roundtrip C.enums hE "ValidationStatusEnum" t m hl
      have hv0 : val ≠ [] := hne (by decide)
      refine ⟨val, ?_, (fieldClean_of_cleanValue val hc).1, ?_, ?_⟩
      · simp [Expected.ValidationStatus, hv]
      · rw [Accept.accept_ValidationStatus]; simp [hl2, hv0]
      · simp [Expected.ValidationStatus]

theorem fix_FeatureType (C : Ctx) (hE : EnumsOK C.enums) (t : Text) (v : PyVal)
    (hacc : Expected.FeatureType.accept C false t = some v) :
    FixAt C Expected.FeatureType (.named "FeatureType") v := by
  rw [Accept.accept_FeatureType] at hacc
  by_cases ht : t = []
  · simp [ht] at hacc
    subst hacc
    refine ⟨[], ?_, fieldClean_nil, ?_, ?_⟩
    · simp [Expected.FeatureType]
    · rw [Accept.accept_FeatureType]; simp
    · intro _; simp
  · cases hl : enumLookup C.enums "FeatureTypeEnum" t with
    | none => simp [hl, ht] at hacc
    | some m =>
      simp [hl, ht] at hacc
      subst hacc
      obtain ⟨val, hv, hl2, hc, hne, _⟩ := enum_roundtrip C.enums hE "FeatureTypeEnum" t m hl
      have hv0 : val ≠ [] := hne (by decide)
      refine ⟨val, ?_, (fieldClean_of_cleanValue val hc).1, ?_, ?_⟩
      · simp [Expected.FeatureType, hv]
      · rw [Accept.accept_FeatureType]; simp [hl2, hv0]
      · simp [Expected.FeatureType]

theorem fix_NullableYesOrNo (C : Ctx) (hE : EnumsOK C.enums) (t : Text) (v : PyVal)
    (hacc : Expected.NullableYesOrNo.accept C false t = some v) :
    FixAt C Expected.NullableYesOrNo (.named "NullableYesOrNo") v := by
  rw [Accept.accept_NullableYesOrNo] at hacc
  have hnullcase : FixAt C Expected.NullableYesOrNo (.named "NullableYesOrNo") (.atom (.enum "NullableYesOrNoEnum" "Null")) := by
    refine ⟨[], ?_, fieldClean_nil, ?_, ?_⟩
    · simp [Expected.NullableYesOrNo]
    · rw [Accept.accept_NullableYesOrNo]; simp
    · intro _; simp
  by_cases hnull : t = [] ∨ t = ['N', 'u', 'l', 'l']
  · simp [hnull] at hacc
    subst hacc
    exact hnullcase
  · cases hl : enumLookup C.enums "NullableYesOrNoEnum" (pyCapitalize t) with
    | none => simp [hl, hnull] at hacc
    | some m =>
      simp [hl, hnull] at hacc
      subst hacc
      by_cases hm : m = "Null"
      · subst hm; exact hnullcase
      · obtain ⟨val, hv, hl2, hc, _, hcap⟩ := enum_roundtrip C.enums hE "NullableYesOrNoEnum" _ m hl
        obtain ⟨hcap1, hcap2, hcap3⟩ := hcap (by decide)
        have hv0 : val ≠ [] := fun h => hm (hcap3 h)
        have hcap2' : val ≠ ['N', 'u', 'l', 'l'] := hcap2
        refine ⟨val, ?_, (fieldClean_of_cleanValue val hc).1, ?_, ?_⟩
        · simp [Expected.NullableYesOrNo, hv, hm]
        · rw [Accept.accept_NullableYesOrNo]; simp [hl2, hv0, hcap1, hcap2']
        · simp [Expected.NullableYesOrNo, hm]

theorem fix_NullableYOrN (C : Ctx) (hE : EnumsOK C.enums) (t : Text) (v : PyVal)
    (hacc : Expected.NullableYOrN.accept C false t = some v) :
    FixAt C Expected.NullableYOrN (.named "NullableYOrN") v := by
  rw [Accept.accept_NullableYOrN] at hacc
  have hnullcase : FixAt C Expected.NullableYOrN (.named "NullableYOrN") (.atom (.enum "NullableYOrNEnum" "Null")) := by
    refine ⟨[], ?_, fieldClean_nil, ?_, ?_⟩
    · simp [Expected.NullableYOrN]
    · rw [Accept.accept_NullableYOrN]; simp
    · intro _; simp
  by_cases hnull : t = [] ∨ t = ['N', 'u', 'l', 'l']
  · simp [hnull] at hacc
    subst hacc
    exact hnullcase
  · cases hl : enumLookup C.enums "NullableYOrNEnum" (pyCapitalize t) with
    | none => simp [hl, hnull] at hacc
    | some m =>
      simp [hl, hnull] at hacc
      subst hacc
      by_cases hm : m = "Null"
      · subst hm; exact hnullcase
      · obtain ⟨val, hv, hl2, hc, _, hcap⟩ := enum_roundtrip C.enums hE "NullableYOrNEnum" _ m hl
        obtain ⟨hcap1, hcap2, hcap3⟩ := hcap (by decide)
        have hv0 : val ≠ [] := fun h => hm (hcap3 h)
        have hcap2' : val ≠ ['N', 'u', 'l', 'l'] := hcap2
        refine ⟨val, ?_, (fieldClean_of_cleanValue val hc).1, ?_, ?_⟩
        · simp [Expected.NullableYOrN, hv, hm]
        · rw [Accept.accept_NullableYOrN]; simp [hl2, hv0, hcap1, hcap2']
        · simp [Expected.NullableYOrN, hm]

theorem fix_PickColumn (C : Ctx) (hE : EnumsOK C.enums) (t : Text) (v : PyVal)
    (hacc : Expected.PickColumn.accept C false t = some v) :
    FixAt C Expected.PickColumn (.named "PickColumn") v := by
  rw [Accept.accept_PickColumn] at hacc
  have hnullcase : FixAt C Expected.PickColumn (.named "PickColumn") (.atom (.enum "PickEnum" "Null")) := by
    refine ⟨[], ?_, fieldClean_nil, ?_, ?_⟩
    · simp [Expected.PickColumn]
    · rw [Accept.accept_PickColumn]; simp
    · intro _; simp
  by_cases hnull : t = [] ∨ t = ['N', 'u', 'l', 'l']
  · simp [hnull] at hacc
    subst hacc
    exact hnullcase
  · cases hl : enumLookup C.enums "PickEnum" (pyCapitalize t) with
    | none => simp [hl, hnull] at hacc
    | some m =>
      simp [hl, hnull] at hacc
      subst hacc
      by_cases hm : m = "Null"
      · subst hm; exact hnullcase
      · obtain ⟨val, hv, hl2, hc, _, hcap⟩ := enum_roundtrip C.enums hE "PickEnum" _ m hl
        obtain ⟨hcap1, hcap2, hcap3⟩ := hcap (by decide)
        have hv0 : val ≠ [] := fun h => hm (hcap3 h)
        have hcap2' : val ≠ ['N', 'u', 'l', 'l'] := hcap2
        refine ⟨val, ?_, (fieldClean_of_cleanValue val hc).1, ?_, ?_⟩
        · simp [Expected.PickColumn, hv, hm]
        · rw [Accept.accept_PickColumn]; simp [hl2, hv0, hcap1, hcap2']
        · simp [Expected.PickColumn, hm]

end Scalar

/-! ### sequence column types -/

theorem mapM_option_cons {α β} (f : α → Option β) (p : α) (ps : List α) (ys : List β) :
    (p :: ps).mapM f = some ys ↔ ∃ a xs, f p = some a ∧ ps.mapM f = some xs ∧ ys = a :: xs := by
  rw [List.mapM_cons]
  cases hf : f p with
  | none => simp
  | some a =>
    cases hm : ps.mapM f with
    | none => simp
    | some xs => simp [eq_comm]

theorem mapM_fix {f : Text → Option Atom} {g : Atom → Except PyErr Text} (P Q : Text → Prop)
    (hfg : ∀ p a, f p = some a → P p → ∃ r, g a = .ok r ∧ Q r ∧ f r = some a) :
    ∀ (ps : List Text) (xs : List Atom), ps.mapM f = some xs → (∀ p ∈ ps, P p) →
      ∃ rs, xs.mapM g = .ok rs ∧ (∀ r ∈ rs, Q r) ∧ rs.mapM f = some xs := by
  intro ps
  induction ps with
  | nil =>
    intro xs h _
    simp at h
    subst h
    exact ⟨[], by simp [pure, Except.pure], by simp, by simp⟩
  | cons p ps ih =>
    intro ys h hP
    obtain ⟨a, xs, hfa, hm, rfl⟩ := (mapM_option_cons f p ps ys).mp h
    obtain ⟨r, hg, hq, hfr⟩ := hfg p a hfa (hP p (by simp))
    obtain ⟨rs, h1, h2, h3⟩ := ih xs hm (fun q hq => hP q (by simp [hq]))
    refine ⟨r :: rs, ?_, ?_, ?_⟩
    · simp [List.mapM_cons, hg, h1, bind, Except.bind, pure, Except.pure]
    · intro q hq'
      simp only [List.mem_cons] at hq'
      rcases hq' with rfl | hq'
      · exact hq
      · exact h2 q hq'
    · exact (mapM_option_cons f r rs (a :: xs)).mpr ⟨a, xs, hfr, h3, rfl⟩

theorem mapM_except_length {α β ε} (g : α → Except ε β) :
    ∀ (xs : List α) (rs : List β), xs.mapM g = .ok rs → rs.length = xs.length := by
  intro xs
  induction xs with
  | nil => intro rs h; simp [pure, Except.pure] at h; subst h; rfl
  | cons a xs ih =>
    intro rs h
    rw [List.mapM_cons] at h
    cases hg : g a with
    | error e => simp [hg, bind, Except.bind] at h
    | ok r =>
      cases hm : xs.mapM g with
      | error e => simp [hg, hm, bind, Except.bind] at h
      | ok rs' =>
        simp [hg, hm, bind, Except.bind, pure, Except.pure] at h
        subst h
        simp [ih rs' hm]

theorem mapM_except_single {α β ε} (g : α → Except ε β) (a : α) (rs : List β)
    (h : [a].mapM g = .ok rs) : ∃ r, rs = [r] ∧ g a = .ok r := by
  rw [List.mapM_cons] at h
  cases hg : g a with
  | error e => simp [hg, bind, Except.bind] at h
  | ok r =>
    simp [hg, bind, Except.bind, pure, Except.pure] at h
    exact ⟨r, h.symm, rfl⟩

theorem mem_of_mem_splitOn (sep : Char) (s x : Text) (hx : x ∈ splitOn sep s) (c : Char) (hc : c ∈ x) :
    c ∈ s := by
  have := mem_joinWith_of_mem sep (splitOn sep s) x c hx hc
  rwa [joinWith_splitOn] at this

/-- a one-element list whose element renders as the empty text -/
def SingleEmpty (E : Enums) (v : PyVal) : Prop := ∃ a, v = .list [a] ∧ atomStr E a = .ok []

/-- the element-level fixpoint of a sequence column's element type -/
def ElemFix (S : SCtx) (elem : String) : Prop :=
  ∀ p a, elemBuild S elem p = some a → (FieldClean p ∧ ';' ∉ p) →
    ∃ r, atomStr S.enums a = .ok r ∧ (FieldClean r ∧ ';' ∉ r) ∧ elemBuild S elem r = some a

theorem joinWith_ne_nil (sep : Char) (r : Text) (rs : List Text) (h : rs ≠ []) :
    joinWith sep (r :: rs) ≠ [] := by
  rw [joinWith_cons_of_ne_nil _ _ _ h]; simp

/-- flat-level fixpoint of a sequence text -/
theorem seq_fix (S : SCtx) (elem : String) (hel : ElemFix S elem) (t : Text) (xs : List Atom)
    (hclean : FieldClean t) (ht : t ≠ [])
    (h : seqOf S elem t = some (.list xs)) (hse : ¬ SingleEmpty S.enums (.list xs)) :
    xs ≠ [] ∧ ∃ t', (xs.mapM (atomStr S.enums)).map (joinWith ';') = .ok t' ∧ FieldClean t' ∧ t' ≠ [] ∧
      seqOf S elem t' = some (.list xs) := by
  simp only [seqOf, ht, if_false, Option.map_eq_some_iff, PyVal.list.injEq] at h
  obtain ⟨xs', hm, rfl⟩ := h
  have hP : ∀ p ∈ splitOn ';' t, FieldClean p ∧ ';' ∉ p := fun p hp =>
    ⟨fun c hc => hclean c (mem_of_mem_splitOn ';' t p hp c hc), not_mem_of_mem_splitOn ';' t p hp⟩
  obtain ⟨rs, h1, h2, h3⟩ := mapM_fix _ _ hel _ _ hm hP
  have hlen := mapM_except_length _ _ _ h1
  have hxs : xs' ≠ [] := by
    intro e; subst e
    cases hs : splitOn ';' t with
    | nil => exact splitOn_ne_nil _ _ hs
    | cons p ps =>
      rw [hs] at hm
      obtain ⟨a, ys, _, _, hys⟩ := (mapM_option_cons _ _ _ _).mp hm
      simp at hys
  have hrs : rs ≠ [] := by
    intro e; subst e; simp at hlen; exact hxs (List.eq_nil_of_length_eq_zero hlen.symm)
  have hne : joinWith ';' rs ≠ [] := by
    cases rs with
    | nil => exact absurd rfl hrs
    | cons r rest =>
      cases rest with
      | cons r2 rest2 => exact joinWith_ne_nil _ _ _ (by simp)
      | nil =>
        intro e
        simp only [joinWith] at e
        subst e
        cases xs' with
        | nil => exact absurd rfl hxs
        | cons a ys =>
          cases ys with
          | cons _ _ => simp at hlen
          | nil =>
            obtain ⟨r, hr, hg⟩ := mapM_except_single _ _ _ h1
            simp at hr
            subst hr
            exact hse ⟨a, rfl, hg⟩
  refine ⟨hxs, joinWith ';' rs, by simp [h1, Except.map], ?_, hne, ?_⟩
  · intro c hc
    rcases mem_joinWith _ _ _ hc with rfl | ⟨r, hr, hcr⟩
    · decide
    · exact (h2 r hr).1 c hcr
  · simp only [seqOf, hne, if_false]
    rw [splitOn_joinWith ';' rs hrs (fun r hr => (h2 r hr).2), h3]
    rfl

theorem fix_seq (C : Ctx) (sp : ColSpec) (n elem : String)
    (hacc : ∀ t, sp.accept C false t = seqOf ⟨C.enums, C.H⟩ elem t)
    (hn : sp.nullDict = some [("", NullVal.emptyList)])
    (hs : sp.stringChain = ["SequenceOfValuesColumn", "MafColumnRecord"])
    (hpn : preferredNull (.named n) = some [])
    (hel : ElemFix ⟨C.enums, C.H⟩ elem)
    (t : Text) (v : PyVal) (hclean : FieldClean t) (h : sp.accept C false t = some v)
    (hse : ¬ SingleEmpty C.enums v) : FixAt C sp (.named n) v := by
  rw [hacc] at h
  by_cases ht : t = []
  · simp [seqOf, ht] at h
    subst h
    refine ⟨[], ?_, fieldClean_nil, ?_, ?_⟩
    · simp [ColSpec.render, hn, NullVal.toPy]
    · rw [hacc]; simp [seqOf]
    · intro _; exact hpn.symm
  · have hv : ∃ xs, v = .list xs := by
      simp only [seqOf, ht, if_false, Option.map_eq_some_iff] at h
      obtain ⟨xs, _, rfl⟩ := h
      exact ⟨xs, rfl⟩
    obtain ⟨xs, rfl⟩ := hv
    obtain ⟨hxs, t', hr, hc, hne, ha⟩ := seq_fix ⟨C.enums, C.H⟩ elem hel t xs hclean ht h hse
    refine ⟨t', ?_, hc, ?_, ?_⟩
    · simpa [ColSpec.render, hn, NullVal.toPy, hxs, hs, runString] using hr
    · rw [hacc]; exact ha
    · simp [ColSpec.isNullValue, ColSpec.nullValues, hn, NullVal.toPy, hxs]

theorem elemFix_StringColumn (S : SCtx) : ElemFix S "StringColumn" := by
  intro p a h hP
  by_cases hp : p = []
  · simp [elemBuild, hp] at h
  · simp [elemBuild, hp] at h
    subst h
    exact ⟨p, by simp [atomStr], hP, by simp [elemBuild, hp]⟩

theorem elemFix_IntegerColumn (S : SCtx) : ElemFix S "IntegerColumn" := by
  intro p a h _
  cases hp : pyInt p with
  | none => simp [elemBuild, hp] at h
  | some i =>
    simp [elemBuild, hp] at h
    subst h
    exact ⟨intStr i, by simp [atomStr], fieldClean_intStr i, by simp [elemBuild, pyInt_intStr]⟩

theorem elemFix_Sequencer (S : SCtx) (hE : EnumsOK S.enums) : ElemFix S "Sequencer" := by
  intro p a h _
  cases hl : enumLookup S.enums "SequencerEnum" p with
  | none => simp [elemBuild, enumOf, hl] at h
  | some m =>
    simp [elemBuild, enumOf, hl] at h
    subst h
    obtain ⟨val, hv, hl2, hc, _, _⟩ := enum_roundtrip S.enums hE "SequencerEnum" p m hl
    exact ⟨val, by simp [atomStr, hv], fieldClean_of_cleanValue val hc, by simp [elemBuild, enumOf, hl2]⟩

theorem elemFix_NullableYesOrNo (S : SCtx) (hE : EnumsOK S.enums) : ElemFix S "NullableYesOrNo" := by
  intro p a h _
  cases hl : enumLookup S.enums "NullableYesOrNoEnum" (pyCapitalize p) with
  | none => simp [elemBuild, enumOf, hl] at h
  | some m =>
    simp [elemBuild, enumOf, hl] at h
    subst h
    obtain ⟨val, hv, hl2, hc, _, hcap⟩ := enum_roundtrip S.enums hE "NullableYesOrNoEnum" _ m hl
    obtain ⟨hcap1, _, _⟩ := hcap (by decide)
    exact ⟨val, by simp [atomStr, hv], fieldClean_of_cleanValue val hc,
      by simp [elemBuild, enumOf, hl2, hcap1]⟩

/-- when every element renders non-empty, no accepted value is a one-element
    list of an empty-rendering element -/
theorem not_singleEmpty (S : SCtx) (elem : String)
    (hne : ∀ p a, elemBuild S elem p = some a → atomStr S.enums a ≠ .ok [])
    (t : Text) (v : PyVal) (h : seqOf S elem t = some v) : ¬ SingleEmpty S.enums v := by
  rintro ⟨a, rfl, ha⟩
  by_cases ht : t = []
  · simp [seqOf, ht] at h
  · simp only [seqOf, ht, if_false, Option.map_eq_some_iff, PyVal.list.injEq] at h
    obtain ⟨xs, hm, rfl⟩ := h
    cases hs : splitOn ';' t with
    | nil => exact splitOn_ne_nil _ _ hs
    | cons p ps =>
      rw [hs] at hm
      obtain ⟨a', ys, hp, _, hys⟩ := (mapM_option_cons _ _ _ _).mp hm
      simp at hys
      obtain ⟨rfl, _⟩ := hys
      exact hne p a hp ha

theorem elemNonEmpty_StringColumn (S : SCtx) :
    ∀ p a, elemBuild S "StringColumn" p = some a → atomStr S.enums a ≠ .ok [] := by
  intro p a h
  by_cases hp : p = []
  · simp [elemBuild, hp] at h
  · simp [elemBuild, hp] at h
    subst h
    simp [atomStr, hp]

theorem elemNonEmpty_IntegerColumn (S : SCtx) :
    ∀ p a, elemBuild S "IntegerColumn" p = some a → atomStr S.enums a ≠ .ok [] := by
  intro p a h
  cases hp : pyInt p with
  | none => simp [elemBuild, hp] at h
  | some i =>
    simp [elemBuild, hp] at h
    subst h
    simp [atomStr, intStr_ne_nil]

theorem elemNonEmpty_Sequencer (S : SCtx) (hE : EnumsOK S.enums) :
    ∀ p a, elemBuild S "Sequencer" p = some a → atomStr S.enums a ≠ .ok [] := by
  intro p a h
  cases hl : enumLookup S.enums "SequencerEnum" p with
  | none => simp [elemBuild, enumOf, hl] at h
  | some m =>
    simp [elemBuild, enumOf, hl] at h
    subst h
    obtain ⟨val, hv, _, _, hne, _⟩ := enum_roundtrip S.enums hE "SequencerEnum" p m hl
    simp [atomStr, hv, hne (by decide)]

theorem seqAcc {C : Ctx} {sp : ColSpec} {n elem : String}
    (h1 : ∀ t, sp.accept C false t = namedBuild ⟨C.enums, C.H⟩ n t)
    (h2 : ∀ t, namedBuild ⟨C.enums, C.H⟩ n t = seqOf ⟨C.enums, C.H⟩ elem t) :
    ∀ t, sp.accept C false t = seqOf ⟨C.enums, C.H⟩ elem t := fun t => (h1 t).trans (h2 t)

theorem fix_SequenceOfStrings (C : Ctx) (t : Text) (v : PyVal) (hclean : FieldClean t)
    (hacc : Expected.SequenceOfStrings.accept C false t = some v) :
    FixAt C Expected.SequenceOfStrings (.named "SequenceOfStrings") v := by
  have ha := seqAcc (elem := "StringColumn") (Accept.accept_SequenceOfStrings C) (fun t => by simp [namedBuild])
  exact fix_seq C _ "SequenceOfStrings" "StringColumn" ha rfl rfl (by decide) (elemFix_StringColumn _)
    t v hclean hacc (not_singleEmpty _ _ (elemNonEmpty_StringColumn _) t v (by rw [← ha]; exact hacc))

theorem fix_SequenceOfIntegers (C : Ctx) (t : Text) (v : PyVal) (hclean : FieldClean t)
    (hacc : Expected.SequenceOfIntegers.accept C false t = some v) :
    FixAt C Expected.SequenceOfIntegers (.named "SequenceOfIntegers") v := by
  have ha := seqAcc (elem := "IntegerColumn") (Accept.accept_SequenceOfIntegers C) (fun t => by simp [namedBuild])
  exact fix_seq C _ "SequenceOfIntegers" "IntegerColumn" ha rfl rfl (by decide) (elemFix_IntegerColumn _)
    t v hclean hacc (not_singleEmpty _ _ (elemNonEmpty_IntegerColumn _) t v (by rw [← ha]; exact hacc))

theorem fix_SequenceOfSequencers (C : Ctx) (hE : EnumsOK C.enums) (t : Text) (v : PyVal) (hclean : FieldClean t)
    (hacc : Expected.SequenceOfSequencers.accept C false t = some v) :
    FixAt C Expected.SequenceOfSequencers (.named "SequenceOfSequencers") v := by
  have ha := seqAcc (elem := "Sequencer") (Accept.accept_SequenceOfSequencers C) (fun t => by simp [namedBuild])
  exact fix_seq C _ "SequenceOfSequencers" "Sequencer" ha rfl rfl (by decide) (elemFix_Sequencer _ hE)
    t v hclean hacc (not_singleEmpty _ _ (elemNonEmpty_Sequencer _ hE) t v (by rw [← ha]; exact hacc))

theorem fix_SequenceOfNullableYesOrNo_partial (C : Ctx) (hE : EnumsOK C.enums) (t : Text) (v : PyVal)
    (hclean : FieldClean t)
    (hacc : Expected.SequenceOfNullableYesOrNo.accept C false t = some v)
    (hse : ¬ SingleEmpty C.enums v) :
    FixAt C Expected.SequenceOfNullableYesOrNo (.named "SequenceOfNullableYesOrNo") v := by
  have ha := seqAcc (elem := "NullableYesOrNo") (Accept.accept_SequenceOfNullableYesOrNo C) (fun t => by simp [namedBuild])
  exact fix_seq C _ "SequenceOfNullableYesOrNo" "NullableYesOrNo" ha rfl rfl (by decide)
    (elemFix_NullableYesOrNo _ hE) t v hclean hacc hse

/-! ### masked types and the combined statements -/

section Combined
set_option linter.unusedSimpArgs false

/-- a `RequireNullValue` redefinition: only `""` is accepted, `None` renders `""` -/
theorem fix_masked (C : Ctx) (b : String) (sp : ColSpec)
    (h : Builtin.expectedOf (.mixed "RequireNullValue" (.named b)) = some sp)
    (t : Text) (v : PyVal) (hacc : sp.accept C false t = some v) :
    t = [] ∧ v = .atom .none ∧ FixAt C sp (.mixed "RequireNullValue" (.named b)) v := by
  have hspec := fun t => Builtin.accept_mixed C b sp t h
  simp only [Builtin.expectedOf] at h
  split at h
  · rename_i hc
    have hmem := hc.2
    simp only [Builtin.maskable, List.mem_cons, List.mem_nil_iff, or_false] at hmem
    rcases hmem with rfl | rfl
    · have he : Expected.namedSpec "NullableDnaString" = some Expected.NullableDnaString := by decide
      rw [he] at h; simp at h; subst h
      have hsp : ∀ t, specBuild ⟨C.enums, C.H⟩ (.mixed "RequireNullValue" (.named "NullableDnaString")) t
          = if t = [] then some (.atom .none) else none := by
        intro t
        by_cases ht : t = [] <;> simp [specBuild, namedBuild, nullOr, namedNulls, baseName, ht, lookupName, capEnums]
        split <;> simp
      rw [hspec, hsp] at hacc
      by_cases ht : t = []
      · simp [ht] at hacc
        subst hacc
        refine ⟨ht, rfl, [], ?_, fieldClean_nil, ?_, ?_⟩
        · simp [ColSpec.render, Expected.NullableDnaString, NullVal.toPy]
        · rw [hspec, hsp]; simp
        · intro _; simp [preferredNull, namedNulls, baseName]
      · simp [ht] at hacc
    · have he : Expected.namedSpec "NullableZeroBasedIntegerColumn" = some Expected.NullableZeroBasedIntegerColumn := by decide
      rw [he] at h; simp at h; subst h
      have hsp : ∀ t, specBuild ⟨C.enums, C.H⟩ (.mixed "RequireNullValue" (.named "NullableZeroBasedIntegerColumn")) t
          = if t = [] then some (.atom .none) else none := by
        intro t
        by_cases ht : t = [] <;> simp [specBuild, namedBuild, nullOr, namedNulls, baseName, ht, lookupName, capEnums, intAtLeast]
        split <;> simp
      rw [hspec, hsp] at hacc
      by_cases ht : t = []
      · simp [ht] at hacc
        subst hacc
        refine ⟨ht, rfl, [], ?_, fieldClean_nil, ?_, ?_⟩
        · simp [ColSpec.render, Expected.NullableZeroBasedIntegerColumn, NullVal.toPy]
        · rw [hspec, hsp]; simp
        · intro _; simp [preferredNull, namedNulls, baseName]
      · simp [ht] at hacc
  · simp at h

/-- every named column type; the sequence of nullable yes/no needs the side condition -/
theorem fix_named (C : Ctx) (hH : FloatHost.Lawful' C.H) (hE : EnumsOK C.enums)
    (n : String) (sp : ColSpec) (h : Expected.namedSpec n = some sp)
    (t : Text) (v : PyVal) (hclean : FieldClean t) (hacc : sp.accept C false t = some v)
    (hse : n = "SequenceOfNullableYesOrNo" → ¬ SingleEmpty C.enums v) :
    FixAt C sp (.named n) v := by
  have hm := Builtin.named_mem n sp h
  simp only [Expected.named, List.mem_cons, Prod.mk.injEq, List.mem_nil_iff, or_false] at hm
  rcases hm with ⟨rfl, rfl⟩ | ⟨rfl, rfl⟩ | ⟨rfl, rfl⟩ | ⟨rfl, rfl⟩ | ⟨rfl, rfl⟩ | ⟨rfl, rfl⟩ | ⟨rfl, rfl⟩ | ⟨rfl, rfl⟩ | ⟨rfl, rfl⟩ | ⟨rfl, rfl⟩ | ⟨rfl, rfl⟩ | ⟨rfl, rfl⟩ | ⟨rfl, rfl⟩ | ⟨rfl, rfl⟩ | ⟨rfl, rfl⟩ | ⟨rfl, rfl⟩ | ⟨rfl, rfl⟩ | ⟨rfl, rfl⟩ | ⟨rfl, rfl⟩ | ⟨rfl, rfl⟩ | ⟨rfl, rfl⟩ | ⟨rfl, rfl⟩ | ⟨rfl, rfl⟩ | ⟨rfl, rfl⟩ | ⟨rfl, rfl⟩ | ⟨rfl, rfl⟩ | ⟨rfl, rfl⟩ | ⟨rfl, rfl⟩ | ⟨rfl, rfl⟩ | ⟨rfl, rfl⟩ | ⟨rfl, rfl⟩ | ⟨rfl, rfl⟩ | ⟨rfl, rfl⟩ | ⟨rfl, rfl⟩ | ⟨rfl, rfl⟩ | ⟨rfl, rfl⟩ | ⟨rfl, rfl⟩ | ⟨rfl, rfl⟩ | ⟨rfl, rfl⟩ | ⟨rfl, rfl⟩
  · exact fix_NullableStringColumn C t v hclean hacc
  · exact fix_StringColumn C t v hclean hacc
  · exact fix_StringOrIntegerColumn C t v hclean hacc
  · exact fix_StringIntegerOrFloatColumn C hH t v hclean hacc
  · exact fix_IntegerColumn C t v hacc
  · exact fix_NullableIntegerColumn C t v hacc
  · exact fix_ZeroBasedIntegerColumn C t v hacc
  · exact fix_OneBasedIntegerColumn C t v hacc
  · exact fix_NullableZeroBasedIntegerColumn C t v hacc
  · exact fix_NullableOneBasedIntegerColumn C t v hacc
  · exact fix_EntrezGeneId C t v hacc
  · exact fix_FloatColumn C hH t v hacc
  · exact fix_NullableFloatColumn C hH t v hacc
  · exact fix_SequenceOfStrings C t v hclean hacc
  · exact fix_SequenceOfIntegers C t v hclean hacc
  · exact fix_SequenceOfNullableYesOrNo_partial C hE t v hclean hacc (hse rfl)
  · exact fix_SequenceOfSequencers C hE t v hclean hacc
  · exact fix_NullableDnaString C t v hclean hacc
  · exact fix_DnaString C t v hclean hacc
  · exact fix_Canonical C t v hacc
  · exact fix_BooleanColumn C t v hacc
  · exact fix_UUIDColumn C t v hacc
  · exact fix_NullableUUIDColumn C t v hacc
  · exact fix_TranscriptStrand C t v hacc
  · exact fix_YesNoOrUnknown C hE t v hacc
  · exact fix_Strand C hE t v hacc
  · exact fix_VariantClassification C hE t v hacc
  · exact fix_VariantType C hE t v hacc
  · exact fix_VariantSupport C hE t v hacc
  · exact fix_MutationStatus C hE t v hacc
  · exact fix_Sequencer C hE t v hacc
  · exact fix_Impact C hE t v hacc
  · exact fix_MC3Overlap C hE t v hacc
  · exact fix_GdcValidationStatus C hE t v hacc
  · exact fix_VerificationStatus C hE t v hacc
  · exact fix_ValidationStatus C hE t v hacc
  · exact fix_FeatureType C hE t v hacc
  · exact fix_NullableYesOrNo C hE t v hacc
  · exact fix_NullableYOrN C hE t v hacc
  · exact fix_PickColumn C hE t v hacc

/-- every column type of the development -/
theorem fix_all (C : Ctx) (hH : FloatHost.Lawful' C.H) (hE : EnumsOK C.enums)
    (ty : ColType) (sp : ColSpec) (h : Builtin.expectedOf ty = some sp)
    (t : Text) (v : PyVal) (hclean : FieldClean t) (hacc : sp.accept C false t = some v)
    (hse : ty = .named "SequenceOfNullableYesOrNo" → ¬ SingleEmpty C.enums v) :
    FixAt C sp ty v := by
  cases ty with
  | named n =>
    simp only [Builtin.expectedOf] at h
    exact fix_named C hH hE n sp h t v hclean hacc (fun e => hse (by rw [e]))
  | mixed extra b =>
    cases b with
    | named n =>
      have hx : extra = "RequireNullValue" := by
        simp only [Builtin.expectedOf] at h
        split at h
        · rename_i hc; exact hc.1
        · simp at h
      subst hx
      exact (fix_masked C n sp h t v hacc).2.2
    | mixed e2 b2 => simp [Builtin.expectedOf] at h

/-- the side condition is implied by a non-empty rendering -/
theorem not_singleEmpty_of_render (E : Enums) (sp : ColSpec) (v : PyVal)
    (hn : sp.nullDict = some [("", NullVal.emptyList)])
    (hs : sp.stringChain = ["SequenceOfValuesColumn", "MafColumnRecord"])
    (hr : sp.render E v ≠ .ok []) : ¬ SingleEmpty E v := by
  rintro ⟨a, rfl, ha⟩
  apply hr
  simp [ColSpec.render, hn, hs, NullVal.toPy, runString, List.mapM_cons, ha, bind, Except.bind, pure,
    Except.pure, Except.map, joinWith]

end Combined

/-! ### a host satisfying all the float laws (non-vacuity of `FloatHost.Lawful'`) -/

/-- a toy `float()` that accepts exactly the integer literals and whose `repr`
    is the canonical integer text -/
def intHost : FloatHost := ⟨fun t => (pyInt t).map intStr⟩

theorem intHost_lawful : FloatHost.Lawful' intHost where
  parse_repr := by
    intro t r h
    simp only [intHost, Option.map_eq_some_iff] at h ⊢
    obtain ⟨i, _, rfl⟩ := h
    exact ⟨i, pyInt_intStr i, rfl⟩
  repr_clean := by
    intro t r h
    simp only [intHost, Option.map_eq_some_iff] at h
    obtain ⟨i, _, rfl⟩ := h
    have hc := fieldClean_intStr i
    exact ⟨intStr_ne_nil i, fun c hcm => ⟨(hc.1 c hcm).1, (hc.1 c hcm).2.1, (hc.1 c hcm).2.2,
      fun e => hc.2 (e ▸ hcm)⟩⟩
  parse_empty := by decide
  parse_int := by
    intro t i h
    simp [intHost, h]

end Render
