/-
  Facts about `processErrors`, `Record.validate` and `Record.fromLine` used by the reader
  properties (C16, C17, C03, C19): the stringency only decides what is reported, the line
  numbers carried by record errors, and the absence of non-format exceptions.
-/
import MafModel.Model.Reader
open Py
namespace Model

/-! ### `processErrors` -/

/-- the warnings `process_validation_errors` emits: one per error in Lenient mode, none otherwise -/
def errLogs (m : Mode) (es : List VErr) : List LogRec :=
  match m with
  | .lenient => es.map (fun e => { tpe := e.tpe, line := e.line })
  | _ => []

@[simp] theorem errLogs_nil (m : Mode) : errLogs m [] = [] := by cases m <;> rfl
@[simp] theorem errLogs_silent (es : List VErr) : errLogs .silent es = [] := rfl
@[simp] theorem errLogs_strict (es : List VErr) : errLogs .strict es = [] := rfl
theorem errLogs_lenient (es : List VErr) :
    errLogs .lenient es = es.map (fun e => { tpe := e.tpe, line := e.line }) := rfl
theorem errLogs_append (m : Mode) (a b : List VErr) : errLogs m (a ++ b) = errLogs m a ++ errLogs m b := by
  cases m <;> simp [errLogs]
theorem errLogs_map_origin (m : Mode) (es : List VErr) (o : Option Nat) :
    errLogs m (es.map (fun e => { e with origin := o })) = errLogs m es := by
  cases m <;> simp [errLogs]

@[simp] theorem processErrors_nil (m : Mode) : processErrors m [] = .ok [] := by cases m <;> rfl
@[simp] theorem processErrors_silent (es : List VErr) : processErrors .silent es = .ok [] := by
  cases es <;> rfl
theorem processErrors_lenient (es : List VErr) :
    processErrors .lenient es = .ok (errLogs .lenient es) := by cases es <;> rfl
theorem processErrors_strict_cons (e : VErr) (es : List VErr) :
    processErrors .strict (e :: es) = .error (.format e.tpe e.line) := rfl

/-- `processErrors` in one formula -/
theorem processErrors_eq (m : Mode) (es : List VErr) :
    processErrors m es =
      match m, es with
      | .strict, e :: _ => .error (.format e.tpe e.line)
      | m, es => .ok (errLogs m es) := by
  cases m <;> cases es <;> rfl

theorem processErrors_nonstrict {m : Mode} (h : m ≠ .strict) (es : List VErr) :
    processErrors m es = .ok (errLogs m es) := by
  cases m
  · exact absurd rfl h
  · exact processErrors_lenient es
  · simp

/-- the only failure of `processErrors`: Strict mode, a non-empty list, the format exception of its
    first element -/
theorem processErrors_error {m : Mode} {es : List VErr} {e : PyErr} (h : processErrors m es = .error e) :
    m = .strict ∧ ∃ x xs, es = x :: xs ∧ e = .format x.tpe x.line := by
  cases m <;> cases es <;> simp [processErrors] at h
  exact ⟨rfl, _, _, rfl, h.symm⟩

theorem processErrors_ok {m : Mode} {es : List VErr} {lg : List LogRec} (h : processErrors m es = .ok lg) :
    lg = errLogs m es ∧ (m = .strict → es = []) := by
  cases m <;> cases es <;> simp [processErrors] at h <;> simp [errLogs, h]

theorem processErrors_strict_ok {es : List VErr} {lg : List LogRec} (h : processErrors .strict es = .ok lg) :
    es = [] ∧ lg = [] := by
  have := processErrors_ok h
  simp_all

/-! ### the stringency field of a record -/

def Record.withMode (r : Record) (m : Mode) : Record := { r with mode := m }

@[simp] theorem Record.withMode_dict (r : Record) (m : Mode) : (r.withMode m).dict = r.dict := rfl
@[simp] theorem Record.withMode_slots (r : Record) (m : Mode) : (r.withMode m).slots = r.slots := rfl
@[simp] theorem Record.withMode_errors (r : Record) (m : Mode) : (r.withMode m).errors = r.errors := rfl
@[simp] theorem Record.withMode_line (r : Record) (m : Mode) : (r.withMode m).line = r.line := rfl
@[simp] theorem Record.withMode_mode (r : Record) (m : Mode) : (r.withMode m).mode = m := rfl
@[simp] theorem Record.withMode_withMode (r : Record) (m m' : Mode) :
    (r.withMode m).withMode m' = r.withMode m' := rfl
theorem Record.withMode_self (r : Record) : r.withMode r.mode = r := rfl

theorem setItem_withMode (r : Record) (m : Mode) (k : RKey) (x : RCol) :
    (r.withMode m).setItem k x = ((r.setItem k x).1.withMode m, (r.setItem k x).2) := by
  unfold Record.setItem Record.withMode
  simp only []
  repeat (first | rfl | split)

/-! ### `Record.validate` -/

/-- the error list `validate` leaves on the record: the errors kept, the column count, the
    per-slot errors, and (when no slot is empty) the self-consistency errors -/
def Record.validateErrors (C : Ctx) (r : Record) (reset : Bool) (scheme : Option Scheme) : List VErr :=
  (if reset then [] else r.errors)
    ++ (match scheme.filter Scheme.truthy with
        | some s => if s.size ≠ r.slots.length then [{ tpe := "RECORD_MISMATCH_NUMBER_OF_COLUMNS", line := none }] else []
        | none => [])
    ++ r.slots.flatMap (fun s => match s with
        | none => [{ tpe := "RECORD_COLUMN_WITH_NO_VALUE", line := r.line }]
        | some c => r.columnErrors C scheme c)
    ++ (if r.slots.any (·.isNone) then [] else r.syncErrors)

/-- `validate` = a stringency-independent record, then `processErrors` (`validate` itself never
    raises) -/
theorem validate_eq (C : Ctx) (r : Record) (mode : Option Mode) (reset : Bool) (scheme : Option Scheme) :
    r.validate C mode reset scheme =
      ({ r with errors := r.validateErrors C reset scheme },
        processErrors (mode.getD r.mode) (r.validateErrors C reset scheme)) := rfl

theorem Record.columnErrors_none' (C : Ctx) (r : Record) (c : RCol) :
    r.columnErrors C none c = c.col.validate C none none := by
  simp [Record.columnErrors]

/-! ### `Record.fromLine`, taken apart -/

/-- the column `from_line` builds for one field (`.error ()`: the value cannot be built) -/
def buildField (C : Ctx) (scheme : Option Scheme) (name value : Text) (i : Nat) : Except Unit Column :=
  match (scheme.filter Scheme.truthy).bind (fun s => s.columnClass (String.ofList name)) with
  | none => .ok { cls := "MafColumnRecord", key := name, value := .atom (.str value), index := some (i : Int) }
  | some cls =>
    match buildColumn C cls name value (some (i : Int)) with
    | .ok c => .ok c
    | .error _ => .error ()

/-- one field of `from_line` -/
def fieldStep (C : Ctx) (scheme : Option Scheme) (lineNo : Option Nat) (r : Record) (i : Nat)
    (name value : Text) : Except PyErr (Record × Nat) :=
  match buildField C scheme name value i with
  | .error () =>
    .ok ({ r with errors := r.errors ++ [{ tpe := "RECORD_INVALID_COLUMN_VALUE", line := lineNo, origin := lineNo }] }, i + 1)
  | .ok col =>
    let errs := (col.validate C scheme lineNo).map (fun e => { e with origin := lineNo })
    let r1 := { r with errors := r.errors ++ errs }
    if errs.isEmpty then
      match r1.setItem (.name name) { oid := i, col := col } with
      | (r2, .ok ()) => .ok (r2, i + 1)
      | (_, .error e) => .error e
    else .ok (r1, i + 1)

/-- the fold step of `from_line` -/
def fromLineStep (C : Ctx) (scheme : Option Scheme) (lineNo : Option Nat)
    (acc : Except PyErr (Record × Nat)) (nv : Text × Text) : Except PyErr (Record × Nat) :=
  match acc with
  | .error e => .error e
  | .ok (r, i) => fieldStep C scheme lineNo r i nv.1 nv.2

/-- the closing `validate` of `from_line` -/
def finishLine (C : Ctx) (r : Record) : Except PyErr (Record × List LogRec) :=
  match r.validate C none false none with
  | (r2, .ok logs) => .ok (r2, logs)
  | (_, .error e) => .error e

/-- the column names `from_line` uses -/
def lineNames (columnNames : Option (List Text)) (scheme : Option Scheme) : Option (List Text) :=
  match columnNames with
  | some ns => some ns
  | none => scheme.map (fun s => s.names.map String.toList)

theorem fromLine_eq (C : Ctx) (line : Text) (columnNames : Option (List Text))
    (scheme : Option Scheme) (lineNo : Option Nat) (mode : Option Mode) :
    Record.fromLine C line columnNames scheme lineNo mode =
      match lineNames columnNames scheme with
      | none => .error .value
      | some names =>
        let values := splitOn '\t' (rstripCRLF line)
        let r0 : Record := { line := lineNo, mode := modeOrSilent mode }
        if names.length ≠ values.length then
          finishLine C { r0 with errors := [{ tpe := "RECORD_MISMATCH_NUMBER_OF_COLUMNS", line := lineNo, origin := lineNo }] }
        else
          match (names.zip values).foldl (fromLineStep C scheme lineNo) (.ok (r0, 0)) with
          | .error e => .error e
          | .ok (r, _) => finishLine C r := by
  unfold Record.fromLine lineNames
  rfl

/-! ### the stringency does not influence parsing -/

theorem fieldStep_withMode (C : Ctx) (scheme : Option Scheme) (lineNo : Option Nat) (r : Record) (m : Mode)
    (i : Nat) (name value : Text) :
    fieldStep C scheme lineNo (r.withMode m) i name value =
      (fieldStep C scheme lineNo r i name value).map (fun p => (p.1.withMode m, p.2)) := by
  unfold fieldStep
  cases buildField C scheme name value i with
  | error u => rfl
  | ok col =>
    simp only []
    by_cases hE : ((col.validate C scheme lineNo).map (fun e => { e with origin := lineNo })).isEmpty = true
    · rw [if_pos hE, if_pos hE]
      have h := setItem_withMode
        { r with errors := r.errors ++ (col.validate C scheme lineNo).map (fun e => { e with origin := lineNo }) } m
        (.name name) { oid := i, col := col }
      have e : ({ r.withMode m with errors := (r.withMode m).errors ++ (col.validate C scheme lineNo).map (fun e => { e with origin := lineNo }) } : Record)
          = ({ r with errors := r.errors ++ (col.validate C scheme lineNo).map (fun e => { e with origin := lineNo }) } : Record).withMode m := rfl
      rw [e, h]
      rcases Record.setItem { r with errors := r.errors ++ (col.validate C scheme lineNo).map (fun e => { e with origin := lineNo }) }
        (.name name) { oid := i, col := col } with ⟨r2, res⟩
      cases res <;> rfl
    · rw [if_neg hE, if_neg hE]; rfl

theorem fromLineStep_withMode (C : Ctx) (scheme : Option Scheme) (lineNo : Option Nat) (m : Mode)
    (acc : Except PyErr (Record × Nat)) (nv : Text × Text) :
    fromLineStep C scheme lineNo (acc.map (fun p => (p.1.withMode m, p.2))) nv =
      (fromLineStep C scheme lineNo acc nv).map (fun p => (p.1.withMode m, p.2)) := by
  cases acc with
  | error e => rfl
  | ok p => exact fieldStep_withMode C scheme lineNo p.1 m p.2 nv.1 nv.2

theorem foldl_fromLineStep_withMode (C : Ctx) (scheme : Option Scheme) (lineNo : Option Nat) (m : Mode)
    (nvs : List (Text × Text)) (acc : Except PyErr (Record × Nat)) :
    nvs.foldl (fromLineStep C scheme lineNo) (acc.map (fun p => (p.1.withMode m, p.2))) =
      (nvs.foldl (fromLineStep C scheme lineNo) acc).map (fun p => (p.1.withMode m, p.2)) := by
  induction nvs generalizing acc with
  | nil => rfl
  | cons nv nvs ih => simp only [List.foldl_cons]; rw [fromLineStep_withMode, ih]

theorem finishLine_eq (C : Ctx) (r : Record) :
    finishLine C r =
      match processErrors r.mode (r.validateErrors C false none) with
      | .error e => .error e
      | .ok lg => .ok ({ r with errors := r.validateErrors C false none }, lg) := by
  unfold finishLine
  rw [validate_eq]
  simp only [Option.getD_none]
  cases processErrors r.mode (r.validateErrors C false none) <;> rfl

/-- the record `from_line` has built before its closing `validate` (stringency field: Silent) -/
def preRecord (C : Ctx) (line : Text) (columnNames : Option (List Text)) (scheme : Option Scheme)
    (lineNo : Option Nat) : Except PyErr Record :=
  match lineNames columnNames scheme with
  | none => .error .value
  | some names =>
    let values := splitOn '\t' (rstripCRLF line)
    let r0 : Record := { line := lineNo, mode := .silent }
    if names.length ≠ values.length then
      .ok { r0 with errors := [{ tpe := "RECORD_MISMATCH_NUMBER_OF_COLUMNS", line := lineNo, origin := lineNo }] }
    else
      match (names.zip values).foldl (fromLineStep C scheme lineNo) (.ok (r0, 0)) with
      | .error e => .error e
      | .ok (r, _) => .ok r

/-- what parsing a line gives, whatever the stringency: the record with all its collected errors
    (stringency field: Silent), or the non-format exception that aborts `from_line` -/
def parsedLine (C : Ctx) (line : Text) (columnNames : Option (List Text)) (scheme : Option Scheme)
    (lineNo : Option Nat) : Except PyErr Record :=
  match preRecord C line columnNames scheme lineNo with
  | .error e => .error e
  | .ok r => .ok { r with errors := r.validateErrors C false none }

theorem fromLine_pre (C : Ctx) (line : Text) (columnNames : Option (List Text))
    (scheme : Option Scheme) (lineNo : Option Nat) (mode : Option Mode) :
    Record.fromLine C line columnNames scheme lineNo mode =
      match preRecord C line columnNames scheme lineNo with
      | .error e => .error e
      | .ok r => finishLine C (r.withMode (modeOrSilent mode)) := by
  rw [fromLine_eq]
  unfold preRecord
  cases lineNames columnNames scheme with
  | none => rfl
  | some names =>
    simp only []
    by_cases hl : names.length ≠ (splitOn '\t' (rstripCRLF line)).length
    · rw [if_pos hl, if_pos hl]; rfl
    · rw [if_neg hl, if_neg hl]
      have h := foldl_fromLineStep_withMode C scheme lineNo (modeOrSilent mode)
        (names.zip (splitOn '\t' (rstripCRLF line))) (Except.ok (({ line := lineNo, mode := .silent } : Record), 0))
      change List.foldl _ (Except.ok (({ line := lineNo, mode := modeOrSilent mode } : Record), 0)) _ = _ at h
      rw [h]
      cases List.foldl (fromLineStep C scheme lineNo) (Except.ok (({ line := lineNo, mode := .silent } : Record), 0))
        (names.zip (splitOn '\t' (rstripCRLF line))) with
      | error e => rfl
      | ok p => rfl

/-- **the stringency only decides what is reported**: `from_line` under any stringency is the
    stringency-independent `parsedLine` followed by `processErrors` on the collected errors -/
theorem fromLine_spec (C : Ctx) (line : Text) (columnNames : Option (List Text))
    (scheme : Option Scheme) (lineNo : Option Nat) (mode : Option Mode) :
    Record.fromLine C line columnNames scheme lineNo mode =
      match parsedLine C line columnNames scheme lineNo with
      | .error e => .error e
      | .ok rec =>
        match processErrors (modeOrSilent mode) rec.errors with
        | .error e => .error e
        | .ok lg => .ok (rec.withMode (modeOrSilent mode), lg) := by
  rw [fromLine_pre]
  unfold parsedLine
  cases preRecord C line columnNames scheme lineNo with
  | error e => rfl
  | ok r =>
    simp only []
    rw [finishLine_eq]
    · change (match processErrors (modeOrSilent mode) (r.validateErrors C false none) with | .error e => _ | .ok lg => _) =
        ((match processErrors (modeOrSilent mode) (r.validateErrors C false none) with
          | .error e => .error e
          | .ok lg => .ok (({ r with errors := r.validateErrors C false none } : Record).withMode (modeOrSilent mode), lg)
          ) : Except PyErr (Record × List LogRec))
      cases processErrors (modeOrSilent mode) (r.validateErrors C false none) <;> rfl

/-! ### line numbers of record errors -/
theorem schemeErrors_line (C : Ctx) (col : Column) (s : Option Scheme) (ln : Option Nat) :
    ∀ e ∈ col.schemeErrors C s ln, e.line = ln ∧ e.origin = none := by
  intro e he
  unfold Column.schemeErrors at he
  split at he
  · simp at he
  · split at he
    · split at he
      · simp at he; subst he; exact ⟨rfl, rfl⟩
      · split at he
        · simp at he; subst he; exact ⟨rfl, rfl⟩
        · split at he
          · simp only [] at he
            split at he
            · simp at he; subst he; exact ⟨rfl, rfl⟩
            · simp at he
          · simp at he
    · simp at he; subst he; exact ⟨rfl, rfl⟩

theorem Column.validate_line (C : Ctx) (col : Column) (s : Option Scheme) (ln : Option Nat) :
    ∀ e ∈ col.validate C s ln, e.line = ln ∧ e.origin = none := by
  intro e he
  unfold Column.validate at he
  rcases List.mem_append.1 he with h | h
  · split at h
    · simp at h; subst h; exact ⟨rfl, rfl⟩
    · simp at h
  · exact schemeErrors_line C col s ln e h

theorem Column.validate_none (C : Ctx) (col : Column) (ln : Option Nat) :
    col.validate C none ln = if col.valueInvalid C then [{ tpe := "RECORD_COLUMN_WRONG_FORMAT", line := ln }] else [] := by
  unfold Column.validate Column.schemeErrors
  simp

theorem setItem_errors_line (r : Record) (k : RKey) (x : RCol) :
    (r.setItem k x).1.errors = r.errors ∧ (r.setItem k x).1.line = r.line ∧ (r.setItem k x).1.mode = r.mode := by
  unfold Record.setItem
  simp only []
  repeat (first | exact ⟨rfl, rfl, rfl⟩ | split)

theorem foldl_fromLineStep_error (C : Ctx) (sch : Option Scheme) (ln : Option Nat) (e : PyErr)
    (nvs : List (Text × Text)) : nvs.foldl (fromLineStep C sch ln) (.error e) = .error e := by
  induction nvs with
  | nil => rfl
  | cons nv nvs ih => exact ih

/-- invariant reasoning over the field loop of `from_line` -/
theorem foldl_fromLineStep_ind {C : Ctx} {sch : Option Scheme} {ln : Option Nat}
    {P : List (Text × Text) → Record → Nat → Prop}
    (hstep : ∀ nv nvs r i p, P (nv :: nvs) r i → fieldStep C sch ln r i nv.1 nv.2 = .ok p → P nvs p.1 p.2)
    (nvs : List (Text × Text)) (r : Record) (i : Nat) (h : P nvs r i) (p : Record × Nat)
    (hp : nvs.foldl (fromLineStep C sch ln) (.ok (r, i)) = .ok p) : P [] p.1 p.2 := by
  induction nvs generalizing r i with
  | nil => simp at hp; subst hp; exact h
  | cons nv nvs ih =>
    rw [List.foldl_cons] at hp
    change List.foldl _ (fieldStep C sch ln r i nv.1 nv.2) nvs = _ at hp
    cases hf : fieldStep C sch ln r i nv.1 nv.2 with
    | error e => rw [hf, foldl_fromLineStep_error] at hp; cases hp
    | ok q => rw [hf] at hp; exact ih q.1 q.2 (hstep nv nvs r i q h hf) hp

/-- the field loop cannot fail when every step succeeds under the invariant -/
theorem foldl_fromLineStep_ok {C : Ctx} {sch : Option Scheme} {ln : Option Nat}
    {P : List (Text × Text) → Record → Nat → Prop}
    (hstep : ∀ nv nvs r i, P (nv :: nvs) r i → ∃ p, fieldStep C sch ln r i nv.1 nv.2 = .ok p ∧ P nvs p.1 p.2)
    (nvs : List (Text × Text)) (r : Record) (i : Nat) (h : P nvs r i) :
    ∃ p, nvs.foldl (fromLineStep C sch ln) (.ok (r, i)) = .ok p ∧ P [] p.1 p.2 := by
  induction nvs generalizing r i with
  | nil => exact ⟨(r, i), rfl, h⟩
  | cons nv nvs ih =>
    obtain ⟨q, hq, hP⟩ := hstep nv nvs r i h
    rw [List.foldl_cons]
    change ∃ p, List.foldl _ (fieldStep C sch ln r i nv.1 nv.2) nvs = _ ∧ _
    rw [hq]
    exact ih q.1 q.2 hP

/-- one field: the record keeps its line number and every error added carries it -/
theorem fieldStep_line {C : Ctx} {sch : Option Scheme} {ln : Option Nat} {r : Record} {i : Nat}
    {name value : Text} {p : Record × Nat} (h : fieldStep C sch ln r i name value = .ok p)
    (hr : r.line = ln ∧ ∀ e ∈ r.errors, e.line = ln) :
    p.1.line = ln ∧ ∀ e ∈ p.1.errors, e.line = ln := by
  unfold fieldStep at h
  split at h
  · simp only [Except.ok.injEq] at h
    subst h
    refine ⟨hr.1, ?_⟩
    intro e he
    rcases List.mem_append.1 he with he | he
    · exact hr.2 e he
    · simp at he; subst he; rfl
  · rename_i col _
    simp only [] at h
    have herrs : ∀ e ∈ r.errors ++ (col.validate C sch ln).map (fun e => { e with origin := ln }), e.line = ln := by
      intro e he
      rcases List.mem_append.1 he with he | he
      · exact hr.2 e he
      · obtain ⟨e', he', rfl⟩ := List.mem_map.1 he
        exact (Column.validate_line C col sch ln e' he').1
    split at h
    · split at h
      · rename_i r2 heq
        simp only [Except.ok.injEq] at h
        subst h
        have h3 := setItem_errors_line
          { r with errors := r.errors ++ (col.validate C sch ln).map (fun e => { e with origin := ln }) }
          (.name name) { oid := i, col := col }
        rw [heq] at h3
        exact ⟨h3.2.1.trans hr.1, fun e he => herrs e (by have h4 := h3.1; simp only [] at h4; change e ∈ r2.errors at he; rw [h4] at he; exact he)⟩
      · cases h
    · simp only [Except.ok.injEq] at h
      subst h
      exact ⟨hr.1, herrs⟩

theorem syncErrors_line (r : Record) : ∀ e ∈ r.syncErrors, e.line = r.line ∧ e.origin = none := by
  intro e he
  unfold Record.syncErrors at he
  simp only [List.mem_append, List.mem_filterMap] at he
  rcases he with he | ⟨p, _, he⟩
  · split at he
    · simp at he
    · simp at he; subst he; exact ⟨rfl, rfl⟩
  · split at he
    · split at he
      · cases he
      · cases he; exact ⟨rfl, rfl⟩
    · cases he

/-- the errors of a scheme-less `validate` that keeps the old errors -/
theorem mem_validateErrors_none {C : Ctx} {r : Record} {e : VErr} (he : e ∈ r.validateErrors C false none) :
    e ∈ r.errors ∨ (none ∈ r.slots ∧ e = { tpe := "RECORD_COLUMN_WITH_NO_VALUE", line := r.line }) ∨
      (∃ c, some c ∈ r.slots ∧ e ∈ c.col.validate C none none) ∨ e ∈ r.syncErrors := by
  simp only [Record.validateErrors, Bool.false_eq_true, if_false, Option.filter_none, List.append_nil,
    List.mem_append, List.mem_flatMap] at he
  rcases he with (he | ⟨s, hs, he⟩) | he
  · exact .inl he
  · cases s with
    | none => simp at he; exact .inr (.inl ⟨hs, he⟩)
    | some c => simp only [Record.columnErrors_none'] at he; exact .inr (.inr (.inl ⟨c, hs, he⟩))
  · split at he
    · cases he
    · exact .inr (.inr (.inr he))

/-- **line numbers of record errors**: every error `from_line` collects for a line carries the
    line number `from_line` was given — except possibly `RECORD_COLUMN_WRONG_FORMAT` errors of the
    closing re-validation, which carry no line number -/
theorem parsedLine_lines {C : Ctx} {line : Text} {cn : Option (List Text)} {sch : Option Scheme}
    {ln : Option Nat} {rec : Record} (h : parsedLine C line cn sch ln = .ok rec) :
    rec.line = ln ∧
    ∀ e ∈ rec.errors, e.line = ln ∨ (e.line = none ∧ e.tpe = "RECORD_COLUMN_WRONG_FORMAT") := by
  unfold parsedLine at h
  split at h
  · cases h
  · rename_i r hpre
    have hr : r.line = ln ∧ ∀ e ∈ r.errors, e.line = ln := by
      unfold preRecord at hpre
      split at hpre
      · cases hpre
      · simp only [] at hpre
        split at hpre
        · simp only [Except.ok.injEq] at hpre
          subst hpre
          exact ⟨rfl, by simp⟩
        · split at hpre
          · cases hpre
          · rename_i r' i' hfold
            simp only [Except.ok.injEq] at hpre
            subst hpre
            exact foldl_fromLineStep_ind (P := fun _ r _ => r.line = ln ∧ ∀ e ∈ r.errors, e.line = ln)
              (fun nv nvs r i p hP hs => fieldStep_line hs hP) _ _ _ ⟨rfl, by simp⟩ _ hfold
    simp only [Except.ok.injEq] at h
    subst h
    refine ⟨hr.1, ?_⟩
    intro e he
    rcases mem_validateErrors_none he with he | ⟨_, he⟩ | ⟨c, _, he⟩ | he
    · exact .inl (hr.2 e he)
    · subst he; exact .inl hr.1
    · simp only [Column.validate_none] at he
      split at he
      · simp at he; subst he; exact .inr ⟨rfl, rfl⟩
      · simp at he
    · exact .inl ((syncErrors_line r e he).1.trans hr.1)


/-! ### `from_line` with pairwise distinct column names never fails outside Strict mode -/

theorem set_append_replicate_last {α} (l : List (Option α)) (n : Nat) (x : α) :
    (l ++ List.replicate (n + 1) none).set (l.length + n) (some x) = l ++ List.replicate n none ++ [some x] := by
  rw [List.set_append_right _ _ (by omega)]
  simp only [Nat.add_sub_cancel_left, List.append_assoc, List.append_cancel_left_eq]
  rw [List.replicate_succ']
  rw [List.set_append_right _ _ (by simp)]
  simp

theorem tdictGet_eq_none {β} {d : List (Text × β)} {k : Text} :
    tdictGet d k = none ↔ ∀ p ∈ d, p.1 ≠ k := by
  unfold tdictGet
  simp

theorem tdictSet_fresh {β} {d : List (Text × β)} {k : Text} (v : β) (h : tdictGet d k = none) :
    tdictSet d k v = d ++ [(k, v)] := by
  unfold tdictSet
  have : d.any (fun p => p.1 == k) = false := by
    rw [tdictGet_eq_none] at h
    simp only [List.any_eq_false, beq_iff_eq]
    exact fun p hp => h p hp
  simp [this]

theorem setItem_fresh (r : Record) (name : Text) (x : RCol) (i : Nat)
    (hk : x.col.key = name) (hi : x.col.index = some (i : Int))
    (hfresh : tdictGet r.dict name = none) (hlen : r.slots.length ≤ i) :
    r.setItem (.name name) x =
      ({ r with dict := r.dict ++ [(name, x)],
                slots := r.slots ++ List.replicate (i - r.slots.length) none ++ [some x] }, .ok ()) := by
  have hget : r.slots.getD i none = none := by
    simp [List.getD_eq_getElem?_getD, List.getElem?_eq_none hlen]
  have hlen' : (r.slots.length : Int) ≤ (i : Int) := by omega
  have htn : ((i : Int) - (r.slots.length : Int) + 1).toNat = (i - r.slots.length) + 1 := by omega
  have hset : (r.slots ++ List.replicate ((i - r.slots.length) + 1) none).set i (some x)
      = r.slots ++ List.replicate (i - r.slots.length) none ++ [some x] := by
    have := set_append_replicate_last r.slots (i - r.slots.length) x
    rwa [show r.slots.length + (i - r.slots.length) = i by omega] at this
  unfold Record.setItem
  simp only [hk, ne_eq, not_true_eq_false, if_false, hfresh, hi, Int.toNat_natCast, hget, listSetPy]
  have hneg : ¬ ((i : Int) < 0) := by omega
  have h0 : (0 : Int) ≤ (i : Int) := by omega
  simp only [hneg, if_false, hi, hlen', if_true, htn, h0, Int.toNat_natCast, List.length_append,
    List.length_replicate, tdictSet_fresh x hfresh, hset]
  rw [if_pos (by omega)]
theorem buildColumn_key_index {C : Ctx} {cls : String} {key t : Text} {idx : Option Int} {c : Column}
    (h : buildColumn C cls key t idx = .ok c) : c.key = key ∧ c.index = idx := by
  unfold buildColumn at h
  split at h
  · cases h
  · split at h
    · cases h; exact ⟨rfl, rfl⟩
    · cases h; exact ⟨rfl, rfl⟩
    · cases h

theorem buildField_key_index {C : Ctx} {sch : Option Scheme} {name value : Text} {i : Nat} {col : Column}
    (h : buildField C sch name value i = .ok col) : col.key = name ∧ col.index = some (i : Int) := by
  unfold buildField at h
  split at h
  · cases h; exact ⟨rfl, rfl⟩
  · split at h
    · rename_i c hb
      cases h
      exact buildColumn_key_index hb
    · cases h

/-- the shape of a record while `from_line` fills it: the dictionary lists the stored columns in
    slot order, and the column in slot `j` has index `j` (and identity `j`) -/
structure LineInv (r : Record) (i : Nat) : Prop where
  vals : r.dict.map Prod.snd = r.slots.filterMap id
  len : r.slots.length ≤ i
  idx : ∀ (j : Nat) (c : RCol), r.slots[j]? = some (some c) → c.col.index = some (j : Int) ∧ c.oid = j

theorem LineInv.mono {r : Record} {i : Nat} (h : LineInv r i) (r' : Record) (hd : r'.dict = r.dict)
    (hs : r'.slots = r.slots) : LineInv r' (i + 1) :=
  ⟨by rw [hd, hs]; exact h.vals, by rw [hs]; exact Nat.le_succ_of_le h.len, by rw [hs]; exact h.idx⟩

theorem LineInv.push {r : Record} {i : Nat} (h : LineInv r i) (name : Text) (x : RCol)
    (hx : x.col.index = some (i : Int)) (ho : x.oid = i) (r' : Record)
    (hd : r'.dict = r.dict ++ [(name, x)])
    (hs : r'.slots = r.slots ++ List.replicate (i - r.slots.length) none ++ [some x]) :
    LineInv r' (i + 1) := by
  have hl := h.len
  refine ⟨?_, ?_, ?_⟩
  · rw [hd, hs]
    simp [h.vals]
  · rw [hs]; simp; omega
  · intro j c hj
    rw [hs] at hj
    by_cases h1 : j < r.slots.length
    · rw [List.append_assoc, List.getElem?_append_left h1] at hj
      exact h.idx j c hj
    · rw [List.append_assoc, List.getElem?_append_right (by omega)] at hj
      by_cases h2 : j - r.slots.length < i - r.slots.length
      · rw [List.getElem?_append_left (by simpa using h2)] at hj
        simp [h2] at hj
      · rw [List.getElem?_append_right (by simpa using h2)] at hj
        simp only [List.length_replicate] at hj
        have : j - r.slots.length - (i - r.slots.length) = 0 := by
          apply Decidable.byContradiction
          intro hne
          rw [List.getElem?_eq_none (by simp; omega)] at hj
          cases hj
        rw [this] at hj
        simp at hj
        subst hj
        have : j = i := by omega
        subst this
        exact ⟨hx, ho⟩

theorem all_some_eq_map_filterMap {α} (l : List (Option α)) (h : l.any (·.isNone) = false) :
    l = (l.filterMap id).map some := by
  induction l with
  | nil => rfl
  | cons a l ih =>
    simp only [List.any_cons, Bool.or_eq_false_iff] at h
    cases a with
    | none => simp at h
    | some a => simp [← ih h.2]

/-- the loop invariant of `from_line` for pairwise distinct column names -/
def FreshInv (nvs : List (Text × Text)) (r : Record) (i : Nat) : Prop :=
  LineInv r i ∧ (nvs.map Prod.fst).Nodup ∧ ∀ p ∈ r.dict, p.1 ∉ nvs.map Prod.fst

theorem fieldStep_fresh {C : Ctx} {sch : Option Scheme} {ln : Option Nat} (nv : Text × Text)
    (nvs : List (Text × Text)) (r : Record) (i : Nat) (h : FreshInv (nv :: nvs) r i) :
    ∃ p, fieldStep C sch ln r i nv.1 nv.2 = .ok p ∧ FreshInv nvs p.1 p.2 ∧
      (p.1.dict = r.dict ∨
        ∃ col, buildField C sch nv.1 nv.2 i = .ok col ∧ p.1.dict = r.dict ++ [(nv.1, { oid := i, col := col })]) := by
  obtain ⟨hinv, hnd, hfresh⟩ := h
  simp only [List.map_cons, List.nodup_cons] at hnd
  have hfresh' : ∀ p ∈ r.dict, p.1 ∉ nvs.map Prod.fst := fun p hp hm =>
    hfresh p hp (List.mem_cons_of_mem _ hm)
  unfold fieldStep
  cases hb : buildField C sch nv.1 nv.2 i with
  | error u =>
    exact ⟨_, rfl, ⟨hinv.mono _ rfl rfl, hnd.2, hfresh'⟩, .inl rfl⟩
  | ok col =>
    simp only []
    by_cases hE : ((col.validate C sch ln).map (fun e => { e with origin := ln })).isEmpty = true
    · rw [if_pos hE]
      obtain ⟨hkey, hidx⟩ := buildField_key_index hb
      have hget : tdictGet r.dict nv.1 = none := by
        rw [tdictGet_eq_none]
        intro p hp heq
        exact hfresh p hp (by simp [heq])
      rw [setItem_fresh { r with errors := r.errors ++ (col.validate C sch ln).map (fun e => { e with origin := ln }) }
        nv.1 { oid := i, col := col } i hkey hidx hget hinv.len]
      refine ⟨_, rfl, ⟨hinv.push nv.1 { oid := i, col := col } hidx rfl _ rfl rfl, hnd.2, ?_⟩,
        .inr ⟨col, rfl, rfl⟩⟩
      intro p hp
      rcases List.mem_append.1 hp with hp | hp
      · exact hfresh' p hp
      · simp only [List.mem_singleton] at hp
        subst hp
        exact hnd.1
    · rw [if_neg hE]
      exact ⟨_, rfl, ⟨hinv.mono _ rfl rfl, hnd.2, hfresh'⟩, .inl rfl⟩

/-- **`from_line` raises nothing but format errors when the column names are pairwise distinct**:
    the stringency-independent parse succeeds, and the record stores only columns that
    `buildField` made (`Q` is any property of those) -/
theorem parsedLine_nodup_dict (C : Ctx) (line : Text) {cn : Option (List Text)} {sch : Option Scheme}
    (ln : Option Nat) {names : List Text} (hn : lineNames cn sch = some names) (hnd : names.Nodup)
    (Q : RCol → Prop)
    (hQ : ∀ name value i col, buildField C sch name value i = .ok col → Q { oid := i, col := col }) :
    ∃ rec, parsedLine C line cn sch ln = .ok rec ∧ ∀ p ∈ rec.dict, Q p.2 := by
  unfold parsedLine preRecord
  rw [hn]
  simp only []
  by_cases hl : names.length ≠ (splitOn '\t' (rstripCRLF line)).length
  · rw [if_pos hl]
    simp only []
    have : LineInv ({ line := ln, mode := .silent, errors := [{ tpe := "RECORD_MISMATCH_NUMBER_OF_COLUMNS", line := ln, origin := ln }] } : Record) 0 :=
      ⟨rfl, Nat.le_refl _, by intro j c h; simp at h⟩
    exact ⟨_, rfl, by simp⟩
  · rw [if_neg hl]
    have hl : names.length = (splitOn '\t' (rstripCRLF line)).length := by
      simpa using hl
    have h0 : FreshInv (names.zip (splitOn '\t' (rstripCRLF line))) ({ line := ln, mode := .silent } : Record) 0 ∧
        ∀ p ∈ ({ line := ln, mode := .silent } : Record).dict, Q p.2 := by
      refine ⟨⟨⟨rfl, Nat.le_refl _, by intro j c h; simp at h⟩, ?_, by simp⟩, by simp⟩
      rw [List.map_fst_zip (by omega)]
      exact hnd
    obtain ⟨p, hp, hP⟩ := foldl_fromLineStep_ok (C := C) (sch := sch) (ln := ln)
      (P := fun nvs r i => FreshInv nvs r i ∧ ∀ p ∈ r.dict, Q p.2)
      (fun nv nvs r i h => by
        obtain ⟨p, hp, hF, hd⟩ := fieldStep_fresh (C := C) (sch := sch) (ln := ln) nv nvs r i h.1
        refine ⟨p, hp, hF, ?_⟩
        rcases hd with hd | ⟨col, hb, hd⟩
        · rw [hd]; exact h.2
        · rw [hd]
          intro q hq
          rcases List.mem_append.1 hq with hq | hq
          · exact h.2 q hq
          · simp only [List.mem_singleton] at hq
            subst hq
            exact hQ _ _ _ _ hb) _ _ _ h0
    rw [hp]
    exact ⟨_, rfl, hP.2⟩

/-- the parse is the field loop followed by the error collection of `validate` — a form that can
    be evaluated.  (Since `validate` no longer asserts, this holds for all column names.) -/
theorem parsedLine_eq (C : Ctx) (line : Text) (cn : Option (List Text)) (sch : Option Scheme)
    (ln : Option Nat) :
    parsedLine C line cn sch ln =
      match preRecord C line cn sch ln with
      | .error e => .error e
      | .ok r => .ok { r with errors := r.validateErrors C false none } := rfl

theorem parsedLine_eq_of_nodup (C : Ctx) (line : Text) {cn : Option (List Text)} {sch : Option Scheme}
    (ln : Option Nat) {names : List Text} (_hn : lineNames cn sch = some names) (_hnd : names.Nodup) :
    parsedLine C line cn sch ln =
      match preRecord C line cn sch ln with
      | .error e => .error e
      | .ok r => .ok { r with errors := r.validateErrors C false none } := rfl

theorem parsedLine_ok_of_nodup (C : Ctx) (line : Text) {cn : Option (List Text)} {sch : Option Scheme}
    (ln : Option Nat) {names : List Text} (hn : lineNames cn sch = some names) (hnd : names.Nodup) :
    ∃ rec, parsedLine C line cn sch ln = .ok rec := by
  obtain ⟨rec, h, _⟩ := parsedLine_nodup_dict C line ln hn hnd (fun _ => True) (fun _ _ _ _ _ => trivial)
  exact ⟨rec, h⟩

/-! ### schemes with pairwise distinct names -/

theorem dictSet_keys {β} (d : List (String × β)) (k : String) (v : β) :
    (dictSet d k v).map Prod.fst = if d.any (fun p => p.1 == k) then d.map Prod.fst else d.map Prod.fst ++ [k] := by
  unfold dictSet
  split
  · rw [List.map_map]
    apply List.map_congr_left
    intro p _
    simp only [Function.comp]
    split
    · rename_i h; simp at h; exact h.symm
    · rfl
  · simp

theorem dictSet_keys_nodup {β} (d : List (String × β)) (k : String) (v : β)
    (h : (d.map Prod.fst).Nodup) : ((dictSet d k v).map Prod.fst).Nodup := by
  rw [dictSet_keys]
  split
  · exact h
  · rename_i hany
    rw [List.nodup_append]
    refine ⟨h, by simp, ?_⟩
    intro a ha b hb
    simp only [List.mem_singleton] at hb
    subst hb
    intro hab
    subst hab
    apply hany
    obtain ⟨p, hp, rfl⟩ := List.mem_map.1 ha
    exact List.any_eq_true.2 ⟨p, hp, by simp⟩

theorem dictOfList_keys_nodup {β} (l : List (String × β)) : ((dictOfList l).map Prod.fst).Nodup := by
  unfold dictOfList
  suffices ∀ (d : List (String × β)), (d.map Prod.fst).Nodup →
      ((l.foldl (fun d p => dictSet d p.1 p.2) d).map Prod.fst).Nodup from this [] (by simp)
  induction l with
  | nil => exact fun d h => h
  | cons p l ih => exact fun d h => ih _ (dictSet_keys_nodup d p.1 p.2 h)

/-- `NoRestrictionsScheme(names)` de-duplicates its column names -/
theorem noRestrictionsScheme_names_nodup (names : List String) : (noRestrictionsScheme names).names.Nodup :=
  dictOfList_keys_nodup _

theorem lineNames_scheme (s : Scheme) : lineNames none (some s) = some (s.names.map String.toList) := rfl

theorem names_toList_nodup {s : Scheme} (h : s.names.Nodup) : (s.names.map String.toList).Nodup := by
  exact List.Pairwise.map (R := (· ≠ ·)) (S := (· ≠ ·)) String.toList
    (fun a b hab h' => hab (String.toList_inj.1 h')) h


/-! ### every record error carries the line number -/

theorem listSetPy_mem {l s : List (Option RCol)} {i : Int} {x : RCol} (h : listSetPy l i x = .ok s) :
    ∀ a ∈ s, a ∈ l ∨ a = some x := by
  unfold listSetPy at h
  intro a ha
  split at h
  · split at h
    · cases h; exact List.mem_or_eq_of_mem_set ha
    · cases h
  · simp only [] at h
    split at h
    · cases h; exact List.mem_or_eq_of_mem_set ha
    · cases h

/-- a successful `record[name] = column` leaves in the slots only what was there, padding, and the
    new column itself -/
theorem setItem_name_slots {r r2 : Record} {name : Text} {x : RCol} {ci : Int}
    (hk : x.col.key = name) (hi : x.col.index = some ci)
    (h : r.setItem (.name name) x = (r2, .ok ())) :
    ∀ s ∈ r2.slots, s ∈ r.slots ∨ s = none ∨ s = some x := by
  unfold Record.setItem at h
  simp only [hk, ne_eq, not_true_eq_false, if_false, hi] at h
  split at h
  · cases h
  · rename_i x3 h3
    -- `x3 = x`: the column is stored unchanged
    have hx3 : x3 = x := by
      split at h3
      · cases h3
      · rename_i x2 h2
        have hx2 : x2 = x := by
          repeat' (first | (cases h2; done) | (cases h2; rfl) | split at h2)
        subst hx2
        repeat' (first | (cases h3; done) | (cases h3; rfl) | split at h3 | (simp only [hi] at h3))
    subst hx3
    rw [hi] at h
    simp only [] at h
    split at h
    · rename_i s hs
      cases h
      intro a ha
      rcases listSetPy_mem hs a ha with ha | ha
      · split at ha
        · rcases List.mem_append.1 ha with ha | ha
          · exact .inl ha
          · exact .inr (.inl (List.eq_of_mem_replicate ha))
        · exact .inl ha
      · exact .inr (.inr ha)
    · cases h

theorem valid_of_validate_nil {C : Ctx} {col : Column} {sch : Option Scheme} {ln : Option Nat}
    (h : col.validate C sch ln = []) : col.valueInvalid C = false := by
  unfold Column.validate at h
  cases hv : col.valueInvalid C with
  | false => rfl
  | true => rw [hv] at h; simp at h

/-- one field: every stored column has passed its value check -/
theorem fieldStep_valid {C : Ctx} {sch : Option Scheme} {ln : Option Nat} {r : Record} {i : Nat}
    {name value : Text} {p : Record × Nat} (h : fieldStep C sch ln r i name value = .ok p)
    (hr : ∀ c, some c ∈ r.slots → c.col.valueInvalid C = false) :
    ∀ c, some c ∈ p.1.slots → c.col.valueInvalid C = false := by
  unfold fieldStep at h
  split at h
  · cases h; exact hr
  · rename_i col hb
    simp only [] at h
    split at h
    · rename_i hE
      split at h
      · rename_i r2 heq
        cases h
        obtain ⟨hkey, hidx⟩ := buildField_key_index hb
        intro c hc
        rcases setItem_name_slots (x := { oid := i, col := col }) hkey hidx heq (some c) hc with h1 | h1 | h1
        · exact hr c h1
        · cases h1
        · cases h1
          apply valid_of_validate_nil (sch := sch) (ln := ln)
          simpa using hE
      · cases h
    · cases h; exact hr

/-- **`from_line` reports the line number it was given on every error it collects** (the closing
    re-validation adds nothing: every stored column has already passed its value check) -/
theorem parsedLine_lines_all {C : Ctx} {line : Text} {cn : Option (List Text)} {sch : Option Scheme}
    {ln : Option Nat} {rec : Record} (h : parsedLine C line cn sch ln = .ok rec) :
    ∀ e ∈ rec.errors, e.line = ln := by
  intro e he
  · unfold parsedLine at h
    split at h
    · cases h
    · rename_i r hpre
      have hvalid : ∀ c, some c ∈ r.slots → c.col.valueInvalid C = false := by
        unfold preRecord at hpre
        split at hpre
        · cases hpre
        · simp only [] at hpre
          split at hpre
          · cases hpre; intro c hc; simp at hc
          · split at hpre
            · cases hpre
            · rename_i r' i' hfold
              cases hpre
              exact foldl_fromLineStep_ind
                (P := fun _ r _ => ∀ c, some c ∈ r.slots → c.col.valueInvalid C = false)
                (fun nv nvs r i p hP hs => fieldStep_valid hs hP) _ _ _ (by intro c hc; simp at hc) _ hfold
      have hline : r.line = ln ∧ ∀ e ∈ r.errors, e.line = ln := by
        unfold preRecord at hpre
        split at hpre
        · cases hpre
        · simp only [] at hpre
          split at hpre
          · cases hpre; exact ⟨rfl, by simp⟩
          · split at hpre
            · cases hpre
            · rename_i r' i' hfold
              cases hpre
              exact foldl_fromLineStep_ind (P := fun _ r _ => r.line = ln ∧ ∀ e ∈ r.errors, e.line = ln)
                (fun nv nvs r i p hP hs => fieldStep_line hs hP) _ _ _ ⟨rfl, by simp⟩ _ hfold
      cases h
      rcases mem_validateErrors_none he with he | ⟨_, he⟩ | ⟨c, hs, he⟩ | he
      · exact hline.2 e he
      · subst he; exact hline.1
      · simp only [Column.validate_none, hvalid c hs] at he
        simp at he
      · exact (syncErrors_line r e he).1.trans hline.1


end Model
