/-
  `Header.fromLines`: the stringency only decides what is reported, and the line numbers of the
  header errors.
-/
import MafModel.Lemmas.ReaderRecord
open Py
namespace Model

def Header.withMode (h : Header) (m : Mode) : Header := { h with mode := m }

@[simp] theorem Header.withMode_recs (h : Header) (m : Mode) : (h.withMode m).recs = h.recs := rfl
@[simp] theorem Header.withMode_errors (h : Header) (m : Mode) : (h.withMode m).errors = h.errors := rfl
@[simp] theorem Header.withMode_mode (h : Header) (m : Mode) : (h.withMode m).mode = m := rfl
@[simp] theorem Header.withMode_withMode (h : Header) (m m' : Mode) :
    (h.withMode m).withMode m' = h.withMode m' := rfl
theorem Header.withMode_self (h : Header) : h.withMode h.mode = h := rfl
@[simp] theorem Header.withMode_get (h : Header) (m : Mode) (k : Text) : (h.withMode m).get k = h.get k := rfl
@[simp] theorem Header.withMode_scheme (K : HConsts) (R : Registry) (h : Header) (m : Mode) :
    (h.withMode m).scheme K R = h.scheme K R := rfl
@[simp] theorem Header.withMode_sortOrder (K : HConsts) (h : Header) (m : Mode) :
    (h.withMode m).sortOrder K = h.sortOrder K := rfl

theorem parseLines_withMode (K : HConsts) (m : Mode) (ls : List Text) :
    ∀ (n : Nat) (h : Header),
      Header.parseLines K n ls (h.withMode m) = (Header.parseLines K n ls h).withMode m := by
  induction ls with
  | nil => intro n h; rfl
  | cons l ls ih =>
    intro n h
    unfold Header.parseLines
    cases HRec.fromLine K l n with
    | error e => exact ih (n + 1) { h with errors := h.errors ++ [e] }
    | ok r =>
      simp only []
      by_cases hg : (h.get r.key).isSome = true
      · rw [if_pos hg, if_pos (show ((h.withMode m).get r.key).isSome = true from hg)]
        exact ih (n + 1) { h with errors := h.errors ++ [{ tpe := "HEADER_DUPLICATE_KEYS", line := some n, origin := some n }] }
      · rw [if_neg hg, if_neg (show ¬ ((h.withMode m).get r.key).isSome = true from hg)]
        exact ih (n + 1) (h.set r)

theorem applyContigs_withMode (K : HConsts) (m : Mode) (h : Header) :
    (h.withMode m).applyContigs K = (h.applyContigs K).withMode m := by
  unfold Header.applyContigs
  show (match h.contigs K, h.get K.sortOrderKey with
    | some cs, some { value := .sortOrder o _, key := k } =>
      if (!cs.isEmpty && o.sortable) = true then (h.withMode m).set { key := k, value := .sortOrder o cs } else h.withMode m
    | _, _ => h.withMode m) = _
  generalize h.contigs K = a
  generalize h.get K.sortOrderKey = b
  rcases a with _ | cs <;> rcases b with _ | ⟨k, v⟩ <;> try rfl
  cases v <;> try rfl
  simp only []
  split <;> rfl

/-- the error list `validate` leaves on the header -/
def Header.validateErrors (K : HConsts) (R : Registry) (h : Header) : List VErr :=
  (match h.version K with
    | none => [{ tpe := "HEADER_MISSING_VERSION", line := none }]
    | some v => if R.supportedVersions.contains (String.ofList v) then []
                else [{ tpe := "HEADER_UNSUPPORTED_VERSION", line := none }])
  ++ (match (h.scheme K R).filter Scheme.isBasic with
    | some _ => if (h.get K.annotationKey).isSome then [{ tpe := "HEADER_UNSUPPORTED_ANNOTATION_SPEC", line := none }] else []
    | none => match h.annotation K with
      | none => [{ tpe := "HEADER_MISSING_ANNOTATION_SPEC", line := none }]
      | some a => if R.supportedAnnotations.contains (String.ofList a) then []
                  else [{ tpe := "HEADER_UNSUPPORTED_ANNOTATION_SPEC", line := none }])

theorem Header.validate_eq (K : HConsts) (R : Registry) (h : Header) (mode : Option Mode) (reset : Bool) :
    h.validate K R mode reset =
      ({ h with errors := (if reset then [] else h.errors) ++ h.validateErrors K R },
       processErrors (mode.getD h.mode) ((if reset then [] else h.errors) ++ h.validateErrors K R)) := by
  unfold Header.validate Header.validateErrors
  simp only [List.append_assoc]
  rfl

theorem Header.validateErrors_lines (K : HConsts) (R : Registry) (h : Header) :
    ∀ e ∈ h.validateErrors K R, e.line = none ∧ e.origin = none := by
  intro e he
  unfold Header.validateErrors at he
  rcases List.mem_append.1 he with he | he
  · split at he
    · simp at he; subst he; exact ⟨rfl, rfl⟩
    · split at he
      · simp at he
      · simp at he; subst he; exact ⟨rfl, rfl⟩
  · split at he
    · split at he
      · simp at he; subst he; exact ⟨rfl, rfl⟩
      · simp at he
    · split at he
      · simp at he; subst he; exact ⟨rfl, rfl⟩
      · split at he
        · simp at he
        · simp at he; subst he; exact ⟨rfl, rfl⟩

/-- the header `from_lines` builds, stringency field Silent -/
def parsedHeader (K : HConsts) (R : Registry) (lines : List Text) : Header :=
  let h1 := (Header.parseLines K 1 lines {}).applyContigs K
  { h1 with errors := h1.errors ++ h1.validateErrors K R }

/-- **the stringency only decides what is reported**: `from_lines` under any stringency is the
    stringency-independent `parsedHeader` followed by `processErrors` on the collected errors -/
theorem fromLines_spec (K : HConsts) (R : Registry) (lines : List Text) (mode : Option Mode) :
    Header.fromLines K R lines mode =
      ((parsedHeader K R lines).withMode (modeOrSilent mode),
       processErrors (modeOrSilent mode) (parsedHeader K R lines).errors) := by
  unfold Header.fromLines parsedHeader
  simp only []
  have e : ({ mode := modeOrSilent mode } : Header) = ({} : Header).withMode (modeOrSilent mode) := rfl
  rw [e, parseLines_withMode, applyContigs_withMode, Header.validate_eq]
  rfl

/-! ### line numbers of header errors -/

theorem HRec.fromLine_error_line {K : HConsts} {l : Text} {n : Nat} {e : VErr}
    (h : HRec.fromLine K l n = .error e) : e.line = some n ∧ e.origin = some n := by
  unfold HRec.fromLine at h
  repeat' (first | (cases h; exact ⟨rfl, rfl⟩) | (cases h; done) | split at h | simp only [] at h)

@[simp] theorem Header.set_errors (h : Header) (r : HRec) : (h.set r).errors = h.errors := rfl

theorem applyContigs_errors (K : HConsts) (h : Header) : (h.applyContigs K).errors = h.errors := by
  unfold Header.applyContigs
  split
  · split <;> rfl
  · rfl

/-- what a header error with a line number is: the diagnosis of that very line -/
def HeaderDiag (K : HConsts) (ls : List Text) (n : Nat) (e : VErr) : Prop :=
  ∃ i, ∃ _ : i < ls.length, e.line = some (n + i) ∧ e.origin = some (n + i) ∧
    (HRec.fromLine K ls[i] (n + i) = .error e ∨
      (e.tpe = "HEADER_DUPLICATE_KEYS" ∧ ∃ rec, HRec.fromLine K ls[i] (n + i) = .ok rec))

theorem parseLines_errors (K : HConsts) (ls : List Text) :
    ∀ (n : Nat) (h : Header), ∃ new, (Header.parseLines K n ls h).errors = h.errors ++ new ∧
      ∀ e ∈ new, HeaderDiag K ls n e := by
  induction ls with
  | nil => intro n h; exact ⟨[], by simp [Header.parseLines], by simp⟩
  | cons l ls ih =>
    intro n h
    have lift : ∀ e, HeaderDiag K ls (n + 1) e → HeaderDiag K (l :: ls) n e := by
      rintro e ⟨i, hi, h1, h2, h3⟩
      refine ⟨i + 1, by simpa using hi, ?_, ?_, ?_⟩
      · rw [h1]; congr 1; omega
      · rw [h2]; congr 1; omega
      · have e1 : n + (i + 1) = n + 1 + i := by omega
        simpa [e1] using h3
    unfold Header.parseLines
    cases hf : HRec.fromLine K l n with
    | error e =>
      simp only []
      obtain ⟨new, hnew, hall⟩ := ih (n + 1) { h with errors := h.errors ++ [e] }
      refine ⟨e :: new, by rw [hnew]; simp, ?_⟩
      intro e' he'
      rcases List.mem_cons.1 he' with rfl | he'
      · have := HRec.fromLine_error_line hf
        exact ⟨0, by simp, this.1, this.2, .inl (by simpa using hf)⟩
      · exact lift e' (hall e' he')
    | ok r =>
      simp only []
      by_cases hg : (h.get r.key).isSome = true
      · rw [if_pos hg]
        obtain ⟨new, hnew, hall⟩ := ih (n + 1)
          { h with errors := h.errors ++ [{ tpe := "HEADER_DUPLICATE_KEYS", line := some n, origin := some n }] }
        refine ⟨{ tpe := "HEADER_DUPLICATE_KEYS", line := some n, origin := some n } :: new, by rw [hnew]; simp, ?_⟩
        intro e' he'
        rcases List.mem_cons.1 he' with rfl | he'
        · exact ⟨0, by simp, rfl, rfl, .inr ⟨rfl, r, by simpa using hf⟩⟩
        · exact lift e' (hall e' he')
      · rw [if_neg hg]
        obtain ⟨new, hnew, hall⟩ := ih (n + 1) (h.set r)
        exact ⟨new, by rw [hnew]; rfl, fun e' he' => lift e' (hall e' he')⟩

/-- **the errors of a parsed header**: first the per-line diagnoses, each carrying the (1-based)
    number of the line it is about, then the whole-header errors, which carry no line number -/
theorem parsedHeader_errors (K : HConsts) (R : Registry) (ls : List Text) :
    ∃ perLine whole, (parsedHeader K R ls).errors = perLine ++ whole ∧
      (∀ e ∈ perLine, HeaderDiag K ls 1 e) ∧ (∀ e ∈ whole, e.line = none ∧ e.origin = none) := by
  obtain ⟨new, hnew, hall⟩ := parseLines_errors K ls 1 {}
  refine ⟨new, ((Header.parseLines K 1 ls {}).applyContigs K).validateErrors K R, ?_, hall,
    Header.validateErrors_lines K R _⟩
  show ((Header.parseLines K 1 ls {}).applyContigs K).errors ++ _ = _
  rw [applyContigs_errors, hnew]
  rfl

end Model
