/-
  Lemmas behind C06 (stretch): a value that *validates* under a column type renders to
  a text the same column type accepts — for arbitrary values (not only values obtained
  by parsing, as in `Lemmas/Render.lean`), under the well-formedness condition `ValueWF`.
-/
import MafModel.Lemmas.Render
open Model Py Spec Render

namespace RenderValid
set_option linter.unusedSimpArgs false

/-- well-formedness of a scalar as a Python object: a `float` token is a `repr` (in the
    range of the float host and fixed by it), an enum member exists in its class, a UUID is
    a 128-bit number -/
def AtomWF (C : Ctx) : Atom → Prop
  | .float t => C.H.parse t = some t
  | .enum c m => (enumValue C.enums c m).isSome = true
  | .uuid n => n < 2 ^ 128
  | _ => True

/-- well-formedness of a value: of the scalar, or of every element of a sequence -/
def ValueWF (C : Ctx) : PyVal → Prop
  | .atom a => AtomWF C a
  | .list xs => ∀ a ∈ xs, AtomWF C a
  | .tuple xs => ∀ a ∈ xs, AtomWF C a

theorem enumValue_mem {E : Enums} {c m : String} {val : Text} (h : enumValue E c m = some val) :
    ∃ p ∈ E.members c, p.1 = m ∧ p.2.toList = val := by
  simp only [enumValue, Option.map_eq_some_iff] at h
  obtain ⟨p, hp, hv⟩ := h
  exact ⟨p, List.mem_of_find?_eq_some hp, by simpa using List.find?_some hp, hv⟩

theorem enumValue_lookup {E : Enums} {c m : String} {val : Text} (h : enumValue E c m = some val) :
    (enumLookup E c val).isSome = true := by
  obtain ⟨p, hp, _, hv⟩ := enumValue_mem h
  have hs : (List.find? (fun q => q.2.toList == val) (E.members c)).isSome = true := by
    rw [List.find?_isSome]; exact ⟨p, hp, by simp [hv]⟩
  obtain ⟨q, hq⟩ := Option.isSome_iff_exists.mp hs
  simp [enumLookup, hq]

theorem enumValue_cap {E : Enums} (hE : EnumsOK E) {c m : String} {val : Text}
    (hc : capClasses.contains c = true) (h : enumValue E c m = some val) :
    pyCapitalize val = val := by
  obtain ⟨p, hp, _, hv⟩ := enumValue_mem h
  have hok := members_ok E hE c
  simp only [classOK, Bool.and_eq_true, List.all_eq_true] at hok
  obtain ⟨⟨_, hcap⟩, _⟩ := hok
  simp only [hc, Bool.not_true, Bool.false_or, capOK, List.all_eq_true, Bool.and_eq_true,
    Bool.or_eq_true, beq_iff_eq, bne_iff_ne, ne_eq] at hcap
  rw [← hv]
  exact (hcap p hp).1.1



theorem enumValue_clean {E : Enums} (hE : EnumsOK E) {c m : String} {val : Text}
    (h : enumValue E c m = some val) : cleanValue val = true := by
  obtain ⟨p, hp, _, hv⟩ := enumValue_mem h
  have hok := members_ok E hE c
  simp only [classOK, Bool.and_eq_true, List.all_eq_true] at hok
  obtain ⟨⟨⟨_, hc⟩, _⟩, _⟩ := hok
  rw [← hv]
  exact hc p hp

theorem mapM_option_isSome {α β} (f : α → Option β) (l : List α)
    (h : ∀ a ∈ l, (f a).isSome = true) : (l.mapM f).isSome = true := by
  induction l with
  | nil => simp
  | cons a l ih =>
    obtain ⟨b, hb⟩ := Option.isSome_iff_exists.mp (h a (by simp))
    obtain ⟨bs, hbs⟩ := Option.isSome_iff_exists.mp (ih (fun x hx => h x (by simp [hx])))
    rw [(mapM_option_cons f a l (b :: bs)).mpr ⟨b, bs, hb, hbs, rfl⟩]
    rfl

/-- the texts of the elements of a sequence value -/
theorem mapM_atomStr_ok (S : SCtx) (elem : String) (xs : List Atom)
    (hel : ∀ a ∈ xs, ∃ s, atomStr S.enums a = .ok s ∧ ';' ∉ s ∧ (elemBuild S elem s).isSome = true) :
    ∃ ss, xs.mapM (atomStr S.enums) = .ok ss ∧ ss.length = xs.length ∧
      ∀ s ∈ ss, ';' ∉ s ∧ (elemBuild S elem s).isSome = true := by
  induction xs with
  | nil => exact ⟨[], by simp [pure, Except.pure], rfl, by simp⟩
  | cons a xs ih =>
    obtain ⟨s, hs, h1, h2⟩ := hel a (by simp)
    obtain ⟨ss, hss, hl, hall⟩ := ih (fun x hx => hel x (by simp [hx]))
    refine ⟨s :: ss, by simp [List.mapM_cons, hs, hss, bind, Except.bind, pure, Except.pure],
      by simp [hl], ?_⟩
    intro x hx
    simp only [List.mem_cons] at hx
    rcases hx with rfl | hx
    · exact ⟨h1, h2⟩
    · exact hall x hx

theorem seq_render_accept (S : SCtx) (elem : String) (xs : List Atom)
    (hel : ∀ a ∈ xs, ∃ s, atomStr S.enums a = .ok s ∧ ';' ∉ s ∧ (elemBuild S elem s).isSome = true) :
    ∃ t, (xs.mapM (atomStr S.enums)).map (joinWith ';') = .ok t ∧ (seqOf S elem t).isSome = true := by
  obtain ⟨ss, hss, _, hall⟩ := mapM_atomStr_ok S elem xs hel
  refine ⟨joinWith ';' ss, by simp [hss, Except.map], ?_⟩
  unfold seqOf
  by_cases ht : joinWith ';' ss = []
  · simp [ht]
  · have hne : ss ≠ [] := by intro e; subst e; exact ht rfl
    simp only [ht, if_false]
    rw [splitOn_joinWith ';' ss hne (fun s hs => (hall s hs).1)]
    have := mapM_option_isSome (elemBuild S elem) ss (fun s hs => (hall s hs).2)
    obtain ⟨ys, hys⟩ := Option.isSome_iff_exists.mp this
    simp [hys]

/-- a sequence column: every valid, well-formed value renders to an accepted text -/
theorem rv_seq (C : Ctx) (sp : ColSpec) (es : ElemSpec) (elem : String)
    (hacc : ∀ t, sp.accept C false t = seqOf ⟨C.enums, C.H⟩ elem t)
    (hvm : sp.validateMethod = some "MafCustomColumnRecord")
    (hn : sp.nullDict = some [("", NullVal.emptyList)])
    (hvc : sp.validateChain = ["SequenceOfValuesColumn", "MafCustomColumnRecord"])
    (hsc : sp.stringChain = ["SequenceOfValuesColumn", "MafColumnRecord"])
    (he : sp.elem = some es)
    (helem : ∀ a, runValidate es.enumCls es.minV es.maxV (fun _ => true) es.validateChain (.atom a) = false →
      hasListSep a = false → AtomWF C a →
      ∃ s, atomStr C.enums a = .ok s ∧ ';' ∉ s ∧ (elemBuild ⟨C.enums, C.H⟩ elem s).isSome = true)
    (v : PyVal) (hv : sp.valueInvalid v = false) (hwf : ValueWF C v) :
    ∃ t, sp.render C.enums v = .ok t ∧ (sp.accept C false t).isSome = true := by
  simp only [hacc]
  have hxs : ∀ xs : List Atom, (∀ a ∈ xs, AtomWF C a) →
      (xs.any fun a => sp.elemInvalid a || hasListSep a) = false →
      ∃ t, (xs.mapM (atomStr C.enums)).map (joinWith ';') = .ok t ∧
        (seqOf ⟨C.enums, C.H⟩ elem t).isSome = true := by
    intro xs hw hany
    apply seq_render_accept ⟨C.enums, C.H⟩ elem xs
    intro a ha
    rw [List.any_eq_false] at hany
    have := hany a ha
    simp only [Bool.or_eq_true, not_or, Bool.not_eq_true] at this
    have h1 := this.1
    simp only [ColSpec.elemInvalid, he] at h1
    exact helem a h1 this.2 (hw a ha)
  rcases v with a | xs | xs
  · simp [ColSpec.valueInvalid, hvm, ColSpec.isNullValue, ColSpec.nullValues, hn, NullVal.toPy, hvc,
      vSeq] at hv
  · by_cases hx : xs = []
    · subst hx
      exact ⟨[], by simp [ColSpec.render, hn, NullVal.toPy], by simp [seqOf]⟩
    · simp only [ColSpec.valueInvalid, hvm, ColSpec.isNullValue, ColSpec.nullValues, hn, NullVal.toPy,
        List.map_cons, List.map_nil, List.any_cons, List.any_nil, Accept.pyEq_nil_list, hx,
        decide_false, Bool.or_false, Bool.false_eq_true, if_false, hvc, runValidate_SequenceOfValuesColumn] at hv
      simp only [vSeq] at hv
      obtain ⟨t, ht, hacc'⟩ := hxs xs hwf (by simpa using hv)
      refine ⟨t, ?_, hacc'⟩
      simpa [ColSpec.render, hn, NullVal.toPy, hx, hsc, runString] using ht
  · simp only [ColSpec.valueInvalid, hvm, ColSpec.isNullValue, ColSpec.nullValues, hn, NullVal.toPy,
      List.map_cons, List.map_nil, List.any_cons, List.any_nil, PyVal.pyEq,
      Bool.or_false, Bool.false_eq_true, if_false, hvc, runValidate_SequenceOfValuesColumn] at hv
    simp only [vSeq] at hv
    obtain ⟨t, ht, hacc'⟩ := hxs xs hwf (by simpa using hv)
    refine ⟨t, ?_, hacc'⟩
    simpa [ColSpec.render, hn, NullVal.toPy, hsc, runString, PyVal.pyEq] using ht

section PerType

attribute [local simp] namedBuild nullOr intAtLeast ColSpec.render NullVal.toPy runString pyStr atomStr
  ColSpec.isNullValue ColSpec.nullValues lookupName capEnums
  plainEnums nullableEnums enumOf ColSpec.valueInvalid vIntRange asInt vStrand vDna vEnum vSeq
  isInstanceStr isInstanceInt isInstanceFloat isInstanceBool isInstanceUuid PyVal.truthy Atom.truthy
  pyInt_intStr intStr_ne_nil ValueWF AtomWF



/-! ### scalar column types -/

theorem rv_NullableStringColumn (C : Ctx) (v : PyVal) (hv : Expected.NullableStringColumn.valueInvalid v = false) (hwf : ValueWF C v) :
    ∃ t, Expected.NullableStringColumn.render C.enums v = .ok t ∧ (namedBuild ⟨C.enums, C.H⟩ "NullableStringColumn" t).isSome = true := by
  rcases v with a | xs | xs
  · cases a <;> simp [Expected.NullableStringColumn] at hv hwf ⊢
    split <;> rfl
  · simp [Expected.NullableStringColumn, PyVal.pyEq] at hv
  · simp [Expected.NullableStringColumn, PyVal.pyEq] at hv

theorem rv_StringColumn (C : Ctx) (v : PyVal) (hv : Expected.StringColumn.valueInvalid v = false) (hwf : ValueWF C v) :
    ∃ t, Expected.StringColumn.render C.enums v = .ok t ∧ (namedBuild ⟨C.enums, C.H⟩ "StringColumn" t).isSome = true := by
  rcases v with a | xs | xs
  · cases a <;> simp [Expected.StringColumn] at hv hwf ⊢
    exact hv
  · simp [Expected.StringColumn, PyVal.pyEq] at hv
  · simp [Expected.StringColumn, PyVal.pyEq] at hv

theorem rv_StringOrIntegerColumn (C : Ctx) (v : PyVal) (hv : Expected.StringOrIntegerColumn.valueInvalid v = false) (hwf : ValueWF C v) :
    ∃ t, Expected.StringOrIntegerColumn.render C.enums v = .ok t ∧ (namedBuild ⟨C.enums, C.H⟩ "StringOrIntegerColumn" t).isSome = true := by
  rcases v with a | xs | xs
  · cases a <;> simp [Expected.StringOrIntegerColumn] at hv hwf ⊢
    rename_i b; cases b <;> exact ⟨_, rfl⟩
  · simp [Expected.StringOrIntegerColumn, PyVal.pyEq] at hv
  · simp [Expected.StringOrIntegerColumn, PyVal.pyEq] at hv

theorem rv_StringIntegerOrFloatColumn (C : Ctx) (v : PyVal) (hv : Expected.StringIntegerOrFloatColumn.valueInvalid v = false) (hwf : ValueWF C v) :
    ∃ t, Expected.StringIntegerOrFloatColumn.render C.enums v = .ok t ∧ (namedBuild ⟨C.enums, C.H⟩ "StringIntegerOrFloatColumn" t).isSome = true := by
  rcases v with a | xs | xs
  · cases a <;> simp [Expected.StringIntegerOrFloatColumn] at hv hwf ⊢
    rename_i b; cases b <;> exact ⟨_, rfl⟩
  · simp [Expected.StringIntegerOrFloatColumn, PyVal.pyEq] at hv
  · simp [Expected.StringIntegerOrFloatColumn, PyVal.pyEq] at hv

theorem rv_IntegerColumn (C : Ctx) (v : PyVal) (hv : Expected.IntegerColumn.valueInvalid v = false) (hwf : ValueWF C v) :
    ∃ t, Expected.IntegerColumn.render C.enums v = .ok t ∧ (namedBuild ⟨C.enums, C.H⟩ "IntegerColumn" t).isSome = true := by
  rcases v with a | xs | xs
  · cases a <;> simp [Expected.IntegerColumn] at hv hwf ⊢

  · simp [Expected.IntegerColumn, PyVal.pyEq] at hv
  · simp [Expected.IntegerColumn, PyVal.pyEq] at hv

theorem rv_NullableIntegerColumn (C : Ctx) (v : PyVal) (hv : Expected.NullableIntegerColumn.valueInvalid v = false) (hwf : ValueWF C v) :
    ∃ t, Expected.NullableIntegerColumn.render C.enums v = .ok t ∧ (namedBuild ⟨C.enums, C.H⟩ "NullableIntegerColumn" t).isSome = true := by
  rcases v with a | xs | xs
  · cases a <;> simp [Expected.NullableIntegerColumn] at hv hwf ⊢

  · simp [Expected.NullableIntegerColumn, PyVal.pyEq] at hv
  · simp [Expected.NullableIntegerColumn, PyVal.pyEq] at hv

theorem rv_ZeroBasedIntegerColumn (C : Ctx) (v : PyVal) (hv : Expected.ZeroBasedIntegerColumn.valueInvalid v = false) (hwf : ValueWF C v) :
    ∃ t, Expected.ZeroBasedIntegerColumn.render C.enums v = .ok t ∧ (namedBuild ⟨C.enums, C.H⟩ "ZeroBasedIntegerColumn" t).isSome = true := by
  rcases v with a | xs | xs
  · cases a <;> simp [Expected.ZeroBasedIntegerColumn] at hv hwf ⊢
    exact hv
  · simp [Expected.ZeroBasedIntegerColumn, PyVal.pyEq] at hv
  · simp [Expected.ZeroBasedIntegerColumn, PyVal.pyEq] at hv

theorem rv_OneBasedIntegerColumn (C : Ctx) (v : PyVal) (hv : Expected.OneBasedIntegerColumn.valueInvalid v = false) (hwf : ValueWF C v) :
    ∃ t, Expected.OneBasedIntegerColumn.render C.enums v = .ok t ∧ (namedBuild ⟨C.enums, C.H⟩ "OneBasedIntegerColumn" t).isSome = true := by
  rcases v with a | xs | xs
  · cases a <;> simp [Expected.OneBasedIntegerColumn] at hv hwf ⊢
    exact hv
  · simp [Expected.OneBasedIntegerColumn, PyVal.pyEq] at hv
  · simp [Expected.OneBasedIntegerColumn, PyVal.pyEq] at hv

theorem rv_NullableZeroBasedIntegerColumn (C : Ctx) (v : PyVal) (hv : Expected.NullableZeroBasedIntegerColumn.valueInvalid v = false) (hwf : ValueWF C v) :
    ∃ t, Expected.NullableZeroBasedIntegerColumn.render C.enums v = .ok t ∧ (namedBuild ⟨C.enums, C.H⟩ "NullableZeroBasedIntegerColumn" t).isSome = true := by
  rcases v with a | xs | xs
  · cases a <;> simp [Expected.NullableZeroBasedIntegerColumn] at hv hwf ⊢
    exact hv
  · simp [Expected.NullableZeroBasedIntegerColumn, PyVal.pyEq] at hv
  · simp [Expected.NullableZeroBasedIntegerColumn, PyVal.pyEq] at hv

theorem rv_NullableOneBasedIntegerColumn (C : Ctx) (v : PyVal) (hv : Expected.NullableOneBasedIntegerColumn.valueInvalid v = false) (hwf : ValueWF C v) :
    ∃ t, Expected.NullableOneBasedIntegerColumn.render C.enums v = .ok t ∧ (namedBuild ⟨C.enums, C.H⟩ "NullableOneBasedIntegerColumn" t).isSome = true := by
  rcases v with a | xs | xs
  · cases a <;> simp [Expected.NullableOneBasedIntegerColumn] at hv hwf ⊢
    exact hv
  · simp [Expected.NullableOneBasedIntegerColumn, PyVal.pyEq] at hv
  · simp [Expected.NullableOneBasedIntegerColumn, PyVal.pyEq] at hv

theorem rv_EntrezGeneId (C : Ctx) (v : PyVal) (hv : Expected.EntrezGeneId.valueInvalid v = false) (hwf : ValueWF C v) :
    ∃ t, Expected.EntrezGeneId.render C.enums v = .ok t ∧ (namedBuild ⟨C.enums, C.H⟩ "EntrezGeneId" t).isSome = true := by
  rcases v with a | xs | xs
  · cases a <;> simp [Expected.EntrezGeneId] at hv hwf ⊢
    · decide
    · split <;> simp [hv]
  · simp [Expected.EntrezGeneId, PyVal.pyEq] at hv
  · simp [Expected.EntrezGeneId, PyVal.pyEq] at hv

theorem rv_FloatColumn (C : Ctx) (v : PyVal) (hv : Expected.FloatColumn.valueInvalid v = false) (hwf : ValueWF C v) :
    ∃ t, Expected.FloatColumn.render C.enums v = .ok t ∧ (namedBuild ⟨C.enums, C.H⟩ "FloatColumn" t).isSome = true := by
  rcases v with a | xs | xs
  · cases a <;> simp [Expected.FloatColumn] at hv hwf ⊢
    simp [hwf]
  · simp [Expected.FloatColumn, PyVal.pyEq] at hv
  · simp [Expected.FloatColumn, PyVal.pyEq] at hv

theorem rv_NullableFloatColumn (C : Ctx) (v : PyVal) (hv : Expected.NullableFloatColumn.valueInvalid v = false) (hwf : ValueWF C v) :
    ∃ t, Expected.NullableFloatColumn.render C.enums v = .ok t ∧ (namedBuild ⟨C.enums, C.H⟩ "NullableFloatColumn" t).isSome = true := by
  rcases v with a | xs | xs
  · cases a <;> simp [Expected.NullableFloatColumn] at hv hwf ⊢
    split <;> simp [hwf]
  · simp [Expected.NullableFloatColumn, PyVal.pyEq] at hv
  · simp [Expected.NullableFloatColumn, PyVal.pyEq] at hv

theorem rv_NullableDnaString (C : Ctx) (v : PyVal) (hv : Expected.NullableDnaString.valueInvalid v = false) (hwf : ValueWF C v) :
    ∃ t, Expected.NullableDnaString.render C.enums v = .ok t ∧ (namedBuild ⟨C.enums, C.H⟩ "NullableDnaString" t).isSome = true := by
  rcases v with a | xs | xs
  · cases a <;> simp [Expected.NullableDnaString] at hv hwf ⊢
    rename_i s
    by_cases h0 : s = []
    · simp [h0]
    · by_cases h1 : s = ['-']
      · simp [h1]
      · have : isDna s = true := by
          simp only [isDna, List.all_eq_true, Bool.or_eq_true, decide_eq_true_eq]
          exact hv h1
        simp [h0, h1, this]
  · simp [Expected.NullableDnaString, PyVal.pyEq] at hv
  · simp [Expected.NullableDnaString, PyVal.pyEq] at hv

theorem rv_DnaString (C : Ctx) (v : PyVal) (hv : Expected.DnaString.valueInvalid v = false) (hwf : ValueWF C v) :
    ∃ t, Expected.DnaString.render C.enums v = .ok t ∧ (namedBuild ⟨C.enums, C.H⟩ "DnaString" t).isSome = true := by
  rcases v with a | xs | xs
  · cases a <;> simp [Expected.DnaString] at hv hwf ⊢
    rename_i s
    obtain ⟨hd, h0⟩ := hv
    by_cases h1 : s = ['-']
    · simp [h1]
    · have : isDna s = true := by
        simp only [isDna, List.all_eq_true, Bool.or_eq_true, decide_eq_true_eq]
        intro x hx
        by_cases ha : x = 'A'
        · simp [ha]
        · by_cases hc : x = 'C'
          · simp [hc]
          · by_cases hg : x = 'G'
            · simp [hg]
            · simp [hd h1 x hx ha hc hg]
      simp [h0, h1, this]
  · simp [Expected.DnaString, PyVal.pyEq] at hv
  · simp [Expected.DnaString, PyVal.pyEq] at hv

theorem rv_Canonical (C : Ctx) (v : PyVal) (hv : Expected.Canonical.valueInvalid v = false) (hwf : ValueWF C v) :
    ∃ t, Expected.Canonical.render C.enums v = .ok t ∧ (namedBuild ⟨C.enums, C.H⟩ "Canonical" t).isSome = true := by
  rcases v with a | xs | xs
  · cases a <;> simp [Expected.Canonical] at hv hwf ⊢
    rename_i b; cases b <;> decide
  · simp [Expected.Canonical, PyVal.pyEq] at hv
  · simp [Expected.Canonical, PyVal.pyEq] at hv

theorem rv_BooleanColumn (C : Ctx) (v : PyVal) (hv : Expected.BooleanColumn.valueInvalid v = false) (hwf : ValueWF C v) :
    ∃ t, Expected.BooleanColumn.render C.enums v = .ok t ∧ (namedBuild ⟨C.enums, C.H⟩ "BooleanColumn" t).isSome = true := by
  rcases v with a | xs | xs
  · cases a <;> simp [Expected.BooleanColumn] at hv hwf ⊢
    rename_i b; cases b
    · exact ⟨_, rfl, by decide⟩
    · exact ⟨_, rfl, by decide⟩
  · simp [Expected.BooleanColumn, PyVal.pyEq] at hv
  · simp [Expected.BooleanColumn, PyVal.pyEq] at hv

theorem rv_TranscriptStrand (C : Ctx) (v : PyVal) (hv : Expected.TranscriptStrand.valueInvalid v = false) (hwf : ValueWF C v) :
    ∃ t, Expected.TranscriptStrand.render C.enums v = .ok t ∧ (namedBuild ⟨C.enums, C.H⟩ "TranscriptStrand" t).isSome = true := by
  rcases v with a | xs | xs
  · cases a <;> simp [Expected.TranscriptStrand] at hv hwf ⊢
    rename_i i; by_cases h : i = -1
    · exact Or.inl h
    · exact Or.inr (hv h)
  · simp [Expected.TranscriptStrand, PyVal.pyEq] at hv
  · simp [Expected.TranscriptStrand, PyVal.pyEq] at hv

theorem rv_UUIDColumn (C : Ctx) (v : PyVal) (hv : Expected.UUIDColumn.valueInvalid v = false) (hwf : ValueWF C v) :
    ∃ t, Expected.UUIDColumn.render C.enums v = .ok t ∧ (namedBuild ⟨C.enums, C.H⟩ "UUIDColumn" t).isSome = true := by
  have hwf' := hwf
  rcases v with a | xs | xs
  · cases a <;> simp [Expected.UUIDColumn] at hv hwf ⊢
    simp only [ValueWF, AtomWF] at hwf'
    simp [pyUuid_uuidStr _ hwf']
  · simp [Expected.UUIDColumn, PyVal.pyEq] at hv
  · simp [Expected.UUIDColumn, PyVal.pyEq] at hv

theorem rv_NullableUUIDColumn (C : Ctx) (v : PyVal) (hv : Expected.NullableUUIDColumn.valueInvalid v = false) (hwf : ValueWF C v) :
    ∃ t, Expected.NullableUUIDColumn.render C.enums v = .ok t ∧ (namedBuild ⟨C.enums, C.H⟩ "NullableUUIDColumn" t).isSome = true := by
  have hwf' := hwf
  rcases v with a | xs | xs
  · cases a <;> simp [Expected.NullableUUIDColumn] at hv hwf ⊢
    simp only [ValueWF, AtomWF] at hwf'
    simp [pyUuid_uuidStr _ hwf', uuidStr_ne_nil]
  · simp [Expected.NullableUUIDColumn, PyVal.pyEq] at hv
  · simp [Expected.NullableUUIDColumn, PyVal.pyEq] at hv

/-! ### enumerated column types -/

theorem rv_YesNoOrUnknown (C : Ctx) (v : PyVal) (hv : Expected.YesNoOrUnknown.valueInvalid v = false) (hwf : ValueWF C v) :
    ∃ t, Expected.YesNoOrUnknown.render C.enums v = .ok t ∧ (namedBuild ⟨C.enums, C.H⟩ "YesNoOrUnknown" t).isSome = true := by
  rcases v with a | xs | xs
  · cases a <;> simp [Expected.YesNoOrUnknown] at hv hwf ⊢
    subst hv
    obtain ⟨val, hval⟩ := Option.isSome_iff_exists.mp hwf
    exact ⟨val, by simp [hval], enumValue_lookup hval⟩
  · simp [Expected.YesNoOrUnknown, PyVal.pyEq] at hv
  · simp [Expected.YesNoOrUnknown, PyVal.pyEq] at hv

theorem rv_Strand (C : Ctx) (v : PyVal) (hv : Expected.Strand.valueInvalid v = false) (hwf : ValueWF C v) :
    ∃ t, Expected.Strand.render C.enums v = .ok t ∧ (namedBuild ⟨C.enums, C.H⟩ "Strand" t).isSome = true := by
  rcases v with a | xs | xs
  · cases a <;> simp [Expected.Strand] at hv hwf ⊢
    subst hv
    obtain ⟨val, hval⟩ := Option.isSome_iff_exists.mp hwf
    exact ⟨val, by simp [hval], enumValue_lookup hval⟩
  · simp [Expected.Strand, PyVal.pyEq] at hv
  · simp [Expected.Strand, PyVal.pyEq] at hv

theorem rv_VariantClassification (C : Ctx) (v : PyVal) (hv : Expected.VariantClassification.valueInvalid v = false) (hwf : ValueWF C v) :
    ∃ t, Expected.VariantClassification.render C.enums v = .ok t ∧ (namedBuild ⟨C.enums, C.H⟩ "VariantClassification" t).isSome = true := by
  rcases v with a | xs | xs
  · cases a <;> simp [Expected.VariantClassification] at hv hwf ⊢
    subst hv
    obtain ⟨val, hval⟩ := Option.isSome_iff_exists.mp hwf
    exact ⟨val, by simp [hval], enumValue_lookup hval⟩
  · simp [Expected.VariantClassification, PyVal.pyEq] at hv
  · simp [Expected.VariantClassification, PyVal.pyEq] at hv

theorem rv_VariantType (C : Ctx) (v : PyVal) (hv : Expected.VariantType.valueInvalid v = false) (hwf : ValueWF C v) :
    ∃ t, Expected.VariantType.render C.enums v = .ok t ∧ (namedBuild ⟨C.enums, C.H⟩ "VariantType" t).isSome = true := by
  rcases v with a | xs | xs
  · cases a <;> simp [Expected.VariantType] at hv hwf ⊢
    subst hv
    obtain ⟨val, hval⟩ := Option.isSome_iff_exists.mp hwf
    exact ⟨val, by simp [hval], enumValue_lookup hval⟩
  · simp [Expected.VariantType, PyVal.pyEq] at hv
  · simp [Expected.VariantType, PyVal.pyEq] at hv

theorem rv_VariantSupport (C : Ctx) (v : PyVal) (hv : Expected.VariantSupport.valueInvalid v = false) (hwf : ValueWF C v) :
    ∃ t, Expected.VariantSupport.render C.enums v = .ok t ∧ (namedBuild ⟨C.enums, C.H⟩ "VariantSupport" t).isSome = true := by
  rcases v with a | xs | xs
  · cases a <;> simp [Expected.VariantSupport] at hv hwf ⊢
    subst hv
    obtain ⟨val, hval⟩ := Option.isSome_iff_exists.mp hwf
    exact ⟨val, by simp [hval], enumValue_lookup hval⟩
  · simp [Expected.VariantSupport, PyVal.pyEq] at hv
  · simp [Expected.VariantSupport, PyVal.pyEq] at hv

theorem rv_MutationStatus (C : Ctx) (v : PyVal) (hv : Expected.MutationStatus.valueInvalid v = false) (hwf : ValueWF C v) :
    ∃ t, Expected.MutationStatus.render C.enums v = .ok t ∧ (namedBuild ⟨C.enums, C.H⟩ "MutationStatus" t).isSome = true := by
  rcases v with a | xs | xs
  · cases a <;> simp [Expected.MutationStatus] at hv hwf ⊢
    subst hv
    obtain ⟨val, hval⟩ := Option.isSome_iff_exists.mp hwf
    exact ⟨val, by simp [hval], enumValue_lookup hval⟩
  · simp [Expected.MutationStatus, PyVal.pyEq] at hv
  · simp [Expected.MutationStatus, PyVal.pyEq] at hv

theorem rv_Sequencer (C : Ctx) (v : PyVal) (hv : Expected.Sequencer.valueInvalid v = false) (hwf : ValueWF C v) :
    ∃ t, Expected.Sequencer.render C.enums v = .ok t ∧ (namedBuild ⟨C.enums, C.H⟩ "Sequencer" t).isSome = true := by
  rcases v with a | xs | xs
  · cases a <;> simp [Expected.Sequencer] at hv hwf ⊢
    subst hv
    obtain ⟨val, hval⟩ := Option.isSome_iff_exists.mp hwf
    exact ⟨val, by simp [hval], enumValue_lookup hval⟩
  · simp [Expected.Sequencer, PyVal.pyEq] at hv
  · simp [Expected.Sequencer, PyVal.pyEq] at hv

theorem rv_Impact (C : Ctx) (v : PyVal) (hv : Expected.Impact.valueInvalid v = false) (hwf : ValueWF C v) :
    ∃ t, Expected.Impact.render C.enums v = .ok t ∧ (namedBuild ⟨C.enums, C.H⟩ "Impact" t).isSome = true := by
  rcases v with a | xs | xs
  · cases a <;> simp [Expected.Impact] at hv hwf ⊢
    subst hv
    obtain ⟨val, hval⟩ := Option.isSome_iff_exists.mp hwf
    exact ⟨val, by simp [hval], enumValue_lookup hval⟩
  · simp [Expected.Impact, PyVal.pyEq] at hv
  · simp [Expected.Impact, PyVal.pyEq] at hv

theorem rv_MC3Overlap (C : Ctx) (v : PyVal) (hv : Expected.MC3Overlap.valueInvalid v = false) (hwf : ValueWF C v) :
    ∃ t, Expected.MC3Overlap.render C.enums v = .ok t ∧ (namedBuild ⟨C.enums, C.H⟩ "MC3Overlap" t).isSome = true := by
  rcases v with a | xs | xs
  · cases a <;> simp [Expected.MC3Overlap] at hv hwf ⊢
    subst hv
    obtain ⟨val, hval⟩ := Option.isSome_iff_exists.mp hwf
    exact ⟨val, by simp [hval], enumValue_lookup hval⟩
  · simp [Expected.MC3Overlap, PyVal.pyEq] at hv
  · simp [Expected.MC3Overlap, PyVal.pyEq] at hv

theorem rv_GdcValidationStatus (C : Ctx) (v : PyVal) (hv : Expected.GdcValidationStatus.valueInvalid v = false) (hwf : ValueWF C v) :
    ∃ t, Expected.GdcValidationStatus.render C.enums v = .ok t ∧ (namedBuild ⟨C.enums, C.H⟩ "GdcValidationStatus" t).isSome = true := by
  rcases v with a | xs | xs
  · cases a <;> simp [Expected.GdcValidationStatus] at hv hwf ⊢
    subst hv
    obtain ⟨val, hval⟩ := Option.isSome_iff_exists.mp hwf
    exact ⟨val, by simp [hval], enumValue_lookup hval⟩
  · simp [Expected.GdcValidationStatus, PyVal.pyEq] at hv
  · simp [Expected.GdcValidationStatus, PyVal.pyEq] at hv

theorem rv_VerificationStatus (C : Ctx) (v : PyVal) (hv : Expected.VerificationStatus.valueInvalid v = false) (hwf : ValueWF C v) :
    ∃ t, Expected.VerificationStatus.render C.enums v = .ok t ∧ (namedBuild ⟨C.enums, C.H⟩ "VerificationStatus" t).isSome = true := by
  rcases v with a | xs | xs
  · cases a <;> simp [Expected.VerificationStatus] at hv hwf ⊢
    subst hv
    obtain ⟨val, hval⟩ := Option.isSome_iff_exists.mp hwf
    refine ⟨val, by simp [hval], ?_⟩
    split
    · rfl
    · have := enumValue_lookup hval
      obtain ⟨m', hm'⟩ := Option.isSome_iff_exists.mp this
      simp [hm']
  · simp [Expected.VerificationStatus, PyVal.pyEq] at hv
  · simp [Expected.VerificationStatus, PyVal.pyEq] at hv

theorem rv_ValidationStatus (C : Ctx) (v : PyVal) (hv : Expected.ValidationStatus.valueInvalid v = false) (hwf : ValueWF C v) :
    ∃ t, Expected.ValidationStatus.render C.enums v = .ok t ∧ (namedBuild ⟨C.enums, C.H⟩ "ValidationStatus" t).isSome = true := by
  rcases v with a | xs | xs
  · cases a <;> simp [Expected.ValidationStatus] at hv hwf ⊢
    subst hv
    obtain ⟨val, hval⟩ := Option.isSome_iff_exists.mp hwf
    refine ⟨val, by simp [hval], ?_⟩
    split
    · rfl
    · have := enumValue_lookup hval
      obtain ⟨m', hm'⟩ := Option.isSome_iff_exists.mp this
      simp [hm']
  · simp [Expected.ValidationStatus, PyVal.pyEq] at hv
  · simp [Expected.ValidationStatus, PyVal.pyEq] at hv

theorem rv_FeatureType (C : Ctx) (v : PyVal) (hv : Expected.FeatureType.valueInvalid v = false) (hwf : ValueWF C v) :
    ∃ t, Expected.FeatureType.render C.enums v = .ok t ∧ (namedBuild ⟨C.enums, C.H⟩ "FeatureType" t).isSome = true := by
  rcases v with a | xs | xs
  · cases a <;> simp [Expected.FeatureType] at hv hwf ⊢
    subst hv
    obtain ⟨val, hval⟩ := Option.isSome_iff_exists.mp hwf
    refine ⟨val, by simp [hval], ?_⟩
    split
    · rfl
    · have := enumValue_lookup hval
      obtain ⟨m', hm'⟩ := Option.isSome_iff_exists.mp this
      simp [hm']
  · simp [Expected.FeatureType, PyVal.pyEq] at hv
  · simp [Expected.FeatureType, PyVal.pyEq] at hv

theorem rv_NullableYesOrNo (C : Ctx) (hE : EnumsOK C.enums) (v : PyVal) (hv : Expected.NullableYesOrNo.valueInvalid v = false) (hwf : ValueWF C v) :
    ∃ t, Expected.NullableYesOrNo.render C.enums v = .ok t ∧ (namedBuild ⟨C.enums, C.H⟩ "NullableYesOrNo" t).isSome = true := by
  rcases v with a | xs | xs
  · by_cases hn : a = .enum "NullableYesOrNoEnum" "Null"
    · subst hn
      exact ⟨[], rfl, by simp⟩
    · cases a <;> simp [Expected.NullableYesOrNo] at hv hwf hn ⊢
      rename_i c m
      have hc : c = "NullableYesOrNoEnum" := by
        by_cases h : c = "NullableYesOrNoEnum"
        · exact h
        · exact hv (Or.inl h)
      subst hc
      simp only [true_and] at hn
      obtain ⟨val, hval⟩ := Option.isSome_iff_exists.mp hwf
      refine ⟨val, by simp [hn, hval], ?_⟩
      split
      · rfl
      · rw [enumValue_cap hE (by decide) hval]
        have := enumValue_lookup hval
        obtain ⟨m', hm'⟩ := Option.isSome_iff_exists.mp this
        simp [hm']
  · simp [Expected.NullableYesOrNo, PyVal.pyEq] at hv
  · simp [Expected.NullableYesOrNo, PyVal.pyEq] at hv

theorem rv_NullableYOrN (C : Ctx) (hE : EnumsOK C.enums) (v : PyVal) (hv : Expected.NullableYOrN.valueInvalid v = false) (hwf : ValueWF C v) :
    ∃ t, Expected.NullableYOrN.render C.enums v = .ok t ∧ (namedBuild ⟨C.enums, C.H⟩ "NullableYOrN" t).isSome = true := by
  rcases v with a | xs | xs
  · by_cases hn : a = .enum "NullableYOrNEnum" "Null"
    · subst hn
      exact ⟨[], rfl, by simp⟩
    · cases a <;> simp [Expected.NullableYOrN] at hv hwf hn ⊢
      rename_i c m
      have hc : c = "NullableYOrNEnum" := by
        by_cases h : c = "NullableYOrNEnum"
        · exact h
        · exact hv (Or.inl h)
      subst hc
      simp only [true_and] at hn
      obtain ⟨val, hval⟩ := Option.isSome_iff_exists.mp hwf
      refine ⟨val, by simp [hn, hval], ?_⟩
      split
      · rfl
      · rw [enumValue_cap hE (by decide) hval]
        have := enumValue_lookup hval
        obtain ⟨m', hm'⟩ := Option.isSome_iff_exists.mp this
        simp [hm']
  · simp [Expected.NullableYOrN, PyVal.pyEq] at hv
  · simp [Expected.NullableYOrN, PyVal.pyEq] at hv

theorem rv_PickColumn (C : Ctx) (hE : EnumsOK C.enums) (v : PyVal) (hv : Expected.PickColumn.valueInvalid v = false) (hwf : ValueWF C v) :
    ∃ t, Expected.PickColumn.render C.enums v = .ok t ∧ (namedBuild ⟨C.enums, C.H⟩ "PickColumn" t).isSome = true := by
  rcases v with a | xs | xs
  · by_cases hn : a = .enum "PickEnum" "Null"
    · subst hn
      exact ⟨[], rfl, by simp⟩
    · cases a <;> simp [Expected.PickColumn] at hv hwf hn ⊢
      rename_i c m
      have hc : c = "PickEnum" := by
        by_cases h : c = "PickEnum"
        · exact h
        · exact hv (Or.inl h)
      subst hc
      simp only [true_and] at hn
      obtain ⟨val, hval⟩ := Option.isSome_iff_exists.mp hwf
      refine ⟨val, by simp [hn, hval], ?_⟩
      split
      · rfl
      · rw [enumValue_cap hE (by decide) hval]
        have := enumValue_lookup hval
        obtain ⟨m', hm'⟩ := Option.isSome_iff_exists.mp this
        simp [hm']
  · simp [Expected.PickColumn, PyVal.pyEq] at hv
  · simp [Expected.PickColumn, PyVal.pyEq] at hv

/-! ### sequence column types -/

theorem rv_SequenceOfStrings (C : Ctx) (v : PyVal) (hv : Expected.SequenceOfStrings.valueInvalid v = false) (hwf : ValueWF C v) :
    ∃ t, Expected.SequenceOfStrings.render C.enums v = .ok t ∧ (namedBuild ⟨C.enums, C.H⟩ "SequenceOfStrings" t).isSome = true := by
  have ha := seqAcc (elem := "StringColumn") (Accept.accept_SequenceOfStrings C) (fun t => by simp [namedBuild])
  obtain ⟨t, hr, hacc⟩ := rv_seq C Expected.SequenceOfStrings _ "StringColumn" ha rfl rfl rfl rfl rfl (by
    intro a h1 h2 hw
    cases a <;> simp [hasListSep] at h1 h2
    rename_i s
    exact ⟨s, rfl, h2, by simp [elemBuild, h1]⟩) v hv hwf
  exact ⟨t, hr, by rw [← Accept.accept_SequenceOfStrings]; exact hacc⟩

theorem rv_SequenceOfIntegers (C : Ctx) (v : PyVal) (hv : Expected.SequenceOfIntegers.valueInvalid v = false) (hwf : ValueWF C v) :
    ∃ t, Expected.SequenceOfIntegers.render C.enums v = .ok t ∧ (namedBuild ⟨C.enums, C.H⟩ "SequenceOfIntegers" t).isSome = true := by
  have ha := seqAcc (elem := "IntegerColumn") (Accept.accept_SequenceOfIntegers C) (fun t => by simp [namedBuild])
  obtain ⟨t, hr, hacc⟩ := rv_seq C Expected.SequenceOfIntegers _ "IntegerColumn" ha rfl rfl rfl rfl rfl (by
    intro a h1 hs hw
    cases a <;> simp at h1
    rename_i i
    exact ⟨intStr i, rfl, (fieldClean_intStr i).2, by simp [elemBuild, pyInt_intStr]⟩) v hv hwf
  exact ⟨t, hr, by rw [← Accept.accept_SequenceOfIntegers]; exact hacc⟩

theorem rv_SequenceOfSequencers (C : Ctx) (hE : EnumsOK C.enums) (v : PyVal) (hv : Expected.SequenceOfSequencers.valueInvalid v = false) (hwf : ValueWF C v) :
    ∃ t, Expected.SequenceOfSequencers.render C.enums v = .ok t ∧ (namedBuild ⟨C.enums, C.H⟩ "SequenceOfSequencers" t).isSome = true := by
  have ha := seqAcc (elem := "Sequencer") (Accept.accept_SequenceOfSequencers C) (fun t => by simp [namedBuild])
  obtain ⟨t, hr, hacc⟩ := rv_seq C Expected.SequenceOfSequencers _ "Sequencer" ha rfl rfl rfl rfl rfl (by
    intro a h1 hs h3
    cases a <;> simp at h1 h3
    rename_i c m
    subst h1
    obtain ⟨val, hval⟩ := Option.isSome_iff_exists.mp h3
    have hl := enumValue_lookup hval
    obtain ⟨m', hm'⟩ := Option.isSome_iff_exists.mp hl
    exact ⟨val, by simp [hval], (fieldClean_of_cleanValue val (enumValue_clean hE hval)).2,
      by simp [elemBuild, hm']⟩) v hv hwf
  exact ⟨t, hr, by rw [← Accept.accept_SequenceOfSequencers]; exact hacc⟩

theorem rv_SequenceOfNullableYesOrNo (C : Ctx) (hE : EnumsOK C.enums) (v : PyVal) (hv : Expected.SequenceOfNullableYesOrNo.valueInvalid v = false) (hwf : ValueWF C v) :
    ∃ t, Expected.SequenceOfNullableYesOrNo.render C.enums v = .ok t ∧ (namedBuild ⟨C.enums, C.H⟩ "SequenceOfNullableYesOrNo" t).isSome = true := by
  have ha := seqAcc (elem := "NullableYesOrNo") (Accept.accept_SequenceOfNullableYesOrNo C) (fun t => by simp [namedBuild])
  obtain ⟨t, hr, hacc⟩ := rv_seq C Expected.SequenceOfNullableYesOrNo _ "NullableYesOrNo" ha rfl rfl rfl rfl rfl (by
    intro a h1 hs h3
    cases a <;> simp at h1 h3
    rename_i c m
    subst h1
    obtain ⟨val, hval⟩ := Option.isSome_iff_exists.mp h3
    have hl := enumValue_lookup hval
    obtain ⟨m', hm'⟩ := Option.isSome_iff_exists.mp hl
    exact ⟨val, by simp [hval], (fieldClean_of_cleanValue val (enumValue_clean hE hval)).2,
      by simp [elemBuild, enumValue_cap hE (by decide) hval, hm']⟩) v hv hwf
  exact ⟨t, hr, by rw [← Accept.accept_SequenceOfNullableYesOrNo]; exact hacc⟩

end PerType

/-! ### all column types of the development -/

/-- every named column type: a valid, well-formed value renders (without failure) to a
    text in the documented domain of the type -/
theorem rv_named (C : Ctx) (hE : EnumsOK C.enums) (n : String) (sp : ColSpec)
    (h : Expected.namedSpec n = some sp) (v : PyVal) (hv : sp.valueInvalid v = false)
    (hwf : ValueWF C v) :
    ∃ t, sp.render C.enums v = .ok t ∧ (namedBuild ⟨C.enums, C.H⟩ n t).isSome = true := by
  have hm := Builtin.named_mem n sp h
  simp only [Expected.named, List.mem_cons, Prod.mk.injEq, List.mem_nil_iff, or_false] at hm
  rcases hm with ⟨rfl, rfl⟩ | ⟨rfl, rfl⟩ | ⟨rfl, rfl⟩ | ⟨rfl, rfl⟩ | ⟨rfl, rfl⟩ | ⟨rfl, rfl⟩ | ⟨rfl, rfl⟩ | ⟨rfl, rfl⟩ | ⟨rfl, rfl⟩ | ⟨rfl, rfl⟩ | ⟨rfl, rfl⟩ | ⟨rfl, rfl⟩ | ⟨rfl, rfl⟩ | ⟨rfl, rfl⟩ | ⟨rfl, rfl⟩ | ⟨rfl, rfl⟩ | ⟨rfl, rfl⟩ | ⟨rfl, rfl⟩ | ⟨rfl, rfl⟩ | ⟨rfl, rfl⟩ | ⟨rfl, rfl⟩ | ⟨rfl, rfl⟩ | ⟨rfl, rfl⟩ | ⟨rfl, rfl⟩ | ⟨rfl, rfl⟩ | ⟨rfl, rfl⟩ | ⟨rfl, rfl⟩ | ⟨rfl, rfl⟩ | ⟨rfl, rfl⟩ | ⟨rfl, rfl⟩ | ⟨rfl, rfl⟩ | ⟨rfl, rfl⟩ | ⟨rfl, rfl⟩ | ⟨rfl, rfl⟩ | ⟨rfl, rfl⟩ | ⟨rfl, rfl⟩ | ⟨rfl, rfl⟩ | ⟨rfl, rfl⟩ | ⟨rfl, rfl⟩ | ⟨rfl, rfl⟩
  · exact rv_NullableStringColumn C v hv hwf
  · exact rv_StringColumn C v hv hwf
  · exact rv_StringOrIntegerColumn C v hv hwf
  · exact rv_StringIntegerOrFloatColumn C v hv hwf
  · exact rv_IntegerColumn C v hv hwf
  · exact rv_NullableIntegerColumn C v hv hwf
  · exact rv_ZeroBasedIntegerColumn C v hv hwf
  · exact rv_OneBasedIntegerColumn C v hv hwf
  · exact rv_NullableZeroBasedIntegerColumn C v hv hwf
  · exact rv_NullableOneBasedIntegerColumn C v hv hwf
  · exact rv_EntrezGeneId C v hv hwf
  · exact rv_FloatColumn C v hv hwf
  · exact rv_NullableFloatColumn C v hv hwf
  · exact rv_SequenceOfStrings C v hv hwf
  · exact rv_SequenceOfIntegers C v hv hwf
  · exact rv_SequenceOfNullableYesOrNo C hE v hv hwf
  · exact rv_SequenceOfSequencers C hE v hv hwf
  · exact rv_NullableDnaString C v hv hwf
  · exact rv_DnaString C v hv hwf
  · exact rv_Canonical C v hv hwf
  · exact rv_BooleanColumn C v hv hwf
  · exact rv_UUIDColumn C v hv hwf
  · exact rv_NullableUUIDColumn C v hv hwf
  · exact rv_TranscriptStrand C v hv hwf
  · exact rv_YesNoOrUnknown C v hv hwf
  · exact rv_Strand C v hv hwf
  · exact rv_VariantClassification C v hv hwf
  · exact rv_VariantType C v hv hwf
  · exact rv_VariantSupport C v hv hwf
  · exact rv_MutationStatus C v hv hwf
  · exact rv_Sequencer C v hv hwf
  · exact rv_Impact C v hv hwf
  · exact rv_MC3Overlap C v hv hwf
  · exact rv_GdcValidationStatus C v hv hwf
  · exact rv_VerificationStatus C v hv hwf
  · exact rv_ValidationStatus C v hv hwf
  · exact rv_FeatureType C v hv hwf
  · exact rv_NullableYesOrNo C hE v hv hwf
  · exact rv_NullableYOrN C hE v hv hwf
  · exact rv_PickColumn C hE v hv hwf

/-- a `RequireNullValue` redefinition: the only valid value is `None`, which renders `""` -/
theorem rv_masked (C : Ctx) (b : String) (sp : ColSpec)
    (h : Builtin.expectedOf (.mixed "RequireNullValue" (.named b)) = some sp)
    (v : PyVal) (hv : sp.valueInvalid v = false) :
    v = .atom .none ∧ sp.render C.enums v = .ok [] ∧ (sp.accept C false []).isSome = true := by
  have hspec := Builtin.accept_mixed C b sp [] h
  simp only [Builtin.expectedOf] at h
  split at h
  · rename_i hc
    have hmem := hc.2
    simp only [Builtin.maskable, List.mem_cons, List.mem_nil_iff, or_false] at hmem
    rcases hmem with rfl | rfl
    · have he : Expected.namedSpec "NullableDnaString" = some Expected.NullableDnaString := by decide
      rw [he] at h; simp at h; subst h
      have hvn : v = .atom .none := by
        rcases v with a | xs | xs
        · cases a <;> simp [Expected.NullableDnaString, ColSpec.valueInvalid, ColSpec.isNullValue,
            ColSpec.nullValues, NullVal.toPy] at hv ⊢
        · simp [Expected.NullableDnaString, ColSpec.valueInvalid, ColSpec.isNullValue,
            ColSpec.nullValues, NullVal.toPy, PyVal.pyEq] at hv
        · simp [Expected.NullableDnaString, ColSpec.valueInvalid, ColSpec.isNullValue,
            ColSpec.nullValues, NullVal.toPy, PyVal.pyEq] at hv
      subst hvn
      refine ⟨rfl, rfl, ?_⟩
      rw [hspec]
      simp [specBuild, namedBuild, nullOr, namedNulls, baseName]
    · have he : Expected.namedSpec "NullableZeroBasedIntegerColumn" = some Expected.NullableZeroBasedIntegerColumn := by decide
      rw [he] at h; simp at h; subst h
      have hvn : v = .atom .none := by
        rcases v with a | xs | xs
        · cases a <;> simp [Expected.NullableZeroBasedIntegerColumn, ColSpec.valueInvalid, ColSpec.isNullValue,
            ColSpec.nullValues, NullVal.toPy] at hv ⊢
        · simp [Expected.NullableZeroBasedIntegerColumn, ColSpec.valueInvalid, ColSpec.isNullValue,
            ColSpec.nullValues, NullVal.toPy, PyVal.pyEq] at hv
        · simp [Expected.NullableZeroBasedIntegerColumn, ColSpec.valueInvalid, ColSpec.isNullValue,
            ColSpec.nullValues, NullVal.toPy, PyVal.pyEq] at hv
      subst hvn
      refine ⟨rfl, rfl, ?_⟩
      rw [hspec]
      simp [specBuild, namedBuild, nullOr, namedNulls, baseName]
  · simp at h

/-- **a value that validates renders to an accepted text** — every column type of the
    development (named types and `RequireNullValue` redefinitions) -/
theorem valid_render_accepted (C : Ctx) (hE : EnumsOK C.enums) (ty : ColType) (sp : ColSpec)
    (h : Builtin.expectedOf ty = some sp) (v : PyVal) (hv : sp.valueInvalid v = false)
    (hwf : ValueWF C v) :
    ∃ t, sp.render C.enums v = .ok t ∧ (sp.accept C false t).isSome = true := by
  cases ty with
  | named n =>
    simp only [Builtin.expectedOf] at h
    obtain ⟨t, hr, ha⟩ := rv_named C hE n sp h v hv hwf
    exact ⟨t, hr, by rw [Builtin.accept_named C n sp t h]; exact ha⟩
  | mixed extra b =>
    cases b with
    | named n =>
      have hx : extra = "RequireNullValue" := by
        simp only [Builtin.expectedOf] at h
        split at h
        · rename_i hc; exact hc.1
        · simp at h
      subst hx
      obtain ⟨_, hr, ha⟩ := rv_masked C n sp h v hv
      exact ⟨[], hr, ha⟩
    | mixed e2 b2 => simp [Builtin.expectedOf] at h

end RenderValid
