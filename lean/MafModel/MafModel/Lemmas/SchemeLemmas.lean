/-
  Lemmas for C14 (scheme resolution and inheritance): Python-dict association
  lists, the `combine_columns` normal form, the `build_schemes` loop invariant
  and the declarative layout `Spec.resolve`.
-/
import MafModel.Spec.Layout
open Py Model

namespace SchemeLemmas

/-! ### Python dictionaries as association lists -/

section Dict
variable {β : Type}

theorem any_key_iff (d : List (String × β)) (k : String) :
    d.any (fun p => p.1 == k) = true ↔ k ∈ d.map (·.1) := by
  simp only [List.any_eq_true, List.mem_map, beq_iff_eq]

theorem dictGet_isSome_iff (d : List (String × β)) (k : String) :
    (dictGet d k).isSome = true ↔ k ∈ d.map (·.1) := by
  unfold dictGet
  rw [Option.isSome_map, List.find?_isSome]
  simp only [List.mem_map, beq_iff_eq]

theorem dictGet_isNone_iff (d : List (String × β)) (k : String) :
    (dictGet d k).isNone = true ↔ k ∉ d.map (·.1) := by
  rw [← dictGet_isSome_iff]
  cases dictGet d k <;> simp

theorem dictGet_eq_none_iff (d : List (String × β)) (k : String) :
    dictGet d k = none ↔ k ∉ d.map (·.1) := by
  rw [← dictGet_isNone_iff]; cases dictGet d k <;> simp

theorem mem_of_dictGet {d : List (String × β)} {k : String} {v : β} (h : dictGet d k = some v) :
    (k, v) ∈ d := by
  unfold dictGet at h
  cases hf : List.find? (fun p => p.1 == k) d with
  | none => rw [hf] at h; simp at h
  | some p =>
    rw [hf] at h
    have h1 := List.find?_some hf
    have h2 := List.mem_of_find?_eq_some hf
    simp only [beq_iff_eq] at h1
    simp only [Option.map_some, Option.some.injEq] at h
    subst h; subst h1; exact h2

theorem key_mem_of_dictGet {d : List (String × β)} {k : String} {v : β} (h : dictGet d k = some v) :
    k ∈ d.map (·.1) :=
  List.mem_map.2 ⟨_, mem_of_dictGet h, rfl⟩

theorem dictGet_of_mem_nodup {d : List (String × β)} {k : String} {v : β}
    (hnd : (d.map (·.1)).Nodup) (h : (k, v) ∈ d) : dictGet d k = some v := by
  induction d with
  | nil => simp at h
  | cons p d ih =>
    simp only [List.map_cons, List.nodup_cons] at hnd
    unfold dictGet
    rw [List.find?_cons]
    rcases List.mem_cons.1 h with h | h
    · subst h; simp
    · have : p.1 ≠ k := by
        intro e; apply hnd.1; rw [e]; exact List.mem_map.2 ⟨_, h, rfl⟩
      have hb : (p.1 == k) = false := by simpa using this
      rw [hb]
      exact ih hnd.2 h

theorem dictGet_append_of_not_mem (d : List (String × β)) (k : String) (v : β) (k' : String)
    (hk : k ∉ d.map (·.1)) :
    dictGet (d ++ [(k, v)]) k' = if k' = k then some v else dictGet d k' := by
  unfold dictGet
  rw [List.find?_append]
  by_cases e : k' = k
  · subst e
    have : List.find? (fun p => p.1 == k') d = none := by
      rw [List.find?_eq_none]
      intro p hp hpk
      simp only [beq_iff_eq] at hpk
      exact hk (List.mem_map.2 ⟨p, hp, hpk⟩)
    simp [this]
  · have hb : (k == k') = false := by simpa using fun h => e h.symm
    simp [e, hb]

theorem dictSet_of_not_mem {d : List (String × β)} {k : String} (v : β) (h : k ∉ d.map (·.1)) :
    dictSet d k v = d ++ [(k, v)] := by
  unfold dictSet
  have : d.any (fun p => p.1 == k) = false := by
    rw [Bool.eq_false_iff]; intro e; exact h ((any_key_iff d k).1 e)
  rw [this]; rfl

theorem dictSet_of_mem {d : List (String × β)} {k : String} (v : β) (h : k ∈ d.map (·.1)) :
    dictSet d k v = d.map (fun p => if p.1 == k then (k, v) else p) := by
  unfold dictSet
  rw [(any_key_iff d k).2 h]; rfl

theorem dictSet_names_of_mem {d : List (String × β)} {k : String} (v : β) (h : k ∈ d.map (·.1)) :
    (dictSet d k v).map (·.1) = d.map (·.1) := by
  rw [dictSet_of_mem v h, List.map_map]
  apply List.map_congr_left
  intro p _
  simp only [Function.comp]
  split
  · rename_i e; simp only [beq_iff_eq] at e; exact e.symm
  · rfl

theorem foldl_dictSet_fresh (l d : List (String × β))
    (hl : (l.map (·.1)).Nodup) (hd : ∀ k ∈ l.map (·.1), k ∉ d.map (·.1)) :
    l.foldl (fun d p => dictSet d p.1 p.2) d = d ++ l := by
  induction l generalizing d with
  | nil => simp
  | cons p l ih =>
    simp only [List.map_cons, List.nodup_cons] at hl
    rw [List.foldl_cons, dictSet_of_not_mem _ (hd p.1 (by simp))]
    rw [ih _ hl.2]
    · simp
    · intro k hk
      simp only [List.map_append, List.map_cons, List.map_nil, List.mem_append, List.mem_singleton, not_or]
      refine ⟨hd k (by simp [hk]), ?_⟩
      rintro rfl; exact hl.1 hk

theorem dictOfList_nodup (l : List (String × β)) (hl : (l.map (·.1)).Nodup) : dictOfList l = l := by
  unfold dictOfList
  rw [foldl_dictSet_fresh l [] hl (by simp)]; simp

end Dict

/-! ### list helpers -/

theorem perm_cons_eraseIdx {α} {l : List α} {i : Nat} {a : α} (h : l[i]? = some a) :
    (a :: l.eraseIdx i).Perm l := by
  induction l generalizing i with
  | nil => simp at h
  | cons x l ih =>
    cases i with
    | zero => simp at h; subst h; simp
    | succ i =>
      simp only [List.getElem?_cons_succ] at h
      simp only [List.eraseIdx_cons_succ]
      exact (List.Perm.swap x a _).trans ((ih h).cons x)


theorem map_fst_filter {β} (q : String → Bool) (l : List (String × β)) :
    (l.filter (fun c => q c.1)).map (·.1) = (l.map (·.1)).filter q := by
  rw [List.filter_map]; rfl

/-! ### `combine_columns` -/

def mixUid (ann : String) (ex : String × String) (bcls : String) (k : Nat) : String :=
  "(" ++ ex.2 ++ "+" ++ bcls ++ ")@" ++ ann ++ "#" ++ ex.1 ++ "#" ++ toString k

/-- one step of the first loop of `combine_columns` (the model's own lambda) -/
def mixStep (ann : String) (acc : BuildState × List (String × String) × Nat) (ex : String × String) :
    BuildState × List (String × String) × Nat :=
  match dictGet acc.2.1 ex.1 with
  | some bcls =>
    ({ acc.1 with tbl := acc.1.tbl ++ [extendClass acc.1.order (mixUid ann ex bcls acc.2.2) bcls ex.2 (pyNameOf acc.1.tbl bcls)] },
      dictSet acc.2.1 ex.1 (mixUid ann ex bcls acc.2.2), acc.2.2 + 1)
  | none => (acc.1, acc.2.1, acc.2.2 + 1)

def finishCols (cols2 : List (String × String)) (st1 : BuildState) (filtered : Option (List String)) :
    Except PyErr (BuildState × List (String × String)) :=
  match filtered with
  | none => .ok (st1, cols2)
  | some f =>
    if f.any (fun n => (dictGet cols2 n).isNone) then .error .value
    else .ok (st1, cols2.filter (fun p => !f.contains p.1))

theorem combineColumns_def (st : BuildState) (ann : String) (base extra : List (String × String))
    (filtered : Option (List String)) :
    combineColumns st ann base extra filtered =
      finishCols (List.foldl (fun d p => dictSet d p.1 p.2) (extra.foldl (mixStep ann) (st, dictOfList base, 0)).2.1
          (extra.filter (fun ex => (dictGet (extra.foldl (mixStep ann) (st, dictOfList base, 0)).2.1 ex.1).isNone)))
        (extra.foldl (mixStep ann) (st, dictOfList base, 0)).1 filtered := by
  rfl

theorem mixStep_names (ann : String) (acc) (ex : String × String) :
    (mixStep ann acc ex).2.1.map (·.1) = acc.2.1.map (·.1) := by
  unfold mixStep
  split
  · rename_i bcls h
    exact dictSet_names_of_mem _ (key_mem_of_dictGet h)
  · rfl

theorem mixStep_order (ann : String) (acc) (ex : String × String) :
    (mixStep ann acc ex).1.order = acc.1.order := by
  unfold mixStep; split <;> rfl

theorem mixStep_tbl (ann : String) (acc) (ex : String × String) :
    ∃ ext, (mixStep ann acc ex).1.tbl = acc.1.tbl ++ ext := by
  unfold mixStep; split
  · exact ⟨_, rfl⟩
  · exact ⟨[], by simp⟩

theorem mixFold_names (ann : String) (extra : List (String × String)) (acc) :
    (extra.foldl (mixStep ann) acc).2.1.map (·.1) = acc.2.1.map (·.1) := by
  induction extra generalizing acc with
  | nil => rfl
  | cons x xs ih => rw [List.foldl_cons, ih, mixStep_names]

theorem mixFold_order (ann : String) (extra : List (String × String)) (acc) :
    (extra.foldl (mixStep ann) acc).1.order = acc.1.order := by
  induction extra generalizing acc with
  | nil => rfl
  | cons x xs ih => rw [List.foldl_cons, ih, mixStep_order]

theorem mixFold_tbl (ann : String) (extra : List (String × String)) (acc) :
    ∃ ext, (extra.foldl (mixStep ann) acc).1.tbl = acc.1.tbl ++ ext := by
  induction extra generalizing acc with
  | nil => exact ⟨[], by simp⟩
  | cons x xs ih =>
    obtain ⟨e1, h1⟩ := mixStep_tbl ann acc x
    obtain ⟨e2, h2⟩ := ih (mixStep ann acc x)
    exact ⟨e1 ++ e2, by rw [List.foldl_cons, h2, h1, List.append_assoc]⟩

/-- all column names of a derived layout before filtering -/
def allNames (bn : List String) (ex : List (String × String)) : List String :=
  bn ++ (ex.map (·.1)).filter (fun n => !bn.contains n)

def layoutNames (bn : List String) (ex : List (String × String)) (filt : Option (List String)) : List String :=
  match filt with
  | none => allNames bn ex
  | some f => (allNames bn ex).filter (fun n => !f.contains n)

/-- every filtered name exists -/
def filtOK (bn : List String) (ex : List (String × String)) (filt : Option (List String)) : Bool :=
  match filt with
  | none => true
  | some f => f.all (fun n => (allNames bn ex).contains n)

theorem nodup_allNames {bn : List String} {ex : List (String × String)}
    (hb : bn.Nodup) (hex : (ex.map (·.1)).Nodup) : (allNames bn ex).Nodup := by
  unfold allNames
  rw [List.nodup_append]
  refine ⟨hb, hex.filter _, ?_⟩
  intro a ha b hb' e
  subst e
  simp only [List.mem_filter, List.contains_eq_mem, Bool.not_eq_eq_eq_not, Bool.not_true,
    decide_eq_false_iff_not] at hb'
  exact hb'.2 ha

theorem nodup_layoutNames {bn : List String} {ex : List (String × String)} (filt)
    (hb : bn.Nodup) (hex : (ex.map (·.1)).Nodup) : (layoutNames bn ex filt).Nodup := by
  unfold layoutNames
  split
  · exact nodup_allNames hb hex
  · exact (nodup_allNames hb hex).filter _

/-- the second half of `combine_columns`, with the dictionary operations resolved -/
theorem combineColumns_cols2 (st : BuildState) (ann : String) (base extra : List (String × String))
    (hb : (base.map (·.1)).Nodup) (hex : (extra.map (·.1)).Nodup) :
    ∃ cols1, (extra.foldl (mixStep ann) (st, base, 0)).2.1 = cols1 ∧ cols1.map (·.1) = base.map (·.1) ∧
      ∀ filtered, combineColumns st ann base extra filtered =
        finishCols (cols1 ++ extra.filter (fun c => !(base.map (·.1)).contains c.1))
          (extra.foldl (mixStep ann) (st, base, 0)).1 filtered := by
  refine ⟨_, rfl, mixFold_names ann extra (st, base, 0), ?_⟩
  intro filtered
  rw [combineColumns_def, dictOfList_nodup base hb]
  have hn := mixFold_names ann extra (st, base, 0)
  simp only at hn
  have hfil : extra.filter (fun ex => (dictGet (extra.foldl (mixStep ann) (st, base, 0)).2.1 ex.1).isNone)
      = extra.filter (fun c => !(base.map (·.1)).contains c.1) := by
    apply List.filter_congr
    intro c _
    rw [Bool.eq_iff_iff, dictGet_isNone_iff, hn]
    simp
  rw [hfil, foldl_dictSet_fresh]
  · rw [map_fst_filter (fun n => !(base.map (·.1)).contains n)]
    exact hex.filter _
  · intro k hk
    rw [hn]
    rw [map_fst_filter (fun n => !(base.map (·.1)).contains n)] at hk
    simp only [List.mem_filter, List.contains_eq_mem, Bool.not_eq_eq_eq_not, Bool.not_true,
      decide_eq_false_iff_not] at hk
    exact hk.2


def applyFilt {β} (filt : Option (List String)) (cols2 : List (String × β)) : List (String × β) :=
  match filt with
  | none => cols2
  | some f => cols2.filter (fun p => !f.contains p.1)

theorem applyFilt_names {β} (filt : Option (List String)) (cols2 : List (String × β)) (bn ex)
    (h : cols2.map (·.1) = allNames bn ex) :
    (applyFilt filt cols2).map (·.1) = layoutNames bn ex filt := by
  unfold applyFilt layoutNames
  split
  · exact h
  · rename_i f
    rw [map_fst_filter (fun n => !f.contains n), h]

theorem finishCols_eq (cols2 : List (String × String)) (st1 : BuildState) (filt : Option (List String))
    (bn ex) (h : cols2.map (·.1) = allNames bn ex) :
    finishCols cols2 st1 filt =
      if filtOK bn ex filt then .ok (st1, applyFilt filt cols2) else .error .value := by
  unfold finishCols filtOK applyFilt
  split
  · rfl
  · rename_i f
    have : f.any (fun n => (dictGet cols2 n).isNone) = !f.all (fun n => (allNames bn ex).contains n) := by
      rw [List.all_eq_not_any_not, Bool.not_not]
      congr 1
      funext n
      rw [Bool.eq_iff_iff, dictGet_isNone_iff, h]
      simp
    rw [this]
    cases f.all (fun n => (allNames bn ex).contains n) <;> rfl

/-- `combine_columns` with every dictionary operation resolved -/
theorem combineColumns_eq (st : BuildState) (ann : String) (base extra : List (String × String))
    (filtered : Option (List String))
    (hb : (base.map (·.1)).Nodup) (hex : (extra.map (·.1)).Nodup) :
    combineColumns st ann base extra filtered =
      if filtOK (base.map (·.1)) extra filtered then
        .ok ((extra.foldl (mixStep ann) (st, base, 0)).1,
             applyFilt filtered ((extra.foldl (mixStep ann) (st, base, 0)).2.1 ++
               extra.filter (fun c => !(base.map (·.1)).contains c.1)))
      else .error .value := by
  obtain ⟨cols1, h1, hn, h⟩ := combineColumns_cols2 st ann base extra hb hex
  rw [h filtered, h1]
  apply finishCols_eq
  rw [List.map_append, hn, map_fst_filter (fun n => !(base.map (·.1)).contains n)]
  rfl

theorem combineColumns_names {st : BuildState} {ann : String} {base extra : List (String × String)}
    {filtered : Option (List String)} {st1 cols}
    (hb : (base.map (·.1)).Nodup) (hex : (extra.map (·.1)).Nodup)
    (h : combineColumns st ann base extra filtered = .ok (st1, cols)) :
    filtOK (base.map (·.1)) extra filtered = true ∧
      cols.map (·.1) = layoutNames (base.map (·.1)) extra filtered := by
  rw [combineColumns_eq st ann base extra filtered hb hex] at h
  split at h
  · rename_i hf
    refine ⟨hf, ?_⟩
    simp only [Except.ok.injEq, Prod.mk.injEq] at h
    rw [← h.2]
    apply applyFilt_names
    rw [List.map_append, mixFold_names, map_fst_filter (fun n => !(base.map (·.1)).contains n)]
    rfl
  · cases h


/-! ### the declarative layout -/

/-- the overriding half of `Spec.applyDef` -/
def overrideCols (bl : Spec.Layout) (cols : List (String × String)) : Spec.Layout :=
  bl.map (fun p =>
    match List.find? (fun c => c.1 == p.1) cols with
    | some c => (p.1, Spec.ColType.mixed c.2 p.2)
    | none => p)

def freshCols (bl : Spec.Layout) (cols : List (String × String)) : Spec.Layout :=
  (cols.filter (fun c => !(bl.any (fun p => p.1 == c.1)))).map (fun c => (c.1, Spec.ColType.named c.2))

theorem applyDef_eq (bl : Spec.Layout) (d : SchemeDef) :
    Spec.applyDef bl d = applyFilt d.filtered (overrideCols bl d.columns ++ freshCols bl d.columns) := by
  unfold Spec.applyDef applyFilt overrideCols freshCols
  cases d.filtered <;> rfl

theorem overrideCols_names (bl : Spec.Layout) (cols : List (String × String)) :
    (overrideCols bl cols).map (·.1) = bl.map (·.1) := by
  unfold overrideCols
  rw [List.map_map]
  apply List.map_congr_left
  intro p _
  simp only [Function.comp]
  split <;> rfl

theorem any_fst_eq_contains {β} (bl : List (String × β)) (n : String) :
    bl.any (fun p => p.1 == n) = (bl.map (·.1)).contains n := by
  rw [Bool.eq_iff_iff, List.any_eq_true, List.contains_eq_mem, decide_eq_true_iff, List.mem_map]
  constructor
  · rintro ⟨p, hp, e⟩; exact ⟨p, hp, by simpa using e⟩
  · rintro ⟨p, hp, e⟩; exact ⟨p, hp, by simpa using e⟩

theorem freshCols_eq (bl : Spec.Layout) (cols : List (String × String)) :
    freshCols bl cols = (cols.filter (fun c => !(bl.map (·.1)).contains c.1)).map
      (fun c => (c.1, Spec.ColType.named c.2)) := by
  unfold freshCols
  congr 1
  apply List.filter_congr
  intro c _
  rw [any_fst_eq_contains]

theorem freshCols_names (bl : Spec.Layout) (cols : List (String × String)) :
    (freshCols bl cols).map (·.1) = (cols.map (·.1)).filter (fun n => !(bl.map (·.1)).contains n) := by
  rw [freshCols_eq, List.map_map, ← map_fst_filter (fun n => !(bl.map (·.1)).contains n)]
  rfl

theorem applyDef_names (bl : Spec.Layout) (d : SchemeDef) :
    (Spec.applyDef bl d).map (·.1) = layoutNames (bl.map (·.1)) d.columns d.filtered := by
  rw [applyDef_eq]
  apply applyFilt_names
  rw [List.map_append, overrideCols_names, freshCols_names]
  rfl

theorem resolve_mono (ds : List SchemeDef) {n m : Nat} (hnm : n ≤ m) {a : String} {l : Spec.Layout}
    (h : Spec.resolve ds n a = some l) : Spec.resolve ds m a = some l := by
  induction n generalizing m a l with
  | zero => simp [Spec.resolve] at h
  | succ n ih =>
    cases m with
    | zero => omega
    | succ m =>
      unfold Spec.resolve at h ⊢
      split at h
      · cases h
      · rename_i d hd
        split at h
        · exact h
        · rename_i b hb
          cases hr : Spec.resolve ds n b with
          | none => rw [hr] at h; cases h
          | some bl =>
            rw [hr] at h
            rw [ih (Nat.le_of_succ_le_succ hnm) hr]
            exact h

theorem findDef_some {ds : List SchemeDef} {a : String} {d : SchemeDef} (h : Spec.findDef ds a = some d) :
    d ∈ ds ∧ d.annotation = a := by
  unfold Spec.findDef at h
  exact ⟨List.mem_of_find?_eq_some h, by simpa using List.find?_some h⟩

theorem findDef_of_mem {ds : List SchemeDef} (hnd : (ds.map (·.annotation)).Nodup) {d : SchemeDef}
    (hd : d ∈ ds) : Spec.findDef ds d.annotation = some d := by
  unfold Spec.findDef
  induction ds with
  | nil => simp at hd
  | cons x ds ih =>
    simp only [List.map_cons, List.nodup_cons] at hnd
    rw [List.find?_cons]
    rcases List.mem_cons.1 hd with h | h
    · subst h; simp
    · have : x.annotation ≠ d.annotation := by
        intro e; apply hnd.1; rw [e]; exact List.mem_map.2 ⟨_, h, rfl⟩
      have hb : (x.annotation == d.annotation) = false := by simpa using this
      rw [hb]
      exact ih hnd.2 h

theorem findDef_eq_none {ds : List SchemeDef} {a : String} :
    Spec.findDef ds a = none ↔ a ∉ ds.map (·.annotation) := by
  unfold Spec.findDef
  rw [List.find?_eq_none]
  simp only [List.mem_map, beq_iff_eq, not_exists, not_and]

theorem resolve_nodup {ds : List SchemeDef} (hcols : ∀ d ∈ ds, (d.columns.map (·.1)).Nodup)
    {n : Nat} {a : String} {l : Spec.Layout} (h : Spec.resolve ds n a = some l) :
    (l.map (·.1)).Nodup := by
  induction n generalizing a l with
  | zero => simp [Spec.resolve] at h
  | succ n ih =>
    unfold Spec.resolve at h
    split at h
    · cases h
    · rename_i d hd
      have hmem := (findDef_some hd).1
      split at h
      · simp only [Option.some.injEq] at h
        subst h
        rw [List.map_map]
        exact hcols d hmem
      · rename_i b hb
        cases hr : Spec.resolve ds n b with
        | none => rw [hr] at h; cases h
        | some bl =>
          rw [hr] at h
          simp only [Option.map_some, Option.some.injEq] at h
          subst h
          rw [applyDef_names]
          exact nodup_layoutNames _ (ih hr) (hcols d hmem)


/-! ### the `build_schemes` loop -/

/-- the model's local `ready` predicate -/
def readyB (built : List (String × Scheme)) (d : SchemeDef) : Bool :=
  match d.hasBase with
  | none => true
  | some b => (dictGet built b).isSome

theorem buildSchemesAux_cons (fuel : Nat) (st : BuildState) (x : SchemeDef) (xs : List SchemeDef)
    (built : List (String × Scheme)) :
    buildSchemesAux (fuel + 1) st (x :: xs) built =
      match (x :: xs).findIdx? (readyB built) with
      | none => .error .value
      | some i =>
        match (x :: xs)[i]? with
        | none => .error (.unmodelled "index")
        | some d =>
          match buildSchemeClass st d (d.hasBase.bind (dictGet built)) with
          | .error e => .error e
          | .ok (st', s) => buildSchemesAux fuel st' ((x :: xs).eraseIdx i) (dictSet built s.annotation s) := by
  rfl

theorem finishCols_ok_or_value (cols2 : List (String × String)) (st1 : BuildState) (filt) :
    (∃ r, finishCols cols2 st1 filt = .ok r) ∨ finishCols cols2 st1 filt = .error .value := by
  unfold finishCols
  split
  · exact .inl ⟨_, rfl⟩
  · split
    · exact .inr rfl
    · exact .inl ⟨_, rfl⟩

theorem buildSchemeClass_ok_or_value (st : BuildState) (d : SchemeDef) (base : Option Scheme) :
    (∃ r, buildSchemeClass st d base = .ok r) ∨ buildSchemeClass st d base = .error .value := by
  unfold buildSchemeClass
  cases base with
  | none => exact .inl ⟨_, rfl⟩
  | some b =>
    simp only []
    rw [combineColumns_def]
    rcases finishCols_ok_or_value _ _ _ with ⟨r, h⟩ | h
    · rw [h]; exact .inl ⟨_, rfl⟩
    · rw [h]; exact .inr rfl

theorem buildSchemesAux_ok_or_value (fuel : Nat) (st : BuildState) (data : List SchemeDef)
    (built : List (String × Scheme)) (hf : data.length ≤ fuel) :
    (∃ r, buildSchemesAux fuel st data built = .ok r) ∨
      buildSchemesAux fuel st data built = .error .value := by
  induction fuel generalizing st data built with
  | zero =>
    cases data with
    | nil => exact .inl ⟨_, rfl⟩
    | cons x xs => simp at hf
  | succ fuel ih =>
    cases data with
    | nil => exact .inl ⟨_, rfl⟩
    | cons x xs =>
      rw [buildSchemesAux_cons]
      cases hi : (x :: xs).findIdx? (readyB built) with
      | none => exact .inr rfl
      | some i =>
        simp only []
        have hlt : i < (x :: xs).length := by
          obtain ⟨h, _⟩ := List.findIdx?_eq_some_iff_getElem.1 hi
          exact h
        rw [List.getElem?_eq_getElem hlt]
        simp only []
        rcases buildSchemeClass_ok_or_value st (x :: xs)[i] ((x :: xs)[i].hasBase.bind (dictGet built))
          with ⟨⟨st', s⟩, h⟩ | h
        · rw [h]
          simp only []
          apply ih
          rw [List.length_eraseIdx_of_lt hlt]
          simp only [List.length_cons] at hf ⊢
          omega
        · rw [h]; exact .inr rfl

/-- invariant rule for the loop -/
theorem buildSchemesAux_induct (Inv : BuildState → List SchemeDef → List (String × Scheme) → Prop)
    (hstep : ∀ st data built i d st1 s, Inv st data built →
      data.findIdx? (readyB built) = some i → data[i]? = some d →
      buildSchemeClass st d (d.hasBase.bind (dictGet built)) = .ok (st1, s) →
      Inv st1 (data.eraseIdx i) (dictSet built s.annotation s))
    (fuel : Nat) (st : BuildState) (data : List SchemeDef) (built : List (String × Scheme))
    (r : BuildState × List (String × Scheme))
    (hinv : Inv st data built) (h : buildSchemesAux fuel st data built = .ok r) :
    Inv r.1 [] r.2 := by
  induction fuel generalizing st data built with
  | zero =>
    cases data with
    | nil => simp only [buildSchemesAux, Except.ok.injEq] at h; subst h; exact hinv
    | cons x xs => simp [buildSchemesAux] at h
  | succ fuel ih =>
    cases data with
    | nil => simp only [buildSchemesAux, Except.ok.injEq] at h; subst h; exact hinv
    | cons x xs =>
      rw [buildSchemesAux_cons] at h
      cases hi : (x :: xs).findIdx? (readyB built) with
      | none => rw [hi] at h; cases h
      | some i =>
        rw [hi] at h
        simp only [] at h
        cases hd : (x :: xs)[i]? with
        | none => rw [hd] at h; cases h
        | some d =>
          rw [hd] at h
          simp only [] at h
          cases hb : buildSchemeClass st d (d.hasBase.bind (dictGet built)) with
          | error e => rw [hb] at h; cases h
          | ok p =>
            obtain ⟨st1, s⟩ := p
            rw [hb] at h
            simp only [] at h
            exact ih _ _ _ (hstep st _ built i d st1 s hinv hi hd hb) h

/-- progress rule for the loop -/
theorem buildSchemesAux_progress (Inv : BuildState → List SchemeDef → List (String × Scheme) → Prop)
    (hstep : ∀ st data built i d st1 s, Inv st data built →
      data.findIdx? (readyB built) = some i → data[i]? = some d →
      buildSchemeClass st d (d.hasBase.bind (dictGet built)) = .ok (st1, s) →
      Inv st1 (data.eraseIdx i) (dictSet built s.annotation s))
    (hprog : ∀ st data built, Inv st data built → data ≠ [] →
      ∃ i d st1 s, data.findIdx? (readyB built) = some i ∧ data[i]? = some d ∧
        buildSchemeClass st d (d.hasBase.bind (dictGet built)) = .ok (st1, s))
    (fuel : Nat) (st : BuildState) (data : List SchemeDef) (built : List (String × Scheme))
    (hf : data.length ≤ fuel) (hinv : Inv st data built) :
    ∃ r, buildSchemesAux fuel st data built = .ok r := by
  induction fuel generalizing st data built with
  | zero =>
    cases data with
    | nil => exact ⟨_, rfl⟩
    | cons x xs => simp at hf
  | succ fuel ih =>
    cases data with
    | nil => exact ⟨_, rfl⟩
    | cons x xs =>
      obtain ⟨i, d, st1, s, hi, hd, hb⟩ := hprog st (x :: xs) built hinv (by simp)
      rw [buildSchemesAux_cons, hi]
      simp only []
      rw [hd]
      simp only []
      rw [hb]
      simp only []
      apply ih
      · have hlt : i < (x :: xs).length := by
          obtain ⟨h, _⟩ := List.findIdx?_eq_some_iff_getElem.1 hi
          exact h
        rw [List.length_eraseIdx_of_lt hlt]
        simp only [List.length_cons] at hf ⊢
        omega
      · exact hstep st _ built i d st1 s hinv hi hd hb


theorem buildSchemeClass_some_eq (st : BuildState) (d : SchemeDef) (sb : Scheme)
    (hb : (sb.cols.map (·.1)).Nodup) (hex : (d.columns.map (·.1)).Nodup) :
    buildSchemeClass st d (some sb) =
      if filtOK (sb.cols.map (·.1)) d.columns d.filtered then
        .ok ((d.columns.foldl (mixStep d.annotation) (st, sb.cols, 0)).1,
          { version := d.version, annotation := d.annotation,
            cols := applyFilt d.filtered ((d.columns.foldl (mixStep d.annotation) (st, sb.cols, 0)).2.1 ++
               d.columns.filter (fun c => !(sb.cols.map (·.1)).contains c.1)) })
      else .error .value := by
  unfold buildSchemeClass
  simp only []
  rw [combineColumns_eq st d.annotation sb.cols d.columns d.filtered hb hex]
  cases filtOK (sb.cols.map (·.1)) d.columns d.filtered <;> rfl

end SchemeLemmas

/-! ### C14 definitions and the names-level invariant -/
namespace C14
open SchemeLemmas

/-- well-formed definition set: annotations pairwise distinct, column names distinct
    within each definition, no empty annotation -/
def DefsOK (ds : List SchemeDef) : Prop :=
  (ds.map (·.annotation)).Nodup ∧ (∀ d ∈ ds, (d.columns.map (·.1)).Nodup) ∧ (∀ d ∈ ds, d.annotation ≠ "")

instance (ds : List SchemeDef) : Decidable (DefsOK ds) := by unfold DefsOK; infer_instance

/-- `a`'s `extends` chain stays inside `ds` and ends within `ds.length` steps -/
def grounded (ds : List SchemeDef) (a : String) : Prop := Spec.layoutOf ds a ≠ none

instance (ds : List SchemeDef) (a : String) : Decidable (grounded ds a) := by unfold grounded; infer_instance

/-- every `filtered` name of `d` exists in the layout it is applied to (vacuous when
    `d` has no base or the base does not resolve) -/
def filterOKd (ds : List SchemeDef) (d : SchemeDef) : Bool :=
  match d.hasBase with
  | none => true
  | some b =>
    match Spec.layoutOf ds b with
    | none => true
    | some bl => filtOK (bl.map (·.1)) d.columns d.filtered

def FiltersOK (ds : List SchemeDef) : Prop := ∀ d ∈ ds, filterOKd ds d = true

instance (ds : List SchemeDef) : Decidable (FiltersOK ds) := by unfold FiltersOK; infer_instance

/-- names-level loop invariant -/
structure NInv (ds : List SchemeDef) (data : List SchemeDef) (built : List (String × Scheme)) : Prop where
  perm : (built.map (·.1) ++ data.map (·.annotation)).Perm (ds.map (·.annotation))
  sub : ∀ d ∈ data, d ∈ ds
  ok : ∀ p ∈ built, ∃ d ∈ ds, d.annotation = p.1 ∧ p.2.version = d.version ∧
    p.2.annotation = d.annotation ∧ filterOKd ds d = true ∧
    ∃ l, Spec.resolve ds built.length p.1 = some l ∧ p.2.cols.map (·.1) = l.map (·.1)

theorem NInv.length_le {ds data built} (h : NInv ds data built) : built.length + data.length = ds.length := by
  have := h.perm.length_eq
  simpa using this

theorem NInv.init (ds : List SchemeDef) : NInv ds ds [] :=
  ⟨by simp, fun _ h => h, by simp⟩

/-- what one successful `build_scheme_class` call produces -/
theorem step_scheme {ds data built} (hds : DefsOK ds) (hinv : NInv ds data built)
    {d : SchemeDef} (hd : d ∈ ds) (hr : readyB built d = true) {st st1 : BuildState} {s : Scheme}
    (h : buildSchemeClass st d (d.hasBase.bind (dictGet built)) = .ok (st1, s)) :
    s.version = d.version ∧ s.annotation = d.annotation ∧ filterOKd ds d = true ∧
      ∃ l, Spec.resolve ds (built.length + 1) d.annotation = some l ∧ s.cols.map (·.1) = l.map (·.1) := by
  have hfd := findDef_of_mem hds.1 hd
  unfold readyB at hr
  cases hb : d.hasBase with
  | none =>
    rw [hb] at h
    simp only [Option.bind_none, buildSchemeClass, Except.ok.injEq, Prod.mk.injEq] at h
    obtain ⟨_, rfl⟩ := h
    refine ⟨rfl, rfl, by simp [filterOKd, hb],
      d.columns.map (fun c => (c.1, Spec.ColType.named c.2)), ?_, ?_⟩
    · unfold Spec.resolve; rw [hfd]; simp only [hb]
    · simp only
      rw [dictOfList_nodup _ (hds.2.1 d hd), List.map_map]; rfl
  | some b =>
    rw [hb] at hr h
    simp only [] at hr
    cases hg : dictGet built b with
    | none => rw [hg] at hr; cases hr
    | some sb =>
      simp only [Option.bind_some, hg] at h
      obtain ⟨d', hd', ha', _, _, _, bl, hres, hnames⟩ := hinv.ok _ (mem_of_dictGet hg)
      simp only at hres hnames
      have hnd := resolve_nodup hds.2.1 hres
      rw [buildSchemeClass_some_eq st d sb (hnames ▸ hnd) (hds.2.1 d hd)] at h
      split at h
      · rename_i hf
        simp only [Except.ok.injEq, Prod.mk.injEq] at h
        obtain ⟨_, rfl⟩ := h
        have hlay : Spec.layoutOf ds b = some bl :=
          resolve_mono ds (by have := hinv.length_le; omega) hres
        refine ⟨rfl, rfl, ?_, Spec.applyDef bl d, ?_, ?_⟩
        · simp only [filterOKd, hb, hlay]; rw [← hnames]; exact hf
        · unfold Spec.resolve; rw [hfd]; simp only [hb, hres, Option.map_some]
        · simp only
          rw [applyDef_names, ← hnames]
          apply applyFilt_names
          rw [List.map_append, mixFold_names, map_fst_filter (fun n => !(sb.cols.map (·.1)).contains n)]
          rfl
      · cases h


/-- with the filter precondition a ready definition builds -/
theorem step_ok {ds data built} (hds : DefsOK ds) (hinv : NInv ds data built)
    {d : SchemeDef} (hd : d ∈ ds) (hr : readyB built d = true) (hf : filterOKd ds d = true)
    (st : BuildState) :
    ∃ st1 s, buildSchemeClass st d (d.hasBase.bind (dictGet built)) = .ok (st1, s) := by
  unfold readyB at hr
  cases hb : d.hasBase with
  | none => exact ⟨_, _, rfl⟩
  | some b =>
    rw [hb] at hr
    simp only [] at hr
    cases hg : dictGet built b with
    | none => rw [hg] at hr; cases hr
    | some sb =>
      simp only [Option.bind_some]
      obtain ⟨d', hd', ha', _, _, _, bl, hres, hnames⟩ := hinv.ok _ (mem_of_dictGet hg)
      simp only at hres hnames
      have hnd := resolve_nodup hds.2.1 hres
      have hlay : Spec.layoutOf ds b = some bl :=
        resolve_mono ds (by have := hinv.length_le; omega) hres
      rw [hg, buildSchemeClass_some_eq st d sb (hnames ▸ hnd) (hds.2.1 d hd)]
      simp only [filterOKd, hb, hlay] at hf
      rw [hnames, hf]
      exact ⟨_, _, rfl⟩

theorem getElem_of_getElem? {α} {l : List α} {i : Nat} {a : α} (h : l[i]? = some a) : a ∈ l :=
  List.mem_of_getElem? h

theorem NInv.step {ds data built} (hds : DefsOK ds) (hinv : NInv ds data built)
    {i : Nat} {d : SchemeDef} {st st1 : BuildState} {s : Scheme}
    (hi : data.findIdx? (readyB built) = some i) (hd : data[i]? = some d)
    (hb : buildSchemeClass st d (d.hasBase.bind (dictGet built)) = .ok (st1, s)) :
    NInv ds (data.eraseIdx i) (dictSet built s.annotation s) := by
  have hdm : d ∈ data := List.mem_of_getElem? hd
  have hr : readyB built d = true := by
    obtain ⟨h, hp, _⟩ := List.findIdx?_eq_some_iff_getElem.1 hi
    rw [List.getElem?_eq_getElem h] at hd
    simp only [Option.some.injEq] at hd
    rw [← hd]; exact hp
  obtain ⟨hv, ha, hf, l, hres, hnames⟩ := step_scheme hds hinv (hinv.sub d hdm) hr hb
  have hnd : (built.map (·.1) ++ data.map (·.annotation)).Nodup := hinv.perm.nodup_iff.2 hds.1
  have hfresh : s.annotation ∉ built.map (·.1) := by
    intro hmem
    rw [ha] at hmem
    exact (List.nodup_append.1 hnd).2.2 _ hmem _ (List.mem_map.2 ⟨d, hdm, rfl⟩) rfl
  rw [dictSet_of_not_mem _ hfresh]
  refine ⟨?_, fun x hx => hinv.sub x (List.mem_of_mem_eraseIdx hx), ?_⟩
  · refine List.Perm.trans ?_ hinv.perm
    rw [List.map_append, List.append_assoc]
    apply List.Perm.append_left
    simp only [List.map_cons, List.map_nil, List.singleton_append]
    rw [ha]
    exact (perm_cons_eraseIdx hd).map (·.annotation)
  · intro p hp
    rw [List.length_append, List.length_singleton]
    rcases List.mem_append.1 hp with hp | hp
    · obtain ⟨d', hd', h1, h2, h3, h4, l', h5, h6⟩ := hinv.ok p hp
      exact ⟨d', hd', h1, h2, h3, h4, l', resolve_mono ds (Nat.le_succ _) h5, h6⟩
    · simp only [List.mem_singleton] at hp
      subst hp
      exact ⟨d, hinv.sub d hdm, ha.symm, hv, ha, hf, l, by rw [ha]; exact hres, hnames⟩

/-- while some definition is unbuilt and all are grounded, one is ready -/
theorem exists_ready {ds data built} (hds : DefsOK ds) (hinv : NInv ds data built) :
    ∀ (n : Nat) (a : String) (d0 : SchemeDef), Spec.resolve ds n a ≠ none →
      Spec.findDef ds a = some d0 → d0 ∈ data → ∃ d ∈ data, readyB built d = true := by
  intro n
  induction n with
  | zero => intro a d0 h; simp [Spec.resolve] at h
  | succ n ih =>
    intro a d0 h hfd hmem
    unfold Spec.resolve at h
    rw [hfd] at h
    simp only [] at h
    cases hb : d0.hasBase with
    | none => exact ⟨d0, hmem, by simp [readyB, hb]⟩
    | some b =>
      rw [hb] at h
      simp only [] at h
      have hres : Spec.resolve ds n b ≠ none := by
        intro e; rw [e] at h; exact h rfl
      by_cases hbb : b ∈ built.map (·.1)
      · exact ⟨d0, hmem, by simp only [readyB, hb]; exact (dictGet_isSome_iff built b).2 hbb⟩
      · cases hfb : Spec.findDef ds b with
        | none =>
          exfalso; apply hres
          cases n with
          | zero => rfl
          | succ n => unfold Spec.resolve; rw [hfb]
        | some d1 =>
          obtain ⟨hd1, ha1⟩ := findDef_some hfb
          have : b ∈ built.map (·.1) ++ data.map (·.annotation) :=
            hinv.perm.mem_iff.2 (List.mem_map.2 ⟨d1, hd1, ha1⟩)
          rcases List.mem_append.1 this with h' | h'
          · exact absurd h' hbb
          · obtain ⟨d2, hd2, ha2⟩ := List.mem_map.1 h'
            have := findDef_of_mem hds.1 (hinv.sub d2 hd2)
            rw [ha2, hfb] at this
            simp only [Option.some.injEq] at this
            subst this
            exact ih b d1 hres hfb hd2

theorem NInv.progress {ds data built} (hds : DefsOK ds) (hinv : NInv ds data built)
    (hg : ∀ d ∈ ds, grounded ds d.annotation) (hf : FiltersOK ds) (hne : data ≠ []) (st : BuildState) :
    ∃ i d st1 s, data.findIdx? (readyB built) = some i ∧ data[i]? = some d ∧
      buildSchemeClass st d (d.hasBase.bind (dictGet built)) = .ok (st1, s) := by
  obtain ⟨d0, hd0⟩ := List.exists_mem_of_ne_nil data hne
  obtain ⟨dr, hdr, hready⟩ := exists_ready hds hinv ds.length d0.annotation d0
    (hg d0 (hinv.sub d0 hd0)) (findDef_of_mem hds.1 (hinv.sub d0 hd0)) hd0
  cases hi : data.findIdx? (readyB built) with
  | none =>
    rw [List.findIdx?_eq_none_iff] at hi
    rw [hi dr hdr] at hready; cases hready
  | some i =>
    obtain ⟨h, hp, _⟩ := List.findIdx?_eq_some_iff_getElem.1 hi
    obtain ⟨st1, s, hb⟩ := step_ok hds hinv (hinv.sub _ (List.getElem_mem h)) hp
      (hf _ (hinv.sub _ (List.getElem_mem h))) st
    exact ⟨i, data[i], st1, s, rfl, List.getElem?_eq_getElem h, hb⟩


/-! ### class level: reading synthesised classes back -/

/-- read a (possibly synthesised) column class back as a `Spec.ColType`: a class
    made by `extend_class` (it carries a `display` name) with bases `[extra, base]`
    is `mixed extra (type of base)`; any other known class is `named`. -/
def typeOfClassAux (tbl : ClassTable) : Nat → String → Option Spec.ColType
  | 0, _ => none
  | n + 1, c =>
    match tbl.find c with
    | none => none
    | some e =>
      match e.display with
      | none => some (.named c)
      | some _ =>
        match e.bases with
        | [x, b] => (typeOfClassAux tbl n b).map (Spec.ColType.mixed x)
        | _ => none

def typeOfClass (tbl : ClassTable) (c : String) : Option Spec.ColType :=
  typeOfClassAux tbl (tbl.length + 1) c

theorem find_append_of_some {tbl ext : ClassTable} {c : String} {e : ClassEntry}
    (h : tbl.find c = some e) : ClassTable.find (tbl ++ ext) c = some e := by
  unfold ClassTable.find at *
  rw [List.find?_append, h]; rfl

theorem typeOfClassAux_mono {tbl ext : ClassTable} {n m : Nat} (hnm : n ≤ m) {c : String} {t}
    (h : typeOfClassAux tbl n c = some t) : typeOfClassAux (tbl ++ ext) m c = some t := by
  induction n generalizing m c t with
  | zero => simp [typeOfClassAux] at h
  | succ n ih =>
    cases m with
    | zero => omega
    | succ m =>
      unfold typeOfClassAux at h ⊢
      cases hf : tbl.find c with
      | none => rw [hf] at h; cases h
      | some e =>
        rw [hf] at h
        rw [find_append_of_some hf]
        simp only [] at h ⊢
        cases hdsp : e.display with
        | none => rw [hdsp] at h; simpa using h
        | some nm =>
          rw [hdsp] at h
          simp only [] at h ⊢
          split at h
          · rename_i x b hbs
            cases hr : typeOfClassAux tbl n b with
            | none => rw [hr] at h; cases h
            | some t' =>
              rw [hr] at h
              rw [ih (Nat.le_of_succ_le_succ hnm) hr]
              exact h
          · cases h

theorem typeOfClass_append {tbl : ClassTable} (ext : ClassTable) {c : String} {t}
    (h : typeOfClass tbl c = some t) : typeOfClass (tbl ++ ext) c = some t := by
  unfold typeOfClass at *
  exact typeOfClassAux_mono (by simp) h

theorem find_new {tbl : ClassTable} {e : ClassEntry} (h : e.name ∉ tbl.map (·.name)) :
    ClassTable.find (tbl ++ [e]) e.name = some e := by
  unfold ClassTable.find
  rw [List.find?_append]
  have : List.find? (fun x => x.name == e.name) tbl = none := by
    rw [List.find?_eq_none]
    intro x hx hxe
    simp only [beq_iff_eq] at hxe
    exact h (List.mem_map.2 ⟨x, hx, hxe⟩)
  rw [this]; simp

theorem typeOfClass_new {tbl : ClassTable} {e : ClassEntry} {x b nm : String} {t}
    (hfresh : e.name ∉ tbl.map (·.name)) (hd : e.display = some nm) (hb : e.bases = [x, b])
    (ht : typeOfClass tbl b = some t) :
    typeOfClass (tbl ++ [e]) e.name = some (.mixed x t) := by
  unfold typeOfClass at *
  have h1 : typeOfClassAux (tbl ++ [e]) (tbl.length + 1) b = some t := typeOfClassAux_mono (Nat.le_refl _) ht
  rw [show (tbl ++ [e]).length + 1 = (tbl.length + 1) + 1 by simp]
  rw [typeOfClassAux, find_new hfresh]
  simp only [hd, hb, h1, Option.map_some]


/-- operational column read back through the table -/
def rd (tbl : ClassTable) (q : String × String) : String × Option Spec.ColType := (q.1, typeOfClass tbl q.2)
/-- declarative column -/
def sp (q : String × Spec.ColType) : String × Option Spec.ColType := (q.1, some q.2)

theorem rel_names {tbl} {cols : List (String × String)} {bl : Spec.Layout}
    (h : cols.map (rd tbl) = bl.map sp) : cols.map (·.1) = bl.map (·.1) := by
  have := congrArg (List.map (·.1)) h
  rw [List.map_map, List.map_map] at this
  exact this

theorem rel_some {tbl} {cols : List (String × String)} {bl : Spec.Layout}
    (h : cols.map (rd tbl) = bl.map sp) {q} (hq : q ∈ cols) : ∃ t, typeOfClass tbl q.2 = some t := by
  have : rd tbl q ∈ bl.map sp := h ▸ List.mem_map.2 ⟨q, hq, rfl⟩
  obtain ⟨p, _, hp⟩ := List.mem_map.1 this
  exact ⟨p.2, by have := congrArg (·.2) hp; simpa [rd, sp] using this.symm⟩

theorem rel_append {tbl} (ext : ClassTable) {cols : List (String × String)} {bl : Spec.Layout}
    (h : cols.map (rd tbl) = bl.map sp) : cols.map (rd (tbl ++ ext)) = bl.map sp := by
  rw [← h]
  apply List.map_congr_left
  intro q hq
  obtain ⟨t, ht⟩ := rel_some h hq
  simp only [rd, ht, typeOfClass_append ext ht]

theorem overrideCols_nil (bl : Spec.Layout) : overrideCols bl [] = bl := by
  unfold overrideCols
  simp

/-- the per-column effect of one redefinition on the read-back pairs -/
def ovPhi (x : String × String) (q : String × Option Spec.ColType) : String × Option Spec.ColType :=
  if q.1 == x.1 then (q.1, q.2.map (Spec.ColType.mixed x.2)) else q

theorem overrideCols_single (bl : Spec.Layout) (x : String × String) :
    (overrideCols bl [x]).map sp = (bl.map sp).map (ovPhi x) := by
  unfold overrideCols
  rw [List.map_map, List.map_map]
  apply List.map_congr_left
  intro p _
  simp only [Function.comp, List.find?_cons, List.find?_nil, sp, ovPhi]
  by_cases h : p.1 = x.1
  · have : (x.1 == p.1) = true := by simpa using h.symm
    simp [h]
  · have : (x.1 == p.1) = false := by simpa using fun e => h e.symm
    simp [this, h]

theorem overrideCols_cons (bl : Spec.Layout) (x : String × String) (xs : List (String × String))
    (hx : x.1 ∉ xs.map (·.1)) :
    overrideCols (overrideCols bl [x]) xs = overrideCols bl (x :: xs) := by
  unfold overrideCols
  rw [List.map_map]
  apply List.map_congr_left
  intro p _
  simp only [Function.comp, List.find?_cons, List.find?_nil]
  by_cases h : x.1 = p.1
  · have hb : (x.1 == p.1) = true := by simpa using h
    simp only [hb]
    have : List.find? (fun c => c.1 == p.1) xs = none := by
      rw [List.find?_eq_none]
      intro c hc hcp
      simp only [beq_iff_eq] at hcp
      exact hx (h ▸ hcp ▸ List.mem_map.2 ⟨c, hc, rfl⟩)
    rw [this]
  · have hb : (x.1 == p.1) = false := by simpa using h
    simp only [hb]


theorem extendClass_bases (uid base extra nm : String) :
    (extendClass [1, 0] uid base extra nm).bases = [extra, base] := by
  simp [extendClass]

theorem mixStep_class (ann : String) (acc : BuildState × List (String × String) × Nat)
    (x : String × String) (bl : Spec.Layout)
    (hrel : acc.2.1.map (rd acc.1.tbl) = bl.map sp)
    (hnd : (acc.2.1.map (·.1)).Nodup)
    (hord : acc.1.order = [1, 0])
    (hfresh : ((mixStep ann acc x).1.tbl.map (·.name)).Nodup) :
    (mixStep ann acc x).2.1.map (rd (mixStep ann acc x).1.tbl) = (overrideCols bl [x]).map sp := by
  rw [overrideCols_single, ← hrel, List.map_map]
  unfold mixStep at hfresh ⊢
  split
  · rename_i bcls h
    rw [h] at hfresh
    simp only [] at hfresh ⊢
    rw [dictSet_of_mem _ (key_mem_of_dictGet h), List.map_map]
    apply List.map_congr_left
    intro q hq
    obtain ⟨t, ht⟩ := rel_some hrel hq
    simp only [Function.comp]
    rw [hord] at hfresh ⊢
    by_cases hqx : q.1 = x.1
    · have hq2 : q.2 = bcls := by
        have := dictGet_of_mem_nodup hnd (show (q.1, q.2) ∈ acc.2.1 from hq)
        rw [hqx, h] at this
        exact (Option.some.inj this).symm
      have hb : (q.1 == x.1) = true := by simpa using hqx
      simp only [hb, if_true, rd, ovPhi, ht, Option.map_some]
      rw [hq2] at ht
      have hnew := typeOfClass_new (tbl := acc.1.tbl)
        (e := extendClass [1, 0] (mixUid ann x bcls acc.2.2) bcls x.2 (pyNameOf acc.1.tbl bcls))
        (x := x.2) (b := bcls) (nm := pyNameOf acc.1.tbl bcls) (t := t)
        (by
          rw [List.map_append, List.nodup_append] at hfresh
          intro hm
          exact hfresh.2.2 _ hm _ (by simp) rfl)
        rfl (extendClass_bases _ _ _ _) ht
      rw [show (extendClass [1, 0] (mixUid ann x bcls acc.2.2) bcls x.2 (pyNameOf acc.1.tbl bcls)).name
        = mixUid ann x bcls acc.2.2 from rfl] at hnew
      rw [hnew, hqx]
    · have hb : (q.1 == x.1) = false := by simpa using hqx
      simp only [hb, rd, ovPhi, ht]
      simp only [Bool.false_eq_true, if_false, Prod.mk.injEq, true_and]
      exact typeOfClass_append _ ht
  · rename_i h
    apply List.map_congr_left
    intro q hq
    have hqx : q.1 ≠ x.1 := by
      intro e
      exact (dictGet_eq_none_iff _ _).1 h (e ▸ List.mem_map.2 ⟨q, hq, rfl⟩)
    have hb : (q.1 == x.1) = false := by simpa using hqx
    simp only [Function.comp, rd, ovPhi, hb]
    simp


theorem nodup_of_append_map {tbl ext : ClassTable} (h : ((tbl ++ ext).map (·.name)).Nodup) :
    (tbl.map (·.name)).Nodup := by
  rw [List.map_append, List.nodup_append] at h
  exact h.1

theorem mixFold_class (ann : String) (extra : List (String × String)) :
    ∀ (acc : BuildState × List (String × String) × Nat) (bl : Spec.Layout),
    acc.2.1.map (rd acc.1.tbl) = bl.map sp → (acc.2.1.map (·.1)).Nodup → acc.1.order = [1, 0] →
    (extra.map (·.1)).Nodup →
    ((extra.foldl (mixStep ann) acc).1.tbl.map (·.name)).Nodup →
    (extra.foldl (mixStep ann) acc).2.1.map (rd (extra.foldl (mixStep ann) acc).1.tbl)
      = (overrideCols bl extra).map sp := by
  induction extra with
  | nil => intro acc bl hrel _ _ _ _; rw [overrideCols_nil]; exact hrel
  | cons x xs ih =>
    intro acc bl hrel hnd hord hex hfresh
    simp only [List.map_cons, List.nodup_cons] at hex
    rw [List.foldl_cons] at hfresh ⊢
    obtain ⟨ext, hext⟩ := mixFold_tbl ann xs (mixStep ann acc x)
    have hf1 : ((mixStep ann acc x).1.tbl.map (·.name)).Nodup := by
      rw [hext] at hfresh; exact nodup_of_append_map hfresh
    rw [ih (mixStep ann acc x) (overrideCols bl [x]) (mixStep_class ann acc x bl hrel hnd hord hf1)
      (by rw [mixStep_names]; exact hnd) (by rw [mixStep_order]; exact hord) hex.2 hfresh]
    rw [overrideCols_cons bl x xs hex.1]

theorem applyFilt_map {β γ} (filt : Option (List String)) (g : String × β → String × γ)
    (hg : ∀ q, (g q).1 = q.1) (X : List (String × β)) :
    (applyFilt filt X).map g = applyFilt filt (X.map g) := by
  unfold applyFilt
  cases filt with
  | none => rfl
  | some f =>
    simp only []
    rw [List.filter_map]
    congr 1
    apply List.filter_congr
    intro q _
    simp only [Function.comp, hg]

theorem combine_class {st : BuildState} {d : SchemeDef} {sb : Scheme} {bl : Spec.Layout}
    (hrel : sb.cols.map (rd st.tbl) = bl.map sp) (hnd : (sb.cols.map (·.1)).Nodup)
    (hex : (d.columns.map (·.1)).Nodup) (hord : st.order = [1, 0])
    (hplain : ∀ c ∈ d.columns, typeOfClass st.tbl c.2 = some (.named c.2))
    (hfresh : ((d.columns.foldl (mixStep d.annotation) (st, sb.cols, 0)).1.tbl.map (·.name)).Nodup) :
    (applyFilt d.filtered ((d.columns.foldl (mixStep d.annotation) (st, sb.cols, 0)).2.1 ++
        d.columns.filter (fun c => !(sb.cols.map (·.1)).contains c.1))).map
      (rd (d.columns.foldl (mixStep d.annotation) (st, sb.cols, 0)).1.tbl) = (Spec.applyDef bl d).map sp := by
  rw [applyDef_eq, applyFilt_map _ (rd _) (fun _ => rfl), applyFilt_map _ sp (fun _ => rfl)]
  congr 1
  rw [List.map_append, List.map_append]
  congr 1
  · exact mixFold_class d.annotation d.columns (st, sb.cols, 0) bl hrel hnd hord hex hfresh
  · rw [freshCols_eq, ← rel_names hrel, List.map_map]
    apply List.map_congr_left
    intro c hc
    obtain ⟨ext, hext⟩ := mixFold_tbl d.annotation d.columns (st, sb.cols, 0)
    have := hplain c (List.mem_filter.1 hc).1
    simp only [Function.comp, rd, sp]
    rw [hext, typeOfClass_append _ this]


theorem finishCols_state {cols2 : List (String × String)} {st1 : BuildState} {filt} {st' cols}
    (h : finishCols cols2 st1 filt = .ok (st', cols)) : st' = st1 := by
  unfold finishCols at h
  split at h
  · simp only [Except.ok.injEq, Prod.mk.injEq] at h; exact h.1.symm
  · split at h
    · cases h
    · simp only [Except.ok.injEq, Prod.mk.injEq] at h; exact h.1.symm

theorem buildSchemeClass_tbl {st : BuildState} {d : SchemeDef} {base : Option Scheme} {st1 s}
    (h : buildSchemeClass st d base = .ok (st1, s)) :
    (∃ ext, st1.tbl = st.tbl ++ ext) ∧ st1.order = st.order := by
  unfold buildSchemeClass at h
  cases base with
  | none =>
    simp only [Except.ok.injEq, Prod.mk.injEq] at h
    rw [← h.1]; exact ⟨⟨[], by simp⟩, rfl⟩
  | some b =>
    simp only [] at h
    rw [combineColumns_def] at h
    split at h
    · rename_i st' cols heq
      simp only [Except.ok.injEq, Prod.mk.injEq] at h
      rw [← h.1, finishCols_state heq]
      exact ⟨mixFold_tbl _ _ _, mixFold_order _ _ _⟩
    · cases h

/-- class-level loop invariant -/
structure CInv (ds : List SchemeDef) (st : BuildState) (built : List (String × Scheme)) : Prop where
  order : st.order = [1, 0]
  plain : ∀ d ∈ ds, ∀ c ∈ d.columns, typeOfClass st.tbl c.2 = some (.named c.2)
  cls : ∀ p ∈ built, ∃ l, Spec.resolve ds built.length p.1 = some l ∧ p.2.cols.map (rd st.tbl) = l.map sp

theorem step_class {ds built} (hds : DefsOK ds)
    {st : BuildState} (hc : CInv ds st built)
    {d : SchemeDef} (hd : d ∈ ds) (hr : readyB built d = true) {st1 : BuildState} {s : Scheme}
    (h : buildSchemeClass st d (d.hasBase.bind (dictGet built)) = .ok (st1, s))
    (hfresh : (st1.tbl.map (·.name)).Nodup) :
    ∃ l, Spec.resolve ds (built.length + 1) d.annotation = some l ∧ s.cols.map (rd st1.tbl) = l.map sp := by
  have hfd := findDef_of_mem hds.1 hd
  unfold readyB at hr
  cases hb : d.hasBase with
  | none =>
    rw [hb] at h
    simp only [Option.bind_none, buildSchemeClass, Except.ok.injEq, Prod.mk.injEq] at h
    obtain ⟨rfl, rfl⟩ := h
    refine ⟨d.columns.map (fun c => (c.1, Spec.ColType.named c.2)), ?_, ?_⟩
    · unfold Spec.resolve; rw [hfd]; simp only [hb]
    · simp only
      rw [dictOfList_nodup _ (hds.2.1 d hd), List.map_map]
      apply List.map_congr_left
      intro c hcm
      simp only [Function.comp, rd, sp, hc.plain d hd c hcm]
  | some b =>
    rw [hb] at hr h
    simp only [] at hr
    cases hg : dictGet built b with
    | none => rw [hg] at hr; cases hr
    | some sb =>
      simp only [Option.bind_some, hg] at h
      obtain ⟨bl, hres, hrel⟩ := hc.cls _ (mem_of_dictGet hg)
      simp only at hres hrel
      have hnd : (sb.cols.map (·.1)).Nodup := by
        rw [rel_names hrel]; exact resolve_nodup hds.2.1 hres
      rw [buildSchemeClass_some_eq st d sb hnd (hds.2.1 d hd)] at h
      split at h
      · simp only [Except.ok.injEq, Prod.mk.injEq] at h
        obtain ⟨rfl, rfl⟩ := h
        refine ⟨Spec.applyDef bl d, ?_, ?_⟩
        · unfold Spec.resolve; rw [hfd]; simp only [hb, hres, Option.map_some]
        · exact combine_class hrel hnd (hds.2.1 d hd) hc.order (hc.plain d hd) hfresh
      · cases h

theorem CInv.step {ds data built} (hds : DefsOK ds) (hinv : NInv ds data built)
    {st : BuildState} (hc : CInv ds st built)
    {i : Nat} {d : SchemeDef} {st1 : BuildState} {s : Scheme}
    (hi : data.findIdx? (readyB built) = some i) (hd : data[i]? = some d)
    (hb : buildSchemeClass st d (d.hasBase.bind (dictGet built)) = .ok (st1, s))
    (hfresh : (st1.tbl.map (·.name)).Nodup) :
    CInv ds st1 (dictSet built s.annotation s) := by
  have hdm : d ∈ data := List.mem_of_getElem? hd
  have hr : readyB built d = true := by
    obtain ⟨h, hp, _⟩ := List.findIdx?_eq_some_iff_getElem.1 hi
    rw [List.getElem?_eq_getElem h] at hd
    simp only [Option.some.injEq] at hd
    rw [← hd]; exact hp
  obtain ⟨hv, ha, hf, _⟩ := step_scheme hds hinv (hinv.sub d hdm) hr hb
  obtain ⟨l, hres, hrel⟩ := step_class hds hc (hinv.sub d hdm) hr hb hfresh
  obtain ⟨⟨ext, hext⟩, hord⟩ := buildSchemeClass_tbl hb
  have hnd : (built.map (·.1) ++ data.map (·.annotation)).Nodup := hinv.perm.nodup_iff.2 hds.1
  have hfr : s.annotation ∉ built.map (·.1) := by
    intro hmem
    rw [ha] at hmem
    exact (List.nodup_append.1 hnd).2.2 _ hmem _ (List.mem_map.2 ⟨d, hdm, rfl⟩) rfl
  rw [dictSet_of_not_mem _ hfr]
  refine ⟨hord.trans hc.order, ?_, ?_⟩
  · intro d' hd' c hcm
    rw [hext]; exact typeOfClass_append _ (hc.plain d' hd' c hcm)
  · intro p hp
    rw [List.length_append, List.length_singleton]
    rcases List.mem_append.1 hp with hp | hp
    · obtain ⟨l', h5, h6⟩ := hc.cls p hp
      exact ⟨l', resolve_mono ds (Nat.le_succ _) h5, by rw [hext]; exact rel_append _ h6⟩
    · simp only [List.mem_singleton] at hp
      subst hp
      exact ⟨l, by rw [ha]; exact hres, hrel⟩

theorem typeOfClass_plain {tbl : ClassTable} (hplain : ∀ e ∈ tbl, e.display = none) {c : String}
    (hc : (tbl.find c).isSome = true) : typeOfClass tbl c = some (.named c) := by
  unfold typeOfClass typeOfClassAux
  cases hf : tbl.find c with
  | none => rw [hf] at hc; cases hc
  | some e =>
    have : e ∈ tbl := List.mem_of_find?_eq_some hf
    simp only [hplain e this]

end C14

/-! ### MRO of a synthesised class -/
namespace SchemeLemmas
set_option linter.unusedSimpArgs false

theorem c3merge_mono {f f' : Nat} {seqs : List (List String)} {r : List String}
    (h : c3merge f seqs = some r) (hf : f ≤ f') : c3merge f' seqs = some r := by
  induction f generalizing seqs r f' with
  | zero => simp [c3merge] at h
  | succ f ih =>
    cases f' with
    | zero => omega
    | succ f' =>
      unfold c3merge at h ⊢
      simp only [] at h ⊢
      split
      · rename_i he; rw [if_pos he] at h; exact h
      · rename_i he
        rw [if_neg he] at h
        split
        · rename_i hn; rw [hn] at h; exact h
        · rename_i hd hs
          rw [hs] at h
          simp only [] at h
          cases hr : c3merge f (List.map (fun s => if s.head? == some hd then s.tail else s)
              (List.filter (fun s => !s.isEmpty) seqs)) with
          | none => rw [hr] at h; cases h
          | some r' =>
            rw [hr] at h
            rw [ih hr (Nat.le_of_succ_le_succ hf)]
            exact h

theorem mapM_option_congr {α β} {f g : α → Option β} {l : List α} {ls : List β}
    (h : l.mapM f = some ls) (hfg : ∀ a ∈ l, ∀ b, f a = some b → g a = some b) :
    l.mapM g = some ls := by
  induction l generalizing ls with
  | nil => simpa using h
  | cons a l ih =>
    rw [List.mapM_cons] at h ⊢
    cases hfa : f a with
    | none => rw [hfa] at h; cases h
    | some b =>
      rw [hfa] at h
      rw [hfg a (by simp) b hfa]
      cases hl : l.mapM f with
      | none => rw [hl] at h; cases h
      | some bs =>
        rw [hl] at h
        rw [ih hl (fun a' ha' => hfg a' (by simp [ha']))]
        exact h

theorem mro_append {tbl ext : ClassTable} {n n' : Nat} {c : String} {m : List String}
    (h : mro tbl n c = some m) (hn : n ≤ n') : mro (tbl ++ ext) n' c = some m := by
  induction n generalizing n' c m with
  | zero => simp [mro] at h
  | succ n ih =>
    cases n' with
    | zero => omega
    | succ n' =>
      unfold mro at h ⊢
      cases hf : tbl.find c with
      | none => rw [hf] at h; cases h
      | some e =>
        rw [hf] at h
        rw [C14.find_append_of_some hf]
        simp only [] at h ⊢
        cases hm : e.bases.mapM (mro tbl n) with
        | none => rw [hm] at h; cases h
        | some ls =>
          rw [hm] at h
          rw [mapM_option_congr hm (fun a _ b hb => ih hb (Nat.le_of_succ_le_succ hn))]
          simp only [] at h ⊢
          cases hc : c3merge (tbl.length * tbl.length + 8) (ls ++ [e.bases]) with
          | none => rw [hc] at h; cases h
          | some r =>
            rw [hc] at h
            rw [c3merge_mono hc (by
              simp only [List.length_append]
              have := Nat.mul_le_mul (Nat.le_add_right tbl.length ext.length) (Nat.le_add_right tbl.length ext.length)
              omega)]
            exact h

theorem mroOf_append {tbl : ClassTable} (ext : ClassTable) {c : String} {m : List String}
    (h : mroOf tbl c = some m) : mroOf (tbl ++ ext) c = some m := by
  unfold mroOf at *
  exact mro_append h (by simp)

theorem c3merge_filter (f : Nat) (seqs : List (List String)) :
    c3merge f (seqs.filter (fun s => !s.isEmpty)) = c3merge f seqs := by
  cases f with
  | zero => rfl
  | succ f =>
    unfold c3merge
    simp only [List.filter_filter, Bool.and_self]

theorem c3_two (M : String) : ∀ (l0 : List String) (f : Nat), (l0 ++ [M]).Nodup → l0.length + 2 ≤ f →
    c3merge f [[M], l0 ++ [M]] = some (l0 ++ [M]) := by
  intro l0
  induction l0 with
  | nil =>
    intro f _ hf
    obtain ⟨f, rfl⟩ : ∃ k, f = k + 2 := ⟨f - 2, by simp at hf; omega⟩
    simp [c3merge, List.findSome?_cons]
  | cons a l0 ih =>
    intro f hnd hf
    obtain ⟨f, rfl⟩ : ∃ k, f = k + 1 := ⟨f - 1, by simp at hf; omega⟩
    have haM : a ≠ M := by
      intro e; subst e
      simp at hnd
    have ha : a ∉ l0 := by
      intro e; simp at hnd; exact hnd.1.1 e
    have hnd' : (l0 ++ [M]).Nodup := by
      simp only [List.cons_append, List.nodup_cons] at hnd; exact hnd.2
    have := ih f hnd' (by simp at hf ⊢; omega)
    unfold c3merge
    simp [haM, ha, Ne.symm haM, this, List.findSome?_cons]

theorem c3_extend (R M : String) (l0 : List String) (hnd : (l0 ++ [M]).Nodup) (hR : R ∉ l0 ++ [M])
    (f : Nat) (hf : l0.length + 4 ≤ f) :
    c3merge f [[R, M], l0 ++ [M], [R, (l0 ++ [M]).head (by simp)]] = some (R :: (l0 ++ [M])) := by
  obtain ⟨f, rfl⟩ : ∃ k, f = k + 2 := ⟨f - 2, by omega⟩
  have hRM : R ≠ M := by intro e; apply hR; simp [e]
  cases l0 with
  | nil =>
    obtain ⟨f, rfl⟩ : ∃ k, f = k + 1 := ⟨f - 1, by simp at hf; omega⟩
    simp [c3merge, hRM, Ne.symm hRM, List.findSome?_cons]
  | cons a l0 =>
    have haM : a ≠ M := by
      intro e; subst e
      simp at hnd
    have ha : a ∉ l0 := by
      intro e; simp at hnd; exact hnd.1.1 e
    have hRa : R ≠ a := by intro e; apply hR; simp [e]
    have hRl : R ∉ l0 := by intro e; apply hR; simp [e]
    have hnd' : (l0 ++ [M]).Nodup := by
      simp only [List.cons_append, List.nodup_cons] at hnd; exact hnd.2
    have h2 := c3_two M l0 f hnd' (by simp at hf ⊢; omega)
    have h3 : c3merge f [[M], l0 ++ [M], []] = some (l0 ++ [M]) := by
      rw [← c3merge_filter]; simpa using h2
    unfold c3merge
    simp [hRM, Ne.symm hRM, hRa, Ne.symm hRa, hRl, haM, Ne.symm haM, ha]
    unfold c3merge
    simp [hRM, Ne.symm hRM, hRa, Ne.symm hRa, hRl, haM, Ne.symm haM, ha, h3]

theorem c3merge_length {f : Nat} {seqs : List (List String)} {r : List String}
    (h : c3merge f seqs = some r) : r.length + 1 ≤ f := by
  induction f generalizing seqs r with
  | zero => simp [c3merge] at h
  | succ f ih =>
    unfold c3merge at h
    simp only [] at h
    split at h
    · simp only [Option.some.injEq] at h; subst h; simp
    · split at h
      · cases h
      · rename_i hd hs
        cases hr : c3merge f (List.map (fun s => if s.head? == some hd then s.tail else s)
              (List.filter (fun s => !s.isEmpty) seqs)) with
        | none => rw [hr] at h; cases h
        | some r' =>
          rw [hr] at h
          simp only [Option.map_some, Option.some.injEq] at h
          subst h
          have := ih hr
          simp only [List.length_cons]; omega

theorem mroOf_shape {tbl : ClassTable} {c : String} {m : List String} (h : mroOf tbl c = some m) :
    (∃ r, m = c :: r) ∧ m.length ≤ tbl.length * tbl.length + 8 ∧ 1 ≤ tbl.length := by
  unfold mroOf mro at h
  cases hf : tbl.find c with
  | none => rw [hf] at h; cases h
  | some e =>
    rw [hf] at h
    simp only [] at h
    have hlen : 1 ≤ tbl.length := by
      have := List.mem_of_find?_eq_some hf
      cases tbl with
      | nil => cases this
      | cons _ _ => simp
    cases hm : e.bases.mapM (mro tbl tbl.length) with
    | none => rw [hm] at h; cases h
    | some ls =>
      rw [hm] at h
      simp only [] at h
      cases hc : c3merge (tbl.length * tbl.length + 8) (ls ++ [e.bases]) with
      | none => rw [hc] at h; cases h
      | some r =>
        rw [hc] at h
        simp only [Option.map_some, Option.some.injEq] at h
        subst h
        have := c3merge_length hc
        exact ⟨⟨r, rfl⟩, by simp only [List.length_cons]; omega, hlen⟩

theorem mroOf_extend {tbl : ClassTable} {uid b x nm : String} {mx mb : List String}
    (hfresh : uid ∉ tbl.map (·.name)) (hx : mroOf tbl x = some mx) (hb : mroOf tbl b = some mb) :
    mroOf (tbl ++ [extendClass [1, 0] uid b x nm]) uid =
      (c3merge ((tbl.length + 1) * (tbl.length + 1) + 8) [mx, mb, [x, b]]).map (uid :: ·) := by
  unfold mroOf at *
  rw [show (tbl ++ [extendClass [1, 0] uid b x nm]).length + 1 = (tbl.length + 1) + 1 by simp]
  have hfind : ClassTable.find (tbl ++ [extendClass [1, 0] uid b x nm]) uid
      = some (extendClass [1, 0] uid b x nm) :=
    C14.find_new (e := extendClass [1, 0] uid b x nm) hfresh
  rw [mro, hfind]
  simp only [C14.extendClass_bases]
  have h1 := mro_append (ext := [extendClass [1, 0] uid b x nm]) hx (Nat.le_refl _)
  have h2 := mro_append (ext := [extendClass [1, 0] uid b x nm]) hb (Nat.le_refl _)
  simp only [List.mapM_cons, List.mapM_nil, h1, h2]
  simp

/-- C3 for a masking mix-in: `extra`'s MRO is `[extra, root]`, the base's MRO ends in `root`. -/
theorem mroOf_extend_mask {tbl : ClassTable} {uid b x root nm : String} {pre : List String}
    (hfresh : uid ∉ tbl.map (·.name)) (hx : mroOf tbl x = some [x, root])
    (hb : mroOf tbl b = some (pre ++ [root])) (hnd : (pre ++ [root]).Nodup) (hxb : x ∉ pre ++ [root]) :
    mroOf (tbl ++ [extendClass [1, 0] uid b x nm]) uid = some (uid :: x :: (pre ++ [root])) := by
  rw [mroOf_extend hfresh hx hb]
  obtain ⟨⟨r, hr⟩, hlen, h1⟩ := mroOf_shape hb
  have hhead : b = (pre ++ [root]).head (by simp) := by
    simp only [hr, List.head_cons]
  have := c3_extend x root pre hnd hxb ((tbl.length + 1) * (tbl.length + 1) + 8) (by
    simp only [List.length_append, List.length_singleton] at hlen
    have : (tbl.length + 1) * (tbl.length + 1) = tbl.length * tbl.length + 2 * tbl.length + 1 := by
      rw [Nat.add_mul, Nat.mul_add]; omega
    omega)
  rw [← hhead] at this
  rw [this]; rfl
theorem find_snoc (tbl : ClassTable) (e : ClassEntry) (c : String) :
    ClassTable.find (tbl ++ [e]) c =
      match tbl.find c with
      | some e' => some e'
      | none => if e.name == c then some e else none := by
  unfold ClassTable.find
  rw [List.find?_append]
  cases List.find? (fun e => e.name == c) tbl with
  | some e' => rfl
  | none =>
    simp only [List.find?_cons, List.find?_nil, Option.none_or]
    cases e.name == c <;> rfl

theorem hookChain_extend (tbl : ClassTable) (e : ClassEntry) (he : e.hooks = []) (m : List String)
    (hook : String) : hookChain (tbl ++ [e]) m hook = hookChain tbl m hook := by
  unfold hookChain
  apply List.filter_congr
  intro c _
  rw [find_snoc]
  cases tbl.find c with
  | some e' => rfl
  | none =>
    simp only []
    cases e.name == c
    · rfl
    · simp [he]

theorem firstConst_extend {α} (tbl : ClassTable) (e : ClassEntry) (f : ClassEntry → Option α)
    (he : f e = none) (m : List String) : firstConst (tbl ++ [e]) m f = firstConst tbl m f := by
  unfold firstConst
  induction m with
  | nil => rfl
  | cons c m ih =>
    rw [List.findSome?_cons, List.findSome?_cons, ih]
    have : (ClassTable.find (tbl ++ [e]) c).bind f = (tbl.find c).bind f := by
      rw [find_snoc]
      cases tbl.find c with
      | some e' => rfl
      | none =>
        simp only []
        cases e.name == c
        · rfl
        · simp [he]
    rw [this]

theorem hookChain_cons (tbl : ClassTable) (c : String) (m : List String) (hook : String) :
    hookChain tbl (c :: m) hook =
      (match tbl.find c with
       | some e => if e.hooks.contains hook then [c] else []
       | none => []) ++ hookChain tbl m hook := by
  unfold hookChain
  rw [List.filter_cons]
  cases tbl.find c with
  | none => simp
  | some e =>
    simp only []
    split <;> simp_all

theorem firstConst_cons {α} (tbl : ClassTable) (c : String) (m : List String) (f : ClassEntry → Option α) :
    firstConst tbl (c :: m) f = ((tbl.find c).bind f).or (firstConst tbl m f) := by
  unfold firstConst
  rw [List.findSome?_cons]
  cases (tbl.find c).bind f <;> rfl

/-! ### order independence of the declarative layout -/

theorem findDef_perm {ds ds' : List SchemeDef} (hp : ds.Perm ds') (hnd : (ds.map (·.annotation)).Nodup)
    (a : String) : Spec.findDef ds a = Spec.findDef ds' a := by
  have hnd' : (ds'.map (·.annotation)).Nodup := (hp.map _).nodup_iff.1 hnd
  cases h : Spec.findDef ds a with
  | none =>
    symm
    rw [findDef_eq_none] at h ⊢
    intro hm; exact h ((hp.map _).mem_iff.2 hm)
  | some d =>
    obtain ⟨hd, rfl⟩ := findDef_some h
    exact (findDef_of_mem hnd' (hp.mem_iff.1 hd)).symm

theorem resolve_perm {ds ds' : List SchemeDef} (hp : ds.Perm ds') (hnd : (ds.map (·.annotation)).Nodup)
    (n : Nat) (a : String) : Spec.resolve ds n a = Spec.resolve ds' n a := by
  induction n generalizing a with
  | zero => rfl
  | succ n ih =>
    unfold Spec.resolve
    rw [findDef_perm hp hnd a]
    cases Spec.findDef ds' a with
    | none => rfl
    | some d =>
      simp only []
      cases d.hasBase with
      | none => rfl
      | some b => simp only [ih b]

theorem layoutOf_perm {ds ds' : List SchemeDef} (hp : ds.Perm ds') (hnd : (ds.map (·.annotation)).Nodup)
    (a : String) : Spec.layoutOf ds a = Spec.layoutOf ds' a := by
  unfold Spec.layoutOf
  rw [hp.length_eq]
  exact resolve_perm hp hnd _ a

/-! ### unique lookup -/

theorem atMostOne_of_pairwise {α κ} (key : α → κ) {l : List α}
    (h : l.Pairwise (fun a b => key a ≠ key b)) :
    ∀ a ∈ l, ∀ b ∈ l, key a = key b → a = b := by
  induction l with
  | nil => intro a ha; cases ha
  | cons x l ih =>
    rw [List.pairwise_cons] at h
    intro a ha b hb hk
    rcases List.mem_cons.1 ha with e1 | ha' <;> rcases List.mem_cons.1 hb with e2 | hb'
    · rw [e1, e2]
    · rw [e1] at hk; exact absurd hk (h.1 b hb')
    · rw [e2] at hk; exact absurd hk.symm (h.1 a ha')
    · exact ih h.2 a ha' b hb' hk

theorem find?_of_unique {α} {l : List α} {p : α → Bool} {a : α} (ha : a ∈ l) (hpa : p a = true)
    (hu : ∀ b ∈ l, p b = true → b = a) : l.find? p = some a := by
  cases h : l.find? p with
  | none => rw [List.find?_eq_none] at h; exact absurd hpa (h a ha)
  | some b => rw [hu b (List.mem_of_find?_eq_some h) (List.find?_some h)]

theorem find?_perm_of_unique {α} {l l' : List α} (hp : l.Perm l') {p : α → Bool}
    (hu : ∀ a ∈ l, ∀ b ∈ l, p a = true → p b = true → a = b) : l.find? p = l'.find? p := by
  cases h : l.find? p with
  | none =>
    symm
    rw [List.find?_eq_none] at h ⊢
    intro x hx; exact h x (hp.mem_iff.2 hx)
  | some a =>
    symm
    have ha := List.mem_of_find?_eq_some h
    have hpa := List.find?_some h
    exact find?_of_unique (hp.mem_iff.1 ha) hpa
      (fun b hb hpb => hu b (hp.mem_iff.2 hb) a ha hpb hpa)

theorem validateSchemes_iff (all : List Scheme) :
    validateSchemes all = true ↔
      all.Pairwise (fun s r => (s.version, s.annotation) ≠ (r.version, r.annotation)) := by
  induction all with
  | nil => simp [validateSchemes]
  | cons s rest ih =>
    rw [validateSchemes, List.pairwise_cons, Bool.and_eq_true, ih, List.all_eq_true]
    apply and_congr_left'
    constructor
    · intro h r hr e
      have := h r hr
      simp only [Prod.mk.injEq] at e
      simp [e.1, e.2] at this
    · intro h r hr
      have := h r hr
      simp only [ne_eq, Prod.mk.injEq, not_and] at this
      simp only [Bool.not_eq_eq_eq_not, Bool.not_true, Bool.and_eq_false_imp, beq_iff_eq, beq_eq_false_iff_ne]
      intro e1 e2
      exact this e1.symm e2.symm

end SchemeLemmas
