/-
  The external sorter commutes with relabelling of the items: sorting `xs.map f` with the
  comparison `lt` is sorting `xs` with the comparison `fun a b => lt (f a) (f b)` and mapping `f`
  over the result.  No hypothesis on `lt` or `f`.

  Used by C10 to restrict the record comparison (a total preorder only on well-formed keyable
  records) to the subtype where C07's hypotheses hold.
-/
import MafModel.Lemmas.SorterLemmas

namespace SorterLemmas
open Model

variable {α β : Type}

/-- relabel every item a sorter holds -/
def mapSorter (f : β → α) (s : Sorter β) : Sorter α :=
  { cap := s.cap, alwaysSpill := s.alwaysSpill, stash := s.stash.map f,
    files := s.files.map (List.map f) }

/-- the comparison pulled back along `f` -/
abbrev comapLt (lt : α → α → Bool) (f : β → α) : β → β → Bool := fun a b => lt (f a) (f b)

theorem sortChunk_map (lt : α → α → Bool) (f : β → α) (l : List β) :
    sortChunk lt (l.map f) = (sortChunk (comapLt lt f) l).map f := by
  unfold sortChunk
  exact (List.map_mergeSort (r := fun a b => !comapLt lt f b a) (s := fun a b => !lt b a) (f := f)
    (fun _ _ _ _ => rfl)).symm

theorem spill_map (lt : α → α → Bool) (f : β → α) (s : Sorter β) :
    (mapSorter f s).spill lt = mapSorter f (s.spill (comapLt lt f)) := by
  unfold Sorter.spill mapSorter
  cases hs : s.stash with
  | nil => simp [hs]
  | cons x l =>
    simp only [List.map_cons, List.isEmpty_cons, Bool.false_eq_true, if_false, List.map_append,
      List.map_nil]
    rw [← List.map_cons, sortChunk_map]

theorem add_map (lt : α → α → Bool) (f : β → α) (s : Sorter β) (x : β) :
    (mapSorter f s).add lt (f x) = mapSorter f (s.add (comapLt lt f) x) := by
  unfold Sorter.add
  have h1 : ({ mapSorter f s with stash := (mapSorter f s).stash ++ [f x] } : Sorter α)
      = mapSorter f { s with stash := s.stash ++ [x] } := by
    simp [mapSorter]
  simp only [h1]
  have h3 : ((mapSorter f s).stash ++ [f x]).length = (s.stash ++ [x]).length := by
    simp [mapSorter]
  have h4 : (mapSorter f s).cap = s.cap := rfl
  simp only [h3, h4]
  split
  · exact spill_map lt f _
  · rfl

theorem foldl_add_map (lt : α → α → Bool) (f : β → α) (xs : List β) (s : Sorter β) :
    (xs.map f).foldl (Sorter.add lt) (mapSorter f s)
      = mapSorter f (xs.foldl (Sorter.add (comapLt lt f)) s) := by
  induction xs generalizing s with
  | nil => rfl
  | cons x xs ih => rw [List.map_cons, List.foldl_cons, List.foldl_cons, add_map, ih]

theorem minHead_map (lt : α → α → Bool) (f : β → α) (cs : List (List β)) :
    minHead lt (cs.map (List.map f))
      = (minHead (comapLt lt f) cs).map (fun p => (p.1, f p.2)) := by
  induction cs with
  | nil => rfl
  | cons c cs ih =>
    cases c with
    | nil =>
      simp only [List.map_cons, List.map_nil, minHead, ih]
      cases minHead (comapLt lt f) cs <;> rfl
    | cons x c =>
      simp only [List.map_cons, minHead, ih]
      cases h : minHead (comapLt lt f) cs with
      | none => rfl
      | some p =>
        obtain ⟨j, y⟩ := p
        simp only [Option.map_some]
        split <;> rfl

theorem modify_tail_map (f : β → α) (cs : List (List β)) (i : Nat) :
    (cs.map (List.map f)).modify i List.tail = (cs.modify i List.tail).map (List.map f) := by
  induction cs generalizing i with
  | nil => simp
  | cons c cs ih =>
    cases i with
    | zero => simp [List.modify_zero_cons]
    | succ i => simp [List.modify_succ_cons, ih]

theorem mergeK_map (lt : α → α → Bool) (f : β → α) (fuel : Nat) (cs : List (List β)) :
    mergeK lt fuel (cs.map (List.map f)) = (mergeK (comapLt lt f) fuel cs).map f := by
  induction fuel generalizing cs with
  | zero => rfl
  | succ fuel ih =>
    simp only [mergeK, minHead_map]
    cases h : minHead (comapLt lt f) cs with
    | none => rfl
    | some p =>
      obtain ⟨i, x⟩ := p
      simp only [Option.map_some, List.map_cons]
      rw [modify_tail_map, ih]

theorem totalLen_map (f : β → α) (cs : List (List β)) :
    totalLen (cs.map (List.map f)) = totalLen cs := by
  simp [totalLen, Function.comp_def]

theorem iter_map (lt : α → α → Bool) (f : β → α) (s : Sorter β) :
    (mapSorter f s).iter lt = (s.iter (comapLt lt f)).map f := by
  unfold Sorter.iter
  have h1 : (mapSorter f s).files.isEmpty = s.files.isEmpty := by
    simp [mapSorter]
  have h2 : (mapSorter f s).alwaysSpill = s.alwaysSpill := rfl
  rw [h1, h2]
  split
  · simp only [spill_map]
    show mergeK lt (totalLen ((s.spill (comapLt lt f)).files.map (List.map f)))
      ((s.spill (comapLt lt f)).files.map (List.map f)) = _
    rw [totalLen_map, mergeK_map]
  · exact sortChunk_map lt f s.stash

/-- the sorter commutes with relabelling -/
theorem sortAll_map (lt : α → α → Bool) (f : β → α) (cap : Nat) (sp : Bool) (xs : List β) :
    sortAll lt cap sp (xs.map f) = (sortAll (comapLt lt f) cap sp xs).map f := by
  unfold sortAll
  have : ({ cap := cap, alwaysSpill := sp } : Sorter α)
      = mapSorter f { cap := cap, alwaysSpill := sp } := rfl
  rw [this, foldl_add_map, iter_map]

end SorterLemmas
