/-
  A kernel-evaluable presentation of the spill-file scenario.  `List.mergeSort` is
  defined by well-founded recursion and does not reduce in the kernel, so the
  concrete runs in `Props/C18.lean` are evaluated on a copy of the three operations
  that sort with a structurally recursive insertion sort; the copy is proved EQUAL
  to the model's operations (`scenario_eq_scenarioK`), so nothing is assumed.
-/
import MafModel.Lemmas.MergeLemmas
open Py Model MergeLemmas

namespace ResourceEval

def ins (x : Nat) : List Nat → List Nat
  | [] => [x]
  | y :: ys => if x ≤ y then x :: y :: ys else y :: ins x ys

def isort : List Nat → List Nat
  | [] => []
  | x :: xs => ins x (isort xs)

theorem ins_perm (x : Nat) (l : List Nat) : (ins x l).Perm (x :: l) := by
  induction l with
  | nil => exact List.Perm.refl _
  | cons y ys ih =>
    unfold ins
    split
    · exact List.Perm.refl _
    · exact (List.Perm.cons y ih).trans (List.Perm.swap x y ys)

theorem ins_sorted (x : Nat) (l : List Nat) (h : l.Pairwise (· ≤ ·)) : (ins x l).Pairwise (· ≤ ·) := by
  induction l with
  | nil => simp [ins]
  | cons y ys ih =>
    unfold ins
    rw [List.pairwise_cons] at h
    split
    · rename_i hxy
      refine List.pairwise_cons.2 ⟨?_, List.pairwise_cons.2 h⟩
      intro z hz
      rcases List.mem_cons.1 hz with rfl | hz
      · exact hxy
      · exact Nat.le_trans hxy (h.1 z hz)
    · rename_i hxy
      refine List.pairwise_cons.2 ⟨?_, ih h.2⟩
      intro z hz
      rcases List.mem_cons.1 ((ins_perm x ys).mem_iff.1 hz) with rfl | hz
      · omega
      · exact h.1 z hz

theorem isort_perm (l : List Nat) : (isort l).Perm l := by
  induction l with
  | nil => exact List.Perm.refl _
  | cons x xs ih => exact (ins_perm x _).trans (List.Perm.cons x ih)

theorem isort_sorted (l : List Nat) : (isort l).Pairwise (· ≤ ·) := by
  induction l with
  | nil => exact List.Pairwise.nil
  | cons x xs ih => exact ins_sorted x _ ih

theorem mergeSort_eq_isort (l : List Nat) : l.mergeSort (fun a b => decide (a ≤ b)) = isort l :=
  (eq_mergeSort_of_sorted_perm (isort_sorted l) (isort_perm l)).symm

/-- `spill` with the insertion sort -/
def spillK : M Unit := do
  let s ← get
  if s.stash.isEmpty then return ()
  let (d, f) ← mkstemp
  modify (fun s => { s with paths := s.paths ++ [f], fdsReg := s.fdsReg ++ [some d] })
  let h ← gzopen .gzopenW
  let sorted := isort s.stash
  tryCatch (sorted.forM (fun _ => do hwrite; hwrite))
    (fun e => do swallowOS (hclose .hcloseW h); throw e)
  hclose .hcloseW h
  modify (fun s => { s with stash := [], contents := s.contents ++ [(f, sorted)] })

theorem spill_eq_spillK : spill = spillK := by
  unfold spill spillK
  simp only [mergeSort_eq_isort]

def addK (x : Nat) : M Unit := do
  modify (fun s => { s with stash := s.stash ++ [x] })
  let s ← get
  if s.stash.length = s.cap then spillK

theorem add_eq_addK : add = addK := by
  funext x
  unfold add addK
  rw [spill_eq_spillK]

def iterateK (limit : Option Nat) : M (List Nat) := do
  let s ← get
  if !s.paths.isEmpty || s.alwaysSpill then
    spillK
    let s ← get
    let files := s.paths.map (fun p => ((s.contents.find? (fun q => q.1 == p)).map (·.2)).getD [])
    let cs ← files.foldlM (fun (acc : List Cursor) keys =>
      tryCatch (do let c ← newCursor keys; pure (acc ++ [c]))
        (fun e => do swallowOS (closeCursors acc); throw e)) []
    modify (fun s => { s with merging := s.merging ++ [cs] })
    let total := (files.map List.length).sum
    let r ← tryCatch (mergeLoop (total + 1) limit cs [])
      (fun e => do
        let s ← get
        let cur := (s.merging.getLast?).getD cs
        modify (fun s => { s with merging := s.merging.dropLast })
        tryCatch (closeCursors cur) (fun _ => pure ())
        throw e)
    let (out, cs', abandoned) := r
    if abandoned then
      return out
    else
      modify (fun s => { s with merging := s.merging.dropLast })
      closeCursors cs'
      return out
  else
    let out := isort s.stash
    return match limit with
      | some j => out.take j
      | none => out

theorem iterate_eq_iterateK : iterate = iterateK := by
  funext limit
  unfold iterate iterateK
  simp only [mergeSort_eq_isort, spill_eq_spillK]
  rfl

def scenarioK (n cap : Nat) (alwaysSpill : Bool) (abandon : Option Nat) (failAt : Option Nat) :
    PhaseLog × RState :=
  let s0 : RState := { cap := cap, alwaysSpill := alwaysSpill, failAt := failAt }
  let keys := (List.range n).map (fun k => n - k)
  let (r1, s1) := (keys.forM addK : M Unit).run s0
  let (log1, s2) : PhaseLog × RState :=
    match r1 with
    | .error e => ({ raised := [("add", e)] }, s1)
    | .ok () =>
      match (iterateK abandon).run s1 with
      | (.ok out, s) => ({ output := some out }, s)
      | (.error e, s) => ({ raised := [("iterate", e)] }, s)
  scenario.closeN 3 0 log1 s2

theorem scenario_eq_scenarioK : scenario = scenarioK := by
  funext n cap sp abandon failAt
  unfold scenario scenarioK
  rw [add_eq_addK, iterate_eq_iterateK]
  rfl

end ResourceEval
