/-
  Helper lemmas for the sort-order model (`MafModel/Model/SortOrder.lean`).

  The model's comparison `cmpKV`/`cmpKey` lives in `Except PyErr Int` because Python raises
  `TypeError` on `int` vs `str`.  Here we introduce *total* sign functions `KV.cmp`/`Key.cmp`
  (a linear order on all of `KV`, with `int < str < none`), prove that the model's comparison
  agrees with them whenever the component kinds are compatible, and prove the order laws once
  and for all on the total functions.
-/
import MafModel.Model.SortOrder
open Py
namespace Model

/-- results of the model's partial functions can be compared by `decide` (for examples) -/
instance instDecidableEqExceptSortOrder {ε α} [DecidableEq ε] [DecidableEq α] :
    DecidableEq (Except ε α)
  | .ok a, .ok b => if h : a = b then isTrue (by rw [h]) else isFalse (fun e => h (by cases e; rfl))
  | .error a, .error b =>
    if h : a = b then isTrue (by rw [h]) else isFalse (fun e => h (by cases e; rfl))
  | .ok _, .error _ => isFalse (fun e => by cases e)
  | .error _, .ok _ => isFalse (fun e => by cases e)

/-! ### three-way comparison signs -/

/-- the sign of a three-way comparison: `-1`, `0`, `1` -/
def sgn {α} [LT α] [DecidableLT α] [DecidableEq α] (a b : α) : Int :=
  if a < b then -1 else if a = b then 0 else 1

/-- what a triple `(cmp a b, cmp b c, cmp a c)` of a total preorder satisfies -/
def Tri (d1 d2 d3 : Int) : Prop :=
  (d1 ≤ 0 → d2 ≤ 0 → d3 ≤ 0) ∧ (d1 < 0 → d2 ≤ 0 → d3 < 0) ∧ (d1 ≤ 0 → d2 < 0 → d3 < 0) ∧
  (d1 = 0 → d3 = d2) ∧ (d2 = 0 → d3 = d1)

/-- a sign -/
def IsSign (d : Int) : Prop := d = -1 ∨ d = 0 ∨ d = 1

theorem text_lt_irrefl (a : Text) : ¬ a < a := List.lt_irrefl a
theorem text_lt_trans {a b c : Text} : a < b → b < c → a < c := List.lt_trans
theorem text_lt_asymm {a b : Text} : a < b → ¬ b < a := List.lt_asymm
theorem text_eq_of_not_lt {a b : Text} (h1 : ¬ a < b) (h2 : ¬ b < a) : a = b :=
  List.le_antisymm (List.not_lt.mp h2) (List.not_lt.mp h1)

theorem sgn_isSign {α} [LT α] [DecidableLT α] [DecidableEq α] (a b : α) : IsSign (sgn a b) := by
  unfold IsSign sgn
  by_cases h1 : a < b
  · rw [if_pos h1]; simp
  · rw [if_neg h1]
    by_cases h2 : a = b
    · rw [if_pos h2]; simp
    · rw [if_neg h2]; simp

theorem sgn_text_self (a : Text) : sgn a a = 0 := by
  simp [sgn, text_lt_irrefl]

theorem sgn_text_swap (a b : Text) : sgn b a = - sgn a b := by
  have := @text_lt_irrefl
  have := @text_lt_asymm
  have := @text_eq_of_not_lt
  unfold sgn
  grind

theorem sgn_text_eq_zero {a b : Text} : sgn a b = 0 ↔ a = b := by
  have := @text_lt_irrefl
  unfold sgn
  grind

theorem sgn_text_tri (a b c : Text) : Tri (sgn a b) (sgn b c) (sgn a c) := by
  have := @text_lt_irrefl
  have := @text_lt_trans
  have := @text_eq_of_not_lt
  unfold Tri sgn
  grind

theorem sgn_int_self (a : Int) : sgn a a = 0 := by simp [sgn]
theorem sgn_int_swap (a b : Int) : sgn b a = - sgn a b := by unfold sgn; omega
theorem sgn_int_eq_zero {a b : Int} : sgn a b = 0 ↔ a = b := by unfold sgn; omega
theorem sgn_int_tri (a b c : Int) : Tri (sgn a b) (sgn b c) (sgn a c) := by
  unfold Tri sgn; omega
theorem sgn_natCast (a b : Nat) : sgn (a : Int) (b : Int) = sgn a b := by unfold sgn; omega

/-! ### the total order on key components -/

/-- total three-way comparison on components: `int < str < none`; on compatible kinds it
    is what `cmpKV` computes (`cmpKV_eq_cmp`) -/
def KV.cmp : KV → KV → Int
  | .none, .none => 0
  | .none, _ => 1
  | _, .none => -1
  | .int a, .int b => sgn a b
  | .str a, .str b => sgn a b
  | .int _, .str _ => -1
  | .str _, .int _ => 1

/-- the two components can be compared by Python without `TypeError` -/
def KV.Compat : KV → KV → Prop
  | .int _, .str _ => False
  | .str _, .int _ => False
  | _, _ => True

instance (a b : KV) : Decidable (KV.Compat a b) := by
  cases a <;> cases b <;> unfold KV.Compat <;> infer_instance

theorem cmpKV_eq_cmp {a b : KV} (h : KV.Compat a b) : cmpKV a b = .ok (KV.cmp a b) := by
  cases a <;> cases b <;> simp [KV.Compat] at h <;>
    simp [cmpKV, KV.cmp, KV.lt, sgn, bind, Except.bind]
  · omega
  · rename_i s t
    have := sgn_text_swap s t
    have := @text_lt_irrefl
    have := @text_lt_asymm
    have := @text_eq_of_not_lt
    unfold sgn at *
    grind

/-- `cmpKV` fails (with `TypeError`) exactly on incompatible kinds -/
theorem cmpKV_incompat {a b : KV} (h : ¬ KV.Compat a b) : cmpKV a b = .error .type := by
  cases a <;> cases b <;> simp [KV.Compat] at h <;> simp [cmpKV, KV.lt, bind, Except.bind]

theorem KV.cmp_isSign (a b : KV) : IsSign (KV.cmp a b) := by
  cases a <;> cases b <;> simp [KV.cmp, IsSign] <;> exact sgn_isSign _ _

theorem KV.cmp_self (a : KV) : KV.cmp a a = 0 := by
  cases a <;> simp [KV.cmp, sgn_int_self, sgn_text_self]

theorem KV.cmp_swap (a b : KV) : KV.cmp b a = - KV.cmp a b := by
  cases a <;> cases b <;> simp only [KV.cmp] <;>
    first
    | exact sgn_int_swap _ _
    | exact sgn_text_swap _ _
    | rfl

theorem KV.cmp_eq_zero {a b : KV} : KV.cmp a b = 0 ↔ a = b := by
  cases a <;> cases b <;> simp [KV.cmp, sgn_int_eq_zero, sgn_text_eq_zero]

theorem KV.cmp_tri (a b c : KV) : Tri (KV.cmp a b) (KV.cmp b c) (KV.cmp a c) := by
  cases a <;> cases b <;> cases c <;> simp only [KV.cmp] <;>
    first
    | exact sgn_int_tri _ _ _
    | exact sgn_text_tri _ _ _
    | (unfold Tri; omega)

/-! ### lexicographic combination -/

/-- first non-zero sign wins -/
def lex2 (d r : Int) : Int := if d ≠ 0 then d else r

theorem lex2_tri {d1 d2 d3 r1 r2 r3 : Int} (hd : Tri d1 d2 d3) (hr : Tri r1 r2 r3) :
    Tri (lex2 d1 r1) (lex2 d2 r2) (lex2 d3 r3) := by
  unfold Tri lex2 at *; omega

theorem lex2_isSign {d r : Int} (hd : IsSign d) (hr : IsSign r) : IsSign (lex2 d r) := by
  unfold IsSign lex2 at *; omega

theorem lex2_swap {d r d' r' : Int} (hd : d' = -d) (hr : r' = -r) : lex2 d' r' = - lex2 d r := by
  unfold lex2; omega

theorem lex2_eq_zero {d r : Int} : lex2 d r = 0 ↔ d = 0 ∧ r = 0 := by
  unfold lex2; omega

/-- total three-way comparison on keys: lexicographic over (tumor, normal, chr, start, stop) -/
def Key.cmp (a b : Key) : Int :=
  lex2 (KV.cmp a.tumor b.tumor) (lex2 (KV.cmp a.normal b.normal) (lex2 (KV.cmp a.chr b.chr)
    (lex2 (KV.cmp a.start b.start) (KV.cmp a.stop b.stop))))

/-- component-wise compatibility of kinds -/
structure Key.Compat (a b : Key) : Prop where
  tumor : KV.Compat a.tumor b.tumor
  normal : KV.Compat a.normal b.normal
  chr : KV.Compat a.chr b.chr
  start : KV.Compat a.start b.start
  stop : KV.Compat a.stop b.stop

theorem cmpKey_eq_cmp {a b : Key} (h : Key.Compat a b) : cmpKey a b = .ok (Key.cmp a b) := by
  unfold cmpKey Key.cmp lex2
  rw [cmpKV_eq_cmp h.tumor, cmpKV_eq_cmp h.normal, cmpKV_eq_cmp h.chr, cmpKV_eq_cmp h.start,
    cmpKV_eq_cmp h.stop]
  simp only [bind, Except.bind, pure, Except.pure]
  repeat' split
  all_goals first | rfl | contradiction

theorem Key.cmp_isSign (a b : Key) : IsSign (Key.cmp a b) := by
  unfold Key.cmp
  exact lex2_isSign (KV.cmp_isSign _ _) (lex2_isSign (KV.cmp_isSign _ _) (lex2_isSign
    (KV.cmp_isSign _ _) (lex2_isSign (KV.cmp_isSign _ _) (KV.cmp_isSign _ _))))

theorem Key.cmp_self (a : Key) : Key.cmp a a = 0 := by
  simp [Key.cmp, KV.cmp_self, lex2]

theorem Key.cmp_swap (a b : Key) : Key.cmp b a = - Key.cmp a b := by
  unfold Key.cmp
  exact lex2_swap (KV.cmp_swap _ _) (lex2_swap (KV.cmp_swap _ _) (lex2_swap (KV.cmp_swap _ _)
    (lex2_swap (KV.cmp_swap _ _) (KV.cmp_swap _ _))))

theorem Key.cmp_eq_zero {a b : Key} : Key.cmp a b = 0 ↔ a = b := by
  unfold Key.cmp
  simp only [lex2_eq_zero, KV.cmp_eq_zero]
  cases a; cases b; simp

theorem Key.cmp_tri (a b c : Key) : Tri (Key.cmp a b) (Key.cmp b c) (Key.cmp a c) := by
  unfold Key.cmp
  exact lex2_tri (KV.cmp_tri _ _ _) (lex2_tri (KV.cmp_tri _ _ _) (lex2_tri (KV.cmp_tri _ _ _)
    (lex2_tri (KV.cmp_tri _ _ _) (KV.cmp_tri _ _ _))))

/-! ### the six operators, given the comparison result -/

theorem ops_of_cmpKey {a b : Key} {d : Int} (h : cmpKey a b = .ok d) :
    keyLt a b = .ok (decide (d < 0)) ∧ keyLe a b = .ok (decide (d ≤ 0)) ∧
    keyGt a b = .ok (decide (d > 0)) ∧ keyGe a b = .ok (decide (d ≥ 0)) ∧
    keyEq a b = .ok (decide (d = 0)) ∧ keyNe a b = .ok (decide (d ≠ 0)) := by
  have hlt : keyLt a b = .ok (decide (d < 0)) := by simp [keyLt, h, Except.map]
  have heq : keyEq a b = .ok (decide (d = 0)) := by simp [keyEq, h, Except.map]
  refine ⟨hlt, ?_, ?_, ?_, heq, ?_⟩
  · simp only [keyLe, hlt, heq, bind, Except.bind, pure, Except.pure]
    congr 1; simp only [← Bool.decide_or, decide_eq_decide]; omega
  · simp only [keyGt, hlt, heq, bind, Except.bind, pure, Except.pure]
    congr 1; simp only [← Bool.decide_or, ← decide_not, decide_eq_decide]; omega
  · simp only [keyGe, hlt, bind, Except.bind, pure, Except.pure]
    congr 1; simp only [← decide_not, decide_eq_decide]; omega
  · simp only [keyNe, heq, bind, Except.bind, pure, Except.pure]
    congr 1; simp only [← decide_not]

/-- when the comparison raises, all six operators raise the same error -/
theorem ops_of_cmpKey_error {a b : Key} {e : PyErr} (h : cmpKey a b = .error e) :
    keyLt a b = .error e ∧ keyLe a b = .error e ∧ keyGt a b = .error e ∧
    keyGe a b = .error e ∧ keyEq a b = .error e ∧ keyNe a b = .error e := by
  have hlt : keyLt a b = .error e := by simp [keyLt, h, Except.map]
  have heq : keyEq a b = .error e := by simp [keyEq, h, Except.map]
  simp [keyLe, keyGt, keyGe, keyNe, hlt, heq, bind, Except.bind]

/-- a component comparison either answers or raises `TypeError` -/
theorem cmpKV_ok_or_type (a b : KV) : (∃ d, cmpKV a b = .ok d) ∨ cmpKV a b = .error .type := by
  by_cases h : KV.Compat a b
  · exact .inl ⟨_, cmpKV_eq_cmp h⟩
  · exact .inr (cmpKV_incompat h)

/-- the comparison of two keys raises nothing but `TypeError` -/
theorem cmpKey_error_kind {a b : Key} {e : PyErr} (h : cmpKey a b = .error e) : e = .type := by
  unfold cmpKey at h
  rcases cmpKV_ok_or_type a.tumor b.tumor with ⟨d1, h1⟩ | h1 <;>
  rcases cmpKV_ok_or_type a.normal b.normal with ⟨d2, h2⟩ | h2 <;>
  rcases cmpKV_ok_or_type a.chr b.chr with ⟨d3, h3⟩ | h3 <;>
  rcases cmpKV_ok_or_type a.start b.start with ⟨d4, h4⟩ | h4 <;>
  rcases cmpKV_ok_or_type a.stop b.stop with ⟨d5, h5⟩ | h5 <;>
  (rw [h1, h2, h3, h4, h5] at h
   simp only [bind, Except.bind, pure, Except.pure] at h
   repeat' split at h
   all_goals first | (cases h; rfl) | cases h | contradiction)

theorem keyLt_error_kind {a b : Key} {e : PyErr} (h : keyLt a b = .error e) : e = .type := by
  unfold keyLt at h
  cases hc : cmpKey a b with
  | error e' => rw [hc] at h; cases h; exact cmpKey_error_kind hc
  | ok d => rw [hc] at h; cases h

/-! ### well-formed records and the kinds of their keys -/

/-- `None` or a text -/
def KV.isNS : KV → Bool | .int _ => false | _ => true
/-- `None` or an integer -/
def KV.isNI : KV → Bool | .str _ => false | _ => true
/-- an integer -/
def KV.isInt : KV → Bool | .int _ => true | _ => false
/-- a position column value `int(v)` accepts: `None` (passed through), an integer, or a text
    that `int()` can read -/
def KV.posOk : KV → Bool | .str s => (pyInt s).isSome | _ => true

/-- Well-formed record, as far as sort keys are concerned: it has its coordinate columns,
    barcodes are texts or `None`, positions are integers, `None`, or texts that read as
    integers.  (The chromosome may be any of text / integer / `None`: no constraint.) -/
def Loc.WF (l : Loc) : Prop :=
  l.hasCoords = true ∧ l.tumor.isNS = true ∧ l.normal.isNS = true ∧
  l.start.posOk = true ∧ l.stop.posOk = true

instance (l : Loc) : Decidable l.WF := by unfold Loc.WF; infer_instance

/-- the chromosome name the key is built from: `str(chromosome)`, if there is one -/
def Loc.chrName (l : Loc) : Option Text :=
  match chrText l.chr with
  | .str s => some s
  | _ => none

/-- the value of a position column as an integer -/
def KV.toInt? : KV → Option Int
  | .int i => Option.some i
  | .str s => pyInt s
  | .none => Option.none

/-- a barcode as text -/
def KV.toText? : KV → Option Text
  | .str s => Option.some s
  | _ => Option.none

def KV.ofInt? : Option Int → KV | Option.some i => .int i | Option.none => .none
def KV.ofText? : Option Text → KV | Option.some s => .str s | Option.none => .none

theorem KV.ofText?_toText? {v : KV} (h : v.isNS = true) : KV.ofText? v.toText? = v := by
  cases v <;> simp_all [KV.isNS, KV.ofText?, KV.toText?]

theorem posInt_of_posOk {v : KV} (h : v.posOk = true) : posInt v = .ok (KV.ofInt? v.toInt?) := by
  cases v with
  | none => rfl
  | int i => rfl
  | str s =>
    simp only [KV.posOk] at h
    simp only [posInt, KV.toInt?]
    cases hp : pyInt s with
    | none => simp [hp] at h
    | some i => rfl

theorem posInt_error_of_not_posOk {v : KV} (h : v.posOk = false) : posInt v = .error .key := by
  cases v with
  | none => simp [KV.posOk] at h
  | int i => simp [KV.posOk] at h
  | str s =>
    simp only [KV.posOk] at h
    simp only [posInt]
    cases hp : pyInt s with
    | none => rfl
    | some i => simp [hp] at h

theorem KV.ofInt?_isNI (o : Option Int) : (KV.ofInt? o).isNI = true := by
  cases o <;> rfl

theorem chrText_isNS (v : KV) : (chrText v).isNS = true := by
  cases v <;> rfl

theorem chrText_eq_ofText? (l : Loc) : chrText l.chr = KV.ofText? l.chrName := by
  unfold Loc.chrName
  cases h : chrText l.chr with
  | none => rfl
  | str s => rfl
  | int i => have := chrText_isNS l.chr; rw [h] at this; simp [KV.isNS] at this

/-- the rank of the record's chromosome in a contig list -/
def Loc.chrRank (cs : List Text) (l : Loc) : Option Nat := l.chrName.bind cs.idxOf?

/-- the chromosome component of the key -/
def Loc.chrKey (cs : List Text) (l : Loc) : KV :=
  if cs.isEmpty then KV.ofText? l.chrName else KV.ofInt? ((l.chrRank cs).map Int.ofNat)

/-- the key `mkKey` builds when it succeeds (`mkKey_eq_ok`) -/
def Loc.key (o : Order) (cs : List Text) (l : Loc) : Key :=
  match o with
  | .barcodesAndCoordinate =>
    { tumor := l.tumor, normal := l.normal, chr := l.chrKey cs,
      start := KV.ofInt? l.start.toInt?, stop := KV.ofInt? l.stop.toInt? }
  | _ => { chr := l.chrKey cs, start := KV.ofInt? l.start.toInt?, stop := KV.ofInt? l.stop.toInt? }

/-- the chromosome can be keyed: no contig list, or the name is in the list -/
def Loc.chrOk (cs : List Text) (l : Loc) : Prop :=
  cs = [] ∨ ∃ s, l.chrName = some s ∧ s ∈ cs

theorem mkKey_no_coords {o : Order} {cs : List Text} {l : Loc} (h : l.hasCoords = false) :
    mkKey o cs l = .error .key := by
  simp [mkKey, h]

/-- the chromosome step of `mkKey` -/
def chrStep (cs : List Text) (c : KV) : Except PyErr KV :=
  if cs.isEmpty then (.ok c : Except PyErr KV)
  else match c with
    | .str s => match cs.idxOf? s with
      | some i => .ok (.int i)
      | none => .error .value
    | _ => .error .value

theorem mkKey_unfold {o : Order} {cs : List Text} {l : Loc} (h : l.hasCoords = true) :
    mkKey o cs l = (do
      let chr ← chrStep cs (chrText l.chr)
      let s ← posInt l.start
      let e ← posInt l.stop
      match o with
      | .barcodesAndCoordinate =>
        .ok { tumor := l.tumor, normal := l.normal, chr := chr, start := s, stop := e }
      | _ => .ok { chr := chr, start := s, stop := e }) := by
  simp only [mkKey, h, chrStep]
  rfl

theorem chrStep_ok {cs : List Text} {l : Loc} (h : l.chrOk cs) :
    chrStep cs (chrText l.chr) = .ok (l.chrKey cs) := by
  unfold chrStep Loc.chrKey
  by_cases hc : cs.isEmpty = true
  · simp [hc, chrText_eq_ofText?]
  · simp only [hc]
    rcases h with h | ⟨s, hs, hmem⟩
    · simp [h] at hc
    · rw [chrText_eq_ofText?, hs]
      simp only [KV.ofText?, Loc.chrRank, hs, Option.bind_some]
      cases hi : cs.idxOf? s with
      | none => rw [List.idxOf?_eq_none_iff] at hi; exact absurd hmem hi
      | some i => rfl

theorem chrStep_error {cs : List Text} {l : Loc} (hne : cs ≠ [])
    (h : ∀ s, l.chrName = some s → s ∉ cs) :
    chrStep cs (chrText l.chr) = .error .value := by
  unfold chrStep
  have hc : cs.isEmpty = false := by cases cs <;> simp_all
  simp only [hc, Bool.false_eq_true, if_false]
  rw [chrText_eq_ofText?]
  cases hn : l.chrName with
  | none => rfl
  | some s =>
    have := h s hn
    rw [← List.idxOf?_eq_none_iff] at this
    simp [KV.ofText?, this]

theorem mkKey_eq_ok {o : Order} {cs : List Text} {l : Loc} (hwf : l.WF) (hc : l.chrOk cs) :
    mkKey o cs l = .ok (l.key o cs) := by
  obtain ⟨h0, _, _, hs, he⟩ := hwf
  rw [mkKey_unfold h0, chrStep_ok hc, posInt_of_posOk hs, posInt_of_posOk he]
  cases o <;> rfl

theorem mkKey_eq_error {o : Order} {cs : List Text} {l : Loc} (h0 : l.hasCoords = true)
    (hne : cs ≠ []) (h : ∀ s, l.chrName = some s → s ∉ cs) :
    mkKey o cs l = .error .value := by
  rw [mkKey_unfold h0, chrStep_error hne h]
  rfl

theorem chrOk_or_missing (cs : List Text) (l : Loc) :
    l.chrOk cs ∨ (cs ≠ [] ∧ ∀ s, l.chrName = some s → s ∉ cs) := by
  unfold Loc.chrOk
  by_cases hc : cs = []
  · exact .inl (.inl hc)
  · cases hn : l.chrName with
    | none => exact .inr ⟨hc, by simp⟩
    | some s =>
      by_cases hm : s ∈ cs
      · exact .inl (.inr ⟨s, rfl, hm⟩)
      · refine .inr ⟨hc, ?_⟩
        intro t ht; cases ht; exact hm

/-- for a well-formed record, `mkKey` succeeds exactly when the chromosome can be keyed, and
    then returns `Loc.key` -/
theorem mkKey_ok_iff {o : Order} {cs : List Text} {l : Loc} {k : Key} (hwf : l.WF) :
    mkKey o cs l = .ok k ↔ l.chrOk cs ∧ k = l.key o cs := by
  constructor
  · intro h
    rcases chrOk_or_missing cs l with hc | ⟨hne, hm⟩
    · rw [mkKey_eq_ok hwf hc] at h
      exact ⟨hc, by cases h; rfl⟩
    · rw [mkKey_eq_error hwf.1 hne hm] at h; cases h
  · rintro ⟨hc, rfl⟩; exact mkKey_eq_ok hwf hc

/-! ### which exceptions `mkKey` raises, and exactly when

  `KeyError`: the record cannot be keyed (a coordinate column is missing, or a position is a text
  `int()` cannot read).  `ValueError`: a contig list is given and does not contain the chromosome.
  The contig lookup comes before the positions, so a record with both defects is a `ValueError`. -/

/-- a position `int()` cannot read is a `KeyError` (never a `ValueError`) -/
theorem posInt_error {v : KV} {e : PyErr} (h : posInt v = .error e) : e = .key := by
  unfold posInt at h
  split at h
  · split at h <;> cases h; rfl
  · cases h

theorem posOk_of_posInt_ok {v k : KV} (h : posInt v = .ok k) : v.posOk = true := by
  cases v with
  | str s =>
    simp only [KV.posOk]
    cases hp : pyInt s with
    | none => simp [posInt, hp] at h
    | some i => rfl
  | _ => rfl

theorem posInt_error_iff {v : KV} {e : PyErr} : posInt v = .error e ↔ v.posOk = false ∧ e = .key := by
  constructor
  · intro h
    refine ⟨?_, posInt_error h⟩
    cases hp : v.posOk with
    | false => rfl
    | true => rw [posInt_of_posOk hp] at h; cases h
  · rintro ⟨h, rfl⟩; exact posInt_error_of_not_posOk h

theorem chrStep_error_kind {cs : List Text} {c : KV} {e : PyErr} (h : chrStep cs c = .error e) : e = .value := by
  unfold chrStep at h
  split at h
  · cases h
  · split at h
    · split at h <;> cases h; rfl
    · cases h; rfl

/-- `sort_key` raises only `KeyError` (the record cannot be keyed) or `ValueError` (contig list) -/
theorem mkKey_error_kind {o : Order} {cs : List Text} {l : Loc} {e : PyErr} (h : mkKey o cs l = .error e) :
    e = .key ∨ e = .value := by
  cases hc : l.hasCoords with
  | false => rw [mkKey_no_coords hc] at h; cases h; exact .inl rfl
  | true =>
    rw [mkKey_unfold hc] at h
    cases h1 : chrStep cs (chrText l.chr) with
    | error e1 => rw [h1] at h; cases h; exact .inr (chrStep_error_kind h1)
    | ok c =>
      cases h2 : posInt l.start with
      | error e2 => rw [h1, h2] at h; cases h; exact .inl (posInt_error h2)
      | ok s =>
        cases h3 : posInt l.stop with
        | error e3 => rw [h1, h2, h3] at h; cases h; exact .inl (posInt_error h3)
        | ok t => rw [h1, h2, h3] at h; cases o <;> cases h

/-- a record with its coordinate columns and a keyable chromosome, one of whose positions is a
    text that is not a number, cannot be keyed: `KeyError` -/
theorem mkKey_bad_position {o : Order} {cs : List Text} {l : Loc} (h0 : l.hasCoords = true)
    (hc : l.chrOk cs) (hp : l.start.posOk = false ∨ l.stop.posOk = false) :
    mkKey o cs l = .error .key := by
  rw [mkKey_unfold h0, chrStep_ok hc]
  cases hs : l.start.posOk with
  | false => rw [posInt_error_of_not_posOk hs]; rfl
  | true =>
    have he : l.stop.posOk = false := by rcases hp with h | h; · rw [hs] at h; cases h
                                         · exact h
    rw [posInt_of_posOk hs, posInt_error_of_not_posOk he]; rfl

/-- the complete case analysis of `mkKey`, for EVERY record (no well-formedness hypothesis) -/
theorem mkKey_cases (o : Order) (cs : List Text) (l : Loc) :
    (l.hasCoords = false ∧ mkKey o cs l = .error .key) ∨
    (l.hasCoords = true ∧ cs ≠ [] ∧ (∀ s, l.chrName = some s → s ∉ cs) ∧ mkKey o cs l = .error .value) ∨
    (l.hasCoords = true ∧ l.chrOk cs ∧ (l.start.posOk = false ∨ l.stop.posOk = false) ∧
      mkKey o cs l = .error .key) ∨
    (l.hasCoords = true ∧ l.chrOk cs ∧ l.start.posOk = true ∧ l.stop.posOk = true ∧
      mkKey o cs l = .ok (l.key o cs)) := by
  cases h0 : l.hasCoords with
  | false => exact .inl ⟨rfl, mkKey_no_coords h0⟩
  | true =>
    rcases chrOk_or_missing cs l with hc | ⟨hne, hm⟩
    · cases hs : l.start.posOk with
      | false => exact .inr (.inr (.inl ⟨rfl, hc, .inl rfl, mkKey_bad_position h0 hc (.inl hs)⟩))
      | true =>
        cases he : l.stop.posOk with
        | false => exact .inr (.inr (.inl ⟨rfl, hc, .inr rfl, mkKey_bad_position h0 hc (.inr he)⟩))
        | true =>
          refine .inr (.inr (.inr ⟨rfl, hc, rfl, rfl, ?_⟩))
          rw [mkKey_unfold h0, chrStep_ok hc, posInt_of_posOk hs, posInt_of_posOk he]
          cases o <;> rfl
    · exact .inr (.inl ⟨rfl, hne, hm, mkKey_eq_error h0 hne hm⟩)

theorem chrOk_not_missing {cs : List Text} {l : Loc} (hc : l.chrOk cs)
    (hne : cs ≠ []) (hm : ∀ s, l.chrName = some s → s ∉ cs) : False := by
  rcases hc with h | ⟨s, hs, hmem⟩
  · exact hne h
  · exact hm s hs hmem

/-- `ValueError` from the key function: EXACTLY a chromosome missing from a non-empty contig list
    (on a record that has its coordinate columns); the positions play no part -/
theorem mkKey_valueError_iff {o : Order} {cs : List Text} {l : Loc} :
    mkKey o cs l = .error .value ↔
      l.hasCoords = true ∧ cs ≠ [] ∧ ∀ s, l.chrName = some s → s ∉ cs := by
  constructor
  · intro h
    rcases mkKey_cases o cs l with ⟨_, h'⟩ | ⟨h0, hne, hm, _⟩ | ⟨_, _, _, h'⟩ | ⟨_, _, _, _, h'⟩
    · rw [h'] at h; cases h
    · exact ⟨h0, hne, hm⟩
    · rw [h'] at h; cases h
    · rw [h'] at h; cases h
  · rintro ⟨h0, hne, hm⟩; exact mkKey_eq_error h0 hne hm

/-- `KeyError` from the key function: EXACTLY the records that cannot be keyed — a coordinate
    column is missing, or (the chromosome being keyable) a position is a text that is not a number -/
theorem mkKey_keyError_iff {o : Order} {cs : List Text} {l : Loc} :
    mkKey o cs l = .error .key ↔
      l.hasCoords = false ∨ (l.chrOk cs ∧ (l.start.posOk = false ∨ l.stop.posOk = false)) := by
  constructor
  · intro h
    rcases mkKey_cases o cs l with ⟨h0, _⟩ | ⟨_, _, _, h'⟩ | ⟨_, hc, hp, _⟩ | ⟨_, _, _, _, h'⟩
    · exact .inl h0
    · rw [h'] at h; cases h
    · exact .inr ⟨hc, hp⟩
    · rw [h'] at h; cases h
  · rintro (h0 | ⟨hc, hp⟩)
    · exact mkKey_no_coords h0
    · cases h0 : l.hasCoords with
      | false => exact mkKey_no_coords h0
      | true => exact mkKey_bad_position h0 hc hp

/-- `mkKey` succeeds EXACTLY on the well-formed-for-keying records whose chromosome can be keyed
    (no hypothesis on the barcodes: they are copied, not read) -/
theorem mkKey_ok_iff' {o : Order} {cs : List Text} {l : Loc} {k : Key} :
    mkKey o cs l = .ok k ↔
      l.hasCoords = true ∧ l.chrOk cs ∧ l.start.posOk = true ∧ l.stop.posOk = true ∧
        k = l.key o cs := by
  constructor
  · intro h
    rcases mkKey_cases o cs l with ⟨_, h'⟩ | ⟨_, _, _, h'⟩ | ⟨_, _, _, h'⟩ | ⟨h0, hc, hs, he, h'⟩
    · rw [h'] at h; cases h
    · rw [h'] at h; cases h
    · rw [h'] at h; cases h
    · rw [h'] at h; cases h; exact ⟨h0, hc, hs, he, rfl⟩
  · rintro ⟨h0, hc, hs, he, rfl⟩
    rcases mkKey_cases o cs l with ⟨h0', _⟩ | ⟨_, hne, hm, _⟩ | ⟨_, _, hp, _⟩ | ⟨_, _, _, _, h'⟩
    · rw [h0] at h0'; cases h0'
    · exact (chrOk_not_missing hc hne hm).elim
    · rcases hp with hp | hp
      · rw [hs] at hp; cases hp
      · rw [he] at hp; cases hp
    · exact h'

/-- The kind invariant of keys: barcodes are `None`/text, the chromosome is `None`/text without
    a contig list (`ranked = false`) and an integer rank with one, positions are `None`/integer. -/
structure KeyInv (ranked : Bool) (k : Key) : Prop where
  tumor : k.tumor.isNS = true
  normal : k.normal.isNS = true
  chr : (if ranked then k.chr.isInt else k.chr.isNS) = true
  start : k.start.isNI = true
  stop : k.stop.isNI = true

instance (r : Bool) (k : Key) : Decidable (KeyInv r k) :=
  decidable_of_iff (k.tumor.isNS = true ∧ k.normal.isNS = true ∧
      (if r then k.chr.isInt else k.chr.isNS) = true ∧ k.start.isNI = true ∧ k.stop.isNI = true)
    ⟨fun ⟨a, b, c, d, e⟩ => ⟨a, b, c, d, e⟩, fun ⟨a, b, c, d, e⟩ => ⟨a, b, c, d, e⟩⟩

theorem KV.compat_of_isNS {a b : KV} (ha : a.isNS = true) (hb : b.isNS = true) : KV.Compat a b := by
  cases a <;> cases b <;> simp_all [KV.isNS, KV.Compat]

theorem KV.compat_of_isNI {a b : KV} (ha : a.isNI = true) (hb : b.isNI = true) : KV.Compat a b := by
  cases a <;> cases b <;> simp_all [KV.isNI, KV.Compat]

theorem KV.compat_of_isInt {a b : KV} (ha : a.isInt = true) (hb : b.isInt = true) : KV.Compat a b := by
  cases a <;> cases b <;> simp_all [KV.isInt, KV.Compat]

theorem KeyInv.compat {r : Bool} {a b : Key} (ha : KeyInv r a) (hb : KeyInv r b) : Key.Compat a b where
  tumor := KV.compat_of_isNS ha.tumor hb.tumor
  normal := KV.compat_of_isNS ha.normal hb.normal
  chr := by
    have h1 := ha.chr; have h2 := hb.chr
    cases r
    · exact KV.compat_of_isNS h1 h2
    · exact KV.compat_of_isInt h1 h2
  start := KV.compat_of_isNI ha.start hb.start
  stop := KV.compat_of_isNI ha.stop hb.stop

theorem KV.ofText?_isNS (o : Option Text) : (KV.ofText? o).isNS = true := by cases o <;> rfl

theorem Loc.key_inv {o : Order} {cs : List Text} {l : Loc} (hwf : l.WF) (hc : l.chrOk cs) :
    KeyInv (!cs.isEmpty) (l.key o cs) := by
  obtain ⟨_, ht, hn, _, _⟩ := hwf
  have hchr : (if (!cs.isEmpty) = true then (l.chrKey cs).isInt else (l.chrKey cs).isNS) = true := by
    unfold Loc.chrKey
    by_cases he : cs.isEmpty = true
    · simp [he, KV.ofText?_isNS]
    · have he' : cs.isEmpty = false := by simpa using he
      simp only [he', Bool.not_false, if_true, Bool.false_eq_true, if_false]
      rcases hc with h | ⟨s, hs, hmem⟩
      · simp [h] at he'
      · simp only [Loc.chrRank, hs, Option.bind_some]
        cases hi : cs.idxOf? s with
        | none => rw [List.idxOf?_eq_none_iff] at hi; exact absurd hmem hi
        | some i => rfl
  cases o <;>
    exact ⟨by first | exact ht | rfl, by first | exact hn | rfl, hchr, KV.ofInt?_isNI _, KV.ofInt?_isNI _⟩

/-- keys made from well-formed records satisfy the kind invariant -/
theorem mkKey_inv {o : Order} {cs : List Text} {l : Loc} {k : Key} (hwf : l.WF)
    (h : mkKey o cs l = .ok k) : KeyInv (!cs.isEmpty) k := by
  obtain ⟨hc, rfl⟩ := (mkKey_ok_iff hwf).1 h
  exact Loc.key_inv hwf hc

/-! ### the comparison in terms of the record's columns -/

/-- three-way comparison of optional values, `None` last -/
def cmpOpt {α} [LT α] [DecidableLT α] [DecidableEq α] : Option α → Option α → Int
  | none, none => 0
  | none, some _ => 1
  | some _, none => -1
  | some x, some y => sgn x y

/-- first non-zero sign of a list -/
def lexSign : List Int → Int
  | [] => 0
  | d :: ds => if d ≠ 0 then d else lexSign ds

theorem lexSign_cons (d : Int) (ds : List Int) : lexSign (d :: ds) = lex2 d (lexSign ds) := rfl

theorem lexSign_singleton (d : Int) : lexSign [d] = d := by
  simp only [lexSign]; omega

theorem lex2_zero (r : Int) : lex2 0 r = r := by simp [lex2]

theorem KV.cmp_ofInt? (a b : Option Int) : KV.cmp (KV.ofInt? a) (KV.ofInt? b) = cmpOpt a b := by
  cases a <;> cases b <;> rfl

theorem KV.cmp_ofText? (a b : Option Text) : KV.cmp (KV.ofText? a) (KV.ofText? b) = cmpOpt a b := by
  cases a <;> cases b <;> rfl

theorem cmpOpt_map_ofNat (a b : Option Nat) :
    cmpOpt (a.map Int.ofNat) (b.map Int.ofNat) = cmpOpt a b := by
  cases a <;> cases b <;> simp [cmpOpt]
  exact sgn_natCast _ _

theorem Loc.chrKey_cmp (cs : List Text) (l₁ l₂ : Loc) :
    KV.cmp (l₁.chrKey cs) (l₂.chrKey cs) =
      if cs = [] then cmpOpt l₁.chrName l₂.chrName else cmpOpt (l₁.chrRank cs) (l₂.chrRank cs) := by
  unfold Loc.chrKey
  cases cs with
  | nil => simp [KV.cmp_ofText?]
  | cons c cs => simp [KV.cmp_ofInt?, cmpOpt_map_ofNat]

/-- `Key.cmp` on the keys of two records, spelled out on the records' columns -/
theorem Loc.key_cmp (o : Order) (cs : List Text) {l₁ l₂ : Loc}
    (h₁ : l₁.WF) (h₂ : l₂.WF) :
    Key.cmp (l₁.key o cs) (l₂.key o cs) = lexSign [
      if o = .barcodesAndCoordinate then cmpOpt l₁.tumor.toText? l₂.tumor.toText? else 0,
      if o = .barcodesAndCoordinate then cmpOpt l₁.normal.toText? l₂.normal.toText? else 0,
      if cs = [] then cmpOpt l₁.chrName l₂.chrName else cmpOpt (l₁.chrRank cs) (l₂.chrRank cs),
      cmpOpt l₁.start.toInt? l₂.start.toInt?,
      cmpOpt l₁.stop.toInt? l₂.stop.toInt?] := by
  have ht : KV.cmp l₁.tumor l₂.tumor = cmpOpt l₁.tumor.toText? l₂.tumor.toText? := by
    rw [← KV.cmp_ofText?, KV.ofText?_toText? h₁.2.1, KV.ofText?_toText? h₂.2.1]
  have hn : KV.cmp l₁.normal l₂.normal = cmpOpt l₁.normal.toText? l₂.normal.toText? := by
    rw [← KV.cmp_ofText?, KV.ofText?_toText? h₁.2.2.1, KV.ofText?_toText? h₂.2.2.1]
  rw [lexSign_cons, lexSign_cons, lexSign_cons, lexSign_cons, lexSign_singleton]
  cases o <;>
    simp [Loc.key, Key.cmp, lex2_zero, KV.cmp_ofInt?, Loc.chrKey_cmp, ht, hn, KV.cmp_self]

/-! ### chains -/

/-- every two adjacent elements are related -/
def AdjChain {α} (R : α → α → Prop) : List α → Prop
  | [] => True
  | [_] => True
  | a :: b :: l => R a b ∧ AdjChain R (b :: l)

instance instDecidableAdjChain {α} (R : α → α → Prop) [DecidableRel R] :
    (l : List α) → Decidable (AdjChain R l)
  | [] => isTrue trivial
  | [_] => isTrue trivial
  | a :: b :: l =>
    have := instDecidableAdjChain R (b :: l)
    inferInstanceAs (Decidable (R a b ∧ AdjChain R (b :: l)))

@[simp] theorem adjChain_nil {α} (R : α → α → Prop) : AdjChain R [] := trivial
@[simp] theorem adjChain_singleton {α} (R : α → α → Prop) (a : α) : AdjChain R [a] := trivial
@[simp] theorem adjChain_cons_cons {α} (R : α → α → Prop) (a b : α) (l : List α) :
    AdjChain R (a :: b :: l) ↔ R a b ∧ AdjChain R (b :: l) := Iff.rfl

theorem AdjChain.tail {α} {R : α → α → Prop} {a : α} {l : List α} (h : AdjChain R (a :: l)) :
    AdjChain R l := by
  cases l with
  | nil => trivial
  | cons b l => exact h.2

/-- in index form: every element is related to its successor -/
theorem adjChain_iff_getElem {α} (R : α → α → Prop) (l : List α) :
    AdjChain R l ↔ ∀ i (h : i + 1 < l.length), R (l[i]'(by omega)) l[i + 1] := by
  induction l with
  | nil => simp
  | cons a l ih =>
    cases l with
    | nil => simp
    | cons b l =>
      rw [adjChain_cons_cons, ih]
      constructor
      · rintro ⟨hab, h⟩ i hi
        cases i with
        | zero => exact hab
        | succ i => exact h i (by simpa using hi)
      · intro h
        exact ⟨h 0 (by simp), fun i hi => h (i + 1) (by simpa using hi)⟩

/-- a list is a chain, or has a first descent: a chain prefix of length `i+1` whose last
    element is not related to the next one -/
theorem adjChain_or_first_descent {α} (R : α → α → Prop) (l : List α) :
    AdjChain R l ∨ ∃ i, ∃ h : i + 1 < l.length,
      AdjChain R (l.take (i + 1)) ∧ ¬ R (l[i]'(by omega)) l[i + 1] := by
  induction l with
  | nil => exact .inl trivial
  | cons a l ih =>
    cases l with
    | nil => exact .inl trivial
    | cons b l =>
      by_cases hab : R a b
      · rcases ih with h | ⟨i, hi, hc, hd⟩
        · exact .inl ⟨hab, h⟩
        · refine .inr ⟨i + 1, by simpa using hi, ?_, by simpa using hd⟩
          rw [List.take_succ_cons, List.take_succ_cons]
          rw [List.take_succ_cons] at hc
          exact ⟨hab, hc⟩
      · exact .inr ⟨0, by simp, by simp, by simpa using hab⟩

/-- for a relation that is transitive on the elements of the list, chains are the same as
    pairwise-related lists -/
theorem adjChain_iff_pairwise {α} {R : α → α → Prop} {P : α → Prop}
    (htrans : ∀ a b c, P a → P b → P c → R a b → R b c → R a c) (l : List α)
    (hP : ∀ x ∈ l, P x) : AdjChain R l ↔ l.Pairwise R := by
  induction l with
  | nil => simp
  | cons a l ih =>
    have ih := ih (fun x hx => hP x (List.mem_cons_of_mem _ hx))
    cases l with
    | nil => simp
    | cons b l =>
      rw [adjChain_cons_cons, ih, List.pairwise_cons (a := a)]
      constructor
      · rintro ⟨hab, hp⟩
        refine ⟨?_, hp⟩
        intro x hx
        rcases List.mem_cons.1 hx with rfl | hx
        · exact hab
        · exact htrans a b x (hP a (by simp)) (hP b (by simp)) (hP x (by simp [hx])) hab
            ((List.pairwise_cons.1 hp).1 x hx)
      · rintro ⟨ha, hp⟩
        exact ⟨ha b (by simp), hp⟩

/-! ### the order checker -/

theorem checkAll_cons_ok {c c' : Checker} {r : Loc} (rs : List Loc) (h : c.add r = .ok c') :
    checkAll c (r :: rs) = (r :: (checkAll c' rs).1, (checkAll c' rs).2) := by
  simp [checkAll, h]

theorem checkAll_cons_error {c : Checker} {r : Loc} {e : PyErr} (rs : List Loc)
    (h : c.add r = .error e) : checkAll c (r :: rs) = ([], some e) := by
  simp [checkAll, h]

theorem add_unsortable {c : Checker} (r : Loc) (h : c.order.sortable = false) :
    c.add r = .ok { c with last := some r } := by
  simp [Checker.add, h]

theorem add_skip {c : Checker} {r : Loc} (hs : c.order.sortable = true) (h : r.hasCoords = false) :
    c.add r = .ok c := by
  simp [Checker.add, hs, mkKey_no_coords h]

theorem add_first {c : Checker} {r : Loc} {k : Key} (hs : c.order.sortable = true)
    (hk : mkKey c.order c.contigs r = .ok k) (hl : c.last = none) :
    c.add r = .ok { c with last := some r } := by
  simp [Checker.add, hs, hk, hl]

theorem add_next {c : Checker} {r l : Loc} {k lk : Key} (hs : c.order.sortable = true)
    (hk : mkKey c.order c.contigs r = .ok k) (hl : c.last = some l)
    (hlk : mkKey c.order c.contigs l = .ok lk) :
    c.add r = match keyLt k lk with
      | .error e => .error e
      | .ok true => .error .value
      | .ok false => .ok { c with last := some r } := by
  unfold Checker.add
  simp only [hs, hk, hl, hlk, Bool.not_true, Bool.false_eq_true, if_false]
  cases keyLt k lk with
  | error e => rfl
  | ok b => cases b <;> rfl

/-- a record without coordinates never makes `add` fail -/
theorem add_no_coords_ok {c : Checker} {r : Loc} (h : r.hasCoords = false) :
    ∃ c', c.add r = .ok c' := by
  cases hs : c.order.sortable with
  | false => exact ⟨_, add_unsortable r hs⟩
  | true => exact ⟨_, add_skip hs h⟩

theorem checkAll_fst_of_none (c : Checker) (rs : List Loc) (h : (checkAll c rs).2 = none) :
    (checkAll c rs).1 = rs := by
  induction rs generalizing c with
  | nil => rfl
  | cons r rs ih =>
    cases ha : c.add r with
    | error e => rw [checkAll_cons_error rs ha] at h; cases h
    | ok c' =>
      rw [checkAll_cons_ok rs ha] at h ⊢
      simp only at h ⊢
      rw [ih c' h]

theorem checkAll_eq_iff_none (c : Checker) (rs : List Loc) :
    checkAll c rs = (rs, none) ↔ (checkAll c rs).2 = none := by
  constructor
  · intro h; rw [h]
  · intro h
    exact Prod.ext (checkAll_fst_of_none c rs h) h

/-- what was yielded is a prefix of the input; after an error the next input record is the
    offending one, and it has coordinates -/
theorem checkAll_error_split (c : Checker) (rs : List Loc) (e : PyErr)
    (h : (checkAll c rs).2 = some e) :
    ∃ r rest, rs = (checkAll c rs).1 ++ r :: rest ∧ r.hasCoords = true := by
  induction rs generalizing c with
  | nil => simp [checkAll] at h
  | cons r rs ih =>
    cases ha : c.add r with
    | error e' =>
      rw [checkAll_cons_error rs ha]
      refine ⟨r, rs, rfl, ?_⟩
      cases hc : r.hasCoords with
      | true => rfl
      | false => obtain ⟨c', hc'⟩ := add_no_coords_ok (c := c) hc; rw [hc'] at ha; cases ha
    | ok c' =>
      rw [checkAll_cons_ok rs ha] at h ⊢
      obtain ⟨r', rest, h1, h2⟩ := ih c' h
      exact ⟨r', rest, by simp only [List.cons_append]; rw [← h1], h2⟩

theorem checkAll_fst_prefix (c : Checker) (rs : List Loc) : (checkAll c rs).1 <+: rs := by
  cases h : (checkAll c rs).2 with
  | none => rw [checkAll_fst_of_none c rs h]; exact List.prefix_refl _
  | some e =>
    obtain ⟨r, rest, h1, _⟩ := checkAll_error_split c rs e h
    exact ⟨r :: rest, h1.symm⟩

/-! #### un-keyable records (`KeyError` from the key function) are skipped -/

/-- the record cannot be keyed: its key function raises `KeyError` (a coordinate column is
    missing, or a position is a text that is not a number) -/
def Loc.unkeyable (o : Order) (cs : List Text) (l : Loc) : Bool :=
  match mkKey o cs l with
  | .error .key => true
  | _ => false

theorem Loc.unkeyable_iff {o : Order} {cs : List Text} {l : Loc} :
    l.unkeyable o cs = true ↔ mkKey o cs l = .error .key := by
  unfold Loc.unkeyable
  split
  · rename_i h; simp [h]
  · rename_i h
    constructor
    · intro h'; cases h'
    · intro h'; exact (h h').elim

theorem Loc.unkeyable_false_iff {o : Order} {cs : List Text} {l : Loc} :
    l.unkeyable o cs = false ↔ mkKey o cs l ≠ .error .key := by
  rw [Ne, ← Loc.unkeyable_iff (o := o) (cs := cs) (l := l)]; cases l.unkeyable o cs <;> simp

/-- which records are un-keyable, on their own columns -/
theorem Loc.unkeyable_iff_cols {o : Order} {cs : List Text} {l : Loc} :
    l.unkeyable o cs = true ↔
      l.hasCoords = false ∨ (l.chrOk cs ∧ (l.start.posOk = false ∨ l.stop.posOk = false)) := by
  rw [Loc.unkeyable_iff, mkKey_keyError_iff]

theorem Loc.unkeyable_of_no_coords {o : Order} {cs : List Text} {l : Loc} (h : l.hasCoords = false) :
    l.unkeyable o cs = true := Loc.unkeyable_iff.2 (mkKey_no_coords h)

/-- an un-keyable record is skipped: the checker is left exactly as it was -/
theorem add_skip_unkeyable {c : Checker} {r : Loc} (hs : c.order.sortable = true)
    (h : mkKey c.order c.contigs r = .error .key) : c.add r = .ok c := by
  simp [Checker.add, hs, h]

/-- ... and ONLY an un-keyable record is: when `add` of a sortable order succeeds on a record
    whose key function does not raise `KeyError`, the record is remembered -/
theorem add_ok_of_keyable {c c' : Checker} {r : Loc} (hs : c.order.sortable = true)
    (h : mkKey c.order c.contigs r ≠ .error .key) (ha : c.add r = .ok c') :
    c' = { c with last := some r } := by
  unfold Checker.add at ha
  simp only [hs, Bool.not_true, Bool.false_eq_true, if_false] at ha
  split at ha
  · rename_i hk; exact (h hk).elim
  · cases ha
  · split at ha
    · cases ha; rfl
    · split at ha
      · cases ha
      · split at ha
        · cases ha
        · cases ha
        · cases ha; rfl

/-- an un-keyable record never makes `add` fail -/
theorem add_unkeyable_ok {c : Checker} {r : Loc} (h : mkKey c.order c.contigs r = .error .key) :
    ∃ c', c.add r = .ok c' := by
  cases hs : c.order.sortable with
  | false => exact ⟨_, add_unsortable r hs⟩
  | true => exact ⟨_, add_skip_unkeyable hs h⟩

/-- `add` never changes the order or the contig list of the checker -/
theorem add_order_contigs {c c' : Checker} {r : Loc} (ha : c.add r = .ok c') :
    c'.order = c.order ∧ c'.contigs = c.contigs := by
  unfold Checker.add at ha
  repeat' split at ha
  all_goals first | (cases ha; exact ⟨rfl, rfl⟩) | cases ha

/-- after an error the next input record is the offending one, the order is sortable, and the
    offending record is NOT an un-keyable one (those are skipped) -/
theorem checkAll_error_split_keyable (c : Checker) (rs : List Loc) (e : PyErr)
    (h : (checkAll c rs).2 = some e) :
    ∃ r rest, rs = (checkAll c rs).1 ++ r :: rest ∧ c.order.sortable = true ∧
      mkKey c.order c.contigs r ≠ .error .key := by
  induction rs generalizing c with
  | nil => simp [checkAll] at h
  | cons r rs ih =>
    cases ha : c.add r with
    | error e' =>
      rw [checkAll_cons_error rs ha]
      refine ⟨r, rs, rfl, ?_, ?_⟩
      · cases hs : c.order.sortable with
        | true => rfl
        | false => rw [add_unsortable r hs] at ha; cases ha
      · intro hk
        obtain ⟨c', hc'⟩ := add_unkeyable_ok (c := c) hk; rw [hc'] at ha; cases ha
    | ok c' =>
      rw [checkAll_cons_ok rs ha] at h ⊢
      obtain ⟨r', rest, h1, h2, h3⟩ := ih c' h
      obtain ⟨ho, hcs⟩ := add_order_contigs ha
      rw [ho] at h2; rw [ho, hcs] at h3
      exact ⟨r', rest, by simp only [List.cons_append]; rw [← h1], h2, h3⟩

/-- the checker's verdict is the one it gives on the records that can be keyed, and what it
    yields restricts to what it yields there (sortable order) -/
theorem checkAll_filter_keyable (c : Checker) (hs : c.order.sortable = true) (rs : List Loc) :
    (checkAll c rs).2 = (checkAll c (rs.filter (fun r => !r.unkeyable c.order c.contigs))).2 ∧
    (checkAll c rs).1.filter (fun r => !r.unkeyable c.order c.contigs) =
      (checkAll c (rs.filter (fun r => !r.unkeyable c.order c.contigs))).1 := by
  induction rs generalizing c with
  | nil => exact ⟨rfl, rfl⟩
  | cons r rs ih =>
    cases hc : r.unkeyable c.order c.contigs with
    | true =>
      rw [checkAll_cons_ok rs (add_skip_unkeyable hs (Loc.unkeyable_iff.1 hc)),
        List.filter_cons_of_neg (by simp [hc])]
      simp only [List.filter_cons_of_neg
        (p := fun r => !r.unkeyable c.order c.contigs) (a := r) (by simp [hc])]
      exact ih c hs
    | false =>
      rw [List.filter_cons_of_pos (by simp [hc])]
      cases ha : c.add r with
      | error e =>
        rw [checkAll_cons_error _ ha, checkAll_cons_error _ ha]
        exact ⟨rfl, rfl⟩
      | ok c' =>
        obtain ⟨ho, hcs⟩ := add_order_contigs ha
        have hs' : c'.order.sortable = true := by rw [ho]; exact hs
        rw [checkAll_cons_ok _ ha, checkAll_cons_ok _ ha]
        obtain ⟨h1, h2⟩ := ih c' hs'
        rw [ho, hcs] at h1 h2
        refine ⟨h1, ?_⟩
        simp only [List.filter_cons_of_pos
          (p := fun r => !r.unkeyable c.order c.contigs) (a := r) (by simp [hc])]
        rw [h2]

/-- `rs` are keyable, with keys `ks` (in order) -/
def Keyed(o : Order) (cs : List Text) : List Loc → List Key → Prop
  | [], [] => True
  | r :: rs, k :: ks => mkKey o cs r = .ok k ∧ Keyed o cs rs ks
  | _, _ => False

instance instDecidableKeyed (o : Order) (cs : List Text) :
    (rs : List Loc) → (ks : List Key) → Decidable (Keyed o cs rs ks)
  | [], [] => isTrue trivial
  | r :: rs, k :: ks =>
    have := instDecidableKeyed o cs rs ks
    inferInstanceAs (Decidable (mkKey o cs r = .ok k ∧ Keyed o cs rs ks))
  | [], _ :: _ => isFalse (fun h => h)
  | _ :: _, [] => isFalse (fun h => h)

theorem Keyed.length_eq {o : Order} {cs : List Text} {rs : List Loc} {ks : List Key}
    (h : Keyed o cs rs ks) : rs.length = ks.length := by
  induction rs generalizing ks with
  | nil => cases ks <;> simp_all [Keyed]
  | cons r rs ih =>
    cases ks with
    | nil => exact h.elim
    | cons k ks => simp [ih h.2]

theorem Keyed.getElem {o : Order} {cs : List Text} {rs : List Loc} {ks : List Key}
    (h : Keyed o cs rs ks) (i : Nat) (h1 : i < rs.length) (h2 : i < ks.length) :
    mkKey o cs rs[i] = .ok ks[i] := by
  induction rs generalizing ks i with
  | nil => simp at h1
  | cons r rs ih =>
    cases ks with
    | nil => exact h.elim
    | cons k ks =>
      cases i with
      | zero => exact h.1
      | succ i => exact ih h.2 i (by simpa using h1) (by simpa using h2)

/-- the keys of well-formed records satisfy the kind invariant -/
theorem Keyed.inv {o : Order} {cs : List Text} {rs : List Loc} {ks : List Key}
    (h : Keyed o cs rs ks) (hwf : ∀ r ∈ rs, r.WF) : ∀ k ∈ ks, KeyInv (!cs.isEmpty) k := by
  induction rs generalizing ks with
  | nil => cases ks <;> simp_all [Keyed]
  | cons r rs ih =>
    cases ks with
    | nil => exact h.elim
    | cons k ks =>
      intro k' hk'
      rcases List.mem_cons.1 hk' with rfl | hk'
      · exact mkKey_inv (hwf r (by simp)) h.1
      · exact ih h.2 (fun r hr => hwf r (by simp [hr])) k' hk'

/-- a keyable record has coordinates -/
theorem hasCoords_of_mkKey_ok {o : Order} {cs : List Text} {r : Loc} {k : Key}
    (h : mkKey o cs r = .ok k) : r.hasCoords = true := by
  cases hc : r.hasCoords with
  | true => rfl
  | false => rw [mkKey_no_coords hc] at h; cases h

/-- "not out of order": the later key is not smaller than the earlier one -/
def NotDesc (a b : Key) : Prop := keyLt b a = .ok false

instance : DecidableRel NotDesc := fun a b => inferInstanceAs (Decidable (keyLt b a = .ok false))

/-- with a remembered record: everything is yielded iff the remembered key followed by the
    keys is a chain -/
theorem checkAll_some_iff {c : Checker} {l : Loc} {lk : Key} {rs : List Loc} {ks : List Key}
    (hs : c.order.sortable = true) (hl : c.last = some l)
    (hlk : mkKey c.order c.contigs l = .ok lk) (hk : Keyed c.order c.contigs rs ks) :
    checkAll c rs = (rs, none) ↔ AdjChain NotDesc (lk :: ks) := by
  induction rs generalizing c l lk ks with
  | nil => cases ks <;> simp_all [Keyed, checkAll]
  | cons r rs ih =>
    cases ks with
    | nil => exact hk.elim
    | cons k ks =>
      have ha := add_next hs hk.1 hl hlk
      rw [adjChain_cons_cons]
      have hR : NotDesc lk k ↔ keyLt k lk = .ok false := Iff.rfl
      rw [hR]
      cases hlt : keyLt k lk with
      | error e =>
        rw [hlt] at ha
        rw [checkAll_cons_error rs ha]
        simp
      | ok b =>
        cases b with
        | true =>
          rw [hlt] at ha
          rw [checkAll_cons_error rs ha]
          simp
        | false =>
          rw [hlt] at ha
          rw [checkAll_cons_ok rs ha]
          have := ih (c := { c with last := some r }) (l := r) (lk := k) (ks := ks) hs rfl hk.1 hk.2
          rw [checkAll_eq_iff_none] at this
          rw [← this]
          constructor
          · intro h; exact ⟨rfl, (Prod.ext_iff.1 h).2⟩
          · rintro ⟨-, h⟩
            rw [h, checkAll_fst_of_none _ _ h]

/-- from a fresh checker: everything is yielded iff the keys are a chain -/
theorem checkAll_none_iff {c : Checker} {rs : List Loc} {ks : List Key}
    (hs : c.order.sortable = true) (hl : c.last = none) (hk : Keyed c.order c.contigs rs ks) :
    checkAll c rs = (rs, none) ↔ AdjChain NotDesc ks := by
  cases rs with
  | nil => cases ks <;> simp_all [Keyed, checkAll]
  | cons r rs =>
    cases ks with
    | nil => exact hk.elim
    | cons k ks =>
      have ha := add_first hs hk.1 hl
      rw [checkAll_cons_ok rs ha]
      have := checkAll_some_iff (c := { c with last := some r }) (l := r) (lk := k) (ks := ks)
        hs rfl hk.1 hk.2
      rw [checkAll_eq_iff_none] at this
      rw [← this]
      constructor
      · intro h; exact (Prod.ext_iff.1 h).2
      · intro h
        rw [h, checkAll_fst_of_none _ _ h]

/-- with a remembered record: a first descent at position `j` of the keys (relative to the chain
    that starts with the remembered key) stops the iteration there with `ValueError` -/
theorem checkAll_some_descent {c : Checker} {l : Loc} {lk : Key} {rs : List Loc} {ks : List Key}
    (hs : c.order.sortable = true) (hl : c.last = some l)
    (hlk : mkKey c.order c.contigs l = .ok lk) (hk : Keyed c.order c.contigs rs ks)
    (j : Nat) (hj : j < ks.length) (hchain : AdjChain NotDesc (lk :: ks.take j))
    (hdesc : keyLt ks[j] ((lk :: ks)[j]'(by simp; omega)) = .ok true) :
    checkAll c rs = (rs.take j, some .value) := by
  induction j generalizing c l lk rs ks with
  | zero =>
    cases rs with
    | nil =>
      cases ks with
      | nil => simp at hj
      | cons k ks => exact hk.elim
    | cons r rs =>
      cases ks with
      | nil => exact hk.elim
      | cons k ks =>
        have ha := add_next hs hk.1 hl hlk
        simp only [List.getElem_cons_zero] at hdesc
        rw [hdesc] at ha
        rw [checkAll_cons_error rs ha]
        rfl
  | succ j ih =>
    cases rs with
    | nil =>
      cases ks with
      | nil => simp at hj
      | cons k ks => exact hk.elim
    | cons r rs =>
      cases ks with
      | nil => exact hk.elim
      | cons k ks =>
        have ha := add_next hs hk.1 hl hlk
        rw [List.take_succ_cons, adjChain_cons_cons] at hchain
        have h1 : keyLt k lk = .ok false := hchain.1
        rw [h1] at ha
        rw [checkAll_cons_ok rs ha]
        have := ih (c := { c with last := some r }) (l := r) (lk := k) (rs := rs) (ks := ks)
          hs rfl hk.1 hk.2 (by simpa using hj) hchain.2 (by simpa using hdesc)
        rw [this]
        rfl

/-! ### why the checker raises `ValueError`: a chromosome missing from the contig list, or a record
    out of order — nothing else (a position text that is not a number is skipped) -/

/-- the record can be keyed -/
def Loc.keyable (o : Order) (cs : List Text) (l : Loc) : Bool :=
  match mkKey o cs l with
  | .ok _ => true
  | .error _ => false

theorem Loc.keyable_iff {o : Order} {cs : List Text} {l : Loc} :
    l.keyable o cs = true ↔ ∃ k, mkKey o cs l = .ok k := by
  unfold Loc.keyable
  cases mkKey o cs l <;> simp

/-- the last record of a list that can be keyed: what a checker that started empty remembers
    after accepting the list (sortable order) -/
def lastKeyed (o : Order) (cs : List Text) (ls : List Loc) : Option Loc :=
  (ls.filter (fun l => l.keyable o cs)).getLast?

theorem lastKeyed_append_singleton (o : Order) (cs : List Text) (ls : List Loc) (l : Loc) :
    lastKeyed o cs (ls ++ [l]) = if l.keyable o cs then some l else lastKeyed o cs ls := by
  unfold lastKeyed
  rw [List.filter_append]
  cases h : l.keyable o cs <;> simp [h]

/-- the ordering error: the record and the remembered record can both be keyed, and the record's
    key is smaller -/
def Checker.OutOfOrder (c : Checker) (l : Loc) : Prop :=
  ∃ k l0 lk, mkKey c.order c.contigs l = .ok k ∧ c.last = some l0 ∧
    mkKey c.order c.contigs l0 = .ok lk ∧ keyLt k lk = .ok true

/-- what a checker of a sortable order remembers can be keyed -/
def Checker.LastKeyed (c : Checker) : Prop :=
  c.order.sortable = true → ∀ l, c.last = some l → ∃ lk, mkKey c.order c.contigs l = .ok lk

theorem Checker.lastKeyed_of_none {c : Checker} (h : c.last = none) : c.LastKeyed := by
  intro _ l hl; rw [h] at hl; cases hl

/-- the result of a successful `add`, for a sortable order: the record is remembered iff it can be
    keyed; an un-keyable record leaves the checker as it was -/
theorem add_ok_sortable {c c' : Checker} {r : Loc} (hs : c.order.sortable = true)
    (ha : c.add r = .ok c') :
    (r.keyable c.order c.contigs = true ∧ c' = { c with last := some r }) ∨
    (r.unkeyable c.order c.contigs = true ∧ c' = c) := by
  cases hu : r.unkeyable c.order c.contigs with
  | true =>
    rw [add_skip_unkeyable hs (Loc.unkeyable_iff.1 hu)] at ha
    cases ha; exact .inr ⟨rfl, rfl⟩
  | false =>
    have hne := Loc.unkeyable_false_iff.1 hu
    refine .inl ⟨?_, add_ok_of_keyable hs hne ha⟩
    unfold Loc.keyable
    cases hk : mkKey c.order c.contigs r with
    | ok k => rfl
    | error e =>
      exfalso
      unfold Checker.add at ha
      simp only [hs, hk, Bool.not_true, Bool.false_eq_true, if_false] at ha
      split at ha
      · rename_i heq; cases heq; exact hne hk
      · cases ha
      · rename_i heq; cases heq

theorem Checker.LastKeyed.add {c c' : Checker} {r : Loc} (hc : c.LastKeyed) (ha : c.add r = .ok c') :
    c'.LastKeyed := by
  obtain ⟨ho, hcs⟩ := add_order_contigs ha
  intro hs' l hl
  have hs : c.order.sortable = true := by rw [← ho]; exact hs'
  rcases add_ok_sortable hs ha with ⟨hk, rfl⟩ | ⟨_, rfl⟩
  · simp only [Option.some.injEq] at hl
    subst hl
    exact Loc.keyable_iff.1 hk
  · exact hc hs l hl

/-- **which `ValueError`s the checker raises.**  `checker.add(record)` raises `ValueError` iff the
    order is sortable and either the record (which has its coordinate columns) has a chromosome
    that a non-empty contig list does not contain, or the record is out of order -/
theorem Checker.add_valueError_iff {c : Checker} {l : Loc} (hc : c.LastKeyed) :
    c.add l = .error .value ↔
      c.order.sortable = true ∧
      ((l.hasCoords = true ∧ c.contigs ≠ [] ∧ ∀ s, l.chrName = some s → s ∉ c.contigs) ∨
        c.OutOfOrder l) := by
  constructor
  · intro h
    cases hs : c.order.sortable with
    | false => rw [add_unsortable l hs] at h; cases h
    | true =>
      refine ⟨rfl, ?_⟩
      cases hk : mkKey c.order c.contigs l with
      | error e =>
        have he : e = .value := by
          unfold Checker.add at h
          simp only [hs, hk, Bool.not_true, Bool.false_eq_true, if_false] at h
          split at h
          · cases h
          · rename_i heq; cases heq; cases h; rfl
          · rename_i heq; cases heq
        subst he
        exact .inl (mkKey_valueError_iff.1 hk)
      | ok k =>
        cases hl : c.last with
        | none => rw [add_first hs hk hl] at h; cases h
        | some l0 =>
          obtain ⟨lk, hlk⟩ := hc hs l0 hl
          rw [add_next hs hk hl hlk] at h
          cases hlt : keyLt k lk with
          | error e =>
            rw [hlt] at h
            simp only [Except.error.injEq] at h
            have := keyLt_error_kind hlt
            rw [h] at this; cases this
          | ok b =>
            cases b with
            | true => exact .inr ⟨k, l0, lk, hk, hl, hlk, hlt⟩
            | false => rw [hlt] at h; cases h
  · rintro ⟨hs, hm | ⟨k, l0, lk, hk, hl, hlk, hlt⟩⟩
    · have hk : mkKey c.order c.contigs l = .error .value := mkKey_valueError_iff.2 hm
      simp [Checker.add, hs, hk]
    · rw [add_next hs hk hl hlk, hlt]

/-- without a contig list the only `ValueError` of the checker is the ordering error; in
    particular the offending record can be keyed (its positions are numbers) -/
theorem Checker.add_valueError_no_contigs {c : Checker} {l : Loc} (hc : c.LastKeyed)
    (hcs : c.contigs = []) (h : c.add l = .error .value) : c.OutOfOrder l := by
  rcases ((Checker.add_valueError_iff hc).1 h).2 with ⟨_, hne, _⟩ | ho
  · exact (hne hcs).elim
  · exact ho

theorem Checker.OutOfOrder.posOk {c : Checker} {l : Loc} (h : c.OutOfOrder l) :
    l.hasCoords = true ∧ l.chrOk c.contigs ∧ l.start.posOk = true ∧ l.stop.posOk = true := by
  obtain ⟨k, _, _, hk, _⟩ := h
  obtain ⟨h0, hc, hs, he, _⟩ := mkKey_ok_iff'.1 hk
  exact ⟨h0, hc, hs, he⟩

end Model
