/-
  `MafRecord.from_line` against a pure specification (`specRec`): the loop over the
  fields, then the final `validate`.  Used by `Props/C01Record.lean`.
-/
import MafModel.Lemmas.RecordLemmas
open Py
namespace Model

/-! ### the loop body of `from_line`, named (tied to the model by `rfl`) -/

def fromLineStep (C : Ctx) (scheme : Option Scheme) (lineNo : Option Nat)
    (acc : Except PyErr (Record × Nat)) (nv : Text × Text) : Except PyErr (Record × Nat) :=
  match acc with
  | .error e => .error e
  | .ok (r, i) =>
    let (name, value) := nv
    let built : Except Unit Column :=
      match (scheme.filter Scheme.truthy).bind (fun s => s.columnClass (String.ofList name)) with
      | none => .ok { cls := "MafColumnRecord", key := name, value := .atom (.str value), index := some (i : Int) }
      | some cls =>
        match buildColumn C cls name value (some (i : Int)) with
        | .ok c => .ok c
        | .error _ => .error ()
    match built with
    | .error () =>
      .ok ({ r with errors := r.errors ++ [{ tpe := "RECORD_INVALID_COLUMN_VALUE", line := lineNo, origin := lineNo }] }, i + 1)
    | .ok col =>
      let errs := (col.validate C scheme lineNo).map (fun e => { e with origin := lineNo })
      let r1 := { r with errors := r.errors ++ errs }
      if errs.isEmpty then
        match r1.setItem (.name name) { oid := i, col := col } with
        | (r2, .ok ()) => .ok (r2, i + 1)
        | (_, .error e) => .error e
      else .ok (r1, i + 1)

theorem fromLine_eq (C : Ctx) (line : Text) (S : Scheme) (lineNo : Option Nat) (mode : Option Mode) :
    Record.fromLine C line none (some S) lineNo mode =
      let r0 : Record := { line := lineNo, mode := modeOrSilent mode }
      let names := S.names.map String.toList
      let values := splitOn '\t' (rstripCRLF line)
      if names.length ≠ values.length then
        let r1 := { r0 with errors := [{ tpe := "RECORD_MISMATCH_NUMBER_OF_COLUMNS", line := lineNo, origin := lineNo }] }
        match r1.validate C none false none with
        | (r2, .ok logs) => .ok (r2, logs)
        | (_, .error e) => .error e
      else
        match (names.zip values).foldl (fromLineStep C (some S) lineNo) (.ok (r0, 0)) with
        | .error e => .error e
        | .ok (r, _) =>
          match r.validate C none false none with
          | (r2, .ok logs) => .ok (r2, logs)
          | (_, .error e) => .error e := rfl

/-! ### scheme lookups by a name of the scheme -/

theorem find?_of_nodup {cols : List (String × String)} (hnd : (cols.map (·.1)).Nodup)
    {i : Nat} {p : String × String} (hp : cols[i]? = some p) :
    cols.find? (fun q => q.1 == p.1) = some p ∧ cols.findIdx (fun q => q.1 == p.1) = i := by
  induction cols generalizing i with
  | nil => simp at hp
  | cons q cols ih =>
    simp only [List.map_cons, List.nodup_cons] at hnd
    cases i with
    | zero =>
      simp only [List.getElem?_cons_zero, Option.some.injEq] at hp
      subst hp
      simp [List.findIdx_cons]
    | succ i =>
      simp only [List.getElem?_cons_succ] at hp
      have hne : ¬ q.1 = p.1 := by
        intro e
        exact hnd.1 (e ▸ List.mem_map_of_mem (f := (·.1)) (List.mem_of_getElem? hp))
      have := ih hnd.2 hp
      have hb : (q.1 == p.1) = false := by simp [hne]
      simp [List.findIdx_cons, hb, this.1, this.2]

theorem Scheme.columnClass_of_getElem? {S : Scheme} (hnd : S.names.Nodup) {i : Nat}
    {n cls : String} (hp : S.cols[i]? = some (n, cls)) : S.columnClass n = some cls := by
  unfold Scheme.columnClass
  rw [(find?_of_nodup hnd hp).1]; rfl

theorem Scheme.columnIndex_of_getElem? {S : Scheme} (hnd : S.names.Nodup) {i : Nat}
    {n cls : String} (hp : S.cols[i]? = some (n, cls)) : S.columnIndex n = some i := by
  unfold Scheme.columnIndex
  have hi : i < S.cols.length := by
    by_cases h : i < S.cols.length
    · exact h
    · rw [List.getElem?_eq_none (by omega)] at hp; cases hp
  simp only [(find?_of_nodup hnd hp).2, hi, if_true]

theorem Scheme.name_inj {S : Scheme} (hnd : S.names.Nodup) {i j : Nat} {p q : String × String}
    (hp : S.cols[i]? = some p) (hq : S.cols[j]? = some q) (he : p.1 = q.1) : i = j := by
  have hi : i < S.names.length := by
    simp only [Scheme.names, List.length_map]
    by_cases h : i < S.cols.length
    · exact h
    · rw [List.getElem?_eq_none (by omega)] at hp; cases hp
  refine (List.getElem?_inj hi hnd).1 ?_
  simp [Scheme.names, List.getElem?_map, hp, hq, he]

/-- the hypotheses on the scheme of the record-level theorems -/
structure SchemeOK (C : Ctx) (S : Scheme) : Prop where
  nodup : S.names.Nodup
  pos : S.size > 0
  cls_ok : ∀ p ∈ S.cols, ∃ sp, resolveSpec C.tbl p.2 = some sp ∧
    sp.buildMethod = some "MafCustomColumnRecord" ∧ isSubclass C p.2 p.2 = true

theorem buildValue_custom_cases (C : Ctx) (sp : ColSpec) (f : Text)
    (hb : sp.buildMethod = some "MafCustomColumnRecord") :
    (∃ v, sp.buildValue C f = .ok (.inl v)) ∨ (∃ e, sp.buildValue C f = .error e) := by
  simp only [ColSpec.buildValue, hb]
  cases sp.nullDict.bind (fun d => List.find? (fun p => p.1.toList == f) d) with
  | some p => exact Or.inl ⟨_, rfl⟩
  | none =>
    simp only []
    cases runBuild C sp f with
    | ok v => exact Or.inl ⟨_, rfl⟩
    | error e => exact Or.inr ⟨_, rfl⟩

/-- the error `from_line` records for a rejected field -/
def fieldErr (C : Ctx) (sp : ColSpec) (lineNo : Option Nat) (f : Text) : VErr :=
  match sp.buildValue C f with
  | .error _ => { tpe := "RECORD_INVALID_COLUMN_VALUE", line := lineNo, origin := lineNo }
  | .ok _ => { tpe := "RECORD_COLUMN_WRONG_FORMAT", line := lineNo, origin := lineNo }

/-- the column `from_line` stores for an accepted field -/
def fieldCol (i : Nat) (n cls : String) (v : PyVal) : RCol :=
  { oid := i, col := { cls := cls, key := n.toList, value := v, index := some (i : Int) } }

/-- one iteration of the loop, for the `i`-th column of the scheme -/
theorem fromLineStep_spec {C : Ctx} {S : Scheme} (hS : SchemeOK C S) (lineNo : Option Nat)
    (r : Record) {i : Nat} {n cls : String} {sp : ColSpec} (f : Text)
    (hp : S.cols[i]? = some (n, cls)) (hsp : resolveSpec C.tbl cls = some sp) :
    fromLineStep C (some S) lineNo (.ok (r, i)) (n.toList, f) =
      match sp.accept C false f with
      | some v =>
        (match r.setItem (.name n.toList) (fieldCol i n cls v) with
         | (r2, .ok ()) => .ok (r2, i + 1)
         | (_, .error e) => .error e)
      | none => .ok ({ r with errors := r.errors ++ [fieldErr C sp lineNo f] }, i + 1) := by
  obtain ⟨sp', hsp', hb, hsub⟩ := hS.cls_ok _ (List.mem_of_getElem? hp)
  simp only at hsp' hsub
  rw [hsp] at hsp'; cases hsp'
  have hfil : (some S).filter Scheme.truthy = some S := by
    have : S.truthy = true := by simp [Scheme.truthy, hS.pos]
    simp [Option.filter, this]
  have hcc := Scheme.columnClass_of_getElem? hS.nodup hp
  have hci := Scheme.columnIndex_of_getElem? hS.nodup hp
  unfold fromLineStep
  simp only [hfil, Option.bind_some, String.ofList_toList, hcc, buildColumn, hsp]
  rcases buildValue_custom_cases C sp f hb with ⟨v, hv⟩ | ⟨e, he⟩
  · simp only [hv, ColSpec.accept]
    have hval : Column.valueInvalid C { cls := cls, key := n.toList, value := v, index := some (i : Int) }
        = sp.valueInvalid v := by
      simp [Column.valueInvalid, hsp]
    have hsch : Column.schemeErrors C { cls := cls, key := n.toList, value := v, index := some (i : Int) }
        (some S) lineNo = [] := by
      simp [Column.schemeErrors, hfil, String.ofList_toList, hcc, hci, hsub]
    simp only [Column.validate, hval, hsch, List.append_nil]
    by_cases hinv : sp.valueInvalid v = true
    · simp [hinv, fieldErr, hv]
    · simp only [hinv, Bool.false_eq_true, if_false, List.map_nil, List.isEmpty_nil, if_true,
        List.append_nil, fieldCol]
  · simp [he, ColSpec.accept, fieldErr]

/-! ### slot list built left to right -/

theorem trimNone_append_none (l : List (Option RCol)) : trimNone (l ++ [none]) = trimNone l := by
  simp [trimNone]

theorem trimNone_append_some (l : List (Option RCol)) (x : RCol) :
    trimNone (l ++ [some x]) = l ++ [some x] :=
  trimNone_of_getLast? _ (by simp)

theorem setSlot_trimNone (l : List (Option RCol)) (x : RCol) :
    setSlot (trimNone l) l.length x = l ++ [some x] := by
  obtain ⟨t, hl, ht⟩ := trimNone_spec l
  have hlen : l.length = (trimNone l).length + t.length := by
    conv => lhs; rw [hl]
    simp
  apply List.ext_getElem?
  intro i
  by_cases hi : i = l.length
  · subst hi
    rw [setSlot_getElem?_self]; simp
  · rw [setSlot_getElem?_ne _ _ _ _ hi, List.getElem?_append]
    by_cases h1 : i < (trimNone l).length
    · have h2 : i < l.length := by omega
      rw [if_pos h1, if_pos h2]
      conv => rhs; rw [hl]
      rw [List.getElem?_append, if_pos h1]
    · rw [if_neg h1]
      by_cases h2 : i < l.length
      · rw [if_pos h2, if_pos h2]
        conv => rhs; rw [hl]
        rw [List.getElem?_append, if_neg h1]
        have h3 : i - (trimNone l).length < t.length := by omega
        rw [List.getElem?_eq_getElem h3]
        rw [ht _ (List.getElem_mem h3)]
      · rw [if_neg h2, if_neg h2]
        have : i - l.length ≠ 0 := by omega
        cases hh : i - l.length with
        | zero => exact absurd hh this
        | succ m => simp

/-- assigning, by name, a column with a fresh name and an index at or beyond the end -/
theorem setItem_name_fresh (r : Record) (x : RCol) (n : Nat)
    (hfresh : tdictGet r.dict x.col.key = none) (hidx : x.col.index = some (n : Int))
    (hlen : r.slots.length ≤ n) :
    r.setItem (.name x.col.key) x =
      ({ r with dict := r.dict ++ [(x.col.key, x)], slots := setSlot r.slots n x }, .ok ()) := by
  rw [setItem_eq]
  have h1 : setItemStep1 (.name x.col.key) x = .ok x := by simp [setItemStep1]
  have h2 : setItemStep2 r x = .ok x := by simp [setItemStep2, hfresh, hidx]
  have h3 : setItemStep3 r x.col.key x = .ok x := by
    have h0 : ¬ ((n : Int) < 0) := by omega
    simp [setItemStep3, hidx, List.getElem?_eq_none hlen, h0]
  simp only [h1, h2, h3]
  rw [setItemWrite_nat r _ x n hidx]
  have : tdictSet r.dict x.col.key x = r.dict ++ [(x.col.key, x)] := by
    unfold tdictSet
    have hany : ¬ (r.dict.any (fun p => p.1 == x.col.key) = true) := by
      intro h
      exact (tdictGet_eq_none_iff.1 hfresh) ((tdictSet_any_iff _ _).1 h)
    rw [if_neg hany]
  rw [this]

/-! ### the specification of `from_line` -/

/-- position `i`: the stored column, if the field is accepted -/
def colAt (C : Ctx) (S : Scheme) (fields : List Text) (i : Nat) : Option RCol :=
  match S.cols[i]?, fields[i]? with
  | some p, some f =>
    match resolveSpec C.tbl p.2 with
    | some sp => (sp.accept C false f).map (fieldCol i p.1 p.2)
    | none => none
  | _, _ => none

/-- position `i`: the recorded error, if the field is rejected -/
def errAt (C : Ctx) (S : Scheme) (fields : List Text) (lineNo : Option Nat) (i : Nat) : List VErr :=
  match S.cols[i]?, fields[i]? with
  | some p, some f =>
    match resolveSpec C.tbl p.2 with
    | some sp => match sp.accept C false f with
      | some _ => []
      | none => [fieldErr C sp lineNo f]
    | none => []
  | _, _ => []

theorem colAt_eq {C : Ctx} {S : Scheme} {fields : List Text} {i : Nat} {n cls : String}
    {sp : ColSpec} {f : Text} (hp : S.cols[i]? = some (n, cls)) (hf : fields[i]? = some f)
    (hsp : resolveSpec C.tbl cls = some sp) :
    colAt C S fields i = (sp.accept C false f).map (fieldCol i n cls) := by
  simp [colAt, hp, hf, hsp]

theorem errAt_eq {C : Ctx} {S : Scheme} {fields : List Text} {lineNo : Option Nat} {i : Nat}
    {n cls : String} {sp : ColSpec} {f : Text} (hp : S.cols[i]? = some (n, cls))
    (hf : fields[i]? = some f) (hsp : resolveSpec C.tbl cls = some sp) :
    errAt C S fields lineNo i =
      match sp.accept C false f with
      | some _ => []
      | none => [fieldErr C sp lineNo f] := by
  simp [errAt, hp, hf, hsp]

theorem colAt_some {C : Ctx} {S : Scheme} {fields : List Text} {i : Nat} {c : RCol}
    (h : colAt C S fields i = some c) :
    ∃ n cls sp f v, S.cols[i]? = some (n, cls) ∧ fields[i]? = some f ∧
      resolveSpec C.tbl cls = some sp ∧ sp.accept C false f = some v ∧ c = fieldCol i n cls v := by
  unfold colAt at h
  split at h
  · rename_i p f hp hf
    split at h
    · rename_i sp hsp
      cases ha : sp.accept C false f with
      | none => simp [ha] at h
      | some v =>
        simp only [ha, Option.map_some, Option.some.injEq] at h
        exact ⟨p.1, p.2, sp, f, v, hp, hf, hsp, ha, h.symm⟩
    · cases h
  · cases h

def specCols (C : Ctx) (S : Scheme) (fields : List Text) (k : Nat) : List (Option RCol) :=
  (List.range k).map (colAt C S fields)

/-- the record after the first `k` fields -/
def specRec (C : Ctx) (S : Scheme) (fields : List Text) (lineNo : Option Nat) (m : Mode)
    (k : Nat) : Record :=
  { dict := (specCols C S fields k).filterMap (fun o => o.map (fun c => (c.col.key, c)))
    slots := trimNone (specCols C S fields k)
    errors := (List.range k).flatMap (errAt C S fields lineNo)
    line := lineNo
    mode := m }

theorem specCols_length (C : Ctx) (S : Scheme) (fields : List Text) (k : Nat) :
    (specCols C S fields k).length = k := by simp [specCols]

theorem specCols_succ (C : Ctx) (S : Scheme) (fields : List Text) (k : Nat) :
    specCols C S fields (k + 1) = specCols C S fields k ++ [colAt C S fields k] := by
  simp [specCols, List.range_succ]

theorem specCols_getElem? (C : Ctx) (S : Scheme) (fields : List Text) (k i : Nat) (hi : i < k) :
    (specCols C S fields k)[i]? = some (colAt C S fields i) := by
  simp [specCols, List.getElem?_map, List.getElem?_range hi]

theorem specRec_dict_name {C : Ctx} {S : Scheme} {fields : List Text} {lineNo : Option Nat}
    {m : Mode} {k : Nat} {q : Text × RCol} (hq : q ∈ (specRec C S fields lineNo m k).dict) :
    ∃ j, j < k ∧ colAt C S fields j = some q.2 ∧ q.1 = q.2.col.key := by
  simp only [specRec, List.mem_filterMap] at hq
  obtain ⟨o, ho, hoq⟩ := hq
  cases o with
  | none => cases hoq
  | some c =>
    simp only [Option.map_some, Option.some.injEq] at hoq
    subst hoq
    simp only [specCols, List.mem_map, List.mem_range] at ho
    obtain ⟨j, hj, hc⟩ := ho
    exact ⟨j, hj, hc, rfl⟩

theorem specRec_fresh {C : Ctx} {S : Scheme} (hS : SchemeOK C S) {fields : List Text}
    {lineNo : Option Nat} {m : Mode} {k : Nat} {n cls : String}
    (hp : S.cols[k]? = some (n, cls)) :
    tdictGet (specRec C S fields lineNo m k).dict n.toList = none := by
  rw [tdictGet_eq_none_iff]
  intro hmem
  obtain ⟨q, hq, hqn⟩ := List.mem_map.1 hmem
  obtain ⟨j, hj, hc, hk⟩ := specRec_dict_name hq
  obtain ⟨n', cls', sp, f, v, hp', _, _, _, hcv⟩ := colAt_some hc
  have : n'.toList = n.toList := by
    rw [← hqn, hk, hcv]; rfl
  have := Scheme.name_inj hS.nodup hp' hp (String.toList_inj.1 this)
  omega

theorem fromLine_loop {C : Ctx} {S : Scheme} (hS : SchemeOK C S) (fields : List Text)
    (hlen : fields.length = S.size) (lineNo : Option Nat) (m : Mode) (k : Nat) (hk : k ≤ S.size) :
    (((S.names.map String.toList).zip fields).take k).foldl (fromLineStep C (some S) lineNo)
        (.ok ({ line := lineNo, mode := m }, 0)) = .ok (specRec C S fields lineNo m k, k)
      ∧ (specRec C S fields lineNo m k).Inv := by
  induction k with
  | zero =>
    refine ⟨?_, ?_⟩
    · simp [specRec, specCols, trimNone]
    · exact Record.Inv.init.of_eq (by simp [specRec, specCols]) (by simp [specRec, specCols, trimNone])
  | succ k ih =>
    obtain ⟨ih1, ih2⟩ := ih (by omega)
    have hk' : k < S.cols.length := by simp only [Scheme.size] at hk; omega
    have hkf : k < fields.length := by rw [hlen]; exact hk'
    obtain ⟨⟨n, cls⟩, hp⟩ : ∃ p, S.cols[k]? = some p := ⟨_, List.getElem?_eq_getElem hk'⟩
    obtain ⟨f, hf⟩ : ∃ f, fields[k]? = some f := ⟨_, List.getElem?_eq_getElem hkf⟩
    obtain ⟨sp, hsp, _, _⟩ := hS.cls_ok _ (List.mem_of_getElem? hp)
    simp only at hsp
    have hz : ((S.names.map String.toList).zip fields)[k]? = some (n.toList, f) := by
      rw [List.getElem?_zip_eq_some]
      simp [Scheme.names, List.getElem?_map, hp, hf]
    rw [List.take_add_one, List.foldl_append, ih1, hz]
    simp only [Option.toList_some, List.foldl_cons, List.foldl_nil]
    rw [fromLineStep_spec hS lineNo _ f hp hsp]
    have hcol := colAt_eq (C := C) hp hf hsp
    have herr := errAt_eq (C := C) (lineNo := lineNo) hp hf hsp
    cases ha : sp.accept C false f with
    | none =>
      rw [ha] at hcol herr
      simp only [Option.map_none] at hcol
      simp only at herr
      have hd : (specRec C S fields lineNo m (k + 1)).dict = (specRec C S fields lineNo m k).dict := by
        simp [specRec, specCols_succ, hcol, List.filterMap_append]
      have hs : (specRec C S fields lineNo m (k + 1)).slots = (specRec C S fields lineNo m k).slots := by
        simp [specRec, specCols_succ, hcol, trimNone_append_none]
      refine ⟨?_, ih2.of_eq hd hs⟩
      simp only [Except.ok.injEq, Prod.mk.injEq, and_true]
      simp only [specRec, specCols_succ, hcol, List.filterMap_append, trimNone_append_none,
        List.range_succ, List.flatMap_append, herr, List.filterMap_cons, Option.map_none,
        List.filterMap_nil, List.append_nil, List.flatMap_cons, List.flatMap_nil]
    | some v =>
      rw [ha] at hcol herr
      simp only [Option.map_some] at hcol
      simp only at herr
      have hfresh := specRec_fresh (fields := fields) (lineNo := lineNo) (m := m) hS hp
      have hsl : (specRec C S fields lineNo m k).slots.length ≤ k := by
        have := trimNone_length_le (specCols C S fields k)
        rw [specCols_length] at this
        exact this
      have hset : (specRec C S fields lineNo m k).setItem (.name n.toList) (fieldCol k n cls v) =
          ({ specRec C S fields lineNo m k with
              dict := (specRec C S fields lineNo m k).dict ++ [(n.toList, fieldCol k n cls v)],
              slots := setSlot (specRec C S fields lineNo m k).slots k (fieldCol k n cls v) }, .ok ()) :=
        setItem_name_fresh (specRec C S fields lineNo m k) (fieldCol k n cls v) k hfresh rfl hsl
      have hinv := ih2.setItem (.name n.toList) (fieldCol k n cls v)
      rw [hset] at hinv
      simp only [hset]
      have hd : (specRec C S fields lineNo m (k + 1)).dict =
          (specRec C S fields lineNo m k).dict ++ [(n.toList, fieldCol k n cls v)] := by
        simp [specRec, specCols_succ, hcol, List.filterMap_append, fieldCol]
      have hs : (specRec C S fields lineNo m (k + 1)).slots =
          setSlot (specRec C S fields lineNo m k).slots k (fieldCol k n cls v) := by
        have := setSlot_trimNone (specCols C S fields k) (fieldCol k n cls v)
        rw [specCols_length] at this
        simp only [specRec, specCols_succ, hcol, trimNone_append_some, this]
      refine ⟨?_, hinv.of_eq hd hs⟩
      simp only [Except.ok.injEq, Prod.mk.injEq, and_true]
      have he : (specRec C S fields lineNo m (k + 1)).errors = (specRec C S fields lineNo m k).errors := by
        simp [specRec, List.range_succ, List.flatMap_append, herr]
      rw [← hd, ← hs]
      simp only [specRec] at he ⊢
      simp only [he]

/-! ### the final `validate` -/

/-- one RECORD_COLUMN_WITH_NO_VALUE per empty slot -/
def noValueErrs (lineNo : Option Nat) (slots : List (Option RCol)) : List VErr :=
  slots.flatMap (fun s => match s with
    | none => [{ tpe := "RECORD_COLUMN_WITH_NO_VALUE", line := lineNo }]
    | some _ => [])

theorem noValueErrs_eq_nil_iff (lineNo : Option Nat) (slots : List (Option RCol)) :
    noValueErrs lineNo slots = [] ↔ none ∉ slots := by
  induction slots with
  | nil => simp [noValueErrs]
  | cons o l ih =>
    cases o with
    | none => simp [noValueErrs]
    | some c =>
      simp only [noValueErrs, List.flatMap_cons, List.nil_append] at ih ⊢
      rw [ih]; simp

/-- `validate(scheme=None)` on a coherent record whose stored columns are all valid -/
theorem validate_spec (C : Ctx) (r : Record) (hinv : r.Inv)
    (hvalid : ∀ c, some c ∈ r.slots → c.col.validate C none none = []) :
    r.validate C none false none =
      ({ r with errors := r.errors ++ noValueErrs r.line r.slots },
       processErrors r.mode (r.errors ++ noValueErrs r.line r.slots)) := by
  unfold Record.validate
  simp only [Bool.false_eq_true, if_false, Option.filter_none, Option.getD_none, List.append_nil]
  generalize hE : List.flatMap _ r.slots = E
  have he2 : E = noValueErrs r.line r.slots := by
    rw [← hE]
    unfold noValueErrs
    simp only [List.flatMap]
    congr 1
    apply List.map_congr_left
    intro o ho
    cases o with
    | none => rfl
    | some c => simp only [Record.columnErrors_none]; exact hvalid c ho
  subst he2
  by_cases hfn : r.slots.any (·.isNone) = true
  · rw [if_pos hfn, List.append_nil]
  · rw [if_neg hfn]
    have := hinv.syncErrors (Bool.eq_false_iff.2 hfn)
    rw [this, List.append_nil]

theorem accept_false_some {C : Ctx} {sp : ColSpec} {f : Text} {v : PyVal}
    (h : sp.accept C false f = some v) :
    sp.buildValue C f = .ok (.inl v) ∧ sp.valueInvalid v = false := by
  unfold ColSpec.accept at h
  split at h
  · rename_i v' hv
    by_cases hi : sp.valueInvalid v' = true
    · simp [hi] at h
    · simp only [hi, Bool.false_eq_true, if_false, Option.some.injEq] at h
      subst h
      exact ⟨hv, by simpa using hi⟩
  · simp at h
  · cases h

theorem fieldCol_valid {C : Ctx} {sp : ColSpec} {f : Text} {v : PyVal} (i : Nat) (n cls : String)
    (hsp : resolveSpec C.tbl cls = some sp) (h : sp.accept C false f = some v) :
    (fieldCol i n cls v).col.validate C none none = [] := by
  have := (accept_false_some h).2
  simp [Column.validate, Column.valueInvalid, Column.schemeErrors, fieldCol, hsp, this]

theorem mem_trimNone {l : List (Option RCol)} {o : Option RCol} (h : o ∈ trimNone l) : o ∈ l := by
  obtain ⟨t, hl, _⟩ := trimNone_spec l
  rw [hl]; exact List.mem_append_left _ h

theorem specRec_valid (C : Ctx) (S : Scheme) (fields : List Text) (lineNo : Option Nat) (m : Mode)
    (k : Nat) (c : RCol) (hc : some c ∈ (specRec C S fields lineNo m k).slots) :
    c.col.validate C none none = [] := by
  have := mem_trimNone hc
  simp only [specCols, List.mem_map, List.mem_range] at this
  obtain ⟨j, _, hj⟩ := this
  obtain ⟨n, cls, sp, f, v, _, _, hsp, ha, rfl⟩ := colAt_some hj
  exact fieldCol_valid j n cls hsp ha

/-- the fields of a line -/
def fieldsOf (line : Text) : List Text := splitOn '\t' (rstripCRLF line)

theorem processErrors_nonstrict (m : Mode) (hm : m ≠ .strict) (errs : List VErr) :
    ∃ logs, processErrors m errs = .ok logs := by
  cases m with
  | strict => exact absurd rfl hm
  | silent => cases errs <;> exact ⟨_, rfl⟩
  | lenient => cases errs <;> exact ⟨_, rfl⟩

/-- the record `from_line` returns (in mode `m`) for a line with the right number of fields -/
def specFinal (C : Ctx) (S : Scheme) (fields : List Text) (lineNo : Option Nat) (m : Mode) : Record :=
  { specRec C S fields lineNo m S.size with
    errors := (specRec C S fields lineNo m S.size).errors ++
      noValueErrs lineNo (specRec C S fields lineNo m S.size).slots }

theorem fromLine_spec {C : Ctx} {S : Scheme} (hS : SchemeOK C S) (line : Text)
    (lineNo : Option Nat) (mode : Option Mode)
    (hlen : (fieldsOf line).length = S.size) :
    Record.fromLine C line none (some S) lineNo mode =
      match processErrors (modeOrSilent mode)
          (specFinal C S (fieldsOf line) lineNo (modeOrSilent mode)).errors with
      | .ok logs => .ok (specFinal C S (fieldsOf line) lineNo (modeOrSilent mode), logs)
      | .error e => .error e := by
  simp only [fieldsOf] at hlen ⊢
  rw [fromLine_eq]
  have hn : ¬ ((S.names.map String.toList).length ≠ (splitOn '\t' (rstripCRLF line)).length) := by
    simp [Scheme.names, hlen, Scheme.size]
  simp only [hn, if_false]
  obtain ⟨h1, h2⟩ := fromLine_loop hS _ hlen lineNo (modeOrSilent mode) S.size (Nat.le_refl _)
  rw [List.take_of_length_le (by simp [Scheme.names, hlen, Scheme.size])] at h1
  rw [h1]
  simp only
  rw [validate_spec C _ h2 (specRec_valid C S _ lineNo _ _)]
  simp only [specFinal, specRec]
  split <;> simp_all

/-- … and for a line with a wrong number of fields -/
theorem fromLine_mismatch (C : Ctx) (S : Scheme) (line : Text) (lineNo : Option Nat)
    (mode : Option Mode) (hlen : (fieldsOf line).length ≠ S.size) :
    Record.fromLine C line none (some S) lineNo mode =
      match processErrors (modeOrSilent mode)
          [{ tpe := "RECORD_MISMATCH_NUMBER_OF_COLUMNS", line := lineNo, origin := lineNo }] with
      | .ok logs => .ok ({ errors := [{ tpe := "RECORD_MISMATCH_NUMBER_OF_COLUMNS", line := lineNo, origin := lineNo }],
                           line := lineNo, mode := modeOrSilent mode }, logs)
      | .error e => .error e := by
  simp only [fieldsOf] at hlen
  rw [fromLine_eq]
  have hn : (S.names.map String.toList).length ≠ (splitOn '\t' (rstripCRLF line)).length := by
    simp only [Scheme.names, List.length_map]
    exact fun e => hlen e.symm
  simp only
  rw [if_pos hn]
  rw [validate_spec C
    { errors := [{ tpe := "RECORD_MISMATCH_NUMBER_OF_COLUMNS", line := lineNo, origin := lineNo }],
      line := lineNo, mode := modeOrSilent mode } (Record.Inv.init.of_eq rfl rfl) (by simp)]
  simp only [noValueErrs, List.flatMap_nil, List.append_nil]
  split <;> simp_all

end Model
