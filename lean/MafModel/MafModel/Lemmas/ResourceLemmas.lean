/-
  Symbolic execution of the spill-file effect model (`Model/Resources.lean`) and
  the invariants that every operation re-establishes, whether it returns or raises.
-/
import MafModel.Lemmas.MergeLemmas
open Py Model MergeLemmas

namespace ResourceLemmas

/-! ## running the effect monad -/

/-- run a computation of the effect monad from a state -/
def exec {α} (x : M α) (s : RState) : Except PyErr α × RState := ExceptT.run x s

theorem exec_pure {α} (a : α) (s : RState) : exec (pure a : M α) s = (.ok a, s) := rfl
theorem exec_throw {α} (e : PyErr) (s : RState) : exec (throw e : M α) s = (.error e, s) := rfl
theorem exec_get (s : RState) : exec (get : M RState) s = (.ok s, s) := rfl
theorem exec_set (s' s : RState) : exec (set s' : M PUnit) s = (.ok ⟨⟩, s') := rfl
theorem exec_modify (f : RState → RState) (s : RState) : exec (modify f : M PUnit) s = (.ok ⟨⟩, f s) := rfl

theorem st_bind {σ α β} (x : StateM σ α) (f : α → StateM σ β) (s : σ) :
    (x >>= f) s = f (x s).1 (x s).2 := rfl

theorem exec_bind {α β} (x : M α) (f : α → M β) (s : RState) :
    exec (x >>= f) s = match exec x s with
      | (.ok a, s') => exec (f a) s'
      | (.error e, s') => (.error e, s') := by
  unfold exec
  show (ExceptT.bind x f).run s = _
  unfold ExceptT.bind ExceptT.mk ExceptT.run ExceptT.bindCont
  rw [st_bind]
  rcases (x s : Except PyErr α × RState) with ⟨r, s'⟩
  cases r <;> rfl

theorem exec_tryCatch {α} (x : M α) (h : PyErr → M α) (s : RState) :
    exec (tryCatch x h) s = match exec x s with
      | (.ok a, s') => (.ok a, s')
      | (.error e, s') => exec (h e) s' := by
  unfold exec
  show (ExceptT.tryCatch x h).run s = _
  unfold ExceptT.tryCatch ExceptT.mk ExceptT.run
  rw [st_bind]
  rcases (x s : Except PyErr α × RState) with ⟨r, s'⟩
  cases r <;> rfl

theorem exec_bind_ok {α β} {x : M α} {f : α → M β} {s s' : RState} {a : α}
    (h : exec x s = (.ok a, s')) : exec (x >>= f) s = exec (f a) s' := by
  rw [exec_bind, h]

theorem exec_bind_err {α β} {x : M α} {f : α → M β} {s s' : RState} {e : PyErr}
    (h : exec x s = (.error e, s')) : exec (x >>= f) s = (.error e, s') := by
  rw [exec_bind, h]

theorem exec_tryCatch_ok {α} {x : M α} {h : PyErr → M α} {s s' : RState} {a : α}
    (hx : exec x s = (.ok a, s')) : exec (tryCatch x h) s = (.ok a, s') := by
  rw [exec_tryCatch, hx]

theorem exec_tryCatch_err {α} {x : M α} {h : PyErr → M α} {s s' : RState} {e : PyErr}
    (hx : exec x s = (.error e, s')) : exec (tryCatch x h) s = exec (h e) s' := by
  rw [exec_tryCatch, hx]

/-! ## the fault plan -/

/-- the fault is still armed: some call may fail from this state on -/
def Fires (s : RState) : Prop := s.fired = false ∧ s.failAt.isSome = true

/-- the state after an I/O call that did not fail (only the trace grows) -/
abbrev tr (s : RState) (t : List IOCall) : RState := { s with trace := t }
/-- the state after the I/O call that failed -/
abbrev fire (s : RState) (t : List IOCall) : RState := { s with trace := t, fired := true }

theorem tick_exec (c : IOCall) (s : RState) :
    exec (tick c) s = (.ok false, tr s (s.trace ++ [c])) ∨
    (Fires s ∧ exec (tick c) s = (.ok true, fire s (s.trace ++ [c]))) := by
  have h : exec (tick c) s = (.ok ((s.failAt == some s.trace.length) && !s.fired),
      { s with trace := s.trace ++ [c], fired := s.fired || ((s.failAt == some s.trace.length) && !s.fired) }) := rfl
  rw [h]
  cases hf : s.fired
  · cases hq : (s.failAt == some s.trace.length)
    · left; simp [tr, hf]
    · right
      refine ⟨⟨hf, ?_⟩, ?_⟩
      · have := beq_iff_eq.1 hq; simp [this]
      · simp [fire]
  · left; simp [tr, hf]

theorem mkstemp_exec (s : RState) :
    (∃ t, exec mkstemp s = (.ok (s.nextId + 1, s.nextId),
        { tr s t with files := s.files ++ [s.nextId], fds := s.fds ++ [s.nextId + 1], nextId := s.nextId + 2 })) ∨
    (Fires s ∧ ∃ t, exec mkstemp s = (.error ioErr, fire s t)) := by
  unfold mkstemp
  rw [exec_bind]
  rcases tick_exec .mkstemp s with h | ⟨hf, h⟩
  · left; exact ⟨_, by rw [h]; rfl⟩
  · right; exact ⟨hf, _, by rw [h]; rfl⟩

theorem gzopen_exec (m : IOCall) (s : RState) :
    (∃ t, exec (gzopen m) s = (.ok s.nextId,
        { tr s t with handles := s.handles ++ [s.nextId], nextId := s.nextId + 1 })) ∨
    (Fires s ∧ ∃ t, exec (gzopen m) s = (.error ioErr, fire s t)) := by
  unfold gzopen
  rw [exec_bind]
  rcases tick_exec m s with h | ⟨hf, h⟩
  · left; exact ⟨_, by rw [h]; rfl⟩
  · right; exact ⟨hf, _, by rw [h]; rfl⟩

theorem hwrite_exec (s : RState) :
    (∃ t, exec hwrite s = (.ok (), tr s t)) ∨ (Fires s ∧ ∃ t, exec hwrite s = (.error ioErr, fire s t)) := by
  unfold hwrite
  rw [exec_bind]
  rcases tick_exec .write s with h | ⟨hf, h⟩
  · left; exact ⟨_, by rw [h]; rfl⟩
  · right; exact ⟨hf, _, by rw [h]; rfl⟩

theorem hread_exec (s : RState) :
    (∃ t, exec hread s = (.ok (), tr s t)) ∨ (Fires s ∧ ∃ t, exec hread s = (.error ioErr, fire s t)) := by
  unfold hread
  rw [exec_bind]
  rcases tick_exec .read s with h | ⟨hf, h⟩
  · left; exact ⟨_, by rw [h]; rfl⟩
  · right; exact ⟨hf, _, by rw [h]; rfl⟩

theorem hclose_exec (c : IOCall) (h : Nat) (s : RState) :
    (∃ t, exec (hclose c h) s = (.ok (), { tr s t with handles := s.handles.erase h })) ∨
    (Fires s ∧ ∃ t, exec (hclose c h) s = (.error ioErr, { fire s t with handles := s.handles.erase h })) := by
  unfold hclose
  rw [exec_bind]
  rcases tick_exec c s with h | ⟨hf, h⟩
  · left; exact ⟨_, by rw [h]; rfl⟩
  · right; exact ⟨hf, _, by rw [h]; rfl⟩

theorem osclose_exec (d : Nat) (s : RState) :
    (∃ t, exec (osclose d) s = (.ok (), { tr s t with fds := s.fds.erase d })) ∨
    (Fires s ∧ ∃ t, exec (osclose d) s = (.error ioErr, { fire s t with fds := s.fds.erase d })) := by
  unfold osclose
  rw [exec_bind]
  rcases tick_exec .osclose s with h | ⟨hf, h⟩
  · left; exact ⟨_, by rw [h]; rfl⟩
  · right; exact ⟨hf, _, by rw [h]; rfl⟩

theorem osremove_exec (f : Nat) (s : RState) :
    (∃ t, exec (osremove f) s = (.ok (), { tr s t with files := s.files.erase f })) ∨
    (Fires s ∧ ∃ t, exec (osremove f) s = (.error ioErr, fire s t)) := by
  unfold osremove
  rw [exec_bind]
  rcases tick_exec .remove s with h | ⟨hf, h⟩
  · left; exact ⟨_, by rw [h]; rfl⟩
  · right; exact ⟨hf, _, by rw [h]; rfl⟩



/-! ## invariants -/

/-- files, descriptors and registered paths: everything that exists is registered, and ids are fresh -/
structure WF (s : RState) : Prop where
  filesNd : s.files.Nodup
  fdsNd : s.fds.Nodup
  pathsNd : s.paths.Nodup
  filesLt : ∀ x ∈ s.files, x < s.nextId
  fdsLt : ∀ x ∈ s.fds, x < s.nextId
  pathsLt : ∀ x ∈ s.paths, x < s.nextId
  filesReg : ∀ f ∈ s.files, f ∈ s.paths
  lenReg : s.paths.length = s.fdsReg.length
  fdsReg : ∀ d ∈ s.fds, some d ∈ s.fdsReg

/-- open handles are distinct and below the id counter -/
structure HInv (s : RState) : Prop where
  nd : s.handles.Nodup
  lt : ∀ x ∈ s.handles, x < s.nextId

/-- what the spill files hold: `all` are the keys added so far -/
structure DInv (s : RState) (all : List Nat) : Prop where
  keys : s.contents.map (·.1) = s.paths
  sorted : ∀ p ∈ s.contents, p.2.Pairwise (· ≤ ·)
  perm : (s.contents.flatMap (·.2) ++ s.stash).Perm all

/-- the shape of every operation's outcome: it returns without the fault having
    fired during it, or it raises the I/O error and the fault fired during it -/
def Outcome {α} (s : RState) (r : Except PyErr α × RState) (Q : α → RState → Prop)
    (E : RState → Prop) : Prop :=
  r.2.failAt = s.failAt ∧
  match r.1 with
  | .ok a => r.2.fired = s.fired ∧ Q a r.2
  | .error e => e = ioErr ∧ Fires s ∧ r.2.fired = true ∧ E r.2

theorem Outcome.ok {α} {s s' : RState} {a : α} {Q : α → RState → Prop} {E : RState → Prop}
    (h1 : s'.failAt = s.failAt) (h2 : s'.fired = s.fired) (h3 : Q a s') :
    Outcome s (.ok a, s') Q E := ⟨h1, h2, h3⟩

theorem Outcome.err {α} {s s' : RState} {Q : α → RState → Prop} {E : RState → Prop}
    (h1 : s'.failAt = s.failAt) (hf : Fires s) (h2 : s'.fired = true) (h3 : E s') :
    Outcome s (.error ioErr, s') Q E := ⟨h1, rfl, hf, h2, h3⟩

theorem Outcome.mono {α} {s : RState} {r : Except PyErr α × RState} {Q Q' : α → RState → Prop}
    {E E' : RState → Prop} (h : Outcome s r Q E) (hQ : ∀ a s', Q a s' → Q' a s')
    (hE : ∀ s', E s' → E' s') : Outcome s r Q' E' := by
  obtain ⟨r1, r2⟩ := r
  cases r1 with
  | ok a => exact ⟨h.1, h.2.1, hQ _ _ h.2.2⟩
  | error e => exact ⟨h.1, h.2.1, h.2.2.1, h.2.2.2.1, hE _ h.2.2.2.2⟩

/-- once the fault has fired nothing raises any more -/
theorem Outcome.ok_of_fired {α} {s : RState} {r : Except PyErr α × RState} {Q : α → RState → Prop}
    {E : RState → Prop} (h : Outcome s r Q E) (hf : s.fired = true) :
    ∃ a, r.1 = .ok a ∧ r.2.failAt = s.failAt ∧ r.2.fired = true ∧ Q a r.2 := by
  obtain ⟨r1, r2⟩ := r
  cases r1 with
  | ok a => exact ⟨a, rfl, h.1, h.2.1.trans hf, h.2.2⟩
  | error e => have := h.2.2.1.1; rw [hf] at this; cases this

theorem Fires_tr {s : RState} {t} : Fires (tr s t) ↔ Fires s := Iff.rfl

/-- a computation that only makes I/O calls which touch nothing but the trace -/
def TrOnly (x : M Unit) : Prop :=
  ∀ s, (∃ t, exec x s = (.ok (), tr s t)) ∨ (Fires s ∧ ∃ t, exec x s = (.error ioErr, fire s t))

theorem TrOnly.seq {x y : M Unit} (hx : TrOnly x) (hy : TrOnly y) : TrOnly (do x; y) := by
  intro s
  rcases hx s with ⟨t, h⟩ | ⟨hf, t, h⟩
  · rw [exec_bind_ok h]
    rcases hy (tr s t) with ⟨t', h'⟩ | ⟨hf', t', h'⟩
    · left; exact ⟨t', h'⟩
    · right; exact ⟨hf', t', h'⟩
  · right; exact ⟨hf, t, exec_bind_err h⟩

theorem TrOnly.forM {β} (l : List β) {f : β → M Unit} (hf : ∀ b, TrOnly (f b)) : TrOnly (l.forM f) := by
  induction l with
  | nil => intro s; left; exact ⟨s.trace, rfl⟩
  | cons b l ih =>
    show TrOnly (do f b; l.forM f)
    exact (hf b).seq ih

theorem writes_trOnly (l : List Nat) : TrOnly (l.forM (fun _ => do hwrite; hwrite)) :=
  TrOnly.forM l (fun _ => TrOnly.seq hwrite_exec hwrite_exec)


theorem WF.of_eq {s s' : RState} (h : WF s) (h1 : s'.files = s.files) (h2 : s'.fds = s.fds)
    (h3 : s'.paths = s.paths) (h4 : s'.fdsReg = s.fdsReg) (h5 : s.nextId ≤ s'.nextId) : WF s' := by
  constructor
  · rw [h1]; exact h.filesNd
  · rw [h2]; exact h.fdsNd
  · rw [h3]; exact h.pathsNd
  · rw [h1]; intro x hx; exact Nat.lt_of_lt_of_le (h.filesLt x hx) h5
  · rw [h2]; intro x hx; exact Nat.lt_of_lt_of_le (h.fdsLt x hx) h5
  · rw [h3]; intro x hx; exact Nat.lt_of_lt_of_le (h.pathsLt x hx) h5
  · rw [h1, h3]; exact h.filesReg
  · rw [h3, h4]; exact h.lenReg
  · rw [h2, h4]; exact h.fdsReg

theorem nodup_append_fresh {l : List Nat} {n : Nat} (h : l.Nodup) (hlt : ∀ x ∈ l, x < n) :
    (l ++ [n]).Nodup := by
  rw [List.nodup_append]
  refine ⟨h, (by simp), ?_⟩
  intro a ha b hb
  simp only [List.mem_singleton] at hb
  subst hb
  exact Nat.ne_of_lt (hlt a ha)

/-- `mkstemp` followed by the registration of the new file and descriptor -/
theorem WF.mkstemp_reg {s s' : RState} (h : WF s)
    (h1 : s'.files = s.files ++ [s.nextId]) (h2 : s'.fds = s.fds ++ [s.nextId + 1])
    (h3 : s'.paths = s.paths ++ [s.nextId]) (h4 : s'.fdsReg = s.fdsReg ++ [some (s.nextId + 1)])
    (h5 : s'.nextId = s.nextId + 2) : WF s' := by
  constructor
  · rw [h1]; exact nodup_append_fresh h.filesNd h.filesLt
  · rw [h2]; exact nodup_append_fresh h.fdsNd (fun x hx => Nat.lt_succ_of_lt (h.fdsLt x hx))
  · rw [h3]; exact nodup_append_fresh h.pathsNd h.pathsLt
  · rw [h1, h5]; intro x hx
    rcases List.mem_append.1 hx with hx | hx
    · have := h.filesLt x hx; omega
    · simp only [List.mem_singleton] at hx; omega
  · rw [h2, h5]; intro x hx
    rcases List.mem_append.1 hx with hx | hx
    · have := h.fdsLt x hx; omega
    · simp only [List.mem_singleton] at hx; omega
  · rw [h3, h5]; intro x hx
    rcases List.mem_append.1 hx with hx | hx
    · have := h.pathsLt x hx; omega
    · simp only [List.mem_singleton] at hx; omega
  · rw [h1, h3]; intro x hx
    rcases List.mem_append.1 hx with hx | hx
    · exact List.mem_append_left _ (h.filesReg x hx)
    · exact List.mem_append_right _ hx
  · rw [h3, h4]; simp [h.lenReg]
  · rw [h2, h4]; intro x hx
    rcases List.mem_append.1 hx with hx | hx
    · exact List.mem_append_left _ (h.fdsReg x hx)
    · simp only [List.mem_singleton] at hx; subst hx; simp

theorem DInv.spilled {s s' : RState} {all : List Nat} {f : Nat} (h : DInv s all)
    (h1 : s'.contents = s.contents ++ [(f, s.stash.mergeSort (fun a b => a ≤ b))])
    (h2 : s'.paths = s.paths ++ [f]) (h3 : s'.stash = []) : DInv s' all := by
  constructor
  · rw [h1, h2, List.map_append, h.keys]; rfl
  · rw [h1]; intro p hp
    rcases List.mem_append.1 hp with hp | hp
    · exact h.sorted p hp
    · simp only [List.mem_singleton] at hp; subst hp
      have := List.pairwise_mergeSort (le := fun a b : Nat => decide (a ≤ b))
        (fun a b c hab hbc => by simp only [decide_eq_true_eq] at *; omega)
        (fun a b => by simp only [Bool.or_eq_true, decide_eq_true_eq]; omega) s.stash
      simpa using this
  · rw [h1, h3, List.flatMap_append, List.append_nil]
    simp only [List.flatMap_cons, List.flatMap_nil, List.append_nil]
    exact ((List.mergeSort_perm _ _).append_left _).trans h.perm


theorem Outcome.rebase {α} {s s2 : RState} {r : Except PyErr α × RState} {Q : α → RState → Prop}
    {E : RState → Prop} (h1 : s2.failAt = s.failAt) (h2 : s2.fired = s.fired) (h : Outcome s2 r Q E) :
    Outcome s r Q E := by
  obtain ⟨r1, r2⟩ := r
  cases r1 with
  | ok a => exact ⟨h.1.trans h1, h.2.1.trans h2, h.2.2⟩
  | error e =>
    refine ⟨h.1.trans h1, h.2.1, ?_, h.2.2.2⟩
    have := h.2.2.1
    exact ⟨h2 ▸ this.1, h1 ▸ this.2⟩

theorem not_fires {s : RState} (hf : s.fired = true) : ¬ Fires s := by
  intro h; rw [h.1] at hf; cases hf

theorem hclose_exec_fired (c : IOCall) (h : Nat) {s : RState} (hf : s.fired = true) :
    ∃ t, exec (hclose c h) s = (.ok (), { tr s t with handles := s.handles.erase h }) := by
  rcases hclose_exec c h s with h | ⟨hf', _⟩
  · exact h
  · exact absurd hf' (not_fires hf)

theorem swallowOS_hclose_fired (c : IOCall) (h : Nat) {s : RState} (hf : s.fired = true) :
    ∃ t, exec (swallowOS (hclose c h)) s = (.ok (), { tr s t with handles := s.handles.erase h }) := by
  obtain ⟨t, ht⟩ := hclose_exec_fired c h hf
  exact ⟨t, by unfold swallowOS; rw [exec_tryCatch_ok ht]⟩

/-- `__spill` after the file has been created and registered -/
def spillTail (f : Nat) (sorted : List Nat) : M Unit := do
  let h ← gzopen .gzopenW
  tryCatch (sorted.forM (fun _ => do hwrite; hwrite))
    (fun e => do swallowOS (hclose .hcloseW h); throw e)
  hclose .hcloseW h
  modify (fun s => { s with stash := [], contents := s.contents ++ [(f, sorted)] })

theorem spill_eq : spill = (do
    let s ← get
    if s.stash.isEmpty then return ()
    let (d, f) ← mkstemp
    modify (fun s => { s with paths := s.paths ++ [f], fdsReg := s.fdsReg ++ [some d] })
    spillTail f (s.stash.mergeSort (fun a b => a ≤ b))) := rfl

def SpillTailQ (s : RState) (f : Nat) (sorted : List Nat) (_ : Unit) (s' : RState) : Prop :=
  WF s' ∧ s'.handles = [] ∧ s'.merging = s.merging ∧ s'.stash = [] ∧
    s'.contents = s.contents ++ [(f, sorted)] ∧ s'.paths = s.paths
def SpillE (s : RState) (s' : RState) : Prop :=
  WF s' ∧ s'.handles = [] ∧ s'.merging = s.merging

theorem spillTail_spec (f : Nat) (sorted : List Nat) (s : RState) (hw : WF s) (hh : s.handles = []) :
    Outcome s (exec (spillTail f sorted) s) (SpillTailQ s f sorted) (SpillE s) := by
  unfold spillTail
  rcases gzopen_exec .gzopenW s with ⟨t3, h3⟩ | ⟨hf3, t3, h3⟩
  · rw [exec_bind_ok h3]
    rcases writes_trOnly sorted _ with ⟨t4, h4⟩ | ⟨hf4, t4, h4⟩
    · rw [exec_bind_ok (exec_tryCatch_ok h4)]
      rcases hclose_exec .hcloseW s.nextId _ with ⟨t5, h5⟩ | ⟨hf5, t5, h5⟩
      · rw [exec_bind_ok h5, exec_modify]
        refine Outcome.ok rfl rfl ⟨hw.of_eq rfl rfl rfl rfl (Nat.le_succ _), ?_, rfl, rfl, rfl, rfl⟩
        simp [hh]
      · rw [exec_bind_err h5]
        refine Outcome.err rfl hf5 rfl ⟨hw.of_eq rfl rfl rfl rfl (Nat.le_succ _), ?_, rfl⟩
        simp [hh]
    · obtain ⟨t5, h5⟩ := swallowOS_hclose_fired .hcloseW s.nextId (s := fire
        { tr s t3 with handles := s.handles ++ [s.nextId], nextId := s.nextId + 1 } t4) rfl
      have h6 := exec_tryCatch_err (h := fun e => do swallowOS (hclose .hcloseW s.nextId); throw e) h4
      rw [exec_bind_ok h5, exec_throw] at h6
      rw [exec_bind_err h6]
      refine Outcome.err rfl hf4 rfl ⟨hw.of_eq rfl rfl rfl rfl (Nat.le_succ _), ?_, rfl⟩
      simp [hh]
  · rw [exec_bind_err h3]
    exact Outcome.err rfl hf3 rfl ⟨hw.of_eq rfl rfl rfl rfl (Nat.le_refl _), hh, rfl⟩

def SpillQ (s : RState) (_ : Unit) (s' : RState) : Prop :=
  WF s' ∧ s'.handles = [] ∧ s'.merging = s.merging ∧ s'.stash = [] ∧ ∀ all, DInv s all → DInv s' all

theorem spill_spec (s : RState) (hw : WF s) (hh : s.handles = []) :
    Outcome s (exec spill s) (SpillQ s) (SpillE s) := by
  rw [spill_eq, exec_bind, exec_get]
  simp only []
  split
  · rename_i hemp
    rw [exec_pure]
    refine Outcome.ok rfl rfl ⟨hw, hh, rfl, ?_, fun all h => h⟩
    simpa using hemp
  · rcases mkstemp_exec s with ⟨t, h⟩ | ⟨hf, t, h⟩
    · rw [exec_bind_ok h]
      simp only []
      rw [exec_bind, exec_modify]
      simp only []
      refine ((spillTail_spec _ _ _ ?_ ?_).rebase rfl rfl).mono ?_ ?_
      · exact hw.mkstemp_reg rfl rfl rfl rfl rfl
      · exact hh
      · rintro _ s' ⟨h1, h2, h3, h4, h5, h6⟩
        exact ⟨h1, h2, h3, h4, fun all hd => hd.spilled h5 h6 h4⟩
      · exact fun s' h => h
    · rw [exec_bind_err h]
      exact Outcome.err rfl hf rfl ⟨hw.of_eq rfl rfl rfl rfl (Nat.le_refl _), hh, rfl⟩


theorem Outcome.bind {α β} {s : RState} {x : M α} {f : α → M β} {Q1 : α → RState → Prop}
    {Q : β → RState → Prop} {E : RState → Prop} (hx : Outcome s (exec x s) Q1 E)
    (hf : ∀ a s1, Q1 a s1 → s1.failAt = s.failAt → s1.fired = s.fired → Outcome s1 (exec (f a) s1) Q E) :
    Outcome s (exec (x >>= f) s) Q E := by
  rw [exec_bind]
  rcases hxs : exec x s with ⟨r, s1⟩
  rw [hxs] at hx
  cases r with
  | ok a => exact (hf a s1 hx.2.2 hx.1 hx.2.1).rebase hx.1 hx.2.1
  | error e => exact hx

def AddQ (s : RState) (x : List Nat) (_ : PUnit) (s' : RState) : Prop :=
  WF s' ∧ s'.handles = [] ∧ s'.merging = s.merging ∧ ∀ all, DInv s all → DInv s' (all ++ x)

theorem add_spec (x : Nat) (s : RState) (hw : WF s) (hh : s.handles = []) :
    Outcome s (exec (add x) s) (AddQ s [x]) (SpillE s) := by
  unfold add
  rw [exec_bind, exec_modify]
  simp only []
  rw [exec_bind, exec_get]
  simp only []
  have hd : ∀ all, DInv s all → DInv { s with stash := s.stash ++ [x] } (all ++ [x]) := by
    intro all hd
    refine ⟨hd.keys, hd.sorted, ?_⟩
    show (s.contents.flatMap (·.2) ++ (s.stash ++ [x])).Perm (all ++ [x])
    rw [← List.append_assoc]
    exact hd.perm.append_right _
  split
  · refine ((spill_spec _ ?_ ?_).rebase rfl rfl).mono ?_ ?_
    · exact hw.of_eq rfl rfl rfl rfl (Nat.le_refl _)
    · exact hh
    · rintro _ s' ⟨h1, h2, h3, _, h5⟩
      exact ⟨h1, h2, h3, fun all h => h5 _ (hd all h)⟩
    · exact fun s' h => h
  · rw [exec_pure]
    exact Outcome.ok rfl rfl ⟨hw.of_eq rfl rfl rfl rfl (Nat.le_refl _), hh, rfl, hd⟩

theorem addAll_spec (keys : List Nat) (s : RState) (hw : WF s) (hh : s.handles = []) :
    Outcome s (exec (keys.forM add) s) (AddQ s keys) (SpillE s) := by
  induction keys generalizing s with
  | nil =>
    exact Outcome.ok rfl rfl ⟨hw, hh, rfl, fun all h => by simpa using h⟩
  | cons k keys ih =>
    show Outcome s (exec (add k >>= fun _ => keys.forM add) s) _ _
    refine Outcome.bind ((add_spec k s hw hh).mono (fun _ _ h => h) ?_) ?_
    · exact fun s' h => h
    · rintro _ s1 ⟨h1, h2, h3, h4⟩ _ _
      refine (ih s1 h1 h2).mono ?_ ?_
      · rintro _ s' ⟨g1, g2, g3, g4⟩
        refine ⟨g1, g2, g3.trans h3, fun all h => ?_⟩
        have := g4 _ (h4 all h)
        simpa using this
      · rintro s' ⟨g1, g2, g3⟩
        exact ⟨g1, g2, g3.trans h3⟩


end ResourceLemmas
