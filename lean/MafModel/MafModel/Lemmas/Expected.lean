/-
  The resolved class record (`ColSpec`, identity erased) that method resolution is
  expected to produce for every named column type.  The theorems about column
  types are proved about these literals; `Props/C01.lean` contains the
  `decide` obligations that the *generated* class table resolves to them.
-/
import MafModel.Model.ColumnTypes
open Py Model
namespace Expected

def NullableStringColumn : ColSpec := {
  cls := "",
  mro := [],
  buildMethod := some "MafCustomColumnRecord",
  validateMethod := some "MafCustomColumnRecord",
  nullDict := some [("", Model.NullVal.none)],
  buildChain := ["_BuildStringColumn", "MafCustomColumnRecord"],
  validateChain := ["NullableStringColumn", "MafCustomColumnRecord"],
  stringChain := ["MafColumnRecord"],
  enumCls := none,
  minV := none,
  maxV := none,
  elem := none }

def StringColumn : ColSpec := {
  cls := "",
  mro := [],
  buildMethod := some "MafCustomColumnRecord",
  validateMethod := some "MafCustomColumnRecord",
  nullDict := none,
  buildChain := ["_BuildStringColumn", "MafCustomColumnRecord"],
  validateChain := ["StringColumn", "NullableStringColumn", "MafCustomColumnRecord"],
  stringChain := ["MafColumnRecord"],
  enumCls := none,
  minV := none,
  maxV := none,
  elem := none }

def StringOrIntegerColumn : ColSpec := {
  cls := "",
  mro := [],
  buildMethod := some "MafCustomColumnRecord",
  validateMethod := some "MafCustomColumnRecord",
  nullDict := none,
  buildChain := ["StringOrIntegerColumn", "MafCustomColumnRecord"],
  validateChain := ["StringOrIntegerColumn", "MafCustomColumnRecord"],
  stringChain := ["MafColumnRecord"],
  enumCls := none,
  minV := none,
  maxV := none,
  elem := none }

def StringIntegerOrFloatColumn : ColSpec := {
  cls := "",
  mro := [],
  buildMethod := some "MafCustomColumnRecord",
  validateMethod := some "MafCustomColumnRecord",
  nullDict := none,
  buildChain := ["StringIntegerOrFloatColumn", "MafCustomColumnRecord"],
  validateChain := ["StringIntegerOrFloatColumn", "MafCustomColumnRecord"],
  stringChain := ["MafColumnRecord"],
  enumCls := none,
  minV := none,
  maxV := none,
  elem := none }

def IntegerColumn : ColSpec := {
  cls := "",
  mro := [],
  buildMethod := some "MafCustomColumnRecord",
  validateMethod := some "MafCustomColumnRecord",
  nullDict := none,
  buildChain := ["IntegerColumn", "MafCustomColumnRecord"],
  validateChain := ["IntegerColumn", "MafCustomColumnRecord"],
  stringChain := ["MafColumnRecord"],
  enumCls := none,
  minV := none,
  maxV := none,
  elem := none }

def NullableIntegerColumn : ColSpec := {
  cls := "",
  mro := [],
  buildMethod := some "MafCustomColumnRecord",
  validateMethod := some "MafCustomColumnRecord",
  nullDict := some [("", Model.NullVal.none)],
  buildChain := ["IntegerColumn", "MafCustomColumnRecord"],
  validateChain := ["IntegerColumn", "MafCustomColumnRecord"],
  stringChain := ["MafColumnRecord"],
  enumCls := none,
  minV := none,
  maxV := none,
  elem := none }

def ZeroBasedIntegerColumn : ColSpec := {
  cls := "",
  mro := [],
  buildMethod := some "MafCustomColumnRecord",
  validateMethod := some "MafCustomColumnRecord",
  nullDict := none,
  buildChain := ["IntegerColumn", "MafCustomColumnRecord"],
  validateChain := ["IntegerColumn", "MafCustomColumnRecord"],
  stringChain := ["MafColumnRecord"],
  enumCls := none,
  minV := some 0,
  maxV := none,
  elem := none }

def OneBasedIntegerColumn : ColSpec := {
  cls := "",
  mro := [],
  buildMethod := some "MafCustomColumnRecord",
  validateMethod := some "MafCustomColumnRecord",
  nullDict := none,
  buildChain := ["IntegerColumn", "MafCustomColumnRecord"],
  validateChain := ["IntegerColumn", "MafCustomColumnRecord"],
  stringChain := ["MafColumnRecord"],
  enumCls := none,
  minV := some 1,
  maxV := none,
  elem := none }

def NullableZeroBasedIntegerColumn : ColSpec := {
  cls := "",
  mro := [],
  buildMethod := some "MafCustomColumnRecord",
  validateMethod := some "MafCustomColumnRecord",
  nullDict := some [("", Model.NullVal.none)],
  buildChain := ["IntegerColumn", "MafCustomColumnRecord"],
  validateChain := ["IntegerColumn", "MafCustomColumnRecord"],
  stringChain := ["MafColumnRecord"],
  enumCls := none,
  minV := some 0,
  maxV := none,
  elem := none }

def NullableOneBasedIntegerColumn : ColSpec := {
  cls := "",
  mro := [],
  buildMethod := some "MafCustomColumnRecord",
  validateMethod := some "MafCustomColumnRecord",
  nullDict := some [("", Model.NullVal.none)],
  buildChain := ["IntegerColumn", "MafCustomColumnRecord"],
  validateChain := ["IntegerColumn", "MafCustomColumnRecord"],
  stringChain := ["MafColumnRecord"],
  enumCls := none,
  minV := some 1,
  maxV := none,
  elem := none }

def EntrezGeneId : ColSpec := {
  cls := "",
  mro := [],
  buildMethod := some "MafCustomColumnRecord",
  validateMethod := some "MafCustomColumnRecord",
  nullDict := some [("0", Model.NullVal.none)],
  buildChain := ["EntrezGeneId", "IntegerColumn", "MafCustomColumnRecord"],
  validateChain := ["IntegerColumn", "MafCustomColumnRecord"],
  stringChain := ["MafColumnRecord"],
  enumCls := none,
  minV := some 0,
  maxV := none,
  elem := none }

def FloatColumn : ColSpec := {
  cls := "",
  mro := [],
  buildMethod := some "MafCustomColumnRecord",
  validateMethod := some "MafCustomColumnRecord",
  nullDict := none,
  buildChain := ["FloatColumn", "MafCustomColumnRecord"],
  validateChain := ["FloatColumn", "MafCustomColumnRecord"],
  stringChain := ["MafColumnRecord"],
  enumCls := none,
  minV := none,
  maxV := none,
  elem := none }

def NullableFloatColumn : ColSpec := {
  cls := "",
  mro := [],
  buildMethod := some "MafCustomColumnRecord",
  validateMethod := some "MafCustomColumnRecord",
  nullDict := some [("", Model.NullVal.none)],
  buildChain := ["FloatColumn", "MafCustomColumnRecord"],
  validateChain := ["FloatColumn", "MafCustomColumnRecord"],
  stringChain := ["MafColumnRecord"],
  enumCls := none,
  minV := none,
  maxV := none,
  elem := none }

def SequenceOfStrings : ColSpec := {
  cls := "",
  mro := [],
  buildMethod := some "MafCustomColumnRecord",
  validateMethod := some "MafCustomColumnRecord",
  nullDict := some [("", Model.NullVal.emptyList)],
  buildChain := ["SequenceOfValuesColumn", "MafCustomColumnRecord"],
  validateChain := ["SequenceOfValuesColumn", "MafCustomColumnRecord"],
  stringChain := ["SequenceOfValuesColumn", "MafColumnRecord"],
  enumCls := none,
  minV := none,
  maxV := none,
  elem := some {
    buildChain := ["_BuildStringColumn", "MafCustomColumnRecord"],
    validateChain := ["StringColumn", "NullableStringColumn", "MafCustomColumnRecord"],
    enumCls := none,
    minV := none,
    maxV := none } }

def SequenceOfIntegers : ColSpec := {
  cls := "",
  mro := [],
  buildMethod := some "MafCustomColumnRecord",
  validateMethod := some "MafCustomColumnRecord",
  nullDict := some [("", Model.NullVal.emptyList)],
  buildChain := ["SequenceOfValuesColumn", "MafCustomColumnRecord"],
  validateChain := ["SequenceOfValuesColumn", "MafCustomColumnRecord"],
  stringChain := ["SequenceOfValuesColumn", "MafColumnRecord"],
  enumCls := none,
  minV := none,
  maxV := none,
  elem := some {
    buildChain := ["IntegerColumn", "MafCustomColumnRecord"],
    validateChain := ["IntegerColumn", "MafCustomColumnRecord"],
    enumCls := none,
    minV := none,
    maxV := none } }

def SequenceOfNullableYesOrNo : ColSpec := {
  cls := "",
  mro := [],
  buildMethod := some "MafCustomColumnRecord",
  validateMethod := some "MafCustomColumnRecord",
  nullDict := some [("", Model.NullVal.emptyList)],
  buildChain := ["SequenceOfValuesColumn", "MafCustomColumnRecord"],
  validateChain := ["SequenceOfValuesColumn", "MafCustomColumnRecord"],
  stringChain := ["SequenceOfValuesColumn", "MafColumnRecord"],
  enumCls := none,
  minV := none,
  maxV := none,
  elem := some {
    buildChain := ["NullableYesOrNo", "EnumColumn", "MafCustomColumnRecord"],
    validateChain := ["EnumColumn", "MafCustomColumnRecord"],
    enumCls := some "NullableYesOrNoEnum",
    minV := none,
    maxV := none } }

def SequenceOfSequencers : ColSpec := {
  cls := "",
  mro := [],
  buildMethod := some "MafCustomColumnRecord",
  validateMethod := some "MafCustomColumnRecord",
  nullDict := some [("", Model.NullVal.emptyList)],
  buildChain := ["SequenceOfValuesColumn", "MafCustomColumnRecord"],
  validateChain := ["SequenceOfValuesColumn", "MafCustomColumnRecord"],
  stringChain := ["SequenceOfValuesColumn", "MafColumnRecord"],
  enumCls := none,
  minV := none,
  maxV := none,
  elem := some {
    buildChain := ["EnumColumn", "MafCustomColumnRecord"],
    validateChain := ["EnumColumn", "MafCustomColumnRecord"],
    enumCls := some "SequencerEnum",
    minV := none,
    maxV := none } }

def NullableDnaString : ColSpec := {
  cls := "",
  mro := [],
  buildMethod := some "MafCustomColumnRecord",
  validateMethod := some "MafCustomColumnRecord",
  nullDict := some [("", Model.NullVal.none)],
  buildChain := ["_BuildStringColumn", "MafCustomColumnRecord"],
  validateChain := ["NullableDnaString", "MafCustomColumnRecord"],
  stringChain := ["MafColumnRecord"],
  enumCls := none,
  minV := none,
  maxV := none,
  elem := none }

def DnaString : ColSpec := {
  cls := "",
  mro := [],
  buildMethod := some "MafCustomColumnRecord",
  validateMethod := some "MafCustomColumnRecord",
  nullDict := none,
  buildChain := ["_BuildStringColumn", "MafCustomColumnRecord"],
  validateChain := ["DnaString", "NullableDnaString", "MafCustomColumnRecord"],
  stringChain := ["MafColumnRecord"],
  enumCls := none,
  minV := none,
  maxV := none,
  elem := none }

def Canonical : ColSpec := {
  cls := "",
  mro := [],
  buildMethod := some "MafCustomColumnRecord",
  validateMethod := some "MafCustomColumnRecord",
  nullDict := none,
  buildChain := ["Canonical", "MafCustomColumnRecord"],
  validateChain := ["Canonical", "MafCustomColumnRecord"],
  stringChain := ["Canonical", "MafColumnRecord"],
  enumCls := none,
  minV := none,
  maxV := none,
  elem := none }

def BooleanColumn : ColSpec := {
  cls := "",
  mro := [],
  buildMethod := some "MafCustomColumnRecord",
  validateMethod := some "MafCustomColumnRecord",
  nullDict := none,
  buildChain := ["BooleanColumn", "MafCustomColumnRecord"],
  validateChain := ["BooleanColumn", "MafCustomColumnRecord"],
  stringChain := ["MafColumnRecord"],
  enumCls := none,
  minV := none,
  maxV := none,
  elem := none }

def UUIDColumn : ColSpec := {
  cls := "",
  mro := [],
  buildMethod := some "MafCustomColumnRecord",
  validateMethod := some "MafCustomColumnRecord",
  nullDict := none,
  buildChain := ["UUIDColumn", "MafCustomColumnRecord"],
  validateChain := ["UUIDColumn", "MafCustomColumnRecord"],
  stringChain := ["MafColumnRecord"],
  enumCls := none,
  minV := none,
  maxV := none,
  elem := none }

def NullableUUIDColumn : ColSpec := {
  cls := "",
  mro := [],
  buildMethod := some "MafCustomColumnRecord",
  validateMethod := some "MafCustomColumnRecord",
  nullDict := some [("", Model.NullVal.none)],
  buildChain := ["UUIDColumn", "MafCustomColumnRecord"],
  validateChain := ["UUIDColumn", "MafCustomColumnRecord"],
  stringChain := ["MafColumnRecord"],
  enumCls := none,
  minV := none,
  maxV := none,
  elem := none }

def TranscriptStrand : ColSpec := {
  cls := "",
  mro := [],
  buildMethod := some "MafCustomColumnRecord",
  validateMethod := some "MafCustomColumnRecord",
  nullDict := some [("", Model.NullVal.none)],
  buildChain := ["TranscriptStrand", "MafCustomColumnRecord"],
  validateChain := ["TranscriptStrand", "MafCustomColumnRecord"],
  stringChain := ["MafColumnRecord"],
  enumCls := none,
  minV := none,
  maxV := none,
  elem := none }

def YesNoOrUnknown : ColSpec := {
  cls := "",
  mro := [],
  buildMethod := some "MafCustomColumnRecord",
  validateMethod := some "MafCustomColumnRecord",
  nullDict := none,
  buildChain := ["YesNoOrUnknown", "EnumColumn", "MafCustomColumnRecord"],
  validateChain := ["EnumColumn", "MafCustomColumnRecord"],
  stringChain := ["EnumColumn", "MafColumnRecord"],
  enumCls := some "YesNoOrUnknownEnum",
  minV := none,
  maxV := none,
  elem := none }

def Strand : ColSpec := {
  cls := "",
  mro := [],
  buildMethod := some "MafCustomColumnRecord",
  validateMethod := some "MafCustomColumnRecord",
  nullDict := none,
  buildChain := ["EnumColumn", "MafCustomColumnRecord"],
  validateChain := ["EnumColumn", "MafCustomColumnRecord"],
  stringChain := ["EnumColumn", "MafColumnRecord"],
  enumCls := some "StrandEnum",
  minV := none,
  maxV := none,
  elem := none }

def VariantClassification : ColSpec := {
  cls := "",
  mro := [],
  buildMethod := some "MafCustomColumnRecord",
  validateMethod := some "MafCustomColumnRecord",
  nullDict := none,
  buildChain := ["EnumColumn", "MafCustomColumnRecord"],
  validateChain := ["EnumColumn", "MafCustomColumnRecord"],
  stringChain := ["EnumColumn", "MafColumnRecord"],
  enumCls := some "VariantClassificationEnum",
  minV := none,
  maxV := none,
  elem := none }

def VariantType : ColSpec := {
  cls := "",
  mro := [],
  buildMethod := some "MafCustomColumnRecord",
  validateMethod := some "MafCustomColumnRecord",
  nullDict := none,
  buildChain := ["EnumColumn", "MafCustomColumnRecord"],
  validateChain := ["EnumColumn", "MafCustomColumnRecord"],
  stringChain := ["EnumColumn", "MafColumnRecord"],
  enumCls := some "VariantTypeEnum",
  minV := none,
  maxV := none,
  elem := none }

def VariantSupport : ColSpec := {
  cls := "",
  mro := [],
  buildMethod := some "MafCustomColumnRecord",
  validateMethod := some "MafCustomColumnRecord",
  nullDict := none,
  buildChain := ["EnumColumn", "MafCustomColumnRecord"],
  validateChain := ["EnumColumn", "MafCustomColumnRecord"],
  stringChain := ["EnumColumn", "MafColumnRecord"],
  enumCls := some "VariantSupportEnum",
  minV := none,
  maxV := none,
  elem := none }

def MutationStatus : ColSpec := {
  cls := "",
  mro := [],
  buildMethod := some "MafCustomColumnRecord",
  validateMethod := some "MafCustomColumnRecord",
  nullDict := none,
  buildChain := ["EnumColumn", "MafCustomColumnRecord"],
  validateChain := ["EnumColumn", "MafCustomColumnRecord"],
  stringChain := ["EnumColumn", "MafColumnRecord"],
  enumCls := some "MutationStatusEnum",
  minV := none,
  maxV := none,
  elem := none }

def Sequencer : ColSpec := {
  cls := "",
  mro := [],
  buildMethod := some "MafCustomColumnRecord",
  validateMethod := some "MafCustomColumnRecord",
  nullDict := none,
  buildChain := ["EnumColumn", "MafCustomColumnRecord"],
  validateChain := ["EnumColumn", "MafCustomColumnRecord"],
  stringChain := ["EnumColumn", "MafColumnRecord"],
  enumCls := some "SequencerEnum",
  minV := none,
  maxV := none,
  elem := none }

def Impact : ColSpec := {
  cls := "",
  mro := [],
  buildMethod := some "MafCustomColumnRecord",
  validateMethod := some "MafCustomColumnRecord",
  nullDict := none,
  buildChain := ["EnumColumn", "MafCustomColumnRecord"],
  validateChain := ["EnumColumn", "MafCustomColumnRecord"],
  stringChain := ["EnumColumn", "MafColumnRecord"],
  enumCls := some "ImpactEnum",
  minV := none,
  maxV := none,
  elem := none }

def MC3Overlap : ColSpec := {
  cls := "",
  mro := [],
  buildMethod := some "MafCustomColumnRecord",
  validateMethod := some "MafCustomColumnRecord",
  nullDict := none,
  buildChain := ["EnumColumn", "MafCustomColumnRecord"],
  validateChain := ["EnumColumn", "MafCustomColumnRecord"],
  stringChain := ["EnumColumn", "MafColumnRecord"],
  enumCls := some "MC3OverlapEnum",
  minV := none,
  maxV := none,
  elem := none }

def GdcValidationStatus : ColSpec := {
  cls := "",
  mro := [],
  buildMethod := some "MafCustomColumnRecord",
  validateMethod := some "MafCustomColumnRecord",
  nullDict := none,
  buildChain := ["EnumColumn", "MafCustomColumnRecord"],
  validateChain := ["EnumColumn", "MafCustomColumnRecord"],
  stringChain := ["EnumColumn", "MafColumnRecord"],
  enumCls := some "GdcValidationStatusEnum",
  minV := none,
  maxV := none,
  elem := none }

def VerificationStatus : ColSpec := {
  cls := "",
  mro := [],
  buildMethod := some "MafCustomColumnRecord",
  validateMethod := some "MafCustomColumnRecord",
  nullDict := some [("", Model.NullVal.none)],
  buildChain := ["EnumColumn", "MafCustomColumnRecord"],
  validateChain := ["EnumColumn", "MafCustomColumnRecord"],
  stringChain := ["EnumColumn", "MafColumnRecord"],
  enumCls := some "VerificationStatusEnum",
  minV := none,
  maxV := none,
  elem := none }

def ValidationStatus : ColSpec := {
  cls := "",
  mro := [],
  buildMethod := some "MafCustomColumnRecord",
  validateMethod := some "MafCustomColumnRecord",
  nullDict := some [("", Model.NullVal.none)],
  buildChain := ["EnumColumn", "MafCustomColumnRecord"],
  validateChain := ["EnumColumn", "MafCustomColumnRecord"],
  stringChain := ["EnumColumn", "MafColumnRecord"],
  enumCls := some "ValidationStatusEnum",
  minV := none,
  maxV := none,
  elem := none }

def FeatureType : ColSpec := {
  cls := "",
  mro := [],
  buildMethod := some "MafCustomColumnRecord",
  validateMethod := some "MafCustomColumnRecord",
  nullDict := some [("", Model.NullVal.none)],
  buildChain := ["EnumColumn", "MafCustomColumnRecord"],
  validateChain := ["EnumColumn", "MafCustomColumnRecord"],
  stringChain := ["EnumColumn", "MafColumnRecord"],
  enumCls := some "FeatureTypeEnum",
  minV := none,
  maxV := none,
  elem := none }

def NullableYesOrNo : ColSpec := {
  cls := "",
  mro := [],
  buildMethod := some "MafCustomColumnRecord",
  validateMethod := some "MafCustomColumnRecord",
  nullDict := some [("Null", Model.NullVal.enumMember "NullableYesOrNoEnum" "Null"),
               ("", Model.NullVal.enumMember "NullableYesOrNoEnum" "Null")],
  buildChain := ["NullableYesOrNo", "EnumColumn", "MafCustomColumnRecord"],
  validateChain := ["EnumColumn", "MafCustomColumnRecord"],
  stringChain := ["EnumColumn", "MafColumnRecord"],
  enumCls := some "NullableYesOrNoEnum",
  minV := none,
  maxV := none,
  elem := none }

def NullableYOrN : ColSpec := {
  cls := "",
  mro := [],
  buildMethod := some "MafCustomColumnRecord",
  validateMethod := some "MafCustomColumnRecord",
  nullDict := some [("Null", Model.NullVal.enumMember "NullableYOrNEnum" "Null"),
               ("", Model.NullVal.enumMember "NullableYOrNEnum" "Null")],
  buildChain := ["NullableYOrN", "EnumColumn", "MafCustomColumnRecord"],
  validateChain := ["EnumColumn", "MafCustomColumnRecord"],
  stringChain := ["EnumColumn", "MafColumnRecord"],
  enumCls := some "NullableYOrNEnum",
  minV := none,
  maxV := none,
  elem := none }

def PickColumn : ColSpec := {
  cls := "",
  mro := [],
  buildMethod := some "MafCustomColumnRecord",
  validateMethod := some "MafCustomColumnRecord",
  nullDict := some [("Null", Model.NullVal.enumMember "PickEnum" "Null"),
               ("", Model.NullVal.enumMember "PickEnum" "Null")],
  buildChain := ["PickColumn", "EnumColumn", "MafCustomColumnRecord"],
  validateChain := ["EnumColumn", "MafCustomColumnRecord"],
  stringChain := ["EnumColumn", "MafColumnRecord"],
  enumCls := some "PickEnum",
  minV := none,
  maxV := none,
  elem := none }

/-- named column type ↦ expected resolved class record -/
def named : List (String × ColSpec) := [
  ("NullableStringColumn", NullableStringColumn),
  ("StringColumn", StringColumn),
  ("StringOrIntegerColumn", StringOrIntegerColumn),
  ("StringIntegerOrFloatColumn", StringIntegerOrFloatColumn),
  ("IntegerColumn", IntegerColumn),
  ("NullableIntegerColumn", NullableIntegerColumn),
  ("ZeroBasedIntegerColumn", ZeroBasedIntegerColumn),
  ("OneBasedIntegerColumn", OneBasedIntegerColumn),
  ("NullableZeroBasedIntegerColumn", NullableZeroBasedIntegerColumn),
  ("NullableOneBasedIntegerColumn", NullableOneBasedIntegerColumn),
  ("EntrezGeneId", EntrezGeneId),
  ("FloatColumn", FloatColumn),
  ("NullableFloatColumn", NullableFloatColumn),
  ("SequenceOfStrings", SequenceOfStrings),
  ("SequenceOfIntegers", SequenceOfIntegers),
  ("SequenceOfNullableYesOrNo", SequenceOfNullableYesOrNo),
  ("SequenceOfSequencers", SequenceOfSequencers),
  ("NullableDnaString", NullableDnaString),
  ("DnaString", DnaString),
  ("Canonical", Canonical),
  ("BooleanColumn", BooleanColumn),
  ("UUIDColumn", UUIDColumn),
  ("NullableUUIDColumn", NullableUUIDColumn),
  ("TranscriptStrand", TranscriptStrand),
  ("YesNoOrUnknown", YesNoOrUnknown),
  ("Strand", Strand),
  ("VariantClassification", VariantClassification),
  ("VariantType", VariantType),
  ("VariantSupport", VariantSupport),
  ("MutationStatus", MutationStatus),
  ("Sequencer", Sequencer),
  ("Impact", Impact),
  ("MC3Overlap", MC3Overlap),
  ("GdcValidationStatus", GdcValidationStatus),
  ("VerificationStatus", VerificationStatus),
  ("ValidationStatus", ValidationStatus),
  ("FeatureType", FeatureType),
  ("NullableYesOrNo", NullableYesOrNo),
  ("NullableYOrN", NullableYOrN),
  ("PickColumn", PickColumn)]

def namedSpec (n : String) : Option ColSpec := (List.find? (fun p => p.1 == n) named).map (·.2)

end Expected
