/-
  Lemmas about the allele-aware overlap iterator (`MafModel/Model/Overlap.lean`, second half):
  `AlleleRel.test`, `shouldAdd`, `partitionFirst`, `alleleGroups`, `alleleAll`.

  * `place` : one step of `partitionFirst` (where the next record of the first input goes);
    `partitionFirst_eq_foldl`, `partitionFirst_append`, `partitionFirst_snoc`: the partition of a
    prefix followed by one more record — the inductive characterisation;
  * `place_cases` : the record joins the FIRST subgroup it passes the test against (it failed
    against all earlier ones), else opens a new one at the end;
  * invariants of `partitionFirst xs acc` for any accumulator: permutation, non-emptiness,
    sublists, `Chained` (every later member passed the test against the earlier members of its
    subgroup), existing subgroups only grow at the end (`partitionFirst_getElem?_prefix`), and
    every subgroup opened during the run was opened by a record that failed against every subgroup
    present at that moment (`partitionFirst_opens`);
  * `partitionFirst_map` : the partition commutes with relabelling (used to tag occurrences).
-/
import MafModel.Model.Overlap

open Py

namespace Model

variable {κ : Type}

/-! ### generic list facts -/

theorem findIdx?_eq_some_split {α : Type} {p : α → Bool} {l : List α} {i : Nat}
    (h : l.findIdx? p = some i) :
    ∃ l₁ b l₂, l = l₁ ++ b :: l₂ ∧ l₁.length = i ∧ p b = true ∧ ∀ a ∈ l₁, p a = false := by
  induction l generalizing i with
  | nil => simp at h
  | cons a l ih =>
    rw [List.findIdx?_cons] at h
    by_cases hp : p a = true
    · rw [if_pos hp] at h
      cases h
      exact ⟨[], a, l, rfl, rfl, hp, by simp⟩
    · rw [if_neg hp] at h
      cases hf : l.findIdx? p with
      | none => rw [hf] at h; simp at h
      | some j =>
        rw [hf] at h
        simp only [Option.map_some, Option.some.injEq] at h
        obtain ⟨l₁, b, l₂, rfl, hlen, hb, hl₁⟩ := ih hf
        refine ⟨a :: l₁, b, l₂, rfl, by simp [hlen, h], hb, ?_⟩
        intro c hc
        rcases List.mem_cons.1 hc with rfl | hc
        · simpa using hp
        · exact hl₁ c hc

theorem modify_length_append' {α : Type} (f : α → α) (l₁ : List α) (b : α) (l₂ : List α) :
    (l₁ ++ b :: l₂).modify l₁.length f = l₁ ++ f b :: l₂ := by
  induction l₁ with
  | nil => simp [List.modify_zero_cons]
  | cons a l₁ ih => simp [List.modify_succ_cons, ih]

theorem modify_map {α β : Type} (f : α → β) (g : α → α) (g' : β → β)
    (hg : ∀ a, f (g a) = g' (f a)) (l : List α) (i : Nat) :
    (l.map f).modify i g' = (l.modify i g).map f := by
  induction l generalizing i with
  | nil => simp
  | cons a l ih =>
    cases i with
    | zero => simp [List.modify_zero_cons, hg]
    | succ i => simp [List.modify_succ_cons, ih]

/-! ### the allele relation and `shouldAdd` -/

theorem AlleleRel.test_equality (base other : List Text) :
    AlleleRel.test .equality base other = true ↔ base = other := by
  simp [AlleleRel.test]

theorem AlleleRel.test_intersects (base other : List Text) :
    AlleleRel.test .intersects base other = true ↔
      (∃ a, a ∈ base ∧ a ∈ other) ∨ base = other := by
  simp only [AlleleRel.test, Bool.or_eq_true, List.any_eq_true, List.contains_iff_mem,
    beq_iff_eq]
  constructor
  · rintro (⟨a, h1, h2⟩ | h)
    · exact .inl ⟨a, h2, h1⟩
    · exact .inr h
  · rintro (⟨a, h1, h2⟩ | h)
    · exact .inl ⟨a, h2, h1⟩
    · exact .inr h

theorem AlleleRel.test_subset (base other : List Text) :
    AlleleRel.test .subset base other = true ↔ ∀ a ∈ other, a ∈ base := by
  simp [AlleleRel.test]

variable (al : AlOps κ) (rel : AlleleRel)

/-- `shouldAdd items other`: some member of `items` has the same reference allele as `other` and
    alternate alleles related to those of `other` -/
theorem shouldAdd_iff (items : List κ) (other : κ) :
    shouldAdd al rel items other = true ↔
      ∃ it ∈ items, al.ref it = al.ref other ∧ rel.test (al.alts it) (al.alts other) = true := by
  simp [shouldAdd]

theorem shouldAdd_nil (other : κ) : shouldAdd al rel [] other = false := rfl

theorem shouldAdd_append (s t : List κ) (y : κ) :
    shouldAdd al rel (s ++ t) y = (shouldAdd al rel s y || shouldAdd al rel t y) := by
  simp [shouldAdd]

/-- the test is monotone in the group: a larger group accepts at least as much -/
theorem shouldAdd_of_prefix {s t : List κ} (h : s <+: t) {y : κ}
    (hy : shouldAdd al rel s y = true) : shouldAdd al rel t y = true := by
  obtain ⟨e, rfl⟩ := h
  rw [shouldAdd_append, hy]; rfl

/-! ### one step of `partitionFirst` -/

/-- where the next record of the first input goes: into the first subgroup that accepts it,
    else into a new subgroup at the end -/
def place (acc : List (List κ)) (x : κ) : List (List κ) :=
  match acc.findIdx? (fun g => shouldAdd al rel g x) with
  | some i => acc.modify i (· ++ [x])
  | none => acc ++ [[x]]

theorem partitionFirst_nil (acc : List (List κ)) : partitionFirst al rel [] acc = acc := by
  simp [partitionFirst]

theorem partitionFirst_cons (x : κ) (xs : List κ) (acc : List (List κ)) :
    partitionFirst al rel (x :: xs) acc = partitionFirst al rel xs (place al rel acc x) := by
  rw [partitionFirst, place]
  cases acc.findIdx? (fun g => shouldAdd al rel g x) <;> rfl

/-- `partitionFirst` is the left fold of `place` -/
theorem partitionFirst_eq_foldl (xs : List κ) (acc : List (List κ)) :
    partitionFirst al rel xs acc = xs.foldl (place al rel) acc := by
  induction xs generalizing acc with
  | nil => exact partitionFirst_nil al rel acc
  | cons x xs ih => rw [partitionFirst_cons, ih, List.foldl_cons]

theorem partitionFirst_append (xs ys : List κ) (acc : List (List κ)) :
    partitionFirst al rel (xs ++ ys) acc
      = partitionFirst al rel ys (partitionFirst al rel xs acc) := by
  simp only [partitionFirst_eq_foldl, List.foldl_append]

/-- inductive characterisation: the partition of a prefix extended by one more record -/
theorem partitionFirst_snoc (xs : List κ) (x : κ) (acc : List (List κ)) :
    partitionFirst al rel (xs ++ [x]) acc = place al rel (partitionFirst al rel xs acc) x := by
  rw [partitionFirst_append, partitionFirst_cons, partitionFirst_nil]

/-- the two cases of `place`, in split form -/
theorem place_cases (acc : List (List κ)) (x : κ) :
    (∃ l₁ b l₂, acc = l₁ ++ b :: l₂ ∧ (∀ a ∈ l₁, shouldAdd al rel a x = false) ∧
        shouldAdd al rel b x = true ∧ place al rel acc x = l₁ ++ (b ++ [x]) :: l₂) ∨
    ((∀ a ∈ acc, shouldAdd al rel a x = false) ∧ place al rel acc x = acc ++ [[x]]) := by
  unfold place
  cases h : acc.findIdx? (fun g => shouldAdd al rel g x) with
  | none => exact .inr ⟨List.findIdx?_eq_none_iff.1 h, rfl⟩
  | some i =>
    obtain ⟨l₁, b, l₂, rfl, hlen, hb, hl₁⟩ := findIdx?_eq_some_split h
    refine .inl ⟨l₁, b, l₂, rfl, hl₁, hb, ?_⟩
    subst hlen
    exact modify_length_append' _ l₁ b l₂

theorem length_place (acc : List (List κ)) (x : κ) :
    (place al rel acc x).length = acc.length ∨
    ((∀ a ∈ acc, shouldAdd al rel a x = false) ∧ place al rel acc x = acc ++ [[x]]) := by
  rcases place_cases al rel acc x with ⟨l₁, b, l₂, rfl, -, -, h⟩ | h
  · left; rw [h]; simp
  · exact .inr h

theorem length_le_place (acc : List (List κ)) (x : κ) :
    acc.length ≤ (place al rel acc x).length := by
  rcases length_place al rel acc x with h | ⟨-, h⟩
  · omega
  · rw [h]; simp

/-- existing subgroups only grow at the end -/
theorem place_getElem?_prefix (acc : List (List κ)) (x : κ) {k : Nat} {s : List κ}
    (h : acc[k]? = some s) : ∃ s', (place al rel acc x)[k]? = some s' ∧ s <+: s' := by
  unfold place
  cases acc.findIdx? (fun g => shouldAdd al rel g x) with
  | none =>
    refine ⟨s, ?_, List.prefix_refl s⟩
    have hk : k < acc.length := (List.getElem?_eq_some_iff.1 h).1
    rw [List.getElem?_append_left hk, h]
  | some i =>
    simp only [List.getElem?_modify, h]
    by_cases hik : i = k
    · exact ⟨s ++ [x], by simp [hik], List.prefix_append s [x]⟩
    · exact ⟨s, by simp [hik], List.prefix_refl s⟩

/-! ### invariants of `partitionFirst` -/

theorem place_flatten_perm (acc : List (List κ)) (x : κ) :
    (place al rel acc x).flatten.Perm (acc.flatten ++ [x]) := by
  rcases place_cases al rel acc x with ⟨l₁, b, l₂, rfl, -, -, h⟩ | ⟨-, h⟩
  · rw [h]
    simp only [List.flatten_append, List.flatten_cons, List.append_assoc]
    refine List.Perm.append_left _ (List.Perm.append_left _ ?_)
    exact List.perm_append_comm
  · rw [h]; simp

/-- nothing is lost or duplicated -/
theorem partitionFirst_flatten_perm (xs : List κ) (acc : List (List κ)) :
    (partitionFirst al rel xs acc).flatten.Perm (acc.flatten ++ xs) := by
  induction xs generalizing acc with
  | nil => simp [partitionFirst_nil]
  | cons x xs ih =>
    rw [partitionFirst_cons]
    refine (ih _).trans ?_
    have := (place_flatten_perm al rel acc x).append_right xs
    simpa using this

theorem place_ne_nil {acc : List (List κ)} (x : κ) (h : ∀ s ∈ acc, s ≠ []) :
    ∀ s ∈ place al rel acc x, s ≠ [] := by
  rcases place_cases al rel acc x with ⟨l₁, b, l₂, rfl, -, -, hp⟩ | ⟨-, hp⟩
  · rw [hp]
    intro s hs
    simp only [List.mem_append, List.mem_cons] at hs
    rcases hs with hs | rfl | hs
    · exact h s (by simp [hs])
    · simp
    · exact h s (by simp [hs])
  · rw [hp]
    intro s hs
    simp only [List.mem_append, List.mem_singleton] at hs
    rcases hs with hs | rfl
    · exact h s hs
    · simp

theorem partitionFirst_ne_nil (xs : List κ) {acc : List (List κ)} (h : ∀ s ∈ acc, s ≠ []) :
    ∀ s ∈ partitionFirst al rel xs acc, s ≠ [] := by
  induction xs generalizing acc with
  | nil => rw [partitionFirst_nil]; exact h
  | cons x xs ih => rw [partitionFirst_cons]; exact ih (place_ne_nil al rel x h)

/-- every subgroup is an old subgroup (or nothing) followed by a sublist of the processed records -/
theorem partitionFirst_sublist (xs : List κ) (acc : List (List κ)) :
    ∀ s ∈ partitionFirst al rel xs acc,
      ∃ a e, s = a ++ e ∧ (a ∈ acc ∨ a = []) ∧ e.Sublist xs := by
  induction xs generalizing acc with
  | nil =>
    rw [partitionFirst_nil]
    exact fun s hs => ⟨s, [], by simp, .inl hs, List.Sublist.refl _⟩
  | cons x xs ih =>
    rw [partitionFirst_cons]
    intro s hs
    obtain ⟨a, e, rfl, ha, he⟩ := ih _ s hs
    rcases ha with ha | rfl
    · rcases place_cases al rel acc x with ⟨l₁, b, l₂, rfl, -, -, hp⟩ | ⟨-, hp⟩
      · rw [hp] at ha
        simp only [List.mem_append, List.mem_cons] at ha
        rcases ha with ha | rfl | ha
        · exact ⟨a, e, rfl, .inl (by simp [ha]), he.cons x⟩
        · exact ⟨b, x :: e, by simp, .inl (by simp), he.cons_cons x⟩
        · exact ⟨a, e, rfl, .inl (by simp [ha]), he.cons x⟩
      · rw [hp] at ha
        simp only [List.mem_append, List.mem_singleton] at ha
        rcases ha with ha | rfl
        · exact ⟨a, e, rfl, .inl ha, he.cons x⟩
        · exact ⟨[], x :: e, by simp, .inr rfl, he.cons_cons x⟩
    · exact ⟨[], e, rfl, .inr rfl, he.cons x⟩

/-- every later member passed the test against the earlier members of its subgroup -/
def Chained (s : List κ) : Prop :=
  ∀ i (h : i < s.length), 0 < i → shouldAdd al rel (s.take i) s[i] = true

theorem chained_nil : Chained al rel ([] : List κ) := fun i h => by simp at h

theorem chained_singleton (x : κ) : Chained al rel [x] := by
  intro i h hi
  simp at h
  omega

theorem chained_snoc {s : List κ} {x : κ} (hs : Chained al rel s)
    (hx : shouldAdd al rel s x = true) : Chained al rel (s ++ [x]) := by
  intro i h hi
  simp only [List.length_append, List.length_singleton] at h
  by_cases hlt : i < s.length
  · rw [List.take_append_of_le_length (by omega), List.getElem_append_left hlt]
    exact hs i hlt hi
  · have : i = s.length := by omega
    subst this
    simp [hx]

theorem place_chained {acc : List (List κ)} (x : κ) (h : ∀ s ∈ acc, Chained al rel s) :
    ∀ s ∈ place al rel acc x, Chained al rel s := by
  rcases place_cases al rel acc x with ⟨l₁, b, l₂, rfl, -, hb, hp⟩ | ⟨-, hp⟩
  · rw [hp]
    intro s hs
    simp only [List.mem_append, List.mem_cons] at hs
    rcases hs with hs | rfl | hs
    · exact h s (by simp [hs])
    · exact chained_snoc al rel (h b (by simp)) hb
    · exact h s (by simp [hs])
  · rw [hp]
    intro s hs
    simp only [List.mem_append, List.mem_singleton] at hs
    rcases hs with hs | rfl
    · exact h s hs
    · exact chained_singleton al rel x

theorem partitionFirst_chained (xs : List κ) {acc : List (List κ)}
    (h : ∀ s ∈ acc, Chained al rel s) : ∀ s ∈ partitionFirst al rel xs acc, Chained al rel s := by
  induction xs generalizing acc with
  | nil => rw [partitionFirst_nil]; exact h
  | cons x xs ih => rw [partitionFirst_cons]; exact ih (place_chained al rel x h)

theorem length_le_partitionFirst (xs : List κ) (acc : List (List κ)) :
    acc.length ≤ (partitionFirst al rel xs acc).length := by
  induction xs generalizing acc with
  | nil => rw [partitionFirst_nil]; exact Nat.le_refl _
  | cons x xs ih =>
    rw [partitionFirst_cons]
    exact Nat.le_trans (length_le_place al rel acc x) (ih _)

/-- existing subgroups only grow at the end, and keep their position -/
theorem partitionFirst_getElem?_prefix (xs : List κ) (acc : List (List κ)) {k : Nat} {s : List κ}
    (h : acc[k]? = some s) :
    ∃ s', (partitionFirst al rel xs acc)[k]? = some s' ∧ s <+: s' := by
  induction xs generalizing acc s with
  | nil => rw [partitionFirst_nil]; exact ⟨s, h, List.prefix_refl s⟩
  | cons x xs ih =>
    rw [partitionFirst_cons]
    obtain ⟨s₁, h₁, p₁⟩ := place_getElem?_prefix al rel acc x h
    obtain ⟨s₂, h₂, p₂⟩ := ih _ h₁
    exact ⟨s₂, h₂, p₁.trans p₂⟩

/-- every subgroup opened during the run (position `j ≥ acc.length`) was opened by a record `x`
    that, when it arrived (after the records `pre`), found exactly `j` subgroups and failed the
    test against every one of them -/
theorem partitionFirst_opens (xs : List κ) (acc : List (List κ)) {j : Nat} {s : List κ}
    (hj : acc.length ≤ j) (h : (partitionFirst al rel xs acc)[j]? = some s) :
    ∃ pre x post, xs = pre ++ x :: post ∧ s.head? = some x ∧
      (partitionFirst al rel pre acc).length = j ∧
      ∀ t ∈ partitionFirst al rel pre acc, shouldAdd al rel t x = false := by
  induction xs generalizing acc with
  | nil =>
    rw [partitionFirst_nil] at h
    have := (List.getElem?_eq_some_iff.1 h).1
    omega
  | cons x xs ih =>
    rw [partitionFirst_cons] at h
    by_cases hj' : (place al rel acc x).length ≤ j
    · obtain ⟨pre, x', post, rfl, hh, hl, hf⟩ := ih _ hj' h
      exact ⟨x :: pre, x', post, rfl, hh, by rw [partitionFirst_cons]; exact hl,
        by rw [partitionFirst_cons]; exact hf⟩
    · rcases length_place al rel acc x with hl | ⟨hf, hp⟩
      · omega
      · have hjeq : j = acc.length := by
          rw [hp] at hj'; simp at hj'; omega
        subst hjeq
        have h0 : (place al rel acc x)[acc.length]? = some [x] := by
          rw [hp]; simp
        obtain ⟨s', hs', hpre⟩ := partitionFirst_getElem?_prefix al rel xs _ h0
        rw [h] at hs'
        cases hs'
        obtain ⟨e, rfl⟩ := hpre
        exact ⟨[], x, xs, rfl, rfl, by rw [partitionFirst_nil], by rw [partitionFirst_nil]; exact hf⟩

/-! ### relabelling -/

/-- read the alleles through a relabelling `f` -/
def AlOps.comap {κ' : Type} (al : AlOps κ) (f : κ' → κ) : AlOps κ' where
  ref k := al.ref (f k)
  alts k := al.alts (f k)

theorem shouldAdd_map {κ' : Type} (f : κ' → κ) (s : List κ') (y : κ') :
    shouldAdd al rel (s.map f) (f y) = shouldAdd (al.comap f) rel s y := by
  simp [shouldAdd, AlOps.comap, List.any_map, Function.comp_def]

theorem place_map {κ' : Type} (f : κ' → κ) (acc : List (List κ')) (x : κ') :
    place al rel (acc.map (List.map f)) (f x) = (place (al.comap f) rel acc x).map (List.map f) := by
  unfold place
  rw [List.findIdx?_map]
  have : ((fun g => shouldAdd al rel g (f x)) ∘ List.map f)
      = (fun g => shouldAdd (al.comap f) rel g x) := by
    funext g; exact shouldAdd_map al rel f g x
  rw [this]
  cases acc.findIdx? (fun g => shouldAdd (al.comap f) rel g x) with
  | none => simp
  | some i =>
    exact modify_map (List.map f) (· ++ [x]) (· ++ [f x]) (by simp) acc i

/-- the partition commutes with relabelling of the records -/
theorem partitionFirst_map {κ' : Type} (f : κ' → κ) (xs : List κ') (acc : List (List κ')) :
    partitionFirst al rel (xs.map f) (acc.map (List.map f))
      = (partitionFirst (al.comap f) rel xs acc).map (List.map f) := by
  induction xs generalizing acc with
  | nil => simp [partitionFirst_nil]
  | cons x xs ih =>
    rw [List.map_cons, partitionFirst_cons, partitionFirst_cons, place_map, ih]

end Model
