/-
  Glue between the interpreted method bodies (`PyIR`, `Generated/Bodies`) and the hand-written model: the embedding of
  the model's value universe into PyIR values, the column object a hook is called on, and the proof tactics that
  evaluate a run by kernel reduction and split on its decision tree.
-/
import MafModel.PyIR.Interp
import MafModel.Generated.Bodies
import MafModel.Generated.Enums
import MafModel.Generated.ClassTable
import MafModel.Model.ColumnTypes
open Py PyIR

namespace Bodies

def embAtom : Atom → Val
  | .none => .none
  | .bool b => .bool b
  | .int i => .int i
  | .float t => .float t
  | .str s => .str s
  | .enum c m => .enum c m
  | .uuid n => .uuid n
  | .other t => .other t

def emb : PyVal → Val
  | .atom a => embAtom a
  | .list xs => .list (xs.map embAtom)
  | .tuple xs => .tuple (xs.map embAtom)

/-- the host of a run: CPython's `float` is a parameter, the enum vocabularies are the regenerated ones -/
def host (fp : Text → Option Text) : Host := { floatParse := fp, enums := Generated.enums }

/-- a column object of class `K` holding `v` -/
def colObj (K : String) (v : Val) : Val := .obj K [("key", .str []), ("value", v), ("column_index", .none)]

/-- where `K.__validate__` resolves to -/
def validateDefiner (K : String) : Option String := (resolveMethod Generated.Bodies.program K "__validate__").map (·.1)

/-- interpret the translated `__validate__` the class `K` inherits, on an instance of `K` holding `v`:
    `true` = a message was returned (the value is invalid) -/
def hookInvalid (fp : Text → Option Text) (K : String) (v : Val) : Except PyErr Bool :=
  match validateDefiner K with
  | some D => (run Generated.Bodies.program (host fp) D "__validate__" [colObj K v]).map (fun r => !r.1.isNone)
  | none => .error .attribute

/-- the hand model's verdict for class `K`, through the regenerated class table and the model's own MRO / hook chains -/
def modelInvalid (K : String) (v : PyVal) : Except PyErr Bool :=
  match Model.resolveSpec Generated.classTable K with
  | some sp => .ok (Model.runValidate sp.enumCls sp.minV sp.maxV sp.elemInvalid sp.validateChain v)
  | none => .error .attribute

/-- interpret the translated `__build__` of `K` on a text -/
def hookBuild (fp : Text → Option Text) (K : String) (t : Text) : Except PyErr Val :=
  match (resolveMethod Generated.Bodies.program K "__build__").map (·.1) with
  | some D => (run Generated.Bodies.program (host fp) D "__build__" [.cls K, .str t]).map (·.1)
  | none => .error .attribute

end Bodies

/-- evaluate the tree argument of a `Tree.Forall` goal to its head constructor -/
macro "tree_expose" : tactic => `(tactic| conv => arg 3; whnf)
/-- the head is a query: two goals, each with the answer as hypothesis -/
macro "tree_split" h:ident : tactic => `(tactic| (tree_expose; refine ⟨fun $h => ?_, fun $h => ?_⟩))
/-- the head is a leaf -/
macro "tree_leaf" : tactic => `(tactic| (tree_expose; show _ = _))

/-- payload-independent hooks: every constructor of the value universe evaluates by kernel reduction on both sides -/
macro "hook_rfl" : tactic => `(tactic| (intro v; cases v with
  | atom a => cases a <;> rfl
  | list xs => rfl
  | tuple xs => rfl))

/-- everything but an integer payload evaluates by kernel reduction; the integer case is the lemma given -/
macro "hook_int" l:term : tactic => `(tactic| (intro v; cases v with
  | atom a => cases a with
    | int i => exact $l i
    | _ => rfl
  | list xs => rfl
  | tuple xs => rfl))

macro "hook_enum" l:term : tactic => `(tactic| (intro v; cases v with
  | atom a => cases a with
    | enum c m => exact $l c m
    | _ => rfl
  | list xs => rfl
  | tuple xs => rfl))

namespace Bodies

/-- the hand model's `cls.__build__(text)` for class `K`, over the regenerated class table -/
def modelBuild (fp : Text → Option Text) (K : String) (t : Text) : Except PyErr Val :=
  match Model.resolveSpec Generated.classTable K with
  | some sp => (Model.runBuild { tbl := Generated.classTable, enums := Generated.enums, H := { parse := fp } } sp t).map emb
  | none => .error .attribute

end Bodies
