/-
  UUID round trip: `uuid.UUID(str(uuid.UUID(int=n))).int == n` for every 128-bit `n`,
  the alphabet of a rendered UUID, and the range of a parsed one.
  (Supports properties C04, C02, C13.)
-/
import MafModel.Py.Uuid
namespace Py

/-! ### Lower-case hex digits -/

/-- `c` is one of `0-9a-f`. -/
def IsLowerHex (c : Char) : Prop := c.isDigit = true ∨ ('a' ≤ c ∧ c ≤ 'f')

theorem hexVal_digitChar : ∀ d, d < 16 → hexVal (Nat.digitChar d) = some d := by decide

theorem isLowerHex_digitChar : ∀ d, d < 16 → IsLowerHex (Nat.digitChar d) := by
  unfold IsLowerHex; decide

theorem isDigit_iff_toNat (c : Char) : c.isDigit = true ↔ 48 ≤ c.toNat ∧ c.toNat ≤ 57 := by
  simp only [Char.isDigit, Bool.and_eq_true, decide_eq_true_eq]
  exact Iff.rfl

theorem isLowerHex_iff_toNat (c : Char) :
    IsLowerHex c ↔ (48 ≤ c.toNat ∧ c.toNat ≤ 57) ∨ (97 ≤ c.toNat ∧ c.toNat ≤ 102) := by
  unfold IsLowerHex
  rw [isDigit_iff_toNat, Char.le_def, Char.le_def]
  exact Iff.rfl

/-! ### `Nat.toDigits 16` -/

theorem toDigits16_isLowerHex (n : Nat) : ∀ c ∈ Nat.toDigits 16 n, IsLowerHex c := by
  induction n using Nat.strongRecOn with
  | _ n ih =>
    rw [Nat.toDigits_eq_if (by decide)]
    split
    · rename_i h
      intro c hc
      simp only [List.mem_singleton] at hc
      subst hc
      exact isLowerHex_digitChar n h
    · rename_i h
      intro c hc
      simp only [List.mem_append, List.mem_singleton] at hc
      rcases hc with hc | rfl
      · exact ih (n / 16) (by omega) c hc
      · exact isLowerHex_digitChar _ (Nat.mod_lt _ (by decide))

theorem parseHex_append (l m : Text) (acc : Nat) :
    parseHex (l ++ m) acc = (parseHex l acc).bind (parseHex m) := by
  induction l generalizing acc with
  | nil => simp [parseHex]
  | cons c cs ih =>
    simp only [List.cons_append, parseHex]
    cases hexVal c with
    | none => simp
    | some d => simp [ih]

theorem parseHex_toDigits16 (n : Nat) : parseHex (Nat.toDigits 16 n) 0 = some n := by
  induction n using Nat.strongRecOn with
  | _ n ih =>
    rw [Nat.toDigits_eq_if (by decide)]
    split
    · rename_i h
      simp [parseHex, hexVal_digitChar n h]
    · rename_i h
      rw [parseHex_append, ih (n / 16) (by omega)]
      simp only [Option.bind_some, parseHex, hexVal_digitChar _ (Nat.mod_lt n (by decide : 0 < 16))]
      congr 1
      omega

theorem parseHex_replicate_zero (k : Nat) (l : Text) :
    parseHex (List.replicate k '0' ++ l) 0 = parseHex l 0 := by
  induction k with
  | zero => simp
  | succ k ih =>
    have h0 : hexVal '0' = some 0 := by decide
    simp only [List.replicate_succ, List.cons_append, parseHex, h0]
    exact ih

/-! ### `hex32` -/

theorem hex32_isLowerHex (n : Nat) : ∀ c ∈ hex32 n, IsLowerHex c := by
  intro c hc
  simp only [hex32, List.mem_append, List.mem_replicate] at hc
  rcases hc with ⟨_, rfl⟩ | hc
  · exact .inl (by decide)
  · exact toDigits16_isLowerHex n c hc

theorem hex32_length (n : Nat) (h : n < 2 ^ 128) : (hex32 n).length = 32 := by
  have h16 : n < 16 ^ 32 := by
    have : (16 : Nat) ^ 32 = 2 ^ 128 := by decide
    omega
  have := (Nat.length_toDigits_le_iff (b := 16) (n := n) (k := 32) (by decide) (by decide)).mpr h16
  simp only [hex32, List.length_append, List.length_replicate]
  omega

theorem parseHex_hex32 (n : Nat) : parseHex (hex32 n) 0 = some n := by
  simp only [hex32]
  rw [parseHex_replicate_zero, parseHex_toDigits16]

/-! ### `removeAll`, `stripBraces` on texts without the trigger characters -/

theorem removeAll_of_not_mem (p : Char) (ps s : Text) (h : p ∉ s) : removeAll p ps s = s := by
  induction s with
  | nil => simp [removeAll]
  | cons c cs ih =>
    have hc : p ≠ c := by intro e; apply h; simp [e]
    have hcs : p ∉ cs := by intro e; apply h; simp [e]
    rw [removeAll]
    simp [List.isPrefixOf, hc, ih hcs]

theorem dropWhile_of_all_not (p : Char → Bool) (s : Text) (h : ∀ c ∈ s, p c = false) :
    s.dropWhile p = s := by
  cases s with
  | nil => rfl
  | cons c cs => simp [h c (by simp)]

theorem stripBraces_of_all_not (s : Text) (h : ∀ c ∈ s, isBrace c = false) :
    stripBraces s = s := by
  unfold stripBraces
  rw [dropWhile_of_all_not _ _ h, rstripChars_of_all_not _ _ h]

/-! ### `uuidStr` -/

/-- The five hyphen-free groups of `uuidStr n` concatenate to `hex32 n`. -/
theorem uuid_groups_join (h : Text) :
    h.take 8 ++ ((h.drop 8).take 4 ++ ((h.drop 12).take 4 ++ ((h.drop 16).take 4 ++ h.drop 20))) = h := by
  have e1 : h.drop 20 = (h.drop 16).drop 4 := by rw [List.drop_drop]
  have e2 : h.drop 16 = (h.drop 12).drop 4 := by rw [List.drop_drop]
  have e3 : h.drop 12 = (h.drop 8).drop 4 := by rw [List.drop_drop]
  rw [e1, List.take_append_drop, e2, List.take_append_drop, e3, List.take_append_drop,
    List.take_append_drop]

theorem mem_uuidStr {n : Nat} {c : Char} (hc : c ∈ uuidStr n) : c ∈ hex32 n ∨ c = '-' := by
  simp only [uuidStr, List.mem_append, List.mem_cons] at hc
  rcases hc with (((hc | rfl | hc) | rfl | hc) | rfl | hc) | rfl | hc
  all_goals first
    | exact .inr rfl
    | exact .inl (List.mem_of_mem_take hc)
    | exact .inl (List.mem_of_mem_drop (List.mem_of_mem_take hc))
    | exact .inl (List.mem_of_mem_drop hc)

/-- A rendered UUID consists of lower-case hex digits and hyphens only. -/
theorem uuidStr_chars (n : Nat) :
    ∀ c ∈ uuidStr n, c.isDigit = true ∨ ('a' ≤ c ∧ c ≤ 'f') ∨ c = '-' := by
  intro c hc
  rcases mem_uuidStr hc with hc | rfl
  · rcases hex32_isLowerHex n c hc with h | h
    · exact .inl h
    · exact .inr (.inl h)
  · exact .inr (.inr rfl)

theorem uuidStr_ne_nil (n : Nat) : uuidStr n ≠ [] := by
  intro h
  have : '-' ∈ uuidStr n := by simp [uuidStr]
  rw [h] at this
  exact absurd this (by simp)

theorem uuidStr_toNat (n : Nat) : ∀ c ∈ uuidStr n,
    (48 ≤ c.toNat ∧ c.toNat ≤ 57) ∨ (97 ≤ c.toNat ∧ c.toNat ≤ 102) ∨ c.toNat = 45 := by
  intro c hc
  rcases mem_uuidStr hc with hc | rfl
  · rcases (isLowerHex_iff_toNat c).mp (hex32_isLowerHex n c hc) with h | h
    · exact .inl h
    · exact .inr (.inl h)
  · exact .inr (.inr rfl)

/-- Any character whose code point is outside `0-9`, `a-f`, `-` does not occur in a rendered UUID. -/
theorem not_mem_uuidStr_of_toNat (n : Nat) (d : Char)
    (h : ¬ ((48 ≤ d.toNat ∧ d.toNat ≤ 57) ∨ (97 ≤ d.toNat ∧ d.toNat ≤ 102) ∨ d.toNat = 45)) :
    d ∉ uuidStr n := fun hd => h (uuidStr_toNat n d hd)

/-- A rendered UUID contains no TAB, CR, LF or `;` (nor any other field/record separator). -/
theorem uuidStr_no_sep (n : Nat) :
    '\t' ∉ uuidStr n ∧ '\r' ∉ uuidStr n ∧ '\n' ∉ uuidStr n ∧ ';' ∉ uuidStr n ∧ ' ' ∉ uuidStr n := by
  refine ⟨?_, ?_, ?_, ?_, ?_⟩ <;> exact not_mem_uuidStr_of_toNat n _ (by decide)

theorem uuidStr_length (n : Nat) (h : n < 2 ^ 128) : (uuidStr n).length = 36 := by
  have := hex32_length n h
  simp only [uuidStr, List.length_append, List.length_cons, List.length_take, List.length_drop]
  omega

theorem filter_hyphen_uuidStr (n : Nat) : (uuidStr n).filter (· ≠ '-') = hex32 n := by
  have hne : ∀ c ∈ hex32 n, c ≠ '-' := by
    intro c hc e
    have := (isLowerHex_iff_toNat c).mp (hex32_isLowerHex n c hc)
    subst e
    revert this; decide
  have hk : ∀ l : Text, (∀ c ∈ l, c ∈ hex32 n) → l.filter (· ≠ '-') = l := by
    intro l hl
    rw [List.filter_eq_self]
    intro c hc
    simpa using hne c (hl c hc)
  have hd : (decide ('-' ≠ '-')) = false := by decide
  simp only [uuidStr, List.filter_append, List.filter_cons, hd, Bool.false_eq_true, if_false]
  rw [hk _ (fun c hc => List.mem_of_mem_take hc),
    hk _ (fun c hc => List.mem_of_mem_drop (List.mem_of_mem_take hc)),
    hk _ (fun c hc => List.mem_of_mem_drop (List.mem_of_mem_take hc)),
    hk _ (fun c hc => List.mem_of_mem_drop (List.mem_of_mem_take hc)),
    hk _ (fun c hc => List.mem_of_mem_drop hc)]
  simp only [List.append_assoc]
  exact uuid_groups_join _

theorem uuidNormalize_uuidStr (n : Nat) : uuidNormalize (uuidStr n) = hex32 n := by
  have hu : 'u' ∉ uuidStr n := not_mem_uuidStr_of_toNat n _ (by decide)
  have hb : ∀ c ∈ uuidStr n, isBrace c = false := by
    intro c hc
    have h1 : c ≠ '{' := by
      intro e; subst e; exact not_mem_uuidStr_of_toNat n _ (by decide) hc
    have h2 : c ≠ '}' := by
      intro e; subst e; exact not_mem_uuidStr_of_toNat n _ (by decide) hc
    simp [isBrace, h1, h2]
  simp only [uuidNormalize]
  rw [removeAll_of_not_mem _ _ _ hu, removeAll_of_not_mem _ _ _ hu,
    stripBraces_of_all_not _ hb, filter_hyphen_uuidStr]

/-- `uuid.UUID(str(uuid.UUID(int=n))).int == n` for every 128-bit `n`. -/
theorem pyUuid_uuidStr (n : Nat) (h : n < 2 ^ 128) : pyUuid (uuidStr n) = some n := by
  simp only [pyUuid, uuidNormalize_uuidStr, hex32_length n h, if_true, parseHex_hex32]

/-- Non-vacuity / sanity: a concrete 128-bit value. -/
example : pyUuid (uuidStr 0x123e4567e89b12d3a456426614174000) =
    some 0x123e4567e89b12d3a456426614174000 := pyUuid_uuidStr _ (by decide)

example : uuidStr 0x123e4567e89b12d3a456426614174000 =
    "123e4567-e89b-12d3-a456-426614174000".toList := by decide

/-- `uuidStr` is injective on 128-bit values. -/
theorem uuidStr_injective (a b : Nat) (ha : a < 2 ^ 128) (hb : b < 2 ^ 128)
    (h : uuidStr a = uuidStr b) : a = b := by
  have h1 := pyUuid_uuidStr a ha
  rw [h, pyUuid_uuidStr b hb] at h1
  exact (Option.some.inj h1).symm

/-! ### Range of `pyUuid` -/

theorem hexVal_lt (c : Char) (d : Nat) (h : hexVal c = some d) : d < 16 := by
  unfold hexVal at h
  split at h
  · rename_i hd
    have := (isDigit_iff_toNat c).mp hd
    have e := Option.some.inj h
    have : ('0' : Char).toNat = 48 := rfl
    omega
  · split at h
    · rename_i hd
      have e := Option.some.inj h
      have h1 : ('a' : Char).toNat = 97 := rfl
      have h2 : ('f' : Char).toNat = 102 := rfl
      omega
    · split at h
      · rename_i hd
        have e := Option.some.inj h
        have h1 : ('A' : Char).toNat = 65 := rfl
        have h2 : ('F' : Char).toNat = 70 := rfl
        omega
      · exact absurd h (by simp)

theorem parseHex_lt (l : Text) (acc n : Nat) (h : parseHex l acc = some n) :
    n < 16 ^ l.length * (acc + 1) := by
  induction l generalizing acc with
  | nil =>
    simp only [parseHex, Option.some.injEq] at h
    simp; omega
  | cons c cs ih =>
    simp only [parseHex] at h
    cases hv : hexVal c with
    | none => rw [hv] at h; exact absurd h (by simp)
    | some d =>
      rw [hv] at h
      have hd := hexVal_lt c d hv
      have := ih _ h
      have hle : 16 * acc + d + 1 ≤ 16 * (acc + 1) := by omega
      calc n < 16 ^ cs.length * (16 * acc + d + 1) := this
        _ ≤ 16 ^ cs.length * (16 * (acc + 1)) := Nat.mul_le_mul_left _ hle
        _ = 16 ^ (c :: cs).length * (acc + 1) := by
          rw [List.length_cons, Nat.pow_succ, Nat.mul_assoc]

/-- A parsed UUID is a 128-bit value. -/
theorem pyUuid_lt (t : Text) (n : Nat) (h : pyUuid t = some n) : n < 2 ^ 128 := by
  simp only [pyUuid] at h
  split at h
  · rename_i hl
    have := parseHex_lt _ _ _ h
    rw [hl] at this
    have e : (16 : Nat) ^ 32 * (0 + 1) = 2 ^ 128 := by decide
    omega
  · exact absurd h (by simp)

/-- Non-vacuity for `pyUuid_lt`: upper-case, braces and `urn:uuid:` are accepted. -/
example : pyUuid "urn:uuid:{123E4567-E89B-12D3-A456-426614174000}".toList =
    some 0x123e4567e89b12d3a456426614174000 := by
  simp [pyUuid, uuidNormalize, removeAll, stripBraces, rstripChars, isBrace, parseHex, hexVal]

end Py
