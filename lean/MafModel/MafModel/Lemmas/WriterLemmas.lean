/-
  Lemmas behind C06: `Record.validate` in Strict mode against a scheme, the
  refusal paths of `Writer.write`, and the shape of an emitted line.
-/
import MafModel.Lemmas.FromLineLemmas
import MafModel.Lemmas.FromLineAccept
import MafModel.Lemmas.TextLemmas
import MafModel.Lemmas.RenderValid
import MafModel.Lemmas.SorterLemmas
import MafModel.Lemmas.SortOrderLemmas
import MafModel.Model.Writer
open Py
namespace Model

/-! ### `processErrors` in Strict mode -/

theorem processErrors_strict_ok {errs : List VErr} {logs : List LogRec}
    (h : processErrors .strict errs = .ok logs) : errs = [] ∧ logs = [] := by
  cases errs with
  | nil => simp [processErrors] at h; exact ⟨rfl, h⟩
  | cons e es => simp [processErrors] at h

theorem processErrors_strict_error {errs : List VErr} {e : PyErr}
    (h : processErrors .strict errs = .error e) :
    ∃ x ∈ errs, e = .format x.tpe x.line := by
  cases errs with
  | nil => simp [processErrors] at h
  | cons x es =>
    simp only [processErrors, Except.error.injEq] at h
    exact ⟨x, by simp, h.symm⟩

/-! ### scheme lookups by a name, without assuming distinct names -/

theorem Scheme.columnIndex_some {S : Scheme} {n : String} {i : Nat}
    (h : S.columnIndex n = some i) :
    ∃ cls, S.cols[i]? = some (n, cls) ∧ S.columnClass n = some cls := by
  unfold Scheme.columnIndex at h
  simp only at h
  split at h
  · rename_i hlt
    simp only [Option.some.injEq] at h
    rw [h] at hlt
    obtain ⟨⟨m, cls⟩, hget⟩ : ∃ p, S.cols[i]? = some p := ⟨_, List.getElem?_eq_getElem hlt⟩
    have hp : m = n := by
      have := List.findIdx_of_getElem?_eq_some (p := fun p : String × String => p.1 == n)
        (xs := S.cols) (y := (m, cls)) (by rw [h]; exact hget)
      simpa using this
    subst hp
    refine ⟨cls, hget, ?_⟩
    unfold Scheme.columnClass
    rw [List.find?_eq_getElem?_findIdx, h, hget]
    rfl
  · cases h

theorem Scheme.truthy_filter {S : Scheme} (hS : S.truthy = true) :
    (some S).filter Scheme.truthy = some S := by
  simp [Option.filter, hS]

/-! ### what a column without validation errors looks like -/

/-- what the scheme part of `column.validate` guarantees about a column stored under the scheme
    class `cls`: the column is exactly of that class, or the scheme class is the unrestricted
    `MafColumnRecord`, or the column's "twin" — the same name, value and index as an instance of
    the scheme's class — has a valid value and the same rendering -/
def TwinOK (C : Ctx) (col : Column) (cls : String) : Prop :=
  col.cls = cls ∨ cls = "MafColumnRecord" ∨
    (Column.valueInvalid C { col with cls := cls } = false ∧
      exceptTextEq (Column.render C { col with cls := cls }) (col.render C) = true)

/-- a stored column that is valid for position `i` of the scheme `S`: it carries the
    `i`-th name, reports index `i`, its class derives from the `i`-th class, its value
    passes the value check, and its rendering is free of TAB / CR / LF -/
structure ColValidAt (C : Ctx) (S : Scheme) (i : Nat) (c : Column) : Prop where
  pos : ∃ n cls, S.cols[i]? = some (n, cls) ∧ c.key = n.toList ∧ isSubclass C c.cls cls = true
  index : c.index = some (i : Int)
  valid : c.valueInvalid C = false
  framed : ∀ t, c.render C = .ok t → hasFieldSep t = false
  twin : ∀ n cls, S.cols[i]? = some (n, cls) → TwinOK C c cls

theorem Column.validate_nil {C : Ctx} {col : Column} {scheme : Option Scheme} {line : Option Nat}
    (h : col.validate C scheme line = []) :
    col.valueInvalid C = false ∧ col.schemeErrors C scheme line = [] := by
  unfold Column.validate at h
  rw [List.append_eq_nil_iff] at h
  refine ⟨?_, h.2⟩
  cases hv : col.valueInvalid C with
  | false => rfl
  | true => rw [hv] at h; simp at h

theorem Column.schemeErrors_nil {C : Ctx} {col : Column} {S : Scheme} {line : Option Nat}
    (hS : S.truthy = true) {i : Nat} (hi : col.index = some (i : Int))
    (h : col.schemeErrors C (some S) line = []) :
    ∃ n cls, S.cols[i]? = some (n, cls) ∧ col.key = n.toList ∧ isSubclass C col.cls cls = true := by
  unfold Column.schemeErrors at h
  rw [Scheme.truthy_filter hS] at h
  simp only at h
  cases hci : S.columnIndex (String.ofList col.key) with
  | none =>
    rw [hci] at h
    cases hcc : S.columnClass (String.ofList col.key) <;> rw [hcc] at h <;> simp at h
  | some si =>
    obtain ⟨cls, hget, hcc⟩ := Scheme.columnIndex_some hci
    rw [hci, hcc] at h
    simp only at h
    split at h
    · simp at h
    · rename_i hne
      split at h
      · simp at h
      · rename_i hsub
        have hidx : (i : Int) = (si : Int) := by
          rw [hi] at hne
          simp only [Option.isSome_some, ne_eq, Option.some.injEq, true_and] at hne
          exact Decidable.not_not.1 hne
        have : i = si := by omega
        subst this
        refine ⟨String.ofList col.key, cls, hget, by simp, ?_⟩
        simpa using hsub

/-- … and, for a column whose own value is valid, the twin condition -/
theorem Column.schemeErrors_nil_twin {C : Ctx} {col : Column} {S : Scheme} {line : Option Nat}
    (hS : S.truthy = true) {i : Nat} (hi : col.index = some (i : Int))
    (hv : col.valueInvalid C = false)
    (h : col.schemeErrors C (some S) line = []) :
    ∀ n cls, S.cols[i]? = some (n, cls) → TwinOK C col cls := by
  intro n0 cls0 hp0
  unfold Column.schemeErrors at h
  rw [Scheme.truthy_filter hS] at h
  simp only at h
  cases hci : S.columnIndex (String.ofList col.key) with
  | none =>
    rw [hci] at h
    cases hcc : S.columnClass (String.ofList col.key) <;> rw [hcc] at h <;> simp at h
  | some si =>
    obtain ⟨cls, hget, hcc⟩ := Scheme.columnIndex_some hci
    rw [hci, hcc] at h
    simp only at h
    split at h
    · simp at h
    · rename_i hne
      have hidx : (i : Int) = (si : Int) := by
        rw [hi] at hne
        simp only [Option.isSome_some, ne_eq, Option.some.injEq, true_and] at hne
        exact Decidable.not_not.1 hne
      have : i = si := by omega
      subst this
      rw [hget] at hp0
      simp only [Option.some.injEq, Prod.mk.injEq] at hp0
      obtain ⟨_, rfl⟩ := hp0
      split at h
      · simp at h
      · by_cases h1 : col.cls = cls
        · exact Or.inl h1
        · by_cases h2 : cls = "MafColumnRecord"
          · exact Or.inr (Or.inl h2)
          · refine Or.inr (Or.inr ?_)
            rw [if_pos ⟨h1, h2, by simp [hv]⟩] at h
            split at h
            · simp at h
            · rename_i hno
              simp only [not_or, Bool.not_eq_true, Bool.not_eq_eq_eq_not, Bool.not_true] at hno
              exact ⟨by simpa using hno.1, by simpa using hno.2⟩

theorem Record.columnErrors_nil {C : Ctx} {r : Record} {S : Scheme} {c : RCol}
    (hS : S.truthy = true) (h : r.columnErrors C (some S) c = []) :
    c.col.validate C (some S) none = [] ∧
      ∀ t, c.col.render C = .ok t → hasFieldSep t = false := by
  unfold Record.columnErrors at h
  rw [Scheme.truthy_filter hS] at h
  simp only [Option.isSome_some, Bool.true_and] at h
  cases hv : c.col.validate C (some S) none with
  | cons e es => rw [hv] at h; simp at h
  | nil =>
    rw [hv] at h
    simp only [List.isEmpty_nil, if_true] at h
    refine ⟨rfl, ?_⟩
    intro t ht
    rw [ht] at h
    simp only at h
    cases hf : hasFieldSep t with
    | false => rfl
    | true => rw [hf] at h; simp at h

theorem Record.syncErrors_nil_index {r : Record} (h : r.syncErrors = []) {i : Nat} {c : RCol}
    (hs : r.slots[i]? = some (some c)) : c.col.index = some (i : Int) := by
  unfold Record.syncErrors at h
  simp only [List.append_eq_nil_iff, List.filterMap_eq_nil_iff] at h
  have := h.2 (some c, i) (List.mem_zipIdx_iff_getElem?.2 hs)
  simp only at this
  split at this
  · rename_i hb; simpa using hb
  · cases this

/-! ### `Record.validate` in Strict mode -/

/-- the three groups of errors `validate` collects when validating against `scheme` -/
theorem Record.validate_errors (C : Ctx) (r : Record) (mode : Option Mode) (scheme : Option Scheme) :
    (r.validate C mode true scheme).1 = { r with errors := (r.validate C mode true scheme).1.errors } ∧
    (r.validate C mode true scheme).2 =
      processErrors (mode.getD r.mode) (r.validate C mode true scheme).1.errors := by
  constructor <;> rfl

theorem Record.validate_slots (C : Ctx) (r : Record) (mode : Option Mode) (reset : Bool)
    (scheme : Option Scheme) :
    (r.validate C mode reset scheme).1.slots = r.slots ∧
    (r.validate C mode reset scheme).1.dict = r.dict := by
  constructor <;> rfl

/-- Strict validation against a truthy scheme succeeds only when nothing was collected;
    then every slot holds a column valid for its position -/
theorem Record.validate_strict_ok {C : Ctx} {r : Record} {S : Scheme} (hS : S.truthy = true)
    {logs : List LogRec}
    (h : (r.validate C (some .strict) true (some S)).2 = .ok logs) :
    (r.validate C (some .strict) true (some S)).1.errors = [] ∧ logs = [] ∧
    r.slots.length = S.size ∧ r.syncErrors = [] ∧
    ∀ i, i < S.size → ∃ c, r.slots[i]? = some (some c) ∧ ColValidAt C S i c.col := by
  have hproc := processErrors_strict_ok (errs := (r.validate C (some .strict) true (some S)).1.errors) h
  refine ⟨hproc.1, hproc.2, ?_⟩
  have herr := hproc.1
  simp only [Record.validate, if_true, Scheme.truthy_filter hS, List.nil_append,
    List.append_eq_nil_iff] at herr
  obtain ⟨⟨h1, h2⟩, h3⟩ := herr
  have hlen : r.slots.length = S.size := by
    by_cases hne : S.size ≠ r.slots.length
    · rw [if_pos hne] at h1; simp at h1
    · omega
  rw [List.flatMap_eq_nil_iff] at h2
  have hnone : r.slots.any (·.isNone) = false := by
    rw [List.any_eq_false]
    intro o ho
    cases o with
    | none => have := h2 none ho; simp at this
    | some c => simp
  rw [hnone] at h3
  simp only [Bool.false_eq_true, if_false] at h3
  refine ⟨hlen, h3, ?_⟩
  intro i hi
  have hlt : i < r.slots.length := by omega
  have hget : r.slots[i]? = some r.slots[i] := List.getElem?_eq_getElem hlt
  cases ho : r.slots[i] with
  | none =>
    have := h2 none (ho ▸ List.getElem_mem hlt)
    simp at this
  | some c =>
    rw [ho] at hget
    refine ⟨c, hget, ?_⟩
    have hce := h2 (some c) (List.mem_of_getElem? hget)
    simp only at hce
    obtain ⟨hval, hframed⟩ := Record.columnErrors_nil hS hce
    obtain ⟨hvi, hse⟩ := Column.validate_nil hval
    have hidx := Record.syncErrors_nil_index h3 hget
    exact ⟨Column.schemeErrors_nil hS hidx hse, hidx, hvi, hframed,
      Column.schemeErrors_nil_twin hS hidx hvi hse⟩

/-- Strict validation fails only with a `MafFormatException` for a collected error -/
theorem Record.validate_strict_error {C : Ctx} {r : Record} {scheme : Option Scheme} {e : PyErr}
    (h : (r.validate C (some .strict) true scheme).2 = .error e) :
    ∃ x ∈ (r.validate C (some .strict) true scheme).1.errors, e = .format x.tpe x.line :=
  processErrors_strict_error h

/-! ### `Writer.write` with a scheme already set -/

/-- with a (truthy) scheme set, `writer += record` is: validate, then queue or emit -/
theorem Writer.write_of_scheme (C : Ctx) (K : HConsts) (w : Writer) (r : Record) {S : Scheme}
    (hs : w.scheme = some S) (hS : S.truthy = true) :
    w.write C K r =
      match r.validate C (some w.mode) true (some S) with
      | (_, .error e) => (w, .error e)
      | (r', .ok _) =>
        if w.sorting then
          match w.keyOf K r', r'.render C with
          | .error e, _ => (w, .error e)
          | _, .error e => (w, .error e)
          | .ok _, .ok _ => ({ w with queued := w.queued ++ [r'] }, .ok ())
        else
          match r'.render C with
          | .error e => (w, .error e)
          | .ok t => ({ w with out := w.out ++ [t ++ ['\n']] }, .ok ()) := by
  unfold Writer.write
  simp only [hs, Scheme.truthy_filter hS]
  rcases r.validate C (some w.mode) true (some S) with ⟨r', (e | l)⟩
  · rfl
  · simp only
    by_cases hsort : w.sorting = true
    · simp only [hsort, if_true]
      cases w.keyOf K r' <;> cases r'.render C <;> rfl
    · simp only [hsort]
      cases r'.render C <;> rfl

/-- the key function of the sorter fails only with `KeyError` (missing coordinates, or a position
    text that is not a number) or `ValueError` (chromosome missing from the contig list) -/
theorem mkKey_error_kinds {o : Order} {cs : List Text} {l : Loc} {e : PyErr}
    (h : mkKey o cs l = .error e) : e = .key ∨ e = .value := by
  unfold mkKey at h
  split at h
  · simp only [Except.error.injEq] at h; exact Or.inl h.symm
  · simp only [bind, Except.bind] at h
    split at h
    · rename_i e' he
      simp only [Except.error.injEq] at h
      subst h
      split at he
      · cases he
      · split at he
        · split at he
          · cases he
          · simp only [Except.error.injEq] at he; exact Or.inr he.symm
        · simp only [Except.error.injEq] at he; exact Or.inr he.symm
    · split at h
      · rename_i e' he
        simp only [Except.error.injEq] at h
        subst h
        unfold posInt at he
        split at he
        · split at he
          · cases he
          · simp only [Except.error.injEq] at he; exact Or.inl he.symm
        · cases he
      · split at h
        · rename_i e' he
          simp only [Except.error.injEq] at h
          subst h
          unfold posInt at he
          split at he
          · split at he
            · cases he
            · simp only [Except.error.injEq] at he; exact Or.inl he.symm
          · cases he
        · split at h <;> cases h

theorem Writer.keyOf_error_kinds {K : HConsts} {w : Writer} {r : Record} {e : PyErr}
    (h : w.keyOf K r = .error e) : e = .key ∨ e = .value := by
  unfold Writer.keyOf at h
  simp only at h
  split at h
  · exact mkKey_error_kinds h
  · split at h
    · simp only [Except.error.injEq] at h; exact Or.inl h.symm
    · split at h
      · simp only [Except.error.injEq] at h; exact Or.inr h.symm
      · simp only [Except.error.injEq] at h; exact Or.inl h.symm

/-- a record lacking one of the three coordinate columns cannot be keyed -/
theorem Writer.keyOf_no_coords {K : HConsts} {w : Writer} {r : Record}
    (h : r.toLoc.hasCoords = false) : ∃ e, w.keyOf K r = .error e ∧ (e = .key ∨ e = .value) := by
  unfold Writer.keyOf
  simp only [h, Bool.false_eq_true, if_false]
  split
  · exact ⟨_, rfl, Or.inl rfl⟩
  · split
    · exact ⟨_, rfl, Or.inr rfl⟩
    · exact ⟨_, rfl, Or.inl rfl⟩

/-- on a record that has its three coordinate columns the sorter's key is the key function's -/
theorem Writer.keyOf_of_hasCoords {K : HConsts} {w : Writer} {r : Record}
    (h : r.toLoc.hasCoords = true) :
    w.keyOf K r = mkKey (w.header.sortOrder K).1 (w.header.sortOrder K).2 r.toLoc := by
  unfold Writer.keyOf
  simp only [h, if_true]

/-- a record with its coordinate columns and a keyable chromosome whose start or end position is
    a text that is not a number cannot be keyed: `KeyError` (like a missing coordinate column) -/
theorem Writer.keyOf_bad_position {K : HConsts} {w : Writer} {r : Record}
    (h0 : r.toLoc.hasCoords = true) (hc : r.toLoc.chrOk (w.header.sortOrder K).2)
    (hp : r.toLoc.start.posOk = false ∨ r.toLoc.stop.posOk = false) :
    w.keyOf K r = .error .key := by
  rw [Writer.keyOf_of_hasCoords h0]
  exact mkKey_bad_position h0 hc hp

/-- the `ValueError` of the sorter's key function is the missing-contig error: it needs a contig
    list, and (for a record with its coordinate columns) a chromosome that is not in it -/
theorem Writer.keyOf_valueError {K : HConsts} {w : Writer} {r : Record}
    (h : w.keyOf K r = .error .value) :
    (w.header.sortOrder K).2 ≠ [] ∧
    (r.toLoc.hasCoords = true →
      ∀ s, r.toLoc.chrName = some s → s ∉ (w.header.sortOrder K).2) := by
  cases h0 : r.toLoc.hasCoords with
  | true =>
    rw [Writer.keyOf_of_hasCoords h0] at h
    have := mkKey_valueError_iff.1 h
    exact ⟨this.2.1, fun _ => this.2.2⟩
  | false =>
    unfold Writer.keyOf at h
    simp only [h0, Bool.false_eq_true, if_false] at h
    split at h
    · cases h
    · split at h
      · rename_i hk
        exact ⟨(mkKey_valueError_iff.1 hk).2.1, fun h' => by cases h'⟩
      · cases h

/-- `validate` only replaces the error list: keys and renderings are those of the record -/
theorem Writer.keyOf_validate (C : Ctx) (K : HConsts) (w : Writer) (r : Record) (m : Option Mode)
    (b : Bool) (s : Option Scheme) : w.keyOf K (r.validate C m b s).1 = w.keyOf K r := rfl

theorem Record.render_validate (C : Ctx) (r : Record) (m : Option Mode) (b : Bool)
    (s : Option Scheme) : (r.validate C m b s).1.render C = r.render C := rfl

/-- every way `writer += record` can fail once a scheme is set, in Strict mode: the writer is
    left exactly as it was, and the exception is the `MafFormatException` of validation, or
    (record validated) the key function's exception when sorting, or a rendering failure -/
theorem Writer.write_error {C : Ctx} {K : HConsts} {w : Writer} {r : Record} {S : Scheme}
    (hs : w.scheme = some S) (hS : S.truthy = true) (hm : w.mode = .strict) {e : PyErr}
    (h : (w.write C K r).2 = .error e) :
    (w.write C K r).1 = w ∧
    ((∃ x ∈ (r.validate C (some .strict) true (some S)).1.errors, e = .format x.tpe x.line) ∨
     ((r.validate C (some .strict) true (some S)).2 = .ok [] ∧
       ((w.sorting = true ∧ w.keyOf K r = .error e) ∨ r.render C = .error e))) := by
  rw [Writer.write_of_scheme C K w r hs hS, hm] at h ⊢
  have hkey := Writer.keyOf_validate C K w r (some .strict) true (some S)
  have hren := Record.render_validate C r (some .strict) true (some S)
  have hok := @Record.validate_strict_ok C r S hS
  have herr := @Record.validate_strict_error C r (some S)
  generalize r.validate C (some .strict) true (some S) = V at h hkey hren hok herr ⊢
  rcases V with ⟨r', (e' | l)⟩
  · simp only [Except.error.injEq] at h
    subst h
    exact ⟨rfl, Or.inl (herr rfl)⟩
  · have hl : l = [] := (hok rfl).2.1
    subst hl
    simp only at h hkey hren ⊢
    rw [hkey, hren] at h ⊢
    cases hsort : w.sorting with
    | true =>
      simp only [hsort, if_true] at h ⊢
      cases hk : w.keyOf K r with
      | error ek =>
        rw [hk] at h
        simp only [Except.error.injEq] at h
        subst h
        exact ⟨rfl, Or.inr (by simp)⟩
      | ok k =>
        cases hr : r.render C with
        | error er =>
          rw [hk, hr] at h
          simp only [Except.error.injEq] at h
          subst h
          exact ⟨rfl, Or.inr (by simp)⟩
        | ok t => rw [hk, hr] at h; cases h
    | false =>
      simp only [hsort, Bool.false_eq_true, if_false] at h ⊢
      cases hr : r.render C with
      | error er =>
        rw [hr] at h
        simp only [Except.error.injEq] at h
        subst h
        exact ⟨rfl, Or.inr (by simp)⟩
      | ok t => rw [hr] at h; cases h

/-! ### an emitted line -/

theorem mapM_ok_getElem? {α β ε : Type} (f : α → Except ε β) :
    ∀ (l : List α) (ys : List β), l.mapM f = .ok ys →
      ys.length = l.length ∧
        ∀ (i : Nat) (a : α), l[i]? = some a → ∃ y, ys[i]? = some y ∧ f a = .ok y := by
  intro l
  induction l with
  | nil =>
    intro ys h
    simp [pure, Except.pure] at h
    subst h
    simp
  | cons a l ih =>
    intro ys h
    simp only [List.mapM_cons, bind, Except.bind] at h
    cases hf : f a with
    | error e => simp [hf] at h
    | ok b =>
      cases hm : l.mapM f with
      | error e => simp [hf, hm] at h
      | ok bs =>
        simp [hf, hm, pure, Except.pure] at h
        subst h
        obtain ⟨hl, hi⟩ := ih bs hm
        refine ⟨by simp [hl], ?_⟩
        intro i x hx
        cases i with
        | zero =>
          simp only [List.getElem?_cons_zero, Option.some.injEq] at hx
          subst hx
          exact ⟨b, by simp, hf⟩
        | succ i =>
          simp only [List.getElem?_cons_succ] at hx ⊢
          exact hi i x hx

/-- the fields of `str(record)` for a record without an empty slot -/
theorem Record.render_ok_fields {C : Ctx} {r : Record} {t : Text} (h : r.render C = .ok t) :
    ∃ fields : List Text, t = joinWith '\t' fields ∧ fields.length = r.slots.length ∧
      ∀ (i : Nat) (c : RCol), r.slots[i]? = some (some c) →
        ∃ f, fields[i]? = some f ∧ c.col.render C = .ok f := by
  unfold Record.render at h
  generalize hm : List.mapM (m := Except PyErr) (β := Text) _ r.slots = res at h
  cases res with
  | error e => cases h
  | ok fs =>
    simp only [Except.map, Except.ok.injEq] at h
    obtain ⟨hl, hi⟩ := mapM_ok_getElem? _ _ _ hm
    refine ⟨fs, h.symm, hl, ?_⟩
    intro i c hc
    obtain ⟨y, hy, hf⟩ := hi i (some c) hc
    exact ⟨y, hy, hf⟩

/-- a direct (non-sorting) Strict writer with a scheme: an accepted record adds exactly one
    `write` call — the TAB-joined renderings of columns valid for their positions, each free
    of TAB / CR / LF, and a line feed -/
theorem Writer.write_ok_direct {C : Ctx} {K : HConsts} {w w' : Writer} {r : Record} {S : Scheme}
    (hs : w.scheme = some S) (hS : S.truthy = true) (hm : w.mode = .strict)
    (hsort : w.sorting = false) (h : w.write C K r = (w', .ok ())) :
    ∃ fields : List Text,
      w' = { w with out := w.out ++ [joinWith '\t' fields ++ ['\n']] } ∧
      fields.length = S.size ∧ r.slots.length = S.size ∧
      ∀ i, i < S.size → ∃ c f, r.slots[i]? = some (some c) ∧ fields[i]? = some f ∧
        ColValidAt C S i c.col ∧ c.col.render C = .ok f ∧ hasFieldSep f = false := by
  rw [Writer.write_of_scheme C K w r hs hS, hm] at h
  have hren := Record.render_validate C r (some .strict) true (some S)
  have hok := @Record.validate_strict_ok C r S hS
  generalize r.validate C (some .strict) true (some S) = V at h hren hok
  rcases V with ⟨r', (e' | l)⟩
  · simp at h
  · simp only [hsort, Bool.false_eq_true, if_false] at h hren
    rw [hren] at h
    obtain ⟨_, _, hlen, _, hcols⟩ := hok (logs := l) rfl
    cases hr : r.render C with
    | error er => rw [hr] at h; simp at h
    | ok t =>
      rw [hr] at h
      simp only [Prod.mk.injEq, and_true] at h
      obtain ⟨fields, ht, hfl, hfi⟩ := Record.render_ok_fields hr
      refine ⟨fields, ?_, by omega, hlen, ?_⟩
      · rw [← h, ht, hm, hsort]
      · intro i hi
        obtain ⟨c, hc, hv⟩ := hcols i hi
        obtain ⟨f, hf, hcf⟩ := hfi i c hc
        exact ⟨c, f, hc, hf, hv, hcf, hv.framed f hcf⟩

/-- the same when sorting: an accepted record is queued, nothing is written yet -/
theorem Writer.write_ok_sorting {C : Ctx} {K : HConsts} {w w' : Writer} {r : Record} {S : Scheme}
    (hs : w.scheme = some S) (hS : S.truthy = true) (hm : w.mode = .strict)
    (hsort : w.sorting = true) (h : w.write C K r = (w', .ok ())) :
    w'.out = w.out ∧
    w'.queued = w.queued ++ [(r.validate C (some .strict) true (some S)).1] ∧
    (∃ k, w.keyOf K r = .ok k) ∧ (∃ t, r.render C = .ok t) ∧
    (r.validate C (some .strict) true (some S)).2 = .ok [] := by
  rw [Writer.write_of_scheme C K w r hs hS, hm] at h
  have hren := Record.render_validate C r (some .strict) true (some S)
  have hkey := Writer.keyOf_validate C K w r (some .strict) true (some S)
  have hok := @Record.validate_strict_ok C r S hS
  generalize r.validate C (some .strict) true (some S) = V at h hren hkey hok ⊢
  rcases V with ⟨r', (e' | l)⟩
  · simp at h
  · simp only [hsort, if_true] at h hren hkey
    rw [hren, hkey] at h
    have hl : l = [] := (hok rfl).2.1
    subst hl
    cases hk : w.keyOf K r with
    | error ek => rw [hk] at h; simp at h
    | ok k =>
      cases hr : r.render C with
      | error er => rw [hk, hr] at h; simp at h
      | ok t =>
        rw [hk, hr] at h
        simp only [Prod.mk.injEq, and_true] at h
        subst h
        exact ⟨rfl, rfl, ⟨k, rfl⟩, ⟨t, rfl⟩, rfl⟩

/-! ### a Strict reader on a line whose every field is accepted -/

theorem hasFieldSep_eq_false {t : Text} :
    hasFieldSep t = false ↔ ∀ c ∈ t, c ≠ '\t' ∧ c ≠ '\n' ∧ c ≠ '\r' := by
  simp only [hasFieldSep, List.any_eq_false, Bool.or_eq_true, decide_eq_true_eq, not_or]
  constructor
  · intro h c hc; exact ⟨(h c hc).1.1, (h c hc).1.2, (h c hc).2⟩
  · intro h c hc; exact ⟨⟨(h c hc).1, (h c hc).2.1⟩, (h c hc).2.2⟩

/-- the specified result of `from_line` carries no error when every field is accepted -/
theorem specFinal_errors_nil {C : Ctx} {S : Scheme} (hS : SchemeOK C S) (fields : List Text)
    (hlen : fields.length = S.size) (lineNo : Option Nat) (m : Mode)
    (hall : ∀ (i : Nat) (n cls : String) (sp : ColSpec) (f : Text),
      S.cols[i]? = some (n, cls) → resolveSpec C.tbl cls = some sp → fields[i]? = some f →
      (sp.accept C false f).isSome = true) :
    (specFinal C S fields lineNo m).errors = [] := by
  simp only [specFinal, specRec, List.append_eq_nil_iff, List.flatMap_eq_nil_iff, List.mem_range,
    noValueErrs_eq_nil_iff]
  have key : ∀ i, i < S.size → errAt C S fields lineNo i = [] ∧
      ∃ c, colAt C S fields i = some c := by
    intro i hi
    have hi' : i < S.cols.length := hi
    have hif : i < fields.length := by rw [hlen]; exact hi
    obtain ⟨⟨n, cls⟩, hp⟩ : ∃ p, S.cols[i]? = some p := ⟨_, List.getElem?_eq_getElem hi'⟩
    obtain ⟨f, hf⟩ : ∃ f, fields[i]? = some f := ⟨_, List.getElem?_eq_getElem hif⟩
    obtain ⟨sp, hsp, _, _⟩ := hS.cls_ok _ (List.mem_of_getElem? hp)
    have := hall i n cls sp f hp hsp hf
    rw [errAt_eq hp hf hsp, colAt_eq hp hf hsp]
    cases ha : sp.accept C false f with
    | none => rw [ha] at this; cases this
    | some v => exact ⟨rfl, _, rfl⟩
  refine ⟨fun i hi => (key i hi).1, ?_⟩
  intro hmem
  have := mem_trimNone hmem
  simp only [specCols, List.mem_map, List.mem_range] at this
  obtain ⟨j, hj, hc⟩ := this
  obtain ⟨c, hc'⟩ := (key j hj).2
  rw [hc'] at hc; cases hc

/-- a line made of `S.size` TAB/CR/LF-free fields, each accepted by the class of its column,
    is accepted by a Strict reader: `from_line` returns a record without any error and logs
    nothing — with or without the line terminator -/
theorem fromLine_strict_accepts {C : Ctx} {S : Scheme} (hS : SchemeOK C S) (fields : List Text)
    (hlen : fields.length = S.size)
    (hclean : ∀ f ∈ fields, hasFieldSep f = false)
    (hall : ∀ (i : Nat) (n cls : String) (sp : ColSpec) (f : Text),
      S.cols[i]? = some (n, cls) → resolveSpec C.tbl cls = some sp → fields[i]? = some f →
      (sp.accept C false f).isSome = true)
    (lineNo : Option Nat) (term : Text) (hterm : term = [] ∨ term = ['\n'] ∨ term = ['\r', '\n']) :
    ∃ r', Record.fromLine C (joinWith '\t' fields ++ term) none (some S) lineNo (some .strict)
        = .ok (r', []) ∧ r'.errors = [] ∧
      r' = specFinal C S fields lineNo .strict := by
  have hne : fields ≠ [] := by
    intro e; have := hS.pos; rw [e] at hlen; simp at hlen; omega
  have hcl : ∀ c ∈ joinWith '\t' fields, c ≠ '\r' ∧ c ≠ '\n' :=
    joinWith_tab_clean fields (fun f hf c hc =>
      ⟨(hasFieldSep_eq_false.1 (hclean f hf) c hc).2.2, (hasFieldSep_eq_false.1 (hclean f hf) c hc).2.1⟩)
  have hstrip : rstripCRLF (joinWith '\t' fields ++ term) = joinWith '\t' fields := by
    rcases hterm with rfl | rfl | rfl
    · rw [List.append_nil]; exact rstripCRLF_of_clean _ hcl
    · exact (rstripCRLF_append_lf _ hcl).1
    · exact (rstripCRLF_append_lf _ hcl).2.1
  have hfields : fieldsOf (joinWith '\t' fields ++ term) = fields := by
    unfold fieldsOf
    rw [hstrip]
    exact splitOn_tab_join fields hne (fun f hf hc => (hasFieldSep_eq_false.1 (hclean f hf) _ hc).1 rfl)
  have hspec := fromLine_spec hS (joinWith '\t' fields ++ term) lineNo (some .strict)
    (by rw [hfields]; exact hlen)
  rw [hfields] at hspec
  have herr := specFinal_errors_nil hS fields hlen lineNo .strict hall
  simp only [modeOrSilent] at hspec
  rw [herr] at hspec
  exact ⟨_, hspec, herr, rfl⟩

/-! ### a valid column renders to a text its own class accepts -/

theorem ColSpec.render_erase (E : Enums) (sp : ColSpec) (v : PyVal) :
    sp.erase.render E v = sp.render E v := by
  simp [ColSpec.render, ColSpec.erase]

theorem ColSpec.valueInvalid_erase (sp : ColSpec) (v : PyVal) :
    sp.erase.valueInvalid v = sp.valueInvalid v := by
  simp [ColSpec.valueInvalid, ColSpec.erase, ColSpec.isNullValue, ColSpec.nullValues,
    ColSpec.elemInvalid]

/-- the class `cls` of the table is one of the column types of the development -/
def ClassTyped (C : Ctx) (cls : String) : Prop :=
  ∃ ty, (resolveSpec C.tbl cls).map ColSpec.erase = Builtin.expectedOf ty

/-- a column whose class is a column type of the development, whose value validates and is
    well-formed, renders without failure to a text that its class accepts -/
theorem Column.render_accepted {C : Ctx} (hE : Render.EnumsOK C.enums) {col : Column} {sp : ColSpec}
    (hsp : resolveSpec C.tbl col.cls = some sp) (hty : ClassTyped C col.cls)
    (hv : col.valueInvalid C = false) (hwf : RenderValid.ValueWF C col.value) :
    ∃ t, col.render C = .ok t ∧ (sp.accept C false t).isSome = true := by
  obtain ⟨ty, hty⟩ := hty
  rw [hsp] at hty
  simp only [Option.map_some] at hty
  have hv' : sp.erase.valueInvalid col.value = false := by
    rw [ColSpec.valueInvalid_erase]
    simpa [Column.valueInvalid, hsp] using hv
  obtain ⟨t, hr, ha⟩ := RenderValid.valid_render_accepted C hE ty sp.erase hty.symm col.value hv' hwf
  refine ⟨t, ?_, ?_⟩
  · simpa [Column.render, hsp, ColSpec.render_erase] using hr
  · rwa [Builtin.accept_erase] at ha

theorem mapM_ok_of_forall {α β ε : Type} (f : α → Except ε β) (l : List α)
    (h : ∀ a ∈ l, ∃ b, f a = .ok b) : ∃ bs, l.mapM f = .ok bs := by
  induction l with
  | nil => exact ⟨[], by simp [pure, Except.pure]⟩
  | cons a l ih =>
    obtain ⟨b, hb⟩ := h a (by simp)
    obtain ⟨bs, hbs⟩ := ih (fun x hx => h x (by simp [hx]))
    exact ⟨b :: bs, by simp [List.mapM_cons, hb, hbs, bind, Except.bind, pure, Except.pure]⟩

theorem map_mapM_ok_of_forall {α β γ ε : Type} (g : List β → γ) (f : α → Except ε β) (l : List α)
    (h : ∀ a ∈ l, ∃ b, f a = .ok b) : ∃ t, Except.map g (l.mapM f) = .ok t := by
  obtain ⟨bs, hbs⟩ := mapM_ok_of_forall f l h
  exact ⟨g bs, by rw [hbs]; rfl⟩

/-- `str(record)` does not fail when no stored column's rendering fails -/
theorem Record.render_total {C : Ctx} {r : Record}
    (h : ∀ c, some c ∈ r.slots → ∃ t, c.col.render C = .ok t) : ∃ t, r.render C = .ok t := by
  unfold Record.render
  refine map_mapM_ok_of_forall _ _ _ ?_
  intro o ho
  cases o with
  | none => exact ⟨_, rfl⟩
  | some c => exact h c ho

/-- a column that passes the value check has a class the table resolves -/
theorem Column.resolve_of_valid {C : Ctx} {col : Column} (hv : col.valueInvalid C = false) :
    ∃ sp, resolveSpec C.tbl col.cls = some sp := by
  unfold Column.valueInvalid at hv
  cases hr : resolveSpec C.tbl col.cls with
  | none => rw [hr] at hv; cases hv
  | some sp => exact ⟨sp, rfl⟩

/-- rendering a record that validated (Strict, truthy scheme) does not fail when its columns
    are of column types of the development and carry well-formed values -/
theorem Record.render_ok_of_validated {C : Ctx} {r : Record} {S : Scheme} (hS : S.truthy = true)
    (hE : Render.EnumsOK C.enums)
    (htyped : ∀ c, some c ∈ r.slots → ClassTyped C c.col.cls)
    (hwf : ∀ c, some c ∈ r.slots → RenderValid.ValueWF C c.col.value)
    {logs : List LogRec} (h : (r.validate C (some .strict) true (some S)).2 = .ok logs) :
    ∃ t, r.render C = .ok t := by
  obtain ⟨_, _, hlen, _, hcols⟩ := Record.validate_strict_ok hS h
  apply Record.render_total
  intro c hc
  obtain ⟨i, hi⟩ := List.mem_iff_getElem?.1 hc
  have hlt : i < S.size := by
    by_cases hlt : i < r.slots.length
    · omega
    · rw [List.getElem?_eq_none (by omega)] at hi; cases hi
  obtain ⟨c', hc', hvalid⟩ := hcols i hlt
  rw [hi] at hc'; cases hc'
  obtain ⟨sp, hsp⟩ := Column.resolve_of_valid hvalid.valid
  obtain ⟨t, ht, _⟩ := Column.render_accepted hE hsp (htyped c hc) hvalid.valid (hwf c hc)
  exact ⟨t, ht⟩

/-- **an emitted line is accepted by a Strict reader.**  The line a direct Strict writer
    emits for a record whose columns are exactly of the classes of the scheme (column types
    of the development) and carry well-formed values is read back by `from_line` in Strict
    mode without any error -/
theorem Writer.emitted_accepted {C : Ctx} {K : HConsts} {w w' : Writer} {r : Record} {S : Scheme}
    (hSok : SchemeOK C S) (hE : Render.EnumsOK C.enums)
    (htyped : ∀ p ∈ S.cols, ClassTyped C p.2)
    (hs : w.scheme = some S) (hm : w.mode = .strict) (hsort : w.sorting = false)
    (hexact : ∀ (i : Nat) (c : RCol) (p : String × String),
      r.slots[i]? = some (some c) → S.cols[i]? = some p → c.col.cls = p.2)
    (hwf : ∀ c, some c ∈ r.slots → RenderValid.ValueWF C c.col.value)
    (h : w.write C K r = (w', .ok ())) (lineNo : Option Nat) :
    ∃ line : Text, w'.out = w.out ++ [line ++ ['\n']] ∧
      (∃ r', Record.fromLine C (line ++ ['\n']) none (some S) lineNo (some .strict) = .ok (r', [])
          ∧ r'.errors = []) ∧
      (∃ r', Record.fromLine C line none (some S) lineNo (some .strict) = .ok (r', [])
          ∧ r'.errors = []) := by
  have hS : S.truthy = true := by simp [Scheme.truthy, hSok.pos]
  obtain ⟨fields, hw', hflen, _, hcols⟩ := Writer.write_ok_direct hs hS hm hsort h
  have hclean : ∀ f ∈ fields, hasFieldSep f = false := by
    intro f hf
    obtain ⟨i, hi⟩ := List.mem_iff_getElem?.1 hf
    have hlt : i < S.size := by
      by_cases hlt : i < fields.length
      · omega
      · rw [List.getElem?_eq_none (by omega)] at hi; cases hi
    obtain ⟨c, f', _, hf', _, _, hsep⟩ := hcols i hlt
    rw [hi] at hf'; cases hf'; exact hsep
  have hall : ∀ (i : Nat) (n cls : String) (sp : ColSpec) (f : Text),
      S.cols[i]? = some (n, cls) → resolveSpec C.tbl cls = some sp → fields[i]? = some f →
      (sp.accept C false f).isSome = true := by
    intro i n cls sp f hp hsp hf
    have hlt : i < S.size := by
      by_cases hlt : i < S.cols.length
      · exact hlt
      · rw [List.getElem?_eq_none (by omega)] at hp; cases hp
    obtain ⟨c, f', hc, hf', hvalid, hren, _⟩ := hcols i hlt
    rw [hf] at hf'; cases hf'
    have hcls : c.col.cls = cls := hexact i c (n, cls) hc hp
    obtain ⟨t, ht, hacc⟩ := Column.render_accepted hE (col := c.col) (sp := sp)
      (by rw [hcls]; exact hsp) (by rw [hcls]; exact htyped _ (List.mem_of_getElem? hp))
      hvalid.valid (hwf c (List.mem_of_getElem? hc))
    rw [hren] at ht; cases ht
    exact hacc
  refine ⟨joinWith '\t' fields, by rw [hw'], ?_, ?_⟩
  · obtain ⟨r', h1, h2, _⟩ := fromLine_strict_accepts hSok fields hflen hclean hall lineNo ['\n']
      (Or.inr (Or.inl rfl))
    exact ⟨r', h1, h2⟩
  · obtain ⟨r', h1, h2, _⟩ := fromLine_strict_accepts hSok fields hflen hclean hall lineNo []
      (Or.inl rfl)
    rw [List.append_nil] at h1
    exact ⟨r', h1, h2⟩

theorem exceptTextEq_ok {a : Except PyErr Text} {f : Text}
    (h : exceptTextEq a (.ok f) = true) : a = .ok f := by
  cases a with
  | error e => simp [exceptTextEq] at h
  | ok t => simp only [exceptTextEq, beq_iff_eq] at h; rw [h]

/-- the rendering of a column valid for position `i` of the scheme is accepted by the scheme's
    class at that position: directly when the column is of that class, through its twin when it
    is of a proper subclass, and trivially when the scheme's class is the unrestricted
    `MafColumnRecord` -/
theorem ColValidAt.render_accepted {C : Ctx} {S : Scheme} (hSok : SchemeOKGen C S)
    (hE : Render.EnumsOK C.enums)
    (htyped : ∀ p ∈ S.cols, p.2 ≠ "MafColumnRecord" → ClassTyped C p.2)
    {i : Nat} {c : Column} (hvalid : ColValidAt C S i c) (hwf : RenderValid.ValueWF C c.value)
    {n cls : String} {sp : ColSpec} {f : Text}
    (hp : S.cols[i]? = some (n, cls)) (hsp : resolveSpec C.tbl cls = some sp)
    (hren : c.render C = .ok f) :
    (sp.accept C (plainOk cls) f).isSome = true := by
  obtain ⟨sp', hsp', _, hcase⟩ := hSok.cls_ok _ (List.mem_of_getElem? hp)
  simp only at hsp' hcase
  rw [hsp] at hsp'; cases hsp'
  rcases hcase with ⟨hne, _⟩ | ⟨hcls, hb, _⟩
  · have hpl : plainOk cls = false := by simp [plainOk, hne]
    rw [hpl]
    have hty : ClassTyped C cls := htyped _ (List.mem_of_getElem? hp) hne
    rcases hvalid.twin n cls hp with heq | heq | ⟨htv, htr⟩
    · obtain ⟨t, ht, hacc⟩ := Column.render_accepted hE (col := c) (sp := sp)
        (by rw [heq]; exact hsp) (by rw [heq]; exact hty) hvalid.valid hwf
      rw [hren] at ht; cases ht
      exact hacc
    · exact absurd heq hne
    · obtain ⟨t, ht, hacc⟩ := Column.render_accepted hE (col := { c with cls := cls }) (sp := sp)
        hsp hty htv hwf
      rw [hren] at htr
      rw [exceptTextEq_ok htr] at ht
      cases ht
      exact hacc
  · have hpl : plainOk cls = true := by simp [plainOk, hcls]
    rw [hpl]
    simp [ColSpec.accept, ColSpec.buildValue, hb]

/-- **an emitted line is accepted by a Strict reader — general form.**  The line a direct
    Strict writer emits for a record with well-formed values is read back by `from_line` in
    Strict mode without any error.  The columns of the record may be of any subclass of the
    scheme's classes; the scheme's classes are column types of the development or the
    unrestricted `MafColumnRecord`. -/
theorem Writer.emitted_accepted_gen {C : Ctx} {K : HConsts} {w w' : Writer} {r : Record} {S : Scheme}
    (hSok : SchemeOKGen C S) (hE : Render.EnumsOK C.enums)
    (htyped : ∀ p ∈ S.cols, p.2 ≠ "MafColumnRecord" → ClassTyped C p.2)
    (hs : w.scheme = some S) (hm : w.mode = .strict) (hsort : w.sorting = false)
    (hwf : ∀ c, some c ∈ r.slots → RenderValid.ValueWF C c.col.value)
    (h : w.write C K r = (w', .ok ())) (lineNo : Option Nat) :
    ∃ line : Text, w'.out = w.out ++ [line ++ ['\n']] ∧
      (∃ r', Record.fromLine C (line ++ ['\n']) none (some S) lineNo (some .strict) = .ok (r', [])
          ∧ r'.errors = []) ∧
      (∃ r', Record.fromLine C line none (some S) lineNo (some .strict) = .ok (r', [])
          ∧ r'.errors = []) := by
  have hS : S.truthy = true := hSok.truthy
  obtain ⟨fields, hw', hflen, _, hcols⟩ := Writer.write_ok_direct hs hS hm hsort h
  have hclean : ∀ f ∈ fields, ∀ ch ∈ f, ch ≠ '\t' ∧ ch ≠ '\n' ∧ ch ≠ '\r' := by
    intro f hf
    obtain ⟨i, hi⟩ := List.mem_iff_getElem?.1 hf
    have hlt : i < S.size := by
      by_cases hlt : i < fields.length
      · omega
      · rw [List.getElem?_eq_none (by omega)] at hi; cases hi
    obtain ⟨c, f', _, hf', _, _, hsep⟩ := hcols i hlt
    rw [hi] at hf'; cases hf'; exact hasFieldSep_eq_false.1 hsep
  have hall : AllAccepted C S fields := by
    intro i n cls sp f hp hsp hf
    have hlt : i < S.size := by
      by_cases hlt : i < S.cols.length
      · exact hlt
      · rw [List.getElem?_eq_none (by omega)] at hp; cases hp
    obtain ⟨c, f', hc, hf', hvalid, hren, _⟩ := hcols i hlt
    rw [hf] at hf'; cases hf'
    exact hvalid.render_accepted hSok hE htyped (hwf c (List.mem_of_getElem? hc)) hp hsp hren
  refine ⟨joinWith '\t' fields, by rw [hw'], ?_, ?_⟩
  · obtain ⟨r', h1, h2, _⟩ := fromLine_strict_accepts_gen hSok fields hflen hclean hall lineNo ['\n']
      (Or.inr (Or.inl rfl))
    exact ⟨r', h1, h2⟩
  · obtain ⟨r', h1, h2, _⟩ := fromLine_strict_accepts_gen hSok fields hflen hclean hall lineNo []
      (Or.inl rfl)
    rw [List.append_nil] at h1
    exact ⟨r', h1, h2⟩

/-! ### `close`: what a sorting writer emits -/

/-- `l` is the line emitted for the queued record `r`: `r` is rendered, the rendering is
    re-read by `from_line` in Strict mode (the sorter's codec) and the record read is rendered -/
def EmittedFor (C : Ctx) (scheme : Option Scheme) (names : Option (List Text)) (r : Record)
    (l : Text) : Prop :=
  ∃ t r' logs t', r.render C = .ok t ∧
    Record.fromLine C t names scheme none (some .strict) = .ok (r', logs) ∧
    r'.render C = .ok t' ∧ l = t' ++ ['\n']

theorem Writer.drain_spec (C : Ctx) (names : Option (List Text)) :
    ∀ (items : List (Key × Record)) (w : Writer),
      ∃ lines : List Text, (Writer.close.drain C names w items).1.out = w.out ++ lines ∧
        (Writer.close.drain C names w items).1.scheme = w.scheme ∧
        List.Forall₂ (fun (kr : Key × Record) l => EmittedFor C w.scheme names kr.2 l)
          (items.take lines.length) lines ∧
        ((Writer.close.drain C names w items).2 = .ok () → lines.length = items.length) := by
  intro items
  induction items with
  | nil => intro w; exact ⟨[], by simp [Writer.close.drain], rfl, by simp, fun _ => rfl⟩
  | cons kr rest ih =>
    intro w
    obtain ⟨k, r⟩ := kr
    unfold Writer.close.drain
    cases hrec : w.recode C names r with
    | error e => exact ⟨[], by simp, rfl, by simp, fun h => by simp at h⟩
    | ok r' =>
      simp only
      cases hr' : r'.render C with
      | error e => exact ⟨[], by simp, rfl, by simp, fun h => by simp at h⟩
      | ok t' =>
        simp only
        obtain ⟨lines, h1, h2, h3, h4⟩ := ih { w with out := w.out ++ [t' ++ ['\n']] }
        refine ⟨(t' ++ ['\n']) :: lines, ?_, ?_, ?_, ?_⟩
        · rw [h1]; simp
        · rw [h2]
        · simp only [List.length_cons, List.take_succ_cons]
          refine List.Forall₂.cons ?_ h3
          unfold Writer.recode at hrec
          cases hr : r.render C with
          | error e => rw [hr] at hrec; cases hrec
          | ok t =>
            rw [hr] at hrec
            simp only at hrec
            cases hf : Record.fromLine C t names w.scheme none (some .strict) with
            | error e => rw [hf] at hrec; cases hrec
            | ok p =>
              obtain ⟨r'', logs⟩ := p
              rw [hf] at hrec
              simp only [Except.ok.injEq] at hrec
              subst hrec
              exact ⟨t, r'', logs, t', hr, hf, hr', rfl⟩
        · intro hok
          simp [h4 hok]

/-- **what `close` emits.**  A non-sorting writer emits nothing at `close`.  A sorting writer
    appends lines to the handle; each line is the one emitted (through the Strict codec of the
    sorter) for a queued record, every queued record that could be keyed is emitted exactly
    once when `close` succeeds (the emitted records are a permutation of the keyed ones). -/
theorem Writer.close_spec (C : Ctx) (K : HConsts) (w : Writer) :
    (w.sorting = false → w.close C K = (w, .ok ())) ∧
    (w.sorting = true →
      ∃ (items : List (Key × Record)) (lines : List Text),
        (w.close C K).1.out = w.out ++ lines ∧
        items.Perm (w.queued.filterMap (fun r => match w.keyOf K r with
          | .ok k => some (k, r) | .error _ => none)) ∧
        List.Forall₂ (fun (kr : Key × Record) l =>
            EmittedFor C w.scheme (w.queued.head?.map (fun r =>
              r.keys.map (fun k => match k with | some t => t | none => "\x00<None>".toList))) kr.2 l)
          (items.take lines.length) lines ∧
        ((w.close C K).2 = .ok () → lines.length = items.length)) := by
  constructor
  · intro hs; simp [Writer.close, hs]
  · intro hs
    unfold Writer.close
    simp only [hs, Bool.not_true, Bool.false_eq_true, if_false]
    obtain ⟨lines, h1, _, h3, h4⟩ := Writer.drain_spec C
      (w.queued.head?.map (fun r =>
        r.keys.map (fun k => match k with | some t => t | none => "\x00<None>".toList)))
      (sortAll (fun (a b : Key × Record) => match keyLt a.1 b.1 with | .ok true => true | _ => false)
        10000 true
        (w.queued.filterMap (fun r => match w.keyOf K r with
          | .ok k => some (k, r) | .error _ => none))) w
    refine ⟨_, lines, h1, ?_, h3, h4⟩
    rw [SorterLemmas.sortAll_eq]
    exact (SorterLemmas.iter_perm _ _).trans (SorterLemmas.inv_run _ (by decide) _ _).content

end Model
