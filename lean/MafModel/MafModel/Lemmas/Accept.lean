/-
  Field-level refinement: for every named column type, acceptance by the
  operational model (resolved class record + hook chains) equals the flat
  domain specification `Spec.namedBuild`, for every text.
-/
import MafModel.Lemmas.Hooks
import MafModel.Lemmas.Expected
import MafModel.Spec.Domain
open Model Py Spec

namespace Accept

theorem nil_beq (t : Text) : (([] : Text) == t) = decide (t = []) := by
  cases t <;> simp

@[simp] theorem pyEq_none_atom (a : Atom) : PyVal.pyEq (.atom .none) (.atom a) = decide (a = .none) := by
  cases a <;> simp [PyVal.pyEq, Atom.pyEq]

@[simp] theorem pyEq_none_list (xs : List Atom) : PyVal.pyEq (.atom .none) (.list xs) = false := by
  simp [PyVal.pyEq]

@[simp] theorem pyEq_nil_list (xs : List Atom) : PyVal.pyEq (.list []) (.list xs) = decide (xs = []) := by
  cases xs <;> simp [PyVal.pyEq]

@[simp] theorem pyEq_nil_atom (a : Atom) : PyVal.pyEq (.list []) (.atom a) = false := by
  simp [PyVal.pyEq]

@[simp] theorem pyEq_enum_atom (c m : String) (a : Atom) :
    PyVal.pyEq (.atom (.enum c m)) (.atom a) = decide (a = .enum c m) := by
  cases a <;> simp [PyVal.pyEq, Atom.pyEq]
  rename_i c' m'
  by_cases h1 : c' = c <;> by_cases h2 : m' = m
  · subst h1; subst h2; simp
  · subst h1; simp [h2]; exact fun e => h2 e.symm
  · simp [h1]; exact fun e => absurd e.symm h1
  · simp [h1]; exact fun e => absurd e.symm h1

/-- the shape shared by all concrete column types: both `build` and `validate`
    are the ones of `MafCustomColumnRecord` -/
def acceptCustom (C : Ctx) (sp : ColSpec) (t : Text) : Option PyVal :=
  match sp.nullDict.bind (fun d => List.find? (fun p => p.1.toList == t) d) with
  | some p => if sp.valueInvalid p.2.toPy then none else some p.2.toPy
  | none => match runBuild C sp t with
    | .ok v => if sp.valueInvalid v then none else some v
    | .error _ => none

theorem accept_eq_custom (C : Ctx) (sp : ColSpec) (t : Text)
    (hb : sp.buildMethod = some "MafCustomColumnRecord") :
    sp.accept C false t = acceptCustom C sp t := by
  simp only [ColSpec.accept, ColSpec.buildValue, hb, acceptCustom]
  cases sp.nullDict.bind (fun d => List.find? (fun p => p.1.toList == t) d) with
  | some p => simp
  | none =>
    simp only []
    cases runBuild C sp t <;> simp

set_option linter.unusedSimpArgs false
def accOf {α β ε : Type} (f : α → Except ε β) (inv : β → Bool) (p : α) : Option β :=
  match f p with
  | .ok a => if inv a then none else some a
  | .error _ => none

def accAll {β ε : Type} (inv : β → Bool) (r : Except ε (List β)) : Option (List β) :=
  match r with
  | .ok xs => if xs.any inv then none else some xs
  | .error _ => none

theorem mapM_filter {α β ε : Type} (f : α → Except ε β) (inv : β → Bool) (l : List α) :
    accAll inv (l.mapM f) = l.mapM (accOf f inv) := by
  induction l with
  | nil => simp [accAll, pure, Except.pure]
  | cons p ps ih =>
    simp only [List.mapM_cons]
    cases hf : f p with
    | error e => simp [bind, Except.bind, accAll, accOf, hf]
    | ok a =>
      simp only [bind, Except.bind]
      cases hm : ps.mapM f with
      | error e =>
        rw [hm] at ih
        simp only [accAll] at ih
        by_cases hi : inv a <;> simp [accAll, accOf, hf, hi, ← ih]
      | ok xs =>
        rw [hm] at ih
        simp only [accAll] at ih
        by_cases hi : inv a
        · simp [accAll, accOf, hf, hi, pure, Except.pure]
        · simp [accAll, accOf, hf, hi, pure, Except.pure, ← ih]
          split <;> simp

theorem str_beq (s : String) (t : Text) : (s.toList == t) = decide (t = s.toList) := by
  by_cases h : t = s.toList
  · subst h; simp
  · simp [h]; exact fun e => h e.symm

theorem accept_NullableStringColumn (C : Ctx) (t : Text) :
    Expected.NullableStringColumn.accept C false t = namedBuild ⟨C.enums, C.H⟩ "NullableStringColumn" t := by
  rw [accept_eq_custom _ _ _ rfl]
  by_cases ht : t = [] <;>
    simp [acceptCustom, Expected.NullableStringColumn, namedBuild, nullOr, nil_beq, ht, ColSpec.valueInvalid,
      ColSpec.isNullValue, ColSpec.nullValues, NullVal.toPy, runBuild, Except.map, isInstanceStr]

theorem accept_StringColumn (C : Ctx) (t : Text) :
    Expected.StringColumn.accept C false t = namedBuild ⟨C.enums, C.H⟩ "StringColumn" t := by
  rw [accept_eq_custom _ _ _ rfl]
  by_cases ht : t = [] <;>
    simp [acceptCustom, Expected.StringColumn, namedBuild, nullOr, nil_beq, ht, ColSpec.valueInvalid,
      ColSpec.isNullValue, ColSpec.nullValues, NullVal.toPy, runBuild, Except.map, isInstanceStr, PyVal.truthy, Atom.truthy]

theorem accept_StringOrIntegerColumn (C : Ctx) (t : Text) :
    Expected.StringOrIntegerColumn.accept C false t = namedBuild ⟨C.enums, C.H⟩ "StringOrIntegerColumn" t := by
  rw [accept_eq_custom _ _ _ rfl]
  cases h : pyInt t <;>
    simp [acceptCustom, Expected.StringOrIntegerColumn, namedBuild, h, ColSpec.valueInvalid,
      ColSpec.isNullValue, ColSpec.nullValues, runBuild, Except.map, isInstanceStr, isInstanceInt, bStrInt]

theorem accept_StringIntegerOrFloatColumn (C : Ctx) (t : Text) :
    Expected.StringIntegerOrFloatColumn.accept C false t = namedBuild ⟨C.enums, C.H⟩ "StringIntegerOrFloatColumn" t := by
  rw [accept_eq_custom _ _ _ rfl]
  cases h : pyInt t <;> cases h2 : C.H.parse t <;>
    simp [acceptCustom, Expected.StringIntegerOrFloatColumn, namedBuild, h, h2, ColSpec.valueInvalid,
      ColSpec.isNullValue, ColSpec.nullValues, runBuild, Except.map, isInstanceStr, isInstanceInt, isInstanceFloat, bStrIntFloat]

attribute [local simp] acceptCustom namedBuild nullOr intAtLeast nil_beq ColSpec.valueInvalid
  ColSpec.isNullValue ColSpec.nullValues NullVal.toPy runBuild Except.map
  isInstanceStr isInstanceInt isInstanceFloat isInstanceBool isInstanceUuid PyVal.truthy Atom.truthy
  bInt bFloat bStrInt bStrIntFloat bEnum vEnum bCanonical bBoolean bUuid vDna vStrand vIntRange asInt
  lookupName plainEnums nullableEnums capEnums enumOf

theorem accept_IntegerColumn (C : Ctx) (t : Text) :
    Expected.IntegerColumn.accept C false t = namedBuild ⟨C.enums, C.H⟩ "IntegerColumn" t := by
  rw [accept_eq_custom _ _ _ rfl]
  cases h : pyInt t <;> simp [Expected.IntegerColumn, h]

theorem accept_NullableIntegerColumn (C : Ctx) (t : Text) :
    Expected.NullableIntegerColumn.accept C false t = namedBuild ⟨C.enums, C.H⟩ "NullableIntegerColumn" t := by
  rw [accept_eq_custom _ _ _ rfl]
  by_cases ht : t = [] <;> cases h : pyInt t <;> simp [Expected.NullableIntegerColumn, h, ht]

theorem accept_ZeroBasedIntegerColumn (C : Ctx) (t : Text) :
    Expected.ZeroBasedIntegerColumn.accept C false t = namedBuild ⟨C.enums, C.H⟩ "ZeroBasedIntegerColumn" t := by
  rw [accept_eq_custom _ _ _ rfl]
  cases h : pyInt t <;> simp [Expected.ZeroBasedIntegerColumn, h]
  rename_i i; by_cases h0 : (0:Int) ≤ i <;> simp [h0] <;> omega

theorem accept_OneBasedIntegerColumn (C : Ctx) (t : Text) :
    Expected.OneBasedIntegerColumn.accept C false t = namedBuild ⟨C.enums, C.H⟩ "OneBasedIntegerColumn" t := by
  rw [accept_eq_custom _ _ _ rfl]
  cases h : pyInt t <;> simp [Expected.OneBasedIntegerColumn, h]
  rename_i i; by_cases h0 : (1:Int) ≤ i <;> simp [h0] <;> omega

theorem accept_NullableZeroBasedIntegerColumn (C : Ctx) (t : Text) :
    Expected.NullableZeroBasedIntegerColumn.accept C false t = namedBuild ⟨C.enums, C.H⟩ "NullableZeroBasedIntegerColumn" t := by
  rw [accept_eq_custom _ _ _ rfl]
  by_cases ht : t = [] <;> cases h : pyInt t <;> simp [Expected.NullableZeroBasedIntegerColumn, h, ht]
  rename_i i; by_cases h0 : (0:Int) ≤ i <;> simp [h0] <;> omega

theorem accept_NullableOneBasedIntegerColumn (C : Ctx) (t : Text) :
    Expected.NullableOneBasedIntegerColumn.accept C false t = namedBuild ⟨C.enums, C.H⟩ "NullableOneBasedIntegerColumn" t := by
  rw [accept_eq_custom _ _ _ rfl]
  by_cases ht : t = [] <;> cases h : pyInt t <;> simp [Expected.NullableOneBasedIntegerColumn, h, ht]
  rename_i i; by_cases h0 : (1:Int) ≤ i <;> simp [h0] <;> omega

theorem accept_FloatColumn (C : Ctx) (t : Text) :
    Expected.FloatColumn.accept C false t = namedBuild ⟨C.enums, C.H⟩ "FloatColumn" t := by
  rw [accept_eq_custom _ _ _ rfl]
  cases h : C.H.parse t <;> simp [Expected.FloatColumn, h]

theorem accept_NullableFloatColumn (C : Ctx) (t : Text) :
    Expected.NullableFloatColumn.accept C false t = namedBuild ⟨C.enums, C.H⟩ "NullableFloatColumn" t := by
  rw [accept_eq_custom _ _ _ rfl]
  by_cases ht : t = [] <;> cases h : C.H.parse t <;> simp [Expected.NullableFloatColumn, h, ht]

theorem accept_TranscriptStrand (C : Ctx) (t : Text) :
    Expected.TranscriptStrand.accept C false t = namedBuild ⟨C.enums, C.H⟩ "TranscriptStrand" t := by
  rw [accept_eq_custom _ _ _ rfl]
  by_cases ht : t = [] <;> cases h : pyInt t <;> simp [Expected.TranscriptStrand, h, ht]
  rename_i i; by_cases h0 : i = -1 <;> by_cases h1 : i = 1 <;> simp [h0, h1]

theorem accept_Canonical (C : Ctx) (t : Text) :
    Expected.Canonical.accept C false t = namedBuild ⟨C.enums, C.H⟩ "Canonical" t := by
  rw [accept_eq_custom _ _ _ rfl]
  by_cases h1 : pyUpper t = [] <;> by_cases h2 : pyUpper t = ['Y', 'E', 'S'] <;> simp [Expected.Canonical, h1, h2]

theorem accept_BooleanColumn (C : Ctx) (t : Text) :
    Expected.BooleanColumn.accept C false t = namedBuild ⟨C.enums, C.H⟩ "BooleanColumn" t := by
  rw [accept_eq_custom _ _ _ rfl]
  by_cases h1 : pyUpper t = ['T', 'R', 'U', 'E'] <;> by_cases h2 : pyUpper t = ['F', 'A', 'L', 'S', 'E'] <;> simp [Expected.BooleanColumn, h1, h2]

theorem accept_UUIDColumn (C : Ctx) (t : Text) :
    Expected.UUIDColumn.accept C false t = namedBuild ⟨C.enums, C.H⟩ "UUIDColumn" t := by
  rw [accept_eq_custom _ _ _ rfl]
  cases h : pyUuid t <;> simp [Expected.UUIDColumn, h]

theorem accept_NullableUUIDColumn (C : Ctx) (t : Text) :
    Expected.NullableUUIDColumn.accept C false t = namedBuild ⟨C.enums, C.H⟩ "NullableUUIDColumn" t := by
  rw [accept_eq_custom _ _ _ rfl]
  by_cases ht : t = [] <;> cases h : pyUuid t <;> simp [Expected.NullableUUIDColumn, h, ht]

theorem accept_NullableDnaString (C : Ctx) (t : Text) :
    Expected.NullableDnaString.accept C false t = namedBuild ⟨C.enums, C.H⟩ "NullableDnaString" t := by
  rw [accept_eq_custom _ _ _ rfl]
  by_cases ht : t = [] <;> by_cases h1 : t = ['-'] <;> by_cases h2 : isDna t <;>
    simp_all [Expected.NullableDnaString, isDna]
  intro x hx a b c
  rcases h2 x hx with ((h | h) | h) | h <;> simp_all

theorem accept_DnaString (C : Ctx) (t : Text) :
    Expected.DnaString.accept C false t = namedBuild ⟨C.enums, C.H⟩ "DnaString" t := by
  rw [accept_eq_custom _ _ _ rfl]
  by_cases ht : t = [] <;> by_cases h1 : t = ['-'] <;> by_cases h2 : isDna t <;>
    simp_all [Expected.DnaString, isDna]
  intro x hx a b c
  rcases h2 x hx with ((h | h) | h) | h <;> simp_all

theorem mapM_ok_mem {α β ε : Type} (f : α → Except ε β) :
    ∀ (l : List α) (xs : List β), l.mapM f = .ok xs → ∀ a ∈ xs, ∃ p ∈ l, f p = .ok a := by
  intro l
  induction l with
  | nil => intro xs h; simp [pure, Except.pure] at h; subst h; simp
  | cons p ps ih =>
    intro xs h a ha
    simp only [List.mapM_cons, bind, Except.bind] at h
    cases hf : f p with
    | error e => simp [hf] at h
    | ok b =>
      cases hm : ps.mapM f with
      | error e => simp [hf, hm] at h
      | ok ys =>
        simp [hf, hm, pure, Except.pure] at h
        subst h
        simp at ha
        rcases ha with rfl | ha
        · exact ⟨p, by simp, hf⟩
        · obtain ⟨q, hq, hfq⟩ := ih ys hm a ha
          exact ⟨q, by simp [hq], hfq⟩

/-- an element the specification builds from a text without `;` is no text with `;` -/
theorem elemBuild_noSep (S : SCtx) (elem : String) (p : Text) (a : Atom)
    (h : elemBuild S elem p = some a) (hp : ';' ∉ p) : hasListSep a = false := by
  unfold elemBuild at h
  split at h
  · split at h
    · simp at h
    · simp at h; subst h; simpa [hasListSep] using hp
  · split at h
    · cases hi : pyInt p <;> simp [hi] at h; subst h; rfl
    · split at h
      · simp only [enumOf, Option.map] at h
        split at h <;> simp at h
        subst h; rfl
      · split at h
        · simp only [enumOf, Option.map] at h
          split at h <;> simp at h
          subst h; rfl
        · simp at h

/-- the sequence shape: null spelling `""` ↦ `[]`, otherwise split on `;` and
    build / validate each element with the element class -/
theorem accept_seq (C : Ctx) (sp : ColSpec) (es : ElemSpec) (elem : String) (t : Text)
    (hb : sp.buildMethod = some "MafCustomColumnRecord")
    (hv : sp.validateMethod = some "MafCustomColumnRecord")
    (hn : sp.nullDict = some [("", NullVal.emptyList)])
    (hbc : sp.buildChain = ["SequenceOfValuesColumn", "MafCustomColumnRecord"])
    (hvc : sp.validateChain = ["SequenceOfValuesColumn", "MafCustomColumnRecord"])
    (he : sp.elem = some es)
    (hfg : ∀ p, accOf (runBuildAtom C es.enumCls es.buildChain)
        (fun a => runValidate es.enumCls es.minV es.maxV (fun _ => true) es.validateChain (.atom a)) p
        = elemBuild ⟨C.enums, C.H⟩ elem p) :
    sp.accept C false t = seqOf ⟨C.enums, C.H⟩ elem t := by
  rw [accept_eq_custom _ _ _ hb]
  by_cases ht : t = []
  · simp [hn, hv, ht, seqOf]
  · have := mapM_filter (runBuildAtom C es.enumCls es.buildChain)
      (fun a => runValidate es.enumCls es.minV es.maxV (fun _ => true) es.validateChain (.atom a)) (splitOn ';' t)
    rw [funext hfg] at this
    simp only [seqOf, ht, if_false, ← this]
    simp only [acceptCustom, hn, hv, hbc, he, runBuild, bSeq]
    simp only [Option.bind, List.find?, String.toList_empty, nil_beq, ht, decide_false]
    cases hm : (splitOn ';' t).mapM (runBuildAtom C es.enumCls es.buildChain) with
    | error e => simp [accAll]
    | ok xs =>
      have hsep : ∀ a ∈ xs,
          runValidate es.enumCls es.minV es.maxV (fun _ => true) es.validateChain (.atom a) = false →
          hasListSep a = false := by
        intro a ha hva
        obtain ⟨p, hp, hfp⟩ := mapM_ok_mem _ _ _ hm a ha
        have h1 := hfg p
        simp only [accOf, hfp, hva] at h1
        exact elemBuild_noSep _ _ _ _ h1.symm (not_mem_of_mem_splitOn ';' t p hp)
      have hany : xs.any (fun a =>
            runValidate es.enumCls es.minV es.maxV (fun _ => true) es.validateChain (.atom a) || hasListSep a)
          = xs.any (fun a =>
            runValidate es.enumCls es.minV es.maxV (fun _ => true) es.validateChain (.atom a)) := by
        rw [Bool.eq_iff_iff, List.any_eq_true, List.any_eq_true]
        constructor
        · rintro ⟨a, ha, h⟩
          refine ⟨a, ha, ?_⟩
          cases hva : runValidate es.enumCls es.minV es.maxV (fun _ => true) es.validateChain (.atom a)
          · simp [hsep a ha hva, hva] at h
          · rfl
        · rintro ⟨a, ha, h⟩
          exact ⟨a, ha, by simp [h]⟩
      simp [ColSpec.elemInvalid, he, vSeq, accAll, hv, hn, hvc, hany]
      by_cases hx : xs = []
      · simp [hx]
      · simp [hx]; split <;> simp_all

theorem accept_SequenceOfStrings (C : Ctx) (t : Text) :
    Expected.SequenceOfStrings.accept C false t = namedBuild ⟨C.enums, C.H⟩ "SequenceOfStrings" t := by
  have := accept_seq C Expected.SequenceOfStrings _ "StringColumn" t rfl rfl rfl rfl rfl rfl (by
    intro p
    by_cases hp : p = [] <;> simp [accOf, elemBuild, hp])
  simpa using this

theorem accept_SequenceOfIntegers (C : Ctx) (t : Text) :
    Expected.SequenceOfIntegers.accept C false t = namedBuild ⟨C.enums, C.H⟩ "SequenceOfIntegers" t := by
  have := accept_seq C Expected.SequenceOfIntegers _ "IntegerColumn" t rfl rfl rfl rfl rfl rfl (by
    intro p
    cases hp : pyInt p <;> simp [accOf, elemBuild, hp])
  simpa using this

theorem accept_SequenceOfNullableYesOrNo (C : Ctx) (t : Text) :
    Expected.SequenceOfNullableYesOrNo.accept C false t = namedBuild ⟨C.enums, C.H⟩ "SequenceOfNullableYesOrNo" t := by
  have := accept_seq C Expected.SequenceOfNullableYesOrNo _ "NullableYesOrNo" t rfl rfl rfl rfl rfl rfl (by
    intro p
    cases hp : enumLookup C.enums "NullableYesOrNoEnum" (pyCapitalize p) <;> simp [accOf, elemBuild, hp])
  simpa using this

theorem accept_SequenceOfSequencers (C : Ctx) (t : Text) :
    Expected.SequenceOfSequencers.accept C false t = namedBuild ⟨C.enums, C.H⟩ "SequenceOfSequencers" t := by
  have := accept_seq C Expected.SequenceOfSequencers _ "Sequencer" t rfl rfl rfl rfl rfl rfl (by
    intro p
    cases hp : enumLookup C.enums "SequencerEnum" p <;> simp [accOf, elemBuild, hp])
  simpa using this

theorem accept_YesNoOrUnknown (C : Ctx) (t : Text) :
    Expected.YesNoOrUnknown.accept C false t = namedBuild ⟨C.enums, C.H⟩ "YesNoOrUnknown" t := by
  rw [accept_eq_custom _ _ _ rfl]
  cases h : enumLookup C.enums "YesNoOrUnknownEnum" t <;> simp [Expected.YesNoOrUnknown, h]

theorem accept_Strand (C : Ctx) (t : Text) :
    Expected.Strand.accept C false t = namedBuild ⟨C.enums, C.H⟩ "Strand" t := by
  rw [accept_eq_custom _ _ _ rfl]
  cases h : enumLookup C.enums "StrandEnum" t <;> simp [Expected.Strand, h]

theorem accept_VariantClassification (C : Ctx) (t : Text) :
    Expected.VariantClassification.accept C false t = namedBuild ⟨C.enums, C.H⟩ "VariantClassification" t := by
  rw [accept_eq_custom _ _ _ rfl]
  cases h : enumLookup C.enums "VariantClassificationEnum" t <;> simp [Expected.VariantClassification, h]

theorem accept_VariantType (C : Ctx) (t : Text) :
    Expected.VariantType.accept C false t = namedBuild ⟨C.enums, C.H⟩ "VariantType" t := by
  rw [accept_eq_custom _ _ _ rfl]
  cases h : enumLookup C.enums "VariantTypeEnum" t <;> simp [Expected.VariantType, h]

theorem accept_VariantSupport (C : Ctx) (t : Text) :
    Expected.VariantSupport.accept C false t = namedBuild ⟨C.enums, C.H⟩ "VariantSupport" t := by
  rw [accept_eq_custom _ _ _ rfl]
  cases h : enumLookup C.enums "VariantSupportEnum" t <;> simp [Expected.VariantSupport, h]

theorem accept_MutationStatus (C : Ctx) (t : Text) :
    Expected.MutationStatus.accept C false t = namedBuild ⟨C.enums, C.H⟩ "MutationStatus" t := by
  rw [accept_eq_custom _ _ _ rfl]
  cases h : enumLookup C.enums "MutationStatusEnum" t <;> simp [Expected.MutationStatus, h]

theorem accept_Sequencer (C : Ctx) (t : Text) :
    Expected.Sequencer.accept C false t = namedBuild ⟨C.enums, C.H⟩ "Sequencer" t := by
  rw [accept_eq_custom _ _ _ rfl]
  cases h : enumLookup C.enums "SequencerEnum" t <;> simp [Expected.Sequencer, h]

theorem accept_Impact (C : Ctx) (t : Text) :
    Expected.Impact.accept C false t = namedBuild ⟨C.enums, C.H⟩ "Impact" t := by
  rw [accept_eq_custom _ _ _ rfl]
  cases h : enumLookup C.enums "ImpactEnum" t <;> simp [Expected.Impact, h]

theorem accept_MC3Overlap (C : Ctx) (t : Text) :
    Expected.MC3Overlap.accept C false t = namedBuild ⟨C.enums, C.H⟩ "MC3Overlap" t := by
  rw [accept_eq_custom _ _ _ rfl]
  cases h : enumLookup C.enums "MC3OverlapEnum" t <;> simp [Expected.MC3Overlap, h]

theorem accept_GdcValidationStatus (C : Ctx) (t : Text) :
    Expected.GdcValidationStatus.accept C false t = namedBuild ⟨C.enums, C.H⟩ "GdcValidationStatus" t := by
  rw [accept_eq_custom _ _ _ rfl]
  cases h : enumLookup C.enums "GdcValidationStatusEnum" t <;> simp [Expected.GdcValidationStatus, h]

theorem accept_VerificationStatus (C : Ctx) (t : Text) :
    Expected.VerificationStatus.accept C false t = namedBuild ⟨C.enums, C.H⟩ "VerificationStatus" t := by
  rw [accept_eq_custom _ _ _ rfl]
  by_cases ht : t = [] <;> cases h : enumLookup C.enums "VerificationStatusEnum" t <;>
    simp [Expected.VerificationStatus, h, ht]

theorem accept_ValidationStatus (C : Ctx) (t : Text) :
    Expected.ValidationStatus.accept C false t = namedBuild ⟨C.enums, C.H⟩ "ValidationStatus" t := by
  rw [accept_eq_custom _ _ _ rfl]
  by_cases ht : t = [] <;> cases h : enumLookup C.enums "ValidationStatusEnum" t <;>
    simp [Expected.ValidationStatus, h, ht]

theorem accept_FeatureType (C : Ctx) (t : Text) :
    Expected.FeatureType.accept C false t = namedBuild ⟨C.enums, C.H⟩ "FeatureType" t := by
  rw [accept_eq_custom _ _ _ rfl]
  by_cases ht : t = [] <;> cases h : enumLookup C.enums "FeatureTypeEnum" t <;>
    simp [Expected.FeatureType, h, ht]

theorem accept_NullableYesOrNo (C : Ctx) (t : Text) :
    Expected.NullableYesOrNo.accept C false t = namedBuild ⟨C.enums, C.H⟩ "NullableYesOrNo" t := by
  rw [accept_eq_custom _ _ _ rfl]
  by_cases ht : t = [] <;> by_cases hn : t = ['N', 'u', 'l', 'l'] <;>
    cases h : enumLookup C.enums "NullableYesOrNoEnum" (pyCapitalize t) <;>
    simp [Expected.NullableYesOrNo, h, ht, hn, str_beq]

theorem accept_NullableYOrN (C : Ctx) (t : Text) :
    Expected.NullableYOrN.accept C false t = namedBuild ⟨C.enums, C.H⟩ "NullableYOrN" t := by
  rw [accept_eq_custom _ _ _ rfl]
  by_cases ht : t = [] <;> by_cases hn : t = ['N', 'u', 'l', 'l'] <;>
    cases h : enumLookup C.enums "NullableYOrNEnum" (pyCapitalize t) <;>
    simp [Expected.NullableYOrN, h, ht, hn, str_beq]

theorem accept_PickColumn (C : Ctx) (t : Text) :
    Expected.PickColumn.accept C false t = namedBuild ⟨C.enums, C.H⟩ "PickColumn" t := by
  rw [accept_eq_custom _ _ _ rfl]
  by_cases ht : t = [] <;> by_cases hn : t = ['N', 'u', 'l', 'l'] <;>
    cases h : enumLookup C.enums "PickEnum" (pyCapitalize t) <;>
    simp [Expected.PickColumn, h, ht, hn, str_beq]

/-- `EntrezGeneId`: zero, however spelled, is the null value -/
theorem accept_EntrezGeneId (C : Ctx) (t : Text) :
    Expected.EntrezGeneId.accept C false t = namedBuild ⟨C.enums, C.H⟩ "EntrezGeneId" t := by
  rw [accept_eq_custom _ _ _ rfl]
  by_cases ht : t = ['0']
  · subst ht
    have : pyInt ['0'] = some 0 := by decide
    simp [Expected.EntrezGeneId, str_beq, this]
  · cases h : pyInt t with
    | none => simp [Expected.EntrezGeneId, str_beq, ht, h, zeroIsNull]
    | some i =>
      by_cases h0 : i = 0
      · subst h0; simp [Expected.EntrezGeneId, str_beq, ht, h, zeroIsNull, Atom.pyEq]
      · simp [Expected.EntrezGeneId, str_beq, ht, h, zeroIsNull, Atom.pyEq, h0]
        by_cases h1 : (0:Int) ≤ i <;> simp [h1] <;> omega

end Accept
