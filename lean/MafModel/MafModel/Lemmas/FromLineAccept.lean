/-
  `MafRecord.from_line` on a line whose every field is accepted — for schemes whose classes
  are custom column types (they inherit `MafCustomColumnRecord.build`) *or* the unrestricted
  base class `MafColumnRecord` (`NoRestrictionsScheme`), in any mixture.  Generalises the
  acceptance half of `Lemmas/FromLineLemmas.lean` (which is about custom classes only).
  Used by C06.
-/
import MafModel.Lemmas.FromLineLemmas
import MafModel.Lemmas.TextLemmas
open Py
namespace Model

/-- is a plain `MafColumnRecord` an instance of the scheme class `cls`?  (the second argument
    of `ColSpec.accept`): only when the scheme class is `MafColumnRecord` itself -/
def plainOk (cls : String) : Bool := cls == "MafColumnRecord"

/-- the hypotheses on the scheme, generalised: distinct names, at least one column, and every
    class resolves, is a subclass of itself, and is either a custom column type (inherits
    `MafCustomColumnRecord.build`) or the base class `MafColumnRecord` inheriting neither the
    custom `build` nor the custom `validate` -/
structure SchemeOKGen (C : Ctx) (S : Scheme) : Prop where
  nodup : S.names.Nodup
  pos : S.size > 0
  cls_ok : ∀ p ∈ S.cols, ∃ sp, resolveSpec C.tbl p.2 = some sp ∧ isSubclass C p.2 p.2 = true ∧
    ((p.2 ≠ "MafColumnRecord" ∧ sp.buildMethod = some "MafCustomColumnRecord") ∨
     (p.2 = "MafColumnRecord" ∧ sp.buildMethod = some "MafColumnRecord" ∧
        sp.validateMethod ≠ some "MafCustomColumnRecord"))

/-- the hypotheses of the record-level theorems of C01 are the special case without
    `MafColumnRecord` columns -/
theorem SchemeOK.gen {C : Ctx} {S : Scheme} (h : SchemeOK C S)
    (hbase : ∀ p ∈ S.cols, p.2 ≠ "MafColumnRecord") : SchemeOKGen C S where
  nodup := h.nodup
  pos := h.pos
  cls_ok := by
    intro p hp
    obtain ⟨sp, h1, h2, h3⟩ := h.cls_ok p hp
    exact ⟨sp, h1, h3, Or.inl ⟨hbase p hp, h2⟩⟩

theorem SchemeOKGen.truthy {C : Ctx} {S : Scheme} (h : SchemeOKGen C S) : S.truthy = true := by
  simp [Scheme.truthy, h.pos]

/-- an accepted field: what was built, and that it passes the value check -/
theorem accept_some_cases {C : Ctx} {sp : ColSpec} {b : Bool} {f : Text} {v : PyVal}
    (h : sp.accept C b f = some v) :
    (sp.buildValue C f = .ok (.inl v) ∧ sp.valueInvalid v = false) ∨
    (sp.buildValue C f = .ok (.inr ()) ∧ b = true ∧ v = .atom (.str f)) := by
  unfold ColSpec.accept at h
  split at h
  · rename_i v' hv
    by_cases hi : sp.valueInvalid v' = true
    · simp [hi] at h
    · simp only [hi, Bool.false_eq_true, if_false, Option.some.injEq] at h
      subst h
      exact Or.inl ⟨hv, by simpa using hi⟩
  · rename_i hv
    cases b with
    | false => simp at h
    | true =>
      simp only [if_true, Option.some.injEq] at h
      exact Or.inr ⟨hv, rfl, h.symm⟩
  · cases h

theorem valueInvalid_of_not_custom {sp : ColSpec} (h : sp.validateMethod ≠ some "MafCustomColumnRecord")
    (v : PyVal) : sp.valueInvalid v = false := by
  unfold ColSpec.valueInvalid
  split
  · rename_i heq; exact absurd heq h
  · rfl

/-- one iteration of the loop of `from_line`, for an accepted field of the `i`-th column -/
theorem fromLineStep_accept {C : Ctx} {S : Scheme} (hS : SchemeOKGen C S) (lineNo : Option Nat)
    (r : Record) {i : Nat} {n cls : String} {sp : ColSpec} (f : Text) {v : PyVal}
    (hp : S.cols[i]? = some (n, cls)) (hsp : resolveSpec C.tbl cls = some sp)
    (ha : sp.accept C (plainOk cls) f = some v) :
    fromLineStep C (some S) lineNo (.ok (r, i)) (n.toList, f) =
      (match r.setItem (.name n.toList) (fieldCol i n cls v) with
       | (r2, .ok ()) => .ok (r2, i + 1)
       | (_, .error e) => .error e)
    ∧ (fieldCol i n cls v).col.validate C none none = [] := by
  obtain ⟨sp', hsp', hsub, hcase⟩ := hS.cls_ok _ (List.mem_of_getElem? hp)
  simp only at hsp' hsub hcase
  rw [hsp] at hsp'; cases hsp'
  have hfil : (some S).filter Scheme.truthy = some S := by
    simp [Option.filter, hS.truthy]
  have hcc := Scheme.columnClass_of_getElem? hS.nodup hp
  have hci := Scheme.columnIndex_of_getElem? hS.nodup hp
  -- in both cases the column built is `fieldCol i n cls v`, and its value is valid
  have hbuilt : buildColumn C cls n.toList f (some (i : Int)) = .ok (fieldCol i n cls v).col
      ∧ sp.valueInvalid v = false := by
    rcases accept_some_cases ha with ⟨hb, hv⟩ | ⟨hb, _, hv⟩
    · exact ⟨by simp [buildColumn, hsp, hb, fieldCol], hv⟩
    · rcases hcase with ⟨_, hcust⟩ | ⟨hcls, _, hval⟩
      · rcases buildValue_custom_cases C sp f hcust with ⟨v', hv'⟩ | ⟨e, he⟩
        · rw [hv'] at hb; cases hb
        · rw [he] at hb; cases hb
      · subst hv
        subst hcls
        refine ⟨?_, valueInvalid_of_not_custom hval _⟩
        simp [buildColumn, hsp, hb, fieldCol]
  have hval : Column.valueInvalid C (fieldCol i n cls v).col = false := by
    simp [Column.valueInvalid, fieldCol, hsp, hbuilt.2]
  have hsch : Column.schemeErrors C (fieldCol i n cls v).col (some S) lineNo = [] := by
    simp [Column.schemeErrors, fieldCol, hfil, String.ofList_toList, hcc, hci, hsub]
  constructor
  · unfold fromLineStep
    simp only [hfil, Option.bind_some, String.ofList_toList, hcc, hbuilt.1]
    simp only [Column.validate, hval, hsch, List.append_nil, Bool.false_eq_true, if_false,
      List.map_nil, List.isEmpty_nil, if_true]
    rfl
  · simp [Column.validate, hval, Column.schemeErrors]

/-! ### the record built from a line whose fields are all accepted -/

/-- the column stored at position `i` -/
def accCol (C : Ctx) (S : Scheme) (fields : List Text) (i : Nat) : RCol :=
  match S.cols[i]?, fields[i]? with
  | some p, some f =>
    match resolveSpec C.tbl p.2 with
    | some sp =>
      match sp.accept C (plainOk p.2) f with
      | some v => fieldCol i p.1 p.2 v
      | none => default
    | none => default
  | _, _ => default

/-- the record after the first `k` fields -/
def accRec (C : Ctx) (S : Scheme) (fields : List Text) (lineNo : Option Nat) (m : Mode) (k : Nat) :
    Record :=
  { dict := (List.range k).map (fun i => ((accCol C S fields i).col.key, accCol C S fields i))
    slots := (List.range k).map (fun i => some (accCol C S fields i))
    errors := []
    line := lineNo
    mode := m }

theorem setSlot_length_self (l : List (Option RCol)) (x : RCol) :
    setSlot l l.length x = l ++ [some x] := by
  apply List.ext_getElem?
  intro i
  by_cases hi : i = l.length
  · subst hi
    rw [setSlot_getElem?_self]; simp
  · rw [setSlot_getElem?_ne _ _ _ _ hi, List.getElem?_append]
    by_cases h1 : i < l.length
    · simp [h1]
    · have : i - l.length ≠ 0 := by omega
      rw [if_neg h1, List.getElem?_eq_none (by omega)]
      cases hh : i - l.length with
      | zero => exact absurd hh this
      | succ m => simp; omega

/-- every field is accepted by the class of its column -/
def AllAccepted (C : Ctx) (S : Scheme) (fields : List Text) : Prop :=
  ∀ (i : Nat) (n cls : String) (sp : ColSpec) (f : Text),
    S.cols[i]? = some (n, cls) → resolveSpec C.tbl cls = some sp → fields[i]? = some f →
    (sp.accept C (plainOk cls) f).isSome = true

theorem accCol_eq {C : Ctx} {S : Scheme} {fields : List Text} (hall : AllAccepted C S fields)
    {i : Nat} {n cls : String} {sp : ColSpec} {f : Text} (hp : S.cols[i]? = some (n, cls))
    (hf : fields[i]? = some f) (hsp : resolveSpec C.tbl cls = some sp) :
    ∃ v, sp.accept C (plainOk cls) f = some v ∧ accCol C S fields i = fieldCol i n cls v := by
  have := hall i n cls sp f hp hsp hf
  cases ha : sp.accept C (plainOk cls) f with
  | none => rw [ha] at this; cases this
  | some v => exact ⟨v, rfl, by simp [accCol, hp, hf, hsp, ha]⟩

theorem fromLine_loop_accept {C : Ctx} {S : Scheme} (hS : SchemeOKGen C S) (fields : List Text)
    (hlen : fields.length = S.size) (hall : AllAccepted C S fields)
    (lineNo : Option Nat) (m : Mode) (k : Nat) (hk : k ≤ S.size) :
    (((S.names.map String.toList).zip fields).take k).foldl (fromLineStep C (some S) lineNo)
        (.ok ({ line := lineNo, mode := m }, 0)) = .ok (accRec C S fields lineNo m k, k)
      ∧ (accRec C S fields lineNo m k).Inv
      ∧ ∀ c, some c ∈ (accRec C S fields lineNo m k).slots → c.col.validate C none none = [] := by
  induction k with
  | zero =>
    refine ⟨?_, ?_, ?_⟩
    · simp [accRec]
    · exact Record.Inv.init.of_eq (by simp [accRec]) (by simp [accRec])
    · intro c hc; simp [accRec] at hc
  | succ k ih =>
    obtain ⟨ih1, ih2, ih3⟩ := ih (by omega)
    have hk' : k < S.cols.length := by simp only [Scheme.size] at hk; omega
    have hkf : k < fields.length := by rw [hlen]; exact hk'
    obtain ⟨⟨n, cls⟩, hp⟩ : ∃ p, S.cols[k]? = some p := ⟨_, List.getElem?_eq_getElem hk'⟩
    obtain ⟨f, hf⟩ : ∃ f, fields[k]? = some f := ⟨_, List.getElem?_eq_getElem hkf⟩
    obtain ⟨sp, hsp, _, _⟩ := hS.cls_ok _ (List.mem_of_getElem? hp)
    simp only at hsp
    obtain ⟨v, ha, hcol⟩ := accCol_eq hall hp hf hsp
    have hz : ((S.names.map String.toList).zip fields)[k]? = some (n.toList, f) := by
      rw [List.getElem?_zip_eq_some]
      simp [Scheme.names, List.getElem?_map, hp, hf]
    rw [List.take_add_one, List.foldl_append, ih1, hz]
    simp only [Option.toList_some, List.foldl_cons, List.foldl_nil]
    obtain ⟨hstep, hvalid⟩ := fromLineStep_accept hS lineNo (accRec C S fields lineNo m k) f hp hsp ha
    rw [hstep]
    -- the name is fresh
    have hfresh : tdictGet (accRec C S fields lineNo m k).dict (fieldCol k n cls v).col.key = none := by
      rw [tdictGet_eq_none_iff]
      intro hmem
      simp only [accRec, List.map_map, List.mem_map, List.mem_range, Function.comp] at hmem
      obtain ⟨j, hj, hjk⟩ := hmem
      have hj' : j < S.cols.length := by omega
      obtain ⟨⟨n', cls'⟩, hp'⟩ : ∃ p, S.cols[j]? = some p := ⟨_, List.getElem?_eq_getElem hj'⟩
      obtain ⟨f', hf'⟩ : ∃ f, fields[j]? = some f := ⟨_, List.getElem?_eq_getElem (by omega)⟩
      obtain ⟨sp', hsp', _, _⟩ := hS.cls_ok _ (List.mem_of_getElem? hp')
      obtain ⟨v', _, hcol'⟩ := accCol_eq hall hp' hf' hsp'
      rw [hcol'] at hjk
      have : n'.toList = n.toList := hjk
      have := Scheme.name_inj hS.nodup hp' hp (String.toList_inj.1 this)
      omega
    have hsl : (accRec C S fields lineNo m k).slots.length = k := by simp [accRec]
    have hset := setItem_name_fresh (accRec C S fields lineNo m k) (fieldCol k n cls v) k hfresh rfl
      (by omega)
    have hkey : (fieldCol k n cls v).col.key = n.toList := rfl
    rw [hkey] at hset
    have hinv := ih2.setItem (.name n.toList) (fieldCol k n cls v)
    rw [hset] at hinv
    simp only [hset]
    have hd : (accRec C S fields lineNo m (k + 1)).dict =
        (accRec C S fields lineNo m k).dict ++ [(n.toList, fieldCol k n cls v)] := by
      simp [accRec, List.range_succ, hcol, fieldCol]
    have hss : setSlot (accRec C S fields lineNo m k).slots k (fieldCol k n cls v) =
        (accRec C S fields lineNo m k).slots ++ [some (fieldCol k n cls v)] := by
      have := setSlot_length_self (accRec C S fields lineNo m k).slots (fieldCol k n cls v)
      rwa [hsl] at this
    have hs : (accRec C S fields lineNo m (k + 1)).slots =
        setSlot (accRec C S fields lineNo m k).slots k (fieldCol k n cls v) := by
      rw [hss]
      simp [accRec, List.range_succ, hcol]
    refine ⟨?_, hinv.of_eq hd hs, ?_⟩
    · simp only [Except.ok.injEq, Prod.mk.injEq, and_true]
      rw [← hd, ← hs]
      rfl
    · intro c hc
      rw [hs, hss] at hc
      rcases List.mem_append.1 hc with hc | hc
      · exact ih3 c hc
      · simp only [List.mem_singleton, Option.some.injEq] at hc
        subst hc
        exact hvalid

/-- **a line made of `S.size` TAB/CR/LF-free fields, each accepted by the class of its column,
    is accepted by a Strict reader**: `from_line` returns a record without any error and logs
    nothing — with or without the line terminator.  Scheme classes may be custom column types
    or the unrestricted `MafColumnRecord`. -/
theorem fromLine_strict_accepts_gen {C : Ctx} {S : Scheme} (hS : SchemeOKGen C S)
    (fields : List Text) (hlen : fields.length = S.size)
    (hclean : ∀ f ∈ fields, ∀ c ∈ f, c ≠ '\t' ∧ c ≠ '\n' ∧ c ≠ '\r')
    (hall : AllAccepted C S fields)
    (lineNo : Option Nat) (term : Text) (hterm : term = [] ∨ term = ['\n'] ∨ term = ['\r', '\n']) :
    ∃ r', Record.fromLine C (joinWith '\t' fields ++ term) none (some S) lineNo (some .strict)
        = .ok (r', []) ∧ r'.errors = [] ∧ r'.slots.length = S.size := by
  have hne : fields ≠ [] := by
    intro e; have := hS.pos; rw [e] at hlen; simp at hlen; omega
  have hcl : ∀ c ∈ joinWith '\t' fields, c ≠ '\r' ∧ c ≠ '\n' :=
    joinWith_tab_clean fields (fun f hf c hc => ⟨(hclean f hf c hc).2.2, (hclean f hf c hc).2.1⟩)
  have hstrip : rstripCRLF (joinWith '\t' fields ++ term) = joinWith '\t' fields := by
    rcases hterm with rfl | rfl | rfl
    · rw [List.append_nil]; exact rstripCRLF_of_clean _ hcl
    · exact (rstripCRLF_append_lf _ hcl).1
    · exact (rstripCRLF_append_lf _ hcl).2.1
  have hfields : splitOn '\t' (rstripCRLF (joinWith '\t' fields ++ term)) = fields := by
    rw [hstrip]
    exact splitOn_tab_join fields hne (fun f hf hc => (hclean f hf _ hc).1 rfl)
  rw [fromLine_eq]
  simp only [hfields]
  have hn : ¬ ((S.names.map String.toList).length ≠ fields.length) := by
    simp [Scheme.names, hlen, Scheme.size]
  simp only [hn, if_false]
  obtain ⟨h1, h2, h3⟩ := fromLine_loop_accept hS fields hlen hall lineNo (modeOrSilent (some .strict))
    S.size (Nat.le_refl _)
  rw [List.take_of_length_le (by simp [Scheme.names, hlen, Scheme.size])] at h1
  rw [h1]
  simp only
  rw [validate_spec C _ h2 h3]
  have hnv : noValueErrs (accRec C S fields lineNo (modeOrSilent (some .strict)) S.size).line
      (accRec C S fields lineNo (modeOrSilent (some .strict)) S.size).slots = [] := by
    rw [noValueErrs_eq_nil_iff]
    simp [accRec]
  rw [hnv]
  simp only [accRec, List.append_nil, modeOrSilent, processErrors]
  exact ⟨_, rfl, rfl, by simp⟩

end Model
