/-
  The whole-file reading under the three stringencies, related to the Silent run:
  Lenient is the Silent run plus log records; Strict is the Silent run up to its first error.
-/
import MafModel.Lemmas.ReaderLemmas
import MafModel.Lemmas.ReaderHeader
open Py
namespace Model

/-! ### non-format exceptions -/

/-- not a `MafFormatException` -/
def _root_.Py.PyErr.notFormat : PyErr → Prop
  | .format _ _ => False
  | _ => True

theorem setItem_error_notFormat (r : Record) (k : RKey) (x : RCol) {e : PyErr}
    (h : (r.setItem k x).2 = .error e) : e.notFormat := by
  unfold Record.setItem at h
  simp only [] at h
  split at h
  · rename_i e1 h1
    cases h
    repeat' (first | (cases h1; exact trivial) | (cases h1; done) | split at h1)
  · rename_i x1 h1
    split at h
    · rename_i e3 h3
      cases h
      split at h3
      · rename_i e2 h2
        cases h3
        repeat' (first | (cases h2; exact trivial) | (cases h2; done) | split at h2)
      · repeat' (first | (cases h3; exact trivial) | (cases h3; done) | split at h3)
    · split at h
      · cases h; exact trivial
      · split at h
        · cases h
        · rename_i e4 h4
          cases h
          unfold listSetPy at h4
          repeat' (first | (cases h4; exact trivial) | (cases h4; done) | split at h4 | simp only [] at h4)

theorem fieldStep_error_notFormat {C : Ctx} {sch : Option Scheme} {ln : Option Nat} {r : Record} {i : Nat}
    {name value : Text} {e : PyErr} (h : fieldStep C sch ln r i name value = .error e) : e.notFormat := by
  unfold fieldStep at h
  split at h
  · cases h
  · simp only [] at h
    split at h
    · split at h
      · cases h
      · rename_i r2 e' heq
        cases h
        exact setItem_error_notFormat _ _ _ (by rw [heq])
    · cases h

theorem foldl_fromLineStep_error_notFormat {C : Ctx} {sch : Option Scheme} {ln : Option Nat}
    (nvs : List (Text × Text)) (r : Record) (i : Nat) {e : PyErr}
    (h : nvs.foldl (fromLineStep C sch ln) (.ok (r, i)) = .error e) : e.notFormat := by
  induction nvs generalizing r i with
  | nil => cases h
  | cons nv nvs ih =>
    rw [List.foldl_cons] at h
    change List.foldl _ (fieldStep C sch ln r i nv.1 nv.2) nvs = _ at h
    cases hf : fieldStep C sch ln r i nv.1 nv.2 with
    | error e' =>
      rw [hf, foldl_fromLineStep_error] at h
      cases h
      exact fieldStep_error_notFormat hf
    | ok q => rw [hf] at h; exact ih q.1 q.2 h

/-- **parsing never raises a `MafFormatException`**: the exception that aborts the
    stringency-independent parse of a line is a `ValueError`, `TypeError`, … (raised by `record[name] = column`) -/
theorem parsedLine_error_notFormat {C : Ctx} {line : Text} {cn : Option (List Text)} {sch : Option Scheme}
    {ln : Option Nat} {e : PyErr} (h : parsedLine C line cn sch ln = .error e) : e.notFormat := by
  unfold parsedLine at h
  split at h
  · rename_i e' hpre
    cases h
    unfold preRecord at hpre
    split at hpre
    · cases hpre; exact trivial
    · simp only [] at hpre
      split at hpre
      · cases hpre
      · split at hpre
        · rename_i e'' hf
          cases hpre
          exact foldl_fromLineStep_error_notFormat _ _ _ hf
        · cases hpre
  · cases h


theorem cmpKV_error {a b : KV} {e : PyErr} (h : cmpKV a b = .error e) : e = .type := by
  rcases Classical.em (KV.Compat a b) with hc | hc
  · rw [cmpKV_eq_cmp hc] at h; cases h
  · rw [cmpKV_incompat hc] at h; cases h; rfl

theorem cmpKey_error {a b : Key} {e : PyErr} (h : cmpKey a b = .error e) : e = .type := by
  unfold cmpKey at h
  simp only [bind, Except.bind, pure, Except.pure] at h
  repeat' (first | (cases h; done) | split at h)
  all_goals (first | exact cmpKV_error h | (cases h; rename_i h'; exact cmpKV_error h'))

theorem keyLt_error {a b : Key} {e : PyErr} (h : keyLt a b = .error e) : e = .type := by
  unfold keyLt at h
  cases hc : cmpKey a b with
  | error e' => rw [hc] at h; cases h; exact cmpKey_error hc
  | ok d => rw [hc] at h; cases h

theorem mkKey_error_notFormat {o : Order} {cs : List Text} {l : Loc} {e : PyErr}
    (h : mkKey o cs l = .error e) : e.notFormat := by
  rcases mkKey_error_kind h with rfl | rfl <;> exact trivial

/-- the order checker never raises a `MafFormatException` -/
theorem Checker.add_error_notFormat {c : Checker} {l : Loc} {e : PyErr} (h : c.add l = .error e) :
    e.notFormat := by
  unfold Checker.add at h
  split at h
  · cases h
  · split at h
    · cases h
    · rename_i e' _ hk; cases h; exact mkKey_error_notFormat hk
    · split at h
      · cases h
      · split at h
        · rename_i e' hk; cases h; exact mkKey_error_notFormat hk
        · split at h
          · rename_i e' hk; cases h; rw [keyLt_error hk]; exact trivial
          · cases h; exact trivial
          · cases h

theorem Checker.addRecord_error_notFormat {c : Checker} {rec : Record} {e : PyErr}
    (h : c.addRecord rec = .error e) : e.notFormat := by
  unfold Checker.addRecord at h
  simp only [] at h
  split at h
  · exact Checker.add_error_notFormat h
  · split at h
    · cases h
    · split at h
      · cases h; exact trivial
      · cases h

theorem Checker.addRecord_congr (c : Checker) {a b : Record} (h : a.dict = b.dict) :
    c.addRecord a = c.addRecord b := by
  unfold Checker.addRecord
  rw [toLoc_congr h, h]



/-! ### the same reading under another stringency -/

/-- `rM` is the reader `rS` under stringency `m`: everything agrees but the stringency fields
    (and the log, which is accounted for separately) -/
structure ModeRel (m : Mode) (rS rM : Reader) : Prop where
  src : rM.src = rS.src
  pulled : rM.pulled = rS.pulled
  next : rM.next = rS.next
  lineNo : rM.lineNo = rS.lineNo
  header : rM.header = rS.header.withMode m
  scheme : rM.scheme = rS.scheme
  errors : rM.errors = rS.errors
  mode : rM.mode = m

/-- the record `__next__` returns for the parsed line `prec` -/
def recOf (m : Mode) (n : Nat) (prec : Record) : Record :=
  { prec.withMode m with errors := stamp n prec.errors }

/-- the reader after `__next__` has returned the record of the parsed line `prec` -/
def stepOf (r : Reader) (prec : Record) (lg : List LogRec) : Reader :=
  { r.advance with errors := r.errors ++ stamp r.lineNo prec.errors, logs := r.logs ++ lg }

theorem recOf_withMode (m m' : Mode) (n : Nat) (prec : Record) :
    (recOf m n prec).withMode m' = recOf m' n prec := rfl

theorem recOf_dict (m : Mode) (n : Nat) (prec : Record) : (recOf m n prec).dict = prec.dict := rfl

theorem ModeRel.step {m : Mode} {rS rM : Reader} (h : ModeRel m rS rM) (prec : Record)
    (lgS lgM : List LogRec) : ModeRel m (stepOf rS prec lgS) (stepOf rM prec lgM) := by
  refine ⟨?_, ?_, ?_, ?_, ?_, ?_, ?_, ?_⟩
  · simp [stepOf, h.src]
  · simp [stepOf, h.pulled]
  · simp [stepOf, h.src]
  · simp [stepOf, advance_lineNo, h.src, h.lineNo]
  · simp [stepOf, h.header]
  · simp [stepOf, h.scheme]
  · simp [stepOf, h.errors, h.lineNo]
  · simp [stepOf, h.mode]

theorem nextRecord_some' {C : Ctx} {r : Reader} {l : Text} (h : r.next = some l) :
    r.nextRecord C =
      match parsedLine C l none r.scheme (some r.lineNo) with
      | .error e => .error e
      | .ok prec =>
        match processErrors r.mode prec.errors with
        | .error e => .error e
        | .ok lg => .ok (some (recOf r.mode r.lineNo prec, stepOf r prec lg)) :=
  nextRecord_some h

/-- the records and the errors of an iteration only grow -/
theorem iterate_extends {C : Ctx} {K : HConsts} :
    ∀ (fuel : Nat) (r : Reader) (chk : Checker) (acc : List Record),
      ∃ more new, (Reader.iterate C K fuel r chk acc).1 = acc ++ more ∧
        (Reader.iterate C K fuel r chk acc).2.2.errors = r.errors ++ new := by
  intro fuel
  induction fuel with
  | zero => intro r chk acc; exact ⟨[], [], by simp [Reader.iterate], by simp [Reader.iterate]⟩
  | succ fuel ih =>
    intro r chk acc
    unfold Reader.iterate
    cases hnr : r.nextRecord C with
    | error e => exact ⟨[], [], by simp, by simp⟩
    | ok o =>
      cases o with
      | none => exact ⟨[], [], by simp, by simp⟩
      | some p =>
        obtain ⟨rec, r'⟩ := p
        obtain ⟨l, prec, lg, _, _, _, _, hr'⟩ := nextRecord_ok hnr
        have he : r'.errors = r.errors ++ stamp r.lineNo prec.errors := by rw [hr']
        simp only []
        cases chk.addRecord rec with
        | error e => exact ⟨[], _, by simp, he⟩
        | ok chk' =>
          simp only []
          obtain ⟨more, new, h1, h2⟩ := ih r' chk' (acc ++ [rec])
          exact ⟨rec :: more, stamp r.lineNo prec.errors ++ new, by rw [h1]; simp, by rw [h2, he]; simp⟩

/-- **Lenient (or Silent) against Silent**: the same records (up to the stringency field), the same
    outcome, the same collected errors; the Silent run logs nothing, the other one logs
    `errLogs m` of every newly collected error, in order -/
theorem iterate_nonstrict {C : Ctx} {K : HConsts} {m : Mode} (hm : m ≠ .strict) :
    ∀ (fuel : Nat) (rS rM : Reader) (chk : Checker) (acc : List Record),
      ModeRel m rS rM → rS.mode = .silent →
      (Reader.iterate C K fuel rM chk (acc.map (·.withMode m))).1 =
        (Reader.iterate C K fuel rS chk acc).1.map (·.withMode m) ∧
      (Reader.iterate C K fuel rM chk (acc.map (·.withMode m))).2.1 =
        (Reader.iterate C K fuel rS chk acc).2.1 ∧
      ModeRel m (Reader.iterate C K fuel rS chk acc).2.2
        (Reader.iterate C K fuel rM chk (acc.map (·.withMode m))).2.2 ∧
      (Reader.iterate C K fuel rS chk acc).2.2.mode = .silent ∧
      (Reader.iterate C K fuel rS chk acc).2.2.logs = rS.logs ∧
      ∃ new, (Reader.iterate C K fuel rS chk acc).2.2.errors = rS.errors ++ new ∧
        (Reader.iterate C K fuel rM chk (acc.map (·.withMode m))).2.2.logs = rM.logs ++ errLogs m new := by
  intro fuel
  induction fuel with
  | zero =>
    intro rS rM chk acc h hS
    exact ⟨rfl, rfl, h, hS, rfl, [], by simp [Reader.iterate], by simp [Reader.iterate]⟩
  | succ fuel ih =>
    intro rS rM chk acc h hS
    unfold Reader.iterate
    cases hn : rS.next with
    | none =>
      have hn' : rM.next = none := by rw [h.next, hn]
      rw [nextRecord_none hn, nextRecord_none hn']
      exact ⟨rfl, rfl, h, hS, rfl, [], by simp, by simp⟩
    | some l =>
      have hn' : rM.next = some l := by rw [h.next, hn]
      rw [nextRecord_some' hn, nextRecord_some' hn', h.scheme, h.lineNo, h.mode, hS]
      cases hp : parsedLine C l none rS.scheme (some rS.lineNo) with
      | error e => exact ⟨rfl, rfl, h, hS, rfl, [], by simp, by simp⟩
      | ok prec =>
        simp only [processErrors_silent, processErrors_nonstrict hm]
        rw [Checker.addRecord_congr chk (a := recOf m rS.lineNo prec) (b := recOf .silent rS.lineNo prec) rfl]
        have hrel := h.step prec [] (errLogs m prec.errors)
        cases hadd : chk.addRecord (recOf .silent rS.lineNo prec) with
        | error e =>
          refine ⟨rfl, rfl, hrel, by simp [stepOf, hS], by simp [stepOf], stamp rS.lineNo prec.errors,
            by simp [stepOf], ?_⟩
          simp [stepOf, errLogs_stamp]
        | ok chk' =>
          simp only []
          have hacc : acc.map (·.withMode m) ++ [recOf m rS.lineNo prec]
              = (acc ++ [recOf .silent rS.lineNo prec]).map (·.withMode m) := by
            simp [recOf_withMode]
          rw [hacc]
          obtain ⟨h1, h2, h3, h4, h5, new, h6, h7⟩ := ih (stepOf rS prec []) (stepOf rM prec (errLogs m prec.errors))
            chk' (acc ++ [recOf .silent rS.lineNo prec]) hrel (by simp [stepOf, hS])
          refine ⟨h1, h2, h3, h4, by rw [h5]; simp [stepOf], stamp rS.lineNo prec.errors ++ new, ?_, ?_⟩
          · rw [h6]; simp [stepOf]
          · rw [h7]; simp [stepOf, errLogs_append, errLogs_stamp]

/-- **Strict against Silent**, from a state without errors: as long as the Silent run collects no
    error the two runs agree; as soon as it collects one, the Strict run raises exactly that first
    error (type and line number) and has yielded the records before it -/
theorem iterate_strict {C : Ctx} {K : HConsts} :
    ∀ (fuel : Nat) (rS rT : Reader) (chk : Checker) (acc : List Record),
      ModeRel .strict rS rT → rS.mode = .silent → rS.errors = [] →
      ((Reader.iterate C K fuel rS chk acc).2.2.errors = [] →
        (Reader.iterate C K fuel rT chk (acc.map (·.withMode .strict))).1 =
          (Reader.iterate C K fuel rS chk acc).1.map (·.withMode .strict) ∧
        (Reader.iterate C K fuel rT chk (acc.map (·.withMode .strict))).2.1 =
          (Reader.iterate C K fuel rS chk acc).2.1 ∧
        ModeRel .strict (Reader.iterate C K fuel rS chk acc).2.2
          (Reader.iterate C K fuel rT chk (acc.map (·.withMode .strict))).2.2 ∧
        (Reader.iterate C K fuel rT chk (acc.map (·.withMode .strict))).2.2.logs = rT.logs) ∧
      (∀ e es, (Reader.iterate C K fuel rS chk acc).2.2.errors = e :: es →
        (Reader.iterate C K fuel rT chk (acc.map (·.withMode .strict))).2.1 = some (.format e.tpe e.line) ∧
        (∃ k, k ≤ (Reader.iterate C K fuel rS chk acc).1.length ∧
          (Reader.iterate C K fuel rT chk (acc.map (·.withMode .strict))).1 =
            ((Reader.iterate C K fuel rS chk acc).1.take k).map (·.withMode .strict)) ∧
        (Reader.iterate C K fuel rT chk (acc.map (·.withMode .strict))).2.2.errors = []) := by
  intro fuel
  induction fuel with
  | zero =>
    intro rS rT chk acc h hS hE
    exact ⟨fun _ => ⟨rfl, rfl, h, rfl⟩, fun e es he => by
      have he' : rS.errors = e :: es := he
      rw [hE] at he'; cases he'⟩
  | succ fuel ih =>
    intro rS rT chk acc h hS hE
    unfold Reader.iterate
    cases hn : rS.next with
    | none =>
      have hn' : rT.next = none := by rw [h.next, hn]
      rw [nextRecord_none hn, nextRecord_none hn']
      exact ⟨fun _ => ⟨rfl, rfl, h, rfl⟩, fun e es he => by simp only [] at he; rw [hE] at he; cases he⟩
    | some l =>
      have hn' : rT.next = some l := by rw [h.next, hn]
      rw [nextRecord_some' hn, nextRecord_some' hn', h.scheme, h.lineNo, h.mode, hS]
      cases hp : parsedLine C l none rS.scheme (some rS.lineNo) with
      | error e =>
        exact ⟨fun _ => ⟨rfl, rfl, h, rfl⟩, fun e es he => by simp only [] at he; rw [hE] at he; cases he⟩
      | ok prec =>
        simp only [processErrors_silent]
        cases hpe : prec.errors with
        | nil =>
          simp only [processErrors_nil]
          rw [Checker.addRecord_congr chk (a := recOf .strict rS.lineNo prec) (b := recOf .silent rS.lineNo prec) rfl]
          have hrel := h.step prec [] []
          have hE' : (stepOf rS prec []).errors = [] := by simp [stepOf, hE, hpe]
          cases hadd : chk.addRecord (recOf .silent rS.lineNo prec) with
          | error e =>
            exact ⟨fun _ => ⟨rfl, rfl, hrel, by simp [stepOf]⟩,
              fun e es he => by simp only [] at he; rw [hE'] at he; cases he⟩
          | ok chk' =>
            simp only []
            have hacc : acc.map (·.withMode .strict) ++ [recOf .strict rS.lineNo prec]
                = (acc ++ [recOf .silent rS.lineNo prec]).map (·.withMode .strict) := by
              simp [recOf_withMode]
            rw [hacc]
            obtain ⟨ih1, ih2⟩ := ih (stepOf rS prec []) (stepOf rT prec []) chk'
              (acc ++ [recOf .silent rS.lineNo prec]) hrel (by simp [stepOf, hS]) hE'
            refine ⟨fun he => ?_, ih2⟩
            obtain ⟨a, b, c, d⟩ := ih1 he
            exact ⟨a, b, c, by rw [d]; simp [stepOf]⟩
        | cons x xs =>
          simp only [processErrors_strict_cons]
          -- the Silent run goes on; its error list now starts with (the stamped) `x`
          have hfirst : ∀ res : List Record × Option PyErr × Reader,
              (∃ more new, res.1 = acc ++ more ∧
                res.2.2.errors = (stepOf rS prec []).errors ++ new) →
              (res.2.2.errors = [] → False) ∧
              (∀ e es, res.2.2.errors = e :: es → e.tpe = x.tpe ∧ e.line = x.line ∧ acc.length ≤ res.1.length ∧
                acc.map (·.withMode .strict) = (res.1.take acc.length).map (·.withMode .strict)) := by
            rintro res ⟨more, new, h1, h2⟩
            have h3 : res.2.2.errors = { x with origin := some rS.lineNo } :: (stamp rS.lineNo xs ++ new) := by
              rw [h2]; simp [stepOf, hE, hpe, stamp]
            refine ⟨fun he => (by rw [h3] at he; cases he), fun e es he => ?_⟩
            rw [h3] at he
            cases he
            refine ⟨rfl, rfl, by rw [h1]; simp, ?_⟩
            rw [h1, List.take_left' rfl]
          cases hadd : chk.addRecord (recOf .silent rS.lineNo prec) with
          | error e' =>
            have := hfirst (acc, some e', stepOf rS prec []) ⟨[], [], by simp, by simp⟩
            simp only [] at this ⊢
            refine ⟨fun he => (this.1 he).elim, fun e es he => ?_⟩
            obtain ⟨a, b, c, d⟩ := this.2 e es he
            exact ⟨by rw [a, b], ⟨acc.length, c, d⟩, by rw [h.errors, hE]⟩
          | ok chk' =>
            simp only []
            have := hfirst _ (by
              obtain ⟨more, new, h1, h2⟩ := iterate_extends (C := C) (K := K) fuel (stepOf rS prec []) chk'
                (acc ++ [recOf .silent rS.lineNo prec])
              exact ⟨[recOf .silent rS.lineNo prec] ++ more, new, by rw [h1, List.append_assoc], h2⟩)
            refine ⟨fun he => (this.1 he).elim, fun e es he => ?_⟩
            obtain ⟨a, b, c, d⟩ := this.2 e es he
            exact ⟨by rw [a, b], ⟨acc.length, c, d⟩, by rw [h.errors, hE]⟩

/-! ### `Reader.init` under the three stringencies -/

/-- `Reader.init` = the stringency-independent header and error list, and two `processErrors`
    stages: after the header, and after the column-name checks -/
theorem init_mode (C : Ctx) (K : HConsts) (R : Registry) (lines : List Text) (mode : Option Mode)
    (given : Option Scheme) :
    Reader.init C K R lines mode given =
      match processErrors (modeOrSilent mode) (parsedHeader K R (headerBlock K lines)).errors with
      | .error e => .error e
      | .ok hlogs =>
        match processErrors (modeOrSilent mode)
            ((parsedHeader K R (headerBlock K lines)).errors ++
              initErrorsOf K R lines given (parsedHeader K R (headerBlock K lines))) with
        | .error e => .error e
        | .ok lg =>
          .ok (initReader lines (min (headerLen K lines + 1) lines.length)
                ((parsedHeader K R (headerBlock K lines)).withMode (modeOrSilent mode))
                (schemeOf K R lines given (parsedHeader K R (headerBlock K lines)))
                ((parsedHeader K R (headerBlock K lines)).errors ++
                  initErrorsOf K R lines given (parsedHeader K R (headerBlock K lines)))
                (modeOrSilent mode)
                (hlogs ++ initWarn (modeOrSilent mode) (colNamesOf K lines)
                  (initSch1 ((parsedHeader K R (headerBlock K lines)).scheme K R) given) ++ lg)) := by
  rw [init_eq, fromLines_spec]
  have e : modeOrSilent (some (modeOrSilent mode)) = modeOrSilent mode := rfl
  rw [e]
  cases processErrors (modeOrSilent mode) (parsedHeader K R (headerBlock K lines)).errors with
  | error e => rfl
  | ok hlogs =>
    simp only []
    have e2 : ((parsedHeader K R (headerBlock K lines)).withMode (modeOrSilent mode)).errors ++
        initE1 (((parsedHeader K R (headerBlock K lines)).withMode (modeOrSilent mode)).scheme K R) given ++
        initE2 ((stripped lines)[headerLen K lines]?.map (splitOn '\t'))
          (initSch2 ((stripped lines)[headerLen K lines]?.map (splitOn '\t'))
            (initSch1 (((parsedHeader K R (headerBlock K lines)).withMode (modeOrSilent mode)).scheme K R) given))
          (headerLen K lines) =
        (parsedHeader K R (headerBlock K lines)).errors ++
          initErrorsOf K R lines given (parsedHeader K R (headerBlock K lines)) := by
      simp [initErrorsOf, schemeOf, colNamesOf]
    rw [e2]
    rfl

theorem initWarn_silent (cn : Option (List Text)) (s : Option Scheme) : initWarn .silent cn s = [] := by
  unfold initWarn
  split
  · split <;> simp
  · rfl

/-- the reader the Silent construction gives (it never fails) -/
def silentReader (K : HConsts) (R : Registry) (lines : List Text) (given : Option Scheme) : Reader :=
  initReader lines (min (headerLen K lines + 1) lines.length)
    ((parsedHeader K R (headerBlock K lines)).withMode .silent)
    (schemeOf K R lines given (parsedHeader K R (headerBlock K lines)))
    ((parsedHeader K R (headerBlock K lines)).errors ++
      initErrorsOf K R lines given (parsedHeader K R (headerBlock K lines)))
    .silent []

theorem init_silent (C : Ctx) (K : HConsts) (R : Registry) (lines : List Text) (given : Option Scheme) :
    Reader.init C K R lines (some .silent) given = .ok (silentReader K R lines given) := by
  rw [init_mode]
  simp only [modeOrSilent, processErrors_silent, initWarn_silent, List.append_nil]
  rfl

theorem init_none (C : Ctx) (K : HConsts) (R : Registry) (lines : List Text) (given : Option Scheme) :
    Reader.init C K R lines none given = .ok (silentReader K R lines given) := by
  rw [init_mode]
  simp only [modeOrSilent, processErrors_silent, initWarn_silent, List.append_nil]
  rfl

/-- the `NO_MATCHING_SCHEME_WARNING` record, as a function of the input -/
def warnOf (K : HConsts) (R : Registry) (lines : List Text) (given : Option Scheme) (m : Mode) : List LogRec :=
  initWarn m (colNamesOf K lines) (initSch1 ((parsedHeader K R (headerBlock K lines)).scheme K R) given)

theorem init_lenient (C : Ctx) (K : HConsts) (R : Registry) (lines : List Text) (given : Option Scheme) :
    ∃ rL, Reader.init C K R lines (some .lenient) given = .ok rL ∧
      ModeRel .lenient (silentReader K R lines given) rL ∧
      rL.logs = errLogs .lenient (parsedHeader K R (headerBlock K lines)).errors ++
        warnOf K R lines given .lenient ++ errLogs .lenient (silentReader K R lines given).errors := by
  rw [init_mode]
  simp only [modeOrSilent, processErrors_lenient]
  exact ⟨_, rfl, ⟨rfl, rfl, rfl, rfl, rfl, rfl, rfl, rfl⟩, rfl⟩

theorem init_strict (C : Ctx) (K : HConsts) (R : Registry) (lines : List Text) (given : Option Scheme) :
    ((silentReader K R lines given).errors = [] →
      ∃ rT, Reader.init C K R lines (some .strict) given = .ok rT ∧
        ModeRel .strict (silentReader K R lines given) rT ∧ rT.logs = warnOf K R lines given .strict) ∧
    (∀ e es, (silentReader K R lines given).errors = e :: es →
      Reader.init C K R lines (some .strict) given = .error (.format e.tpe e.line)) := by
  rw [init_mode]
  simp only [modeOrSilent]
  have herr : (silentReader K R lines given).errors =
      (parsedHeader K R (headerBlock K lines)).errors ++
        initErrorsOf K R lines given (parsedHeader K R (headerBlock K lines)) := rfl
  rw [herr]
  constructor
  · intro he
    have h1 : (parsedHeader K R (headerBlock K lines)).errors = [] := (List.append_eq_nil_iff.1 he).1
    rw [he, h1]
    simp only [processErrors_nil]
    exact ⟨_, rfl, ⟨rfl, rfl, rfl, rfl, rfl, rfl, (by show [] = _; rw [herr, he]), rfl⟩, by simp [warnOf, initReader]⟩
  · intro e es he
    cases h1 : (parsedHeader K R (headerBlock K lines)).errors with
    | nil =>
      rw [h1] at he
      simp only [List.nil_append] at he
      simp only [List.nil_append, he, processErrors_nil, processErrors_strict_cons]
    | cons x xs =>
      rw [h1] at he
      cases he
      simp only [processErrors_strict_cons]


/-! ### `readAll` under the three stringencies -/

theorem ModeRel.checker {m : Mode} {rS rM : Reader} (h : ModeRel m rS rM) (K : HConsts) :
    rM.checker K = rS.checker K := by
  unfold Reader.checker
  rw [h.header]
  rfl

theorem readAll_nonstrict {C : Ctx} {K : HConsts} {m : Mode} (hm : m ≠ .strict) {rS rM : Reader}
    (h : ModeRel m rS rM) (hS : rS.mode = .silent) :
    (rM.readAll C K).1 = (rS.readAll C K).1.map (·.withMode m) ∧
    (rM.readAll C K).2.1 = (rS.readAll C K).2.1 ∧
    ModeRel m (rS.readAll C K).2.2 (rM.readAll C K).2.2 ∧
    (rS.readAll C K).2.2.logs = rS.logs ∧
    ∃ new, (rS.readAll C K).2.2.errors = rS.errors ++ new ∧
      (rM.readAll C K).2.2.logs = rM.logs ++ errLogs m new := by
  unfold Reader.readAll
  rw [h.checker K, h.src]
  obtain ⟨h1, h2, h3, _, h5, h6⟩ := iterate_nonstrict (C := C) (K := K) hm (rS.src.length + 2) rS rM
    (rS.checker K) [] h hS
  exact ⟨h1, h2, h3, h5, h6⟩

theorem readAll_strict {C : Ctx} {K : HConsts} {rS rT : Reader}
    (h : ModeRel .strict rS rT) (hS : rS.mode = .silent) (hE : rS.errors = []) :
    ((rS.readAll C K).2.2.errors = [] →
      (rT.readAll C K).1 = (rS.readAll C K).1.map (·.withMode .strict) ∧
      (rT.readAll C K).2.1 = (rS.readAll C K).2.1 ∧
      ModeRel .strict (rS.readAll C K).2.2 (rT.readAll C K).2.2 ∧
      (rT.readAll C K).2.2.logs = rT.logs) ∧
    (∀ e es, (rS.readAll C K).2.2.errors = e :: es →
      (rT.readAll C K).2.1 = some (.format e.tpe e.line) ∧
      (∃ k, k ≤ (rS.readAll C K).1.length ∧
        (rT.readAll C K).1 = ((rS.readAll C K).1.take k).map (·.withMode .strict)) ∧
      (rT.readAll C K).2.2.errors = []) := by
  unfold Reader.readAll
  rw [h.checker K, h.src]
  exact iterate_strict (C := C) (K := K) (rS.src.length + 2) rS rT (rS.checker K) [] h hS hE

/-- outside Strict mode the iteration never raises a `MafFormatException` -/
theorem iterate_nonstrict_notFormat {C : Ctx} {K : HConsts} (fuel : Nat) (r : Reader) (chk : Checker)
    (acc : List Record) (hf : (pending r).length < fuel) (hm : r.mode ≠ .strict) :
    ∀ e, (Reader.iterate C K fuel r chk acc).2.1 = some e → e.notFormat := by
  refine iterate_induction (C := C) (K := K)
    (P := fun r' _ _ => r'.mode = r.mode)
    (Q := fun res => ∀ e, res.2.1 = some e → e.notFormat)
    ?_ ?_ ?_ ?_ fuel r chk acc hf rfl
  · intro r' chk' acc' _ _ e he; cases he
  · intro r' chk' acc' e hmode hnr e' he'
    cases he'
    cases hn : r'.next with
    | none => rw [nextRecord_none hn] at hnr; cases hnr
    | some l =>
      rw [nextRecord_some hn] at hnr
      cases hp : parsedLine C l none r'.scheme (some r'.lineNo) with
      | error e'' => rw [hp] at hnr; cases hnr; exact parsedLine_error_notFormat hp
      | ok prec =>
        rw [hp] at hnr
        simp only [] at hnr
        rw [processErrors_nonstrict (by rw [hmode]; exact hm)] at hnr
        cases hnr
  · intro r' chk' acc' rec r'' e _ _ hadd e' he'
    cases he'
    exact Checker.addRecord_error_notFormat hadd
  · intro r' chk' acc' rec r'' chk'' hmode hnr _
    obtain ⟨l, prec, lg, _, _, _, _, hr''⟩ := nextRecord_ok hnr
    rw [hr'']
    simpa using hmode


end Model
