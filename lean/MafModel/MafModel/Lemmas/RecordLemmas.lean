/-
  Lemmas about the record model (`MafModel/Model/Record.lean`): Python-dict
  association lists, the slot list, `setSlot`, `trimNone`, and the coherence
  invariant `Inv` preserved by `setItem` / `delItem` (property C15).
-/
import MafModel.Model.Record
open Py
namespace Model

/-! ### association lists with Python `dict` semantics -/

section tdict
variable {β : Type}

theorem tdictGet_nil (k : Text) : tdictGet ([] : List (Text × β)) k = none := rfl

theorem tdictGet_cons (p : Text × β) (d : List (Text × β)) (k : Text) :
    tdictGet (p :: d) k = if p.1 = k then some p.2 else tdictGet d k := by
  unfold tdictGet
  by_cases h : p.1 = k
  · simp [h]
  · simp [h]

theorem mem_of_tdictGet {d : List (Text × β)} {k : Text} {v : β}
    (h : tdictGet d k = some v) : (k, v) ∈ d := by
  induction d with
  | nil => simp [tdictGet_nil] at h
  | cons p d ih =>
    rw [tdictGet_cons] at h
    by_cases hk : p.1 = k
    · simp [hk] at h
      subst hk; subst h
      exact List.mem_cons_self
    · simp [hk] at h
      exact List.mem_cons_of_mem _ (ih h)

theorem tdictGet_eq_none_iff {d : List (Text × β)} {k : Text} :
    tdictGet d k = none ↔ k ∉ d.map (·.1) := by
  induction d with
  | nil => simp [tdictGet_nil]
  | cons p d ih =>
    rw [tdictGet_cons]
    by_cases hk : p.1 = k
    · simp [hk]
    · simp only [hk, if_false, ih, List.map_cons, List.mem_cons, not_or]
      constructor
      · intro h; exact ⟨fun e => hk e.symm, h⟩
      · intro h; exact h.2

theorem tdictGet_of_mem {d : List (Text × β)} (hnd : (d.map (·.1)).Nodup)
    {p : Text × β} (hp : p ∈ d) : tdictGet d p.1 = some p.2 := by
  induction d with
  | nil => cases hp
  | cons q d ih =>
    rw [tdictGet_cons]
    simp only [List.map_cons, List.nodup_cons] at hnd
    rcases List.mem_cons.1 hp with rfl | hp'
    · simp
    · have : q.1 ≠ p.1 := by
        intro e
        exact hnd.1 (e ▸ List.mem_map_of_mem (f := (·.1)) hp')
      simp [this, ih hnd.2 hp']

theorem tdictSet_any_iff (d : List (Text × β)) (k : Text) :
    d.any (fun p => p.1 == k) = true ↔ k ∈ d.map (·.1) := by
  simp [List.any_eq_true]

theorem mem_tdictSet {d : List (Text × β)} {k : Text} {v : β} {p : Text × β} :
    p ∈ tdictSet d k v ↔ p = (k, v) ∨ (p ∈ d ∧ p.1 ≠ k) := by
  unfold tdictSet
  by_cases hk : d.any (fun p => p.1 == k) = true
  · rw [if_pos hk]
    simp only [List.mem_map]
    constructor
    · rintro ⟨q, hq, rfl⟩
      by_cases hqk : q.1 = k
      · simp [hqk]
      · right; simp [hqk, hq]
    · rintro (rfl | ⟨hp, hne⟩)
      · simp only [List.any_eq_true, beq_iff_eq] at hk
        obtain ⟨q, hq, hqk⟩ := hk
        exact ⟨q, hq, by simp [hqk]⟩
      · exact ⟨p, hp, by simp [hne]⟩
  · rw [if_neg hk]
    simp only [List.mem_append, List.mem_singleton]
    constructor
    · rintro (hp | rfl)
      · right; refine ⟨hp, ?_⟩
        intro e
        apply hk
        simp only [List.any_eq_true, beq_iff_eq]
        exact ⟨p, hp, e⟩
      · left; rfl
    · rintro (rfl | ⟨hp, _⟩)
      · right; rfl
      · left; exact hp

theorem tdictSet_names (d : List (Text × β)) (k : Text) (v : β) :
    (tdictSet d k v).map (·.1) =
      if k ∈ d.map (·.1) then d.map (·.1) else d.map (·.1) ++ [k] := by
  unfold tdictSet
  by_cases hk : d.any (fun p => p.1 == k) = true
  · rw [if_pos hk, if_pos ((tdictSet_any_iff d k).1 hk)]
    rw [List.map_map]
    apply List.map_congr_left
    intro p _
    by_cases hp : p.1 = k <;> simp [hp]
  · rw [if_neg hk, if_neg (fun h => hk ((tdictSet_any_iff d k).2 h))]
    simp

theorem tdictSet_nodup {d : List (Text × β)} (hnd : (d.map (·.1)).Nodup) (k : Text) (v : β) :
    ((tdictSet d k v).map (·.1)).Nodup := by
  rw [tdictSet_names]
  split
  · exact hnd
  · next h =>
    rw [List.nodup_append]
    refine ⟨hnd, by simp, ?_⟩
    intro a ha b hb
    simp only [List.mem_singleton] at hb
    subst hb
    intro e; subst e; exact h ha

theorem tdictGet_tdictSet {d : List (Text × β)} (k : Text) (v : β) (k' : Text) :
    tdictGet (tdictSet d k v) k' = if k' = k then some v else tdictGet d k' := by
  unfold tdictSet
  by_cases hk : d.any (fun p => p.1 == k) = true
  · rw [if_pos hk]
    induction d with
    | nil => simp at hk
    | cons q d ih =>
      rw [List.map_cons, tdictGet_cons, tdictGet_cons]
      by_cases hq : q.1 = k
      · by_cases hk' : k' = k
        · simp [hq, hk']
        · have h1 : ¬ k = k' := fun e => hk' e.symm
          simp only [hq, beq_self_eq_true, if_true, h1, if_false, hk']
          by_cases hd : d.any (fun p => p.1 == k) = true
          · simpa [hk'] using ih hd
          · have : d.map (fun p => if (p.1 == k) = true then (k, v) else p) = d := by
              conv => rhs; rw [← List.map_id d]
              apply List.map_congr_left
              intro p hp
              have : ¬ p.1 = k := by
                intro e; apply hd
                simp only [List.any_eq_true, beq_iff_eq]; exact ⟨p, hp, e⟩
              simp [this]
            rw [this]
      · have hd : d.any (fun p => p.1 == k) = true := by
          simpa [List.any_cons, hq] using hk
        have := ih hd
        have hb : (q.1 == k) = false := by simp [hq]
        simp only [hb, Bool.false_eq_true, if_false]
        by_cases hqk' : q.1 = k'
        · have : ¬ k' = k := fun e => hq (hqk'.trans e)
          simp [hqk', this]
        · simp only [hqk', if_false]; exact this
  · rw [if_neg hk]
    have hnone : tdictGet d k = none := by
      rw [tdictGet_eq_none_iff]; intro h; exact hk ((tdictSet_any_iff d k).2 h)
    induction d with
    | nil =>
      simp only [List.nil_append, tdictGet_cons, tdictGet_nil]
      by_cases h : k' = k
      · simp [h]
      · have : ¬ k = k' := fun e => h e.symm
        simp [h, this]
    | cons q d ih =>
      rw [List.cons_append, tdictGet_cons, tdictGet_cons]
      rw [tdictGet_cons] at hnone
      by_cases hq : q.1 = k
      · simp [hq] at hnone
      · simp only [hq, if_false] at hnone
        have hd : ¬ d.any (fun p => p.1 == k) = true := by
          intro h; apply hk; simp [List.any_cons, h]
        by_cases hqk' : q.1 = k'
        · have : ¬ k' = k := fun e => hq (hqk'.trans e)
          simp [hqk', this]
        · simp only [hqk', if_false]; exact ih hd hnone

theorem mem_tdictDel {d : List (Text × β)} {k : Text} {p : Text × β} :
    p ∈ tdictDel d k ↔ p ∈ d ∧ p.1 ≠ k := by
  simp [tdictDel]

theorem tdictDel_nodup {d : List (Text × β)} (hnd : (d.map (·.1)).Nodup) (k : Text) :
    ((tdictDel d k).map (·.1)).Nodup := by
  unfold tdictDel
  exact List.Nodup.sublist (List.Sublist.map _ List.filter_sublist) hnd

theorem tdictGet_tdictDel {d : List (Text × β)} (k k' : Text) :
    tdictGet (tdictDel d k) k' = if k' = k then none else tdictGet d k' := by
  induction d with
  | nil => simp [tdictDel, tdictGet_nil]
  | cons q d ih =>
    unfold tdictDel at ih ⊢
    rw [List.filter_cons]
    by_cases hq : q.1 = k
    · simp only [hq, beq_self_eq_true, Bool.not_true, Bool.false_eq_true, if_false, ih, tdictGet_cons]
      by_cases hk' : k' = k
      · simp [hk']
      · have : ¬ k = k' := fun e => hk' e.symm
        simp [hk', this]
    · have : (!(q.1 == k)) = true := by simp [hq]
      rw [if_pos this, tdictGet_cons, tdictGet_cons, ih]
      by_cases hqk' : q.1 = k'
      · have : ¬ k' = k := fun e => hq (hqk'.trans e)
        simp [hqk', this]
      · simp [hqk']

end tdict

/-! ### the slot list -/

theorem setSlot_length (l : List (Option RCol)) (i : Nat) (x : RCol) :
    (setSlot l i x).length = max l.length (i + 1) := by
  unfold setSlot
  by_cases h : l.length ≤ i
  · simp [h]; omega
  · simp [h]; omega

theorem setSlot_getElem?_self (l : List (Option RCol)) (i : Nat) (x : RCol) :
    (setSlot l i x)[i]? = some (some x) := by
  unfold setSlot
  by_cases h : l.length ≤ i
  · have h2 : i < l.length + (i + 1 - l.length) := by omega
    simp [h, h2]
  · have h2 : i < l.length := by omega
    simp [h, h2]

theorem setSlot_getElem?_ne (l : List (Option RCol)) (i j : Nat) (x : RCol) (hij : j ≠ i) :
    (setSlot l i x)[j]? =
      if j < l.length then l[j]? else if j < i then some none else none := by
  unfold setSlot
  have hij' : ¬ i = j := fun e => hij e.symm
  by_cases h : l.length ≤ i
  · simp only [h, if_true, List.getElem?_set, hij', if_false]
    rw [List.getElem?_append]
    by_cases hj : j < l.length
    · simp [hj]
    · simp only [hj, if_false, List.getElem?_replicate]
      by_cases hji : j < i
      · have : j - l.length < i + 1 - l.length := by omega
        simp [hji, this]
      · have : ¬ j - l.length < i + 1 - l.length := by omega
        simp [hji, this]
  · simp only [h, if_false, List.getElem?_set, hij']
    by_cases hj : j < l.length
    · simp [hj]
    · have : l.length ≤ j := by omega
      have hji : ¬ j < i := by omega
      simp [hj, hji]

theorem setSlot_getElem?_some_ne (l : List (Option RCol)) (i j : Nat) (x c : RCol) (hij : j ≠ i) :
    (setSlot l i x)[j]? = some (some c) ↔ l[j]? = some (some c) := by
  rw [setSlot_getElem?_ne l i j x hij]
  by_cases hj : j < l.length
  · simp [hj]
  · have : l[j]? = none := List.getElem?_eq_none (by omega)
    rw [this]
    simp only [hj, if_false]
    split <;> simp

theorem setSlot_getLast? (l : List (Option RCol)) (i : Nat) (x : RCol)
    (h : l.getLast? ≠ some none) : (setSlot l i x).getLast? ≠ some none := by
  rw [List.getLast?_eq_getElem?] at h ⊢
  rw [setSlot_length]
  by_cases hi : max l.length (i + 1) - 1 = i
  · rw [hi, setSlot_getElem?_self]; simp
  · rw [setSlot_getElem?_ne _ _ _ _ hi]
    have h1 : max l.length (i + 1) - 1 = l.length - 1 := by omega
    have h2 : l.length - 1 < l.length := by omega
    rw [h1, if_pos h2]; exact h

/-- `trimNone l` is `l` without its trailing `None`s -/
theorem trimNone_spec (l : List (Option RCol)) :
    ∃ t : List (Option RCol), l = trimNone l ++ t ∧ ∀ x ∈ t, x = none := by
  refine ⟨(l.reverse.takeWhile (·.isNone)).reverse, ?_, ?_⟩
  · unfold trimNone
    rw [← List.reverse_append, List.takeWhile_append_dropWhile, List.reverse_reverse]
  · intro x hx
    rw [List.mem_reverse] at hx
    have h1 := List.all_takeWhile (l := l.reverse) (p := fun (o : Option RCol) => o.isNone)
    rw [List.all_eq_true] at h1
    have := h1 x hx
    cases x <;> simp_all

theorem trimNone_getLast? (l : List (Option RCol)) : (trimNone l).getLast? ≠ some none := by
  unfold trimNone
  rw [List.getLast?_reverse]
  have := List.head?_dropWhile_not (fun (o : Option RCol) => o.isNone) l.reverse
  intro h
  rw [h] at this
  simp at this

theorem trimNone_getElem?_some (l : List (Option RCol)) (i : Nat) (c : RCol) :
    (trimNone l)[i]? = some (some c) ↔ l[i]? = some (some c) := by
  obtain ⟨t, hl, ht⟩ := trimNone_spec l
  conv => rhs; rw [hl]
  rw [List.getElem?_append]
  by_cases hi : i < (trimNone l).length
  · simp [hi]
  · have : (trimNone l)[i]? = none := List.getElem?_eq_none (by omega)
    rw [this]
    simp only [hi, if_false]
    constructor
    · intro h; cases h
    · intro h
      have := ht _ (List.mem_of_getElem? h)
      cases this

theorem trimNone_length_le (l : List (Option RCol)) : (trimNone l).length ≤ l.length := by
  obtain ⟨t, hl, _⟩ := trimNone_spec l
  conv => rhs; rw [hl]
  simp

theorem trimNone_of_getLast? (l : List (Option RCol)) (h : l.getLast? ≠ some none) :
    trimNone l = l := by
  show (l.reverse.dropWhile (·.isNone)).reverse = l
  have : l.reverse.dropWhile (·.isNone) = l.reverse := by
    cases hr : l.reverse with
    | nil => rfl
    | cons a m =>
      have : l.getLast? = some a := by
        rw [← List.head?_reverse, hr]; rfl
      cases a with
      | none => exact absurd this h
      | some c => simp
  rw [this, List.reverse_reverse]

/-! ### the coherence invariant -/

/-- Coherence of the two indexes of a record (name map and slot list). -/
structure Record.Inv (r : Record) : Prop where
  /-- names are pairwise distinct -/
  nodup : (r.dict.map (·.1)).Nodup
  /-- a column stored under a name carries that name, has a natural index and sits in that slot -/
  dict_ok : ∀ p ∈ r.dict, p.2.col.key = p.1 ∧
      ∃ i : Nat, p.2.col.index = some (i : Int) ∧ r.slots[i]? = some (some p.2)
  /-- a column stored in a slot reports the index of that slot and is the one stored under its name -/
  slot_ok : ∀ (i : Nat) (c : RCol), r.slots[i]? = some (some c) →
      c.col.index = some (i : Int) ∧ tdictGet r.dict c.col.key = some c
  /-- no trailing empty slot -/
  last_ok : r.slots.getLast? ≠ some none

theorem Record.Inv.of_eq {r r' : Record} (h : r.Inv) (hd : r'.dict = r.dict) (hs : r'.slots = r.slots) :
    r'.Inv :=
  ⟨hd ▸ h.nodup, by rw [hd, hs]; exact h.dict_ok, by rw [hd, hs]; exact h.slot_ok, hs ▸ h.last_ok⟩

theorem Record.Inv.init : Record.Inv {} :=
  ⟨by simp, by simp, by simp, by simp⟩

/-- storing a column `x` (with index `n`) under its own name, into slot `n`, when
    that slot is free or holds the column of the same name and a previously stored
    column of that name has index `n` -/
theorem Record.Inv.insert {r : Record} (h : r.Inv) (x : RCol) (n : Nat)
    (hidx : x.col.index = some (n : Int))
    (hocc : ∀ occ, r.slots[n]? = some (some occ) → occ.col.key = x.col.key)
    (hold : ∀ old, tdictGet r.dict x.col.key = some old → old.col.index = some (n : Int)) :
    Record.Inv { r with dict := tdictSet r.dict x.col.key x, slots := setSlot r.slots n x } := by
  refine ⟨tdictSet_nodup h.nodup _ _, ?_, ?_, setSlot_getLast? _ _ _ h.last_ok⟩
  · intro p hp
    rcases mem_tdictSet.1 hp with rfl | ⟨hpd, hne⟩
    · exact ⟨rfl, n, hidx, setSlot_getElem?_self _ _ _⟩
    · obtain ⟨hk, i, hi, hsl⟩ := h.dict_ok p hpd
      refine ⟨hk, i, hi, ?_⟩
      have hin : i ≠ n := by
        rintro rfl
        exact hne (hk ▸ hocc _ hsl)
      exact (setSlot_getElem?_some_ne _ _ _ _ _ hin).2 hsl
  · intro i c hc
    by_cases hin : i = n
    · subst hin
      simp only [setSlot_getElem?_self, Option.some.injEq] at hc
      subst hc
      exact ⟨hidx, by simp [tdictGet_tdictSet]⟩
    · have hc' := (setSlot_getElem?_some_ne _ _ _ _ _ hin).1 hc
      obtain ⟨hi, hg⟩ := h.slot_ok i c hc'
      refine ⟨hi, ?_⟩
      have : c.col.key ≠ x.col.key := by
        intro e
        have := hold c (e ▸ hg)
        rw [hi] at this
        simp only [Option.some.injEq, Int.natCast_inj] at this
        exact hin this
      simp only [tdictGet_tdictSet, this, if_false]
      exact hg

/-- removing the column `c` stored in slot `n` -/
theorem Record.Inv.remove {r : Record} (h : r.Inv) (c : RCol) (n : Nat)
    (hc : r.slots[n]? = some (some c)) (s' : List (Option RCol))
    (hs' : ∀ i c', s'[i]? = some (some c') ↔ (i ≠ n ∧ r.slots[i]? = some (some c')))
    (hlast : s'.getLast? ≠ some none) :
    Record.Inv { r with dict := tdictDel r.dict c.col.key, slots := s' } := by
  obtain ⟨hci, hcg⟩ := h.slot_ok n c hc
  refine ⟨tdictDel_nodup h.nodup _, ?_, ?_, hlast⟩
  · intro p hp
    obtain ⟨hpd, hne⟩ := mem_tdictDel.1 hp
    obtain ⟨hk, i, hi, hsl⟩ := h.dict_ok p hpd
    refine ⟨hk, i, hi, (hs' i p.2).2 ⟨?_, hsl⟩⟩
    rintro rfl
    rw [hc] at hsl
    simp only [Option.some.injEq] at hsl
    exact hne (hsl ▸ hk).symm
  · intro i c' hc'
    obtain ⟨hin, hsl⟩ := (hs' i c').1 hc'
    obtain ⟨hi, hg⟩ := h.slot_ok i c' hsl
    refine ⟨hi, ?_⟩
    have : c'.col.key ≠ c.col.key := by
      intro e
      rw [e, hcg] at hg
      simp only [Option.some.injEq] at hg
      subst hg
      rw [hi] at hci
      simp only [Option.some.injEq, Int.natCast_inj] at hci
      exact hin hci
    simp only [tdictGet_tdictDel, this, if_false]
    exact hg

/-! ### `setItem`, step by step (equivalent helper definitions, tied by `rfl`) -/

/-- step 1 of `setItem`: reconcile the key with the column -/
def setItemStep1 (key : RKey) (x : RCol) : Except PyErr RCol :=
  match key with
  | .int i =>
    if i < 0 then .error .key
    else match x.col.index with
      | none => .ok { x with col := { x.col with index := some i } }
      | some ci => if i ≠ ci then .error .value else .ok x
  | .column k => if x.col.key ≠ k.key then .error .value else .ok x
  | .name s => if x.col.key ≠ s then .error .value else .ok x
  | .none => .error .type
  | .other => .error .type

/-- step 2 of `setItem`: inherit / check / assign the index -/
def setItemStep2 (r : Record) (x : RCol) : Except PyErr RCol :=
  match tdictGet r.dict x.col.key with
  | some old =>
    match x.col.index with
    | none => .ok { x with col := { x.col with index := old.col.index } }
    | some ci => if old.col.index ≠ some ci then .error .value else .ok x
  | none =>
    match x.col.index with
    | none => .ok { x with col := { x.col with index := some (r.slots.length : Int) } }
    | some _ => .ok x

/-- step 3 of `setItem`: refuse a negative index or a slot held by another name -/
def setItemStep3 (r : Record) (k : Text) (x : RCol) : Except PyErr RCol :=
  match x.col.index with
  | none => .ok x
  | some ci =>
    if ci < 0 then .error .value
    else match r.slots.getD ci.toNat none with
      | some occ => if occ.col.key ≠ k then .error .value else .ok x
      | none => .ok x

/-- step 4 of `setItem`: the two writes -/
def setItemWrite (r : Record) (k : Text) (x : RCol) : Record × Except PyErr Unit :=
  let r1 := { r with dict := tdictSet r.dict k x }
  match x.col.index with
  | none => (r1, .error .assertion)
  | some ci =>
    let slots1 := if (r1.slots.length : Int) ≤ ci
                  then r1.slots ++ List.replicate (ci - r1.slots.length + 1).toNat none
                  else r1.slots
    match listSetPy slots1 ci x with
    | .ok s => ({ r1 with slots := s }, .ok ())
    | .error e => ({ r1 with slots := slots1 }, .error e)

theorem setItem_eq (r : Record) (key : RKey) (x : RCol) :
    r.setItem key x =
      match setItemStep1 key x with
      | .error e => (r, .error e)
      | .ok x1 =>
        match (match setItemStep2 r x1 with
               | .error e => Except.error e
               | .ok x2 => setItemStep3 r x1.col.key x2 : Except PyErr RCol) with
        | .error e => (r, .error e)
        | .ok x3 => setItemWrite r x1.col.key x3 := rfl

theorem setItemStep2_spec {r : Record} (h : r.Inv) {x x2 : RCol}
    (h2 : setItemStep2 r x = .ok x2) :
    x2.col.key = x.col.key ∧ ∃ ci : Int, x2.col.index = some ci ∧
      ∀ old, tdictGet r.dict x.col.key = some old → old.col.index = some ci := by
  unfold setItemStep2 at h2
  cases hg : tdictGet r.dict x.col.key with
  | none =>
    rw [hg] at h2
    cases hi : x.col.index with
    | none =>
      simp only [hi, Except.ok.injEq] at h2
      subst h2
      exact ⟨rfl, _, rfl, by simp⟩
    | some ci =>
      simp only [hi, Except.ok.injEq] at h2
      subst h2
      exact ⟨rfl, ci, hi, by simp⟩
  | some old =>
    rw [hg] at h2
    obtain ⟨_, i, hoi, _⟩ := h.dict_ok _ (mem_of_tdictGet hg)
    simp only at hoi
    cases hi : x.col.index with
    | none =>
      simp only [hi, Except.ok.injEq] at h2
      subst h2
      refine ⟨rfl, i, hoi, ?_⟩
      intro old' ho; cases ho; exact hoi
    | some ci =>
      simp only [hi] at h2
      by_cases hne : old.col.index = some ci
      · simp only [hne, ne_eq, not_true_eq_false, if_false, Except.ok.injEq] at h2
        subst h2
        refine ⟨rfl, ci, hi, ?_⟩
        intro old' ho; cases ho; exact hne
      · simp [hne] at h2

theorem setItemStep3_spec {r : Record} {k : Text} {x x3 : RCol}
    (h3 : setItemStep3 r k x = .ok x3) :
    x3 = x ∧ ∀ ci : Int, x.col.index = some ci →
      0 ≤ ci ∧ ∀ occ, r.slots[ci.toNat]? = some (some occ) → occ.col.key = k := by
  unfold setItemStep3 at h3
  cases hi : x.col.index with
  | none =>
    simp only [hi, Except.ok.injEq] at h3
    exact ⟨h3.symm, by simp⟩
  | some ci =>
    simp only [hi] at h3
    by_cases hneg : ci < 0
    · simp [hneg] at h3
    · simp only [hneg, if_false] at h3
      rw [List.getD_eq_getElem?_getD] at h3
      cases hs : r.slots[ci.toNat]? with
      | none =>
        simp only [hs, Option.getD_none, Except.ok.injEq] at h3
        refine ⟨h3.symm, ?_⟩
        intro ci' e; cases e
        exact ⟨by omega, fun occ ho => by rw [hs] at ho; cases ho⟩
      | some o =>
        cases o with
        | none =>
          simp only [hs, Option.getD_some, Except.ok.injEq] at h3
          refine ⟨h3.symm, ?_⟩
          intro ci' e; cases e
          exact ⟨by omega, fun occ ho => by rw [hs] at ho; cases ho⟩
        | some occ =>
          simp only [hs, Option.getD_some] at h3
          by_cases hk : occ.col.key = k
          · simp only [hk, ne_eq, not_true_eq_false, if_false, Except.ok.injEq] at h3
            refine ⟨h3.symm, ?_⟩
            intro ci' e; cases e
            refine ⟨by omega, ?_⟩
            intro occ' ho; rw [hs] at ho; cases ho; exact hk
          · simp [hk] at h3

theorem setItemWrite_nat (r : Record) (k : Text) (x : RCol) (n : Nat)
    (hi : x.col.index = some (n : Int)) :
    setItemWrite r k x =
      ({ r with dict := tdictSet r.dict k x, slots := setSlot r.slots n x }, .ok ()) := by
  unfold setItemWrite
  simp only [hi]
  by_cases hlen : r.slots.length ≤ n
  · have h1 : (r.slots.length : Int) ≤ (n : Int) := by omega
    have h2 : ((n : Int) - r.slots.length + 1).toNat = n + 1 - r.slots.length := by omega
    have h3 : n < r.slots.length + (n + 1 - r.slots.length) := by omega
    simp [listSetPy, setSlot, h1, h2, hlen, h3]
  · have h1 : ¬ (r.slots.length : Int) ≤ (n : Int) := by omega
    have h3 : n < r.slots.length := by omega
    simp [listSetPy, setSlot, h1, hlen, h3]

/-- under the invariant `setItem` either fails leaving the record untouched, or
    succeeds and is an `Inv.insert` update -/
theorem setItemStep1_error {key : RKey} {x : RCol} {e : PyErr}
    (h1 : setItemStep1 key x = .error e) : e = .key ∨ e = .value ∨ e = .type := by
  unfold setItemStep1 at h1
  cases key with
  | int i =>
    simp only at h1
    split at h1
    · cases h1; simp
    · split at h1
      · cases h1
      · split at h1
        · cases h1; simp
        · cases h1
  | column k => simp only at h1; split at h1 <;> cases h1; simp
  | name s => simp only at h1; split at h1 <;> cases h1; simp
  | none => cases h1; simp
  | other => cases h1; simp

theorem setItemStep2_error {r : Record} {x : RCol} {e : PyErr}
    (h2 : setItemStep2 r x = .error e) : e = .value := by
  unfold setItemStep2 at h2
  split at h2
  · split at h2
    · cases h2
    · split at h2
      · cases h2; rfl
      · cases h2
  · split at h2 <;> cases h2

theorem setItemStep3_error {r : Record} {k : Text} {x : RCol} {e : PyErr}
    (h3 : setItemStep3 r k x = .error e) : e = .value := by
  unfold setItemStep3 at h3
  split at h3
  · cases h3
  · split at h3
    · cases h3; rfl
    · split at h3
      · split at h3
        · cases h3; rfl
        · cases h3
      · cases h3

theorem setItem_cases {r : Record} (h : r.Inv) (key : RKey) (x : RCol) :
    (∃ e, r.setItem key x = (r, .error e) ∧ (e = .key ∨ e = .value ∨ e = .type)) ∨
    (∃ (x' : RCol) (n : Nat), x'.col.index = some (n : Int) ∧
      (∀ occ, r.slots[n]? = some (some occ) → occ.col.key = x'.col.key) ∧
      (∀ old, tdictGet r.dict x'.col.key = some old → old.col.index = some (n : Int)) ∧
      r.setItem key x =
        ({ r with dict := tdictSet r.dict x'.col.key x', slots := setSlot r.slots n x' }, .ok ())) := by
  rw [setItem_eq]
  cases h1 : setItemStep1 key x with
  | error e => exact Or.inl ⟨e, rfl, setItemStep1_error h1⟩
  | ok x1 =>
    simp only
    cases h2 : setItemStep2 r x1 with
    | error e => exact Or.inl ⟨e, rfl, Or.inr (Or.inl (setItemStep2_error h2))⟩
    | ok x2 =>
      simp only
      obtain ⟨hk2, ci, hci, hold⟩ := setItemStep2_spec h h2
      cases h3 : setItemStep3 r x1.col.key x2 with
      | error e => exact Or.inl ⟨e, rfl, Or.inr (Or.inl (setItemStep3_error h3))⟩
      | ok x3 =>
        simp only
        obtain ⟨rfl, hs3⟩ := setItemStep3_spec h3
        obtain ⟨hpos, hocc⟩ := hs3 ci hci
        obtain ⟨n, rfl⟩ := Int.eq_ofNat_of_zero_le hpos
        refine Or.inr ⟨x3, n, hci, ?_, ?_, ?_⟩
        · intro occ ho; rw [hk2]; exact hocc occ (by simpa using ho)
        · intro old ho; rw [hk2] at ho; exact hold old ho
        · rw [hk2]; exact setItemWrite_nat r _ x3 n hci

theorem Record.Inv.setItem {r : Record} (h : r.Inv) (key : RKey) (x : RCol) :
    (r.setItem key x).1.Inv := by
  rcases setItem_cases h key x with ⟨e, he, _⟩ | ⟨x', n, hi, hocc, hold, he⟩
  · rw [he]; exact h
  · rw [he]; exact h.insert x' n hi hocc hold

theorem setItem_failed_noop {r : Record} (h : r.Inv) (key : RKey) (x : RCol) (e : PyErr)
    (he : (r.setItem key x).2 = .error e) : (r.setItem key x).1 = r := by
  rcases setItem_cases h key x with ⟨e', he', _⟩ | ⟨x', n, _, _, _, he'⟩
  · rw [he']
  · rw [he'] at he; cases he

/-- the only failures of `setItem` on a coherent record are the `KeyError` / `ValueError` /
    `TypeError` raised before the record is touched; in particular the branch
    `(r1, .error .assertion)` (and the `IndexError` of the list write) is unreachable -/
theorem setItem_error_kinds {r : Record} (h : r.Inv) (key : RKey) (x : RCol) (e : PyErr)
    (he : (r.setItem key x).2 = .error e) : e = .key ∨ e = .value ∨ e = .type := by
  rcases setItem_cases h key x with ⟨e', he', hk⟩ | ⟨x', n, _, _, _, he'⟩
  · rw [he'] at he; cases he; exact hk
  · rw [he'] at he; cases he

/-! ### `getItem` / `delItem` -/

theorem getD_eq_some_iff (l : List (Option RCol)) (i : Nat) (c : RCol) :
    l.getD i none = some c ↔ l[i]? = some (some c) := by
  rw [List.getD_eq_getElem?_getD]
  cases h : l[i]? with
  | none => simp
  | some o => simp

/-- a successful lookup (by any key form) returns a column that sits in the slot it reports -/
theorem getItem_some {r : Record} (h : r.Inv) {key : RKey} {c : RCol}
    (hg : r.getItem key = .ok (some c)) :
    ∃ n : Nat, c.col.index = some (n : Int) ∧ r.slots[n]? = some (some c) ∧
      tdictGet r.dict c.col.key = some c := by
  cases key with
  | int i =>
    simp only [Record.getItem] at hg
    split at hg
    · cases hg
    · simp only [Except.ok.injEq] at hg
      have hs := (getD_eq_some_iff _ _ _).1 hg
      obtain ⟨hi, hd⟩ := h.slot_ok _ _ hs
      exact ⟨i.toNat, hi, hs, hd⟩
  | column k =>
    simp only [Record.getItem] at hg
    cases hd : tdictGet r.dict k.key with
    | none => simp [hd] at hg
    | some x =>
      simp only [hd, Except.ok.injEq, Option.some.injEq] at hg
      subst hg
      obtain ⟨hk, n, hn, hs⟩ := h.dict_ok _ (mem_of_tdictGet hd)
      exact ⟨n, hn, hs, by simp only at hk; rw [hk]; exact hd⟩
  | name s =>
    simp only [Record.getItem] at hg
    cases hd : tdictGet r.dict s with
    | none => simp [hd] at hg
    | some x =>
      simp only [hd, Except.ok.injEq, Option.some.injEq] at hg
      subst hg
      obtain ⟨hk, n, hn, hs⟩ := h.dict_ok _ (mem_of_tdictGet hd)
      exact ⟨n, hn, hs, by simp only at hk; rw [hk]; exact hd⟩
  | none => simp [Record.getItem] at hg
  | other => simp [Record.getItem] at hg

theorem delItem_cases {r : Record} (h : r.Inv) (key : RKey) :
    (∃ e, r.delItem key = (r, .error e) ∧
        (r.getItem key = .error e ∨ (r.getItem key = .ok none ∧ e = .key))) ∨
    (∃ (c : RCol) (n : Nat) (s' : List (Option RCol)),
      r.getItem key = .ok (some c) ∧
      r.slots[n]? = some (some c) ∧
      (∀ i c', s'[i]? = some (some c') ↔ (i ≠ n ∧ r.slots[i]? = some (some c'))) ∧
      s'.getLast? ≠ some none ∧
      r.delItem key = ({ r with dict := tdictDel r.dict c.col.key, slots := s' }, .ok ())) := by
  unfold Record.delItem
  cases hg : r.getItem key with
  | error e => exact Or.inl ⟨e, rfl, Or.inl rfl⟩
  | ok o =>
    cases o with
    | none => exact Or.inl ⟨_, rfl, Or.inr ⟨rfl, rfl⟩⟩
    | some c =>
      right
      obtain ⟨n, hn, hs, _⟩ := getItem_some h hg
      have hlt : n < r.slots.length := by
        by_cases hlt : n < r.slots.length
        · exact hlt
        · rw [List.getElem?_eq_none (by omega)] at hs; cases hs
      simp only [hn]
      by_cases hlast : (n : Int) = (r.slots.length : Int) - 1
      · have hn' : n = r.slots.length - 1 := by omega
        refine ⟨c, n, trimNone r.slots.dropLast, rfl, hs, ?_, trimNone_getLast? _, by simp [hlast]⟩
        intro i c'
        rw [trimNone_getElem?_some, List.getElem?_dropLast]
        by_cases hi : i < r.slots.length - 1
        · have : i ≠ n := by omega
          simp [hi, this]
        · simp only [hi, if_false]
          constructor
          · intro hh; cases hh
          · rintro ⟨hin, hh⟩
            have : i < r.slots.length := by
              by_cases hlt : i < r.slots.length
              · exact hlt
              · rw [List.getElem?_eq_none (by omega)] at hh; cases hh
            omega
      · have h0 : (0 : Int) ≤ (n : Int) := by omega
        refine ⟨c, n, r.slots.set n none, rfl, hs, ?_, ?_, by simp [hlast, hlt]⟩
        · intro i c'
          rw [List.getElem?_set]
          by_cases hin : n = i
          · subst hin; simp [hlt]
          · have : i ≠ n := fun e => hin e.symm
            simp [hin, this]
        · have hl := h.last_ok
          rw [List.getLast?_eq_getElem?] at hl ⊢
          rw [List.length_set, List.getElem?_set]
          have : ¬ n = r.slots.length - 1 := by omega
          simp only [this, if_false]
          exact hl

theorem Record.Inv.delItem {r : Record} (h : r.Inv) (key : RKey) : (r.delItem key).1.Inv := by
  rcases delItem_cases h key with ⟨e, he, _⟩ | ⟨c, n, s', _, hs, hs', hl, he⟩
  · rw [he]; exact h
  · rw [he]; exact h.remove c n hs s' hs' hl

theorem delItem_failed_noop {r : Record} (h : r.Inv) (key : RKey) (e : PyErr)
    (he : (r.delItem key).2 = .error e) : (r.delItem key).1 = r := by
  rcases delItem_cases h key with ⟨e', he', _⟩ | ⟨c, n, s', _, _, _, _, he'⟩
  · rw [he']
  · rw [he'] at he; cases he

/-- `delItem` on a coherent record fails only because the lookup failed; the branches that
    raise `TypeError` / `IndexError` after the name map was already changed are unreachable -/
theorem delItem_error_from_lookup {r : Record} (h : r.Inv) (key : RKey) (e : PyErr)
    (he : (r.delItem key).2 = .error e) :
    r.getItem key = .error e ∨ (r.getItem key = .ok none ∧ e = .key) := by
  rcases delItem_cases h key with ⟨e', he', hk⟩ | ⟨c, n, s', _, _, _, _, he'⟩
  · rw [he'] at he; cases he; exact hk
  · rw [he'] at he; cases he

/-! ### the values of the name map, sorted by index, are the occupied slots in order -/

/-- `column_index` as the sort key of `MafRecord.validate` -/
def RCol.idx (c : RCol) : Int := c.col.index.getD 0

theorem Record.Inv.mem_occ {r : Record} (_h : r.Inv) {c : RCol} :
    c ∈ r.slots.filterMap id ↔ ∃ i : Nat, r.slots[i]? = some (some c) := by
  rw [List.mem_filterMap]
  constructor
  · rintro ⟨o, ho, hoc⟩
    simp only [id] at hoc
    subst hoc
    exact List.mem_iff_getElem?.1 ho
  · rintro ⟨i, hi⟩
    exact ⟨some c, List.mem_of_getElem? hi, rfl⟩

theorem Record.Inv.mem_vals {r : Record} (h : r.Inv) {c : RCol} :
    c ∈ r.dict.map (·.2) ↔ ∃ i : Nat, r.slots[i]? = some (some c) := by
  rw [List.mem_map]
  constructor
  · rintro ⟨p, hp, rfl⟩
    obtain ⟨_, i, _, hs⟩ := h.dict_ok p hp
    exact ⟨i, hs⟩
  · rintro ⟨i, hi⟩
    obtain ⟨_, hg⟩ := h.slot_ok i c hi
    exact ⟨_, mem_of_tdictGet hg, rfl⟩

theorem Record.Inv.occ_pairwise {r : Record} (h : r.Inv) :
    (r.slots.filterMap id).Pairwise (fun a b => a.idx < b.idx) := by
  rw [List.pairwise_filterMap, List.pairwise_iff_getElem]
  intro i j hi hj hij b hb b' hb'
  simp only [id] at hb hb'
  have h1 : r.slots[i]? = some (some b) := by rw [List.getElem?_eq_getElem hi, hb]
  have h2 : r.slots[j]? = some (some b') := by rw [List.getElem?_eq_getElem hj, hb']
  have e1 := (h.slot_ok i b h1).1
  have e2 := (h.slot_ok j b' h2).1
  simp only [RCol.idx, e1, e2, Option.getD_some]
  omega

theorem Record.Inv.vals_nodup {r : Record} (h : r.Inv) : (r.dict.map (·.2)).Nodup := by
  have hn := h.nodup
  rw [List.nodup_iff_pairwise_ne, List.pairwise_map] at hn ⊢
  refine List.Pairwise.imp_of_mem ?_ hn
  intro p q hp hq hne e
  apply hne
  rw [← (h.dict_ok p hp).1, ← (h.dict_ok q hq).1, e]

theorem Record.Inv.vals_perm_occ {r : Record} (h : r.Inv) :
    (r.dict.map (·.2)).Perm (r.slots.filterMap id) := by
  rw [List.perm_ext_iff_of_nodup h.vals_nodup]
  · intro c; rw [h.mem_vals, h.mem_occ]
  · rw [List.nodup_iff_pairwise_ne]
    refine List.Pairwise.imp ?_ h.occ_pairwise
    intro a b hab e
    subst e
    exact absurd hab (by omega)

/-- sorting the stored columns by `column_index` gives exactly the occupied slots, in slot order -/
theorem Record.Inv.sorted_values {r : Record} (h : r.Inv) :
    (r.dict.map (·.2)).mergeSort (fun a b => decide (a.idx ≤ b.idx)) = r.slots.filterMap id := by
  have hperm := (List.mergeSort_perm (r.dict.map (·.2)) (fun a b => decide (a.idx ≤ b.idx))).trans
    h.vals_perm_occ
  have hsorted := List.pairwise_mergeSort (le := fun (a b : RCol) => decide (a.idx ≤ b.idx))
    (by intro a b c; simp only [decide_eq_true_eq]; omega)
    (by intro a b; simp only [Bool.or_eq_true, decide_eq_true_eq]; omega)
    (r.dict.map (·.2))
  refine List.Perm.eq_of_pairwise (le := fun (a b : RCol) => decide (a.idx ≤ b.idx) = true) ?_
    hsorted ?_ hperm
  · intro a b ha hb hab hba
    simp only [decide_eq_true_eq] at hab hba
    have ha' := hperm.mem_iff.1 ha
    obtain ⟨i, hi⟩ := h.mem_occ.1 ha'
    obtain ⟨j, hj⟩ := h.mem_occ.1 hb
    have e1 := (h.slot_ok i a hi).1
    have e2 := (h.slot_ok j b hj).1
    simp only [RCol.idx, e1, e2, Option.getD_some] at hab hba
    have : i = j := by omega
    subst this
    rw [hi] at hj
    simpa using hj
  · refine List.Pairwise.imp ?_ h.occ_pairwise
    intro a b hab
    simp only [decide_eq_true_eq]; omega

theorem filterMap_id_length_of_no_none (l : List (Option RCol))
    (hl : l.any (·.isNone) = false) : (l.filterMap id).length = l.length := by
  induction l with
  | nil => rfl
  | cons o l ih =>
    cases o with
    | none => simp at hl
    | some c =>
      simp only [List.any_cons, Option.isNone_some, Bool.false_or] at hl
      simp [ih hl]

/-- the internal consistency checks of `MafRecord.validate` find nothing in a coherent
    record without an empty slot -/
theorem Record.Inv.syncErrors {r : Record} (h : r.Inv)
    (hfull : r.slots.any (·.isNone) = false) : r.syncErrors = [] := by
  have hlen : r.dict.length = r.slots.length := by
    have := h.vals_perm_occ.length_eq
    rw [filterMap_id_length_of_no_none _ hfull, List.length_map] at this
    exact this
  simp only [Record.syncErrors, List.append_eq_nil_iff, List.filterMap_eq_nil_iff]
  constructor
  · rw [if_pos]
    rw [Bool.and_eq_true, decide_eq_true_eq, List.all_eq_true]
    refine ⟨hlen, ?_⟩
    intro o ho
    cases o with
    | none => rfl
    | some c =>
      obtain ⟨i, hi⟩ := List.mem_iff_getElem?.1 ho
      simp [(h.slot_ok i c hi).2]
  · rintro ⟨o, i⟩ hp
    rw [List.mem_zipIdx_iff_getElem?] at hp
    cases o with
    | none => rfl
    | some c =>
      simp only at hp
      simp [(h.slot_ok i c hp).1]

/-- without a (truthy) scheme the framing check is off -/
theorem Record.columnErrors_none (C : Ctx) (r : Record) (c : RCol) :
    r.columnErrors C none c = c.col.validate C none none := by
  simp [Record.columnErrors]

theorem Record.columnErrors_of_not_truthy (C : Ctx) (r : Record) (scheme : Option Scheme) (c : RCol)
    (h : scheme.filter Scheme.truthy = none) :
    r.columnErrors C scheme c = c.col.validate C scheme none := by
  simp [Record.columnErrors, h]

/-! ### lookups -/

theorem getItem_int_iff (r : Record) (i : Nat) (c : RCol) :
    r.getItem (.int (i : Int)) = .ok (some c) ↔ r.slots[i]? = some (some c) := by
  simp only [Record.getItem]
  by_cases hi : i < r.slots.length
  · have : ¬ ((i : Int) < 0 ∨ (r.slots.length : Int) ≤ (i : Int)) := by omega
    rw [if_neg this]
    simp only [Except.ok.injEq, Int.toNat_natCast]
    exact getD_eq_some_iff _ _ _
  · have : ((i : Int) < 0 ∨ (r.slots.length : Int) ≤ (i : Int)) := by omega
    rw [if_pos this, List.getElem?_eq_none (by omega)]
    simp

theorem getItem_int_neg (r : Record) (i : Int) (hi : i < 0) :
    r.getItem (.int i) = .error .key := by
  simp [Record.getItem, hi]

theorem getItem_name_iff (r : Record) (n : Text) (c : RCol) :
    r.getItem (.name n) = .ok (some c) ↔ tdictGet r.dict n = some c := by
  simp only [Record.getItem]
  cases tdictGet r.dict n <;> simp

theorem getItem_column_iff (r : Record) (k : Column) (c : RCol) :
    r.getItem (.column k) = .ok (some c) ↔ tdictGet r.dict k.key = some c := by
  simp only [Record.getItem]
  cases tdictGet r.dict k.key <;> simp

theorem mapM_ok_length {α β ε : Type} (f : α → Except ε β) (l : List α) (ys : List β)
    (h : l.mapM f = .ok ys) : ys.length = l.length := by
  induction l generalizing ys with
  | nil => simp [pure, Except.pure] at h; subst h; rfl
  | cons a l ih =>
    simp only [List.mapM_cons] at h
    cases hf : f a with
    | error e => simp [hf, bind, Except.bind] at h
    | ok b =>
      cases hm : l.mapM f with
      | error e => simp [hf, hm, bind, Except.bind] at h
      | ok bs =>
        simp [hf, hm, bind, Except.bind, pure, Except.pure] at h
        subst h
        simp [ih bs hm]

end Model
