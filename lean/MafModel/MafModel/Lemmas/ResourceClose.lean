/-
  `sorter.close()` of the spill-file effect model: it releases everything that is
  registered; only a file whose removal failed can remain, still registered.
-/
import MafModel.Lemmas.ResourceIter
open Py Model MergeLemmas

namespace ResourceLemmas


/-! ## `sorter.close()` -/

/-- the invariant at operation boundaries: every existing file is registered, every
    open descriptor is registered, every open handle belongs to a registered cursor
    that is not marked closed -/
structure RInv (s : RState) : Prop where
  filesNd : s.files.Nodup
  fdsNd : s.fds.Nodup
  filesReg : ∀ f ∈ s.files, f ∈ s.paths
  lenReg : s.paths.length = s.fdsReg.length
  fdsReg : ∀ d ∈ s.fds, some d ∈ s.fdsReg
  hinv : HInv s
  cov : Cov s

theorem RInv.of_wf {s : RState} (hw : WF s) (hi : HInv s) (hc : Cov s) : RInv s :=
  ⟨hw.filesNd, hw.fdsNd, hw.filesReg, hw.lenReg, hw.fdsReg, hi, hc⟩

/-- how the first recorded error relates to the fault flag -/
def Track (s s' : RState) (first first' : Option PyErr) : Prop :=
  (first' = first ∧ s'.fired = s.fired) ∨ (first = none ∧ first' = some ioErr ∧ Fires s ∧ s'.fired = true)

theorem Track.refl (s : RState) (first : Option PyErr) : Track s s first first := Or.inl ⟨rfl, rfl⟩

theorem Track.trans {s s1 s2 : RState} {f f1 f2 : Option PyErr} (h1 : Track s s1 f f1)
    (hfa : s1.failAt = s.failAt) (h2 : Track s1 s2 f1 f2) : Track s s2 f f2 := by
  rcases h1 with ⟨a, b⟩ | ⟨a, b, c1, d⟩
  · subst a
    rcases h2 with ⟨a2, b2⟩ | ⟨a2, b2, c2, d2⟩
    · exact Or.inl ⟨a2, b2.trans b⟩
    · exact Or.inr ⟨a2, b2, ⟨b ▸ c2.1, hfa ▸ c2.2⟩, d2⟩
  · subst a b
    rcases h2 with ⟨a2, b2⟩ | ⟨a2, _⟩
    · exact Or.inr ⟨rfl, a2, c1, b2.trans d⟩
    · cases a2

theorem Track.fired {s s1 : RState} {f f1 : Option PyErr} (h : Track s s1 f f1)
    (hf : f.isSome = true → s.fired = true) : f1.isSome = true → s1.fired = true := by
  rcases h with ⟨a, b⟩ | ⟨_, _, _, d⟩
  · subst a; intro h; rw [b]; exact hf h
  · exact fun _ => d

theorem collectOS_track {x : M Unit} {s : RState} {Q : Unit → RState → Prop} {E : RState → Prop}
    (hx : Outcome s (exec x s) Q E) (first : Option PyErr) (hfirst : first.isSome = true → s.fired = true) :
    ∃ first' s', exec (collectOS first x) s = (.ok first', s') ∧ s'.failAt = s.failAt ∧
      Track s s' first first' ∧ (Q () s' ∨ E s') := by
  obtain ⟨f1, s1, h1, h2, h3⟩ := collectOS_spec hx first hfirst
  refine ⟨f1, s1, h1, h2, ?_, ?_⟩
  · rcases h3 with ⟨a, b, _⟩ | ⟨a, b, c, d, _⟩
    · exact Or.inl ⟨a, b⟩
    · exact Or.inr ⟨a, b, c, d⟩
  · rcases h3 with ⟨_, _, h⟩ | ⟨_, _, _, _, h⟩
    · exact Or.inl h
    · exact Or.inr h

/-! ### first phase: the registered merging iterators -/

def CloseAllQ (s : RState) (G : List (List Cursor)) (s' : RState) : Prop :=
  Fr s s' ∧ s'.merging = s.merging ∧ s'.nextId = s.nextId ∧ s'.handles.Sublist s.handles ∧
    ∀ h ∈ s'.handles, ∀ cs ∈ G, ∀ c ∈ cs, c.handle = h → c.closed = true

theorem closeAll_spec (G : List (List Cursor)) (first : Option PyErr) (s : RState) (hi : HInv s)
    (hfirst : first.isSome = true → s.fired = true) :
    ∃ first' s', exec (G.foldlM (fun first cs => collectOS first (closeCursors cs)) first) s = (.ok first', s') ∧
      CloseAllQ s G s' ∧ s'.failAt = s.failAt ∧ Track s s' first first' := by
  induction G generalizing first s with
  | nil =>
    exact ⟨first, s, rfl, ⟨Fr.refl s, rfl, rfl, List.Sublist.refl _, fun _ _ _ h => by cases h⟩, rfl, Track.refl _ _⟩
  | cons cs G ih =>
    rw [List.foldlM_cons]
    obtain ⟨f1, s1, h1, hfa1, ht1, hq⟩ := collectOS_track (closeCursors_spec cs s hi) first hfirst
    have hq1 : CloseQ s cs s1 := by rcases hq with h | h <;> exact h
    obtain ⟨q1, q2, q3, q4, q5⟩ := hq1
    have hi1 : HInv s1 := hi.sub q4 (Nat.le_of_eq q3.symm)
    obtain ⟨f2, s2, h2, ⟨r1, r2, r3, r4, r5⟩, hfa2, ht2⟩ := ih f1 s1 hi1 (ht1.fired hfirst)
    refine ⟨f2, s2, by rw [exec_bind_ok h1]; exact h2,
      ⟨q1.trans r1, r2.trans q2, r3.trans q3, r4.trans q4, ?_⟩, hfa2.trans hfa1, ht1.trans hfa1 ht2⟩
    intro h hh cs' hcs' c hc hch
    rcases List.mem_cons.1 hcs' with rfl | hcs'
    · exact q5 h (r4.subset hh) c hc hch
    · exact r5 h hh cs' hcs' c hc hch

/-! ### second phase: descriptors and files -/

def removeStep (acc : Option PyErr × List Nat) (pd : Nat × Option Nat) : M (Option PyErr × List Nat) := do
  let (first, remaining) := acc
  let first ← match pd.2 with
    | some d => collectOS first (osclose d)
    | none => pure first
  tryCatch (do osremove pd.1; pure (first, remaining))
    (fun e => match e with
      | .os _ => pure (first.orElse (fun _ => some e), remaining ++ [pd.1])
      | e => throw e)

theorem close_eq : close = (do
    let s ← get
    let first ← s.merging.foldlM (fun (first : Option PyErr) cs => collectOS first (closeCursors cs)) none
    modify (fun s => { s with merging := [] })
    let (first, remaining) ← (s.paths.zip s.fdsReg).foldlM removeStep (first, [])
    modify (fun s => { s with paths := remaining, fdsReg := remaining.map (fun _ => none) })
    match first with
    | some e => throw e
    | none => pure ()) := rfl


/-- what the second phase leaves alone -/
structure Keep (s s' : RState) : Prop where
  handles : s'.handles = s.handles
  merging : s'.merging = s.merging
  nextId : s'.nextId = s.nextId
  paths : s'.paths = s.paths
  fdsReg : s'.fdsReg = s.fdsReg
  failAt : s'.failAt = s.failAt

theorem Keep.refl (s : RState) : Keep s s := ⟨rfl, rfl, rfl, rfl, rfl, rfl⟩
theorem Keep.trans {a b c : RState} (h1 : Keep a b) (h2 : Keep b c) : Keep a c :=
  ⟨h2.handles.trans h1.handles, h2.merging.trans h1.merging, h2.nextId.trans h1.nextId,
   h2.paths.trans h1.paths, h2.fdsReg.trans h1.fdsReg, h2.failAt.trans h1.failAt⟩

def RemQ (s : RState) (pds : List (Nat × Option Nat)) (rem rem' : List Nat) (s' : RState) : Prop :=
  Keep s s' ∧ s'.files.Sublist s.files ∧ s'.fds.Sublist s.fds ∧
  (∀ f ∈ s'.files, f ∈ pds.map (·.1) → f ∈ rem') ∧
  (∀ d ∈ s'.fds, some d ∉ pds.map (·.2)) ∧
  (∀ f ∈ rem, f ∈ rem') ∧ (∀ f ∈ rem', f ∈ rem ∨ f ∈ pds.map (·.1))

theorem osclose_outcome (d : Nat) (s : RState) :
    Outcome s (exec (osclose d) s)
      (fun _ s' => Keep s s' ∧ s'.files = s.files ∧ s'.fds = s.fds.erase d)
      (fun s' => Keep s s' ∧ s'.files = s.files ∧ s'.fds = s.fds.erase d) := by
  rcases osclose_exec d s with ⟨t, ht⟩ | ⟨hf, t, ht⟩
  · rw [ht]; exact Outcome.ok rfl rfl ⟨⟨rfl, rfl, rfl, rfl, rfl, rfl⟩, rfl, rfl⟩
  · rw [ht]; exact Outcome.err rfl hf rfl ⟨⟨rfl, rfl, rfl, rfl, rfl, rfl⟩, rfl, rfl⟩

def removeTail (pd : Nat × Option Nat) (rem : List Nat) (first : Option PyErr) : M (Option PyErr × List Nat) :=
  tryCatch (do osremove pd.1; pure (first, rem))
    (fun e => match e with
      | .os _ => pure (first.orElse (fun _ => some e), rem ++ [pd.1])
      | e => throw e)

theorem removeStep_eq (pd : Nat × Option Nat) (first : Option PyErr) (rem : List Nat) :
    removeStep (first, rem) pd = (match pd.2 with
      | some d => collectOS first (osclose d) >>= removeTail pd rem
      | none => pure first >>= removeTail pd rem) := by
  unfold removeStep removeTail
  cases pd.2 <;> rfl

theorem removeStep_spec (pd : Nat × Option Nat) (first : Option PyErr) (rem : List Nat) (s : RState)
    (hF : s.files.Nodup) (hD : s.fds.Nodup) (hfirst : first.isSome = true → s.fired = true)
    (hrem : rem ≠ [] → first.isSome = true) :
    ∃ first' rem' s', exec (removeStep (first, rem) pd) s = (.ok (first', rem'), s') ∧
      RemQ s [pd] rem rem' s' ∧ (rem' ≠ [] → first'.isSome = true) ∧ Track s s' first first' := by
  rw [removeStep_eq]
  -- the file, after the descriptor has been dealt with
  have hB : ∀ (f1 : Option PyErr) (s1 : RState), Keep s s1 → s1.files = s.files → s1.fds.Sublist s.fds →
      (∀ d ∈ s1.fds, some d ≠ pd.2) → Track s s1 first f1 →
      ∃ first' rem' s', exec (removeTail pd rem f1) s1 = (.ok (first', rem'), s') ∧
        RemQ s [pd] rem rem' s' ∧ (rem' ≠ [] → first'.isSome = true) ∧ Track s s' first first' := by
    intro f1 s1 kA hAf hAd hAn htA
    unfold removeTail
    rw [exec_tryCatch]
    have hF1 : s1.files.Nodup := hAf ▸ hF
    have hfirst1 := htA.fired hfirst
    rcases osremove_exec pd.1 s1 with ⟨t, ht⟩ | ⟨hf, t, ht⟩
    · rw [exec_bind_ok ht, exec_pure]
      refine ⟨f1, rem, _, rfl, ⟨kA.trans ⟨rfl, rfl, rfl, rfl, rfl, rfl⟩, ?_, hAd, ?_, ?_, fun _ h => h,
        fun _ h => Or.inl h⟩, ?_, htA.trans kA.failAt (Or.inl ⟨rfl, rfl⟩)⟩
      · show (s1.files.erase pd.1).Sublist s.files
        exact hAf ▸ List.erase_sublist
      · intro f hf hm
        simp only [List.map_cons, List.map_nil, List.mem_singleton] at hm
        subst hm
        exact absurd rfl ((hF1.mem_erase_iff.1 hf).1)
      · intro d hd hm
        simp only [List.map_cons, List.map_nil, List.mem_singleton] at hm
        exact hAn d hd hm
      · intro h
        rcases htA with ⟨a, _⟩ | ⟨_, b, _⟩
        · rw [a]; exact hrem h
        · rw [b]; rfl
    · rw [exec_bind_err ht]
      have hn : f1 = none := by
        cases f1 with
        | none => rfl
        | some e => have := hfirst1 rfl; rw [hf.1] at this; cases this
      subst hn
      refine ⟨some ioErr, rem ++ [pd.1], fire s1 t, rfl, ⟨kA.trans ⟨rfl, rfl, rfl, rfl, rfl, rfl⟩, ?_, hAd, ?_, ?_,
        fun _ h => List.mem_append_left _ h, ?_⟩, fun _ => rfl, ?_⟩
      · show s1.files.Sublist s.files
        exact hAf ▸ List.Sublist.refl _
      · intro f _ hm
        simp only [List.map_cons, List.map_nil, List.mem_singleton] at hm
        subst hm; simp
      · intro d hd hm
        simp only [List.map_cons, List.map_nil, List.mem_singleton] at hm
        exact hAn d hd hm
      · intro f hf
        rcases List.mem_append.1 hf with h | h
        · exact Or.inl h
        · right; simpa using h
      · exact htA.trans kA.failAt (Or.inr ⟨rfl, rfl, hf, rfl⟩)
  cases hd : pd.2 with
  | none =>
    simp only []
    rw [exec_bind, exec_pure]
    exact hB first s (Keep.refl s) rfl (List.Sublist.refl _) (fun _ _ h => by rw [hd] at h; cases h) (Track.refl _ _)
  | some d =>
    simp only []
    obtain ⟨f1, s1, h1, _, ht, hq⟩ := collectOS_track (osclose_outcome d s) first hfirst
    have hq' : Keep s s1 ∧ s1.files = s.files ∧ s1.fds = s.fds.erase d := by
      rcases hq with h | h <;> exact h
    obtain ⟨k1, k2, k3⟩ := hq'
    rw [exec_bind_ok h1]
    refine hB f1 s1 k1 k2 (k3 ▸ List.erase_sublist) ?_ ht
    intro d' hd' he
    rw [k3, hD.mem_erase_iff] at hd'
    rw [hd] at he
    exact hd'.1 (Option.some.inj he)


theorem removeFold_spec (pds : List (Nat × Option Nat)) (first : Option PyErr) (rem : List Nat) (s : RState)
    (hF : s.files.Nodup) (hD : s.fds.Nodup) (hfirst : first.isSome = true → s.fired = true)
    (hrem : rem ≠ [] → first.isSome = true) :
    ∃ first' rem' s', exec (pds.foldlM removeStep (first, rem)) s = (.ok (first', rem'), s') ∧
      RemQ s pds rem rem' s' ∧ (rem' ≠ [] → first'.isSome = true) ∧ Track s s' first first' := by
  induction pds generalizing first rem s with
  | nil =>
    exact ⟨first, rem, s, rfl, ⟨Keep.refl s, List.Sublist.refl _, List.Sublist.refl _,
      fun _ _ h => (by cases h), fun _ _ h => (by cases h), fun _ h => h, fun _ h => Or.inl h⟩, hrem, Track.refl _ _⟩
  | cons pd pds ih =>
    rw [List.foldlM_cons]
    obtain ⟨f1, r1, s1, h1, ⟨k1, a1, a2, a3, a4, a5, a6⟩, hr1, ht1⟩ := removeStep_spec pd first rem s hF hD hfirst hrem
    obtain ⟨f2, r2, s2, h2, ⟨k2, b1, b2, b3, b4, b5, b6⟩, hr2, ht2⟩ :=
      ih f1 r1 s1 (hF.sublist a1) (hD.sublist a2) (ht1.fired hfirst) hr1
    refine ⟨f2, r2, s2, by rw [exec_bind_ok h1]; exact h2,
      ⟨k1.trans k2, b1.trans a1, b2.trans a2, ?_, ?_, fun f h => b5 f (a5 f h), ?_⟩, hr2, ht1.trans k1.failAt ht2⟩
    · intro f hf hm
      rw [List.map_cons, List.mem_cons] at hm
      rcases hm with rfl | hm
      · exact b5 _ (a3 _ (b1.subset hf) (by simp))
      · exact b3 f hf hm
    · intro d hd hm
      rw [List.map_cons, List.mem_cons] at hm
      rcases hm with he | hm
      · exact a4 d (b2.subset hd) (by simp [he])
      · exact b4 d hd hm
    · intro f hf
      rcases b6 f hf with h | h
      · rcases a6 f h with h | h
        · exact Or.inl h
        · right; simp only [List.map_cons, List.map_nil, List.mem_singleton] at h; simp [h]
      · right; simp only [List.map_cons, List.mem_cons]; exact Or.inr h

/-- what holds after `close()`, whether it returned or raised -/
def CloseE (s' : RState) : Prop :=
  RInv s' ∧ s'.handles = [] ∧ s'.fds = [] ∧ s'.merging = []
/-- after a `close()` that returned -/
def CloseOk (s' : RState) : Prop :=
  CloseE s' ∧ s'.files = [] ∧ s'.paths = [] ∧ s'.fdsReg = []

theorem close_spec (s : RState) (hr : RInv s) :
    Outcome s (exec close s) (fun _ => CloseOk) CloseE := by
  rw [close_eq, exec_bind, exec_get]
  simp only []
  obtain ⟨f1, s1, h1, ⟨q1, q2, q3, q4, q5⟩, hfa1, ht1⟩ := closeAll_spec s.merging none s hr.hinv (by simp)
  rw [exec_bind_ok h1, exec_bind, exec_modify]
  simp only []
  have hH1 : s1.handles = [] := by
    rw [List.eq_nil_iff_forall_not_mem]
    intro h hh
    obtain ⟨cs, hcs, c, hc, hc1, hc2⟩ := hr.cov h (q4.subset hh)
    have := q5 h hh cs hcs c hc hc1
    rw [hc2] at this; cases this
  obtain ⟨f2, rem, s2, h2, ⟨k, b1, b2, b3, b4, _, b6⟩, hrem, ht2⟩ :=
    removeFold_spec (s.paths.zip s.fdsReg) f1 [] { s1 with merging := [] } (q1.files ▸ hr.filesNd)
      (q1.fds ▸ hr.fdsNd) (ht1.fired (by simp)) (by simp)
  rw [exec_bind_ok h2]
  simp only []
  rw [exec_bind, exec_modify]
  simp only []
  have hfst : (s.paths.zip s.fdsReg).map (·.1) = s.paths := List.map_fst_zip (Nat.le_of_eq hr.lenReg)
  have hsnd : (s.paths.zip s.fdsReg).map (·.2) = s.fdsReg := List.map_snd_zip (Nat.le_of_eq hr.lenReg.symm)
  have hfiles : ∀ f ∈ s2.files, f ∈ rem := by
    intro f hf
    refine b3 f hf ?_
    rw [hfst]
    exact hr.filesReg f (q1.files ▸ b1.subset hf)
  have hfds : s2.fds = [] := by
    rw [List.eq_nil_iff_forall_not_mem]
    intro d hd
    refine b4 d hd ?_
    rw [hsnd]
    exact hr.fdsReg d (q1.fds ▸ b2.subset hd)
  have hH2 : s2.handles = [] := k.handles.trans hH1
  have hE : CloseE { s2 with paths := rem, fdsReg := rem.map (fun _ => none) } := by
    refine ⟨⟨(q1.files ▸ hr.filesNd : s1.files.Nodup).sublist b1, hfds ▸ List.nodup_nil, hfiles, by simp, ?_,
      ⟨hH2 ▸ List.nodup_nil, ?_⟩, ?_⟩, hH2, hfds, k.merging⟩
    · intro d hd; rw [hfds] at hd; cases hd
    · intro x hx; rw [hH2] at hx; cases hx
    · intro x hx; rw [hH2] at hx; cases hx
  have ht : Track s s2 none f2 := ht1.trans hfa1 ht2
  have hfa : s2.failAt = s.failAt := k.failAt.trans hfa1
  rcases ht with ⟨a, b⟩ | ⟨_, a, b, c⟩
  · subst a
    have hrn : rem = [] := by
      cases rem with
      | nil => rfl
      | cons x xs => have := hrem (by simp); cases this
    subst hrn
    refine Outcome.ok hfa b ⟨hE, ?_, rfl, rfl⟩
    rw [List.eq_nil_iff_forall_not_mem]
    intro f hf; exact absurd (hfiles f hf) (by simp)
  · subst a
    exact Outcome.err hfa b c hE


end ResourceLemmas
