/-
  Lemmas behind C02 (files written by the library read back identically): the composition of
  the writer (`Model/Writer.lean`), the file as a list of lines, the reader (`Model/Reader.lean`),
  the header printer/parser (`Lemmas/HeaderLemmas.lean`) and the record printer/parser
  (`Lemmas/WriterLemmas.lean`, `Lemmas/FromLineAccept.lean`).

  NOTE on imports.  `Lemmas/ReaderRecord.lean` (hence `ReaderLemmas`, `ReaderHeader`, `ReaderModes`,
  `ReaderExample`, C16, C17, C03, C19) and `Lemmas/FromLineLemmas.lean` (hence `FromLineAccept`,
  `WriterLemmas`, `CloseLemmas`, C01Record, C06) both declare `Model.fromLineStep`,
  `Model.fromLine_eq`, `Model.fromLine_spec`, `Model.processErrors_nonstrict`,
  `Model.processErrors_strict_ok`; `Lemmas/ReaderHeader.lean` and `Lemmas/HeaderLemmas.lean` both
  declare `Model.applyContigs_errors`, `Model.parseLines_errors`, `Model.Header.set_errors`.  No Lean
  file can import both sides.  This file imports the writer / `from_line` / header side and
  re-proves, in the namespace `RoundTrip`, the few facts about `Reader.init` / `Reader.advance` /
  `readHeaderLines` it needs (they do not depend on `ReaderRecord`).
-/
import MafModel.Lemmas.WriterLemmas
import MafModel.Lemmas.HeaderLemmas
import MafModel.Props.C13
open Py Model

namespace RoundTrip

/-! ## 1. the file as a list of lines -/

/-- The lines of a text as Python's iteration over a text handle yields them (no newline
    translation): the text is split *after* each LF; a final segment without LF is a line too, an
    empty final segment is not. -/
def fileLines : Text → List Text
  | [] => []
  | c :: cs =>
    if c = '\n' then ['\n'] :: fileLines cs
    else match fileLines cs with
      | [] => [[c]]
      | l :: ls => (c :: l) :: ls

/-- splitting loses nothing: the lines concatenate to the text -/
theorem flatten_fileLines (s : Text) : (fileLines s).flatten = s := by
  induction s with
  | nil => rfl
  | cons c cs ih =>
    unfold fileLines
    split
    · rename_i h; subst h; simp [ih]
    · split
      · rename_i h; rw [h] at ih; simp at ih; simp [← ih]
      · rename_i l ls h; rw [h] at ih; simp at ih; simp [← ih]

/-- every line but possibly the last ends in LF, and no line has an LF before its end -/
theorem fileLines_shape (s : Text) :
    ∀ l ∈ fileLines s, l ≠ [] ∧ '\n' ∉ l.dropLast := by
  induction s with
  | nil => simp [fileLines]
  | cons c cs ih =>
    unfold fileLines
    split
    · intro l hl
      simp only [List.mem_cons] at hl
      rcases hl with rfl | hl
      · simp
      · exact ih l hl
    · rename_i hc
      split
      · intro l hl; simp at hl; subst hl; simp
      · rename_i l0 ls h
        rw [h] at ih
        intro l hl
        simp only [List.mem_cons] at hl
        rcases hl with rfl | hl
        · have := ih l0 (by simp)
          refine ⟨by simp, ?_⟩
          cases l0 with
          | nil => exact absurd rfl this.1
          | cons d ds =>
            rw [List.dropLast_cons_cons]
            simp only [List.mem_cons, not_or]
            exact ⟨fun e => hc e.symm, this.2⟩
        · exact ih l (by simp [hl])

theorem fileLines_line (l rest : Text) (h : '\n' ∉ l) :
    fileLines (l ++ '\n' :: rest) = (l ++ ['\n']) :: fileLines rest := by
  induction l with
  | nil => simp [fileLines]
  | cons c cs ih =>
    have hc : c ≠ '\n' := by intro e; apply h; simp [e]
    have hcs : '\n' ∉ cs := by intro e; apply h; simp [e]
    rw [List.cons_append, fileLines, if_neg hc, ih hcs]
    rfl

/-- **a file written line by line reads back line by line**: when no line contains an LF, the
    lines of the concatenation of `line ++ "\n"` are exactly those -/
theorem fileLines_flatten (ls : List Text) (h : ∀ l ∈ ls, '\n' ∉ l) :
    fileLines (ls.map (· ++ ['\n'])).flatten = ls.map (· ++ ['\n']) := by
  induction ls with
  | nil => rfl
  | cons l r ih =>
    simp only [List.map_cons, List.flatten_cons, List.append_assoc, List.singleton_append]
    rw [fileLines_line l _ (h l (by simp)), ih (fun m hm => h m (by simp [hm]))]

/-- `"\n".join(ls) + "\n"` is every line followed by LF -/
theorem joinWith_lf_append (ls : List Text) (hne : ls ≠ []) :
    joinWith '\n' ls ++ ['\n'] = (ls.map (· ++ ['\n'])).flatten := by
  induction ls with
  | nil => exact absurd rfl hne
  | cons l r ih =>
    cases r with
    | nil => simp [joinWith]
    | cons m r' =>
      rw [joinWith_cons_cons, List.map_cons, List.flatten_cons, ← ih (by simp)]
      simp

theorem mem_rstripChars (p : Char → Bool) (s : Text) (c : Char) (h : c ∈ rstripChars p s) : c ∈ s := by
  unfold rstripChars at h
  have := (List.dropWhile_sublist p (l := s.reverse)).subset (by simpa using h)
  simpa using this

/-- a text that does not end in CR or LF loses exactly an appended LF to `rstrip("\r\n")` -/
theorem rstripCRLF_append_lf' (s : Text) (h : ∀ c, s.getLast? = some c → isCRLF c = false) :
    rstripCRLF (s ++ ['\n']) = s :=
  rstripChars_append_all _ _ _ h (by decide)

theorem takeWhile_append_stop {α} (p : α → Bool) (a : List α) (b : α) (c : List α)
    (ha : ∀ x ∈ a, p x = true) (hb : p b = false) : (a ++ b :: c).takeWhile p = a := by
  induction a with
  | nil => simp [hb]
  | cons x a ih =>
    simp only [List.cons_append, List.takeWhile_cons, ha x (by simp), if_true]
    rw [ih (fun y hy => ha y (by simp [hy]))]

theorem takeWhile_all {α} (p : α → Bool) (a : List α) (ha : ∀ x ∈ a, p x = true) :
    a.takeWhile p = a := by
  induction a with
  | nil => rfl
  | cons x a ih =>
    simp only [List.takeWhile_cons, ha x (by simp), if_true]
    rw [ih (fun y hy => ha y (by simp [hy]))]

/-! ## 2. the reader's `__init__`, taken apart

  (re-proved from `Lemmas/ReaderLemmas.lean`, which cannot be imported here — see the note at the top) -/

/-! ### the input as the reader sees it -/

/-- the input lines with their line ends stripped -/
def stripped (lines : List Text) : List Text := lines.map rstripCRLF

/-- the header block: the maximal prefix of (stripped) lines that start with the start symbol -/
def headerBlock (K : HConsts) (lines : List Text) : List Text :=
  (stripped lines).takeWhile (fun l => decide (l.head? = some K.startSymbol))

/-- `k`: the number of header lines -/
def headerLen (K : HConsts) (lines : List Text) : Nat := (headerBlock K lines).length

/-- the data lines: everything after the column-name line -/
def dataLines (K : HConsts) (lines : List Text) : List Text := (stripped lines).drop (headerLen K lines + 1)

theorem takeWhile_length_le {α} (p : α → Bool) (l : List α) : (l.takeWhile p).length ≤ l.length := by
  induction l with
  | nil => simp
  | cons a l ih => simp only [List.takeWhile_cons]; split <;> simp; omega

theorem takeWhile_eq_take_length {α} (p : α → Bool) (l : List α) :
    l.takeWhile p = l.take (l.takeWhile p).length := by
  induction l with
  | nil => simp
  | cons a l ih =>
    simp only [List.takeWhile_cons]
    split
    · simp only [List.length_cons, List.take_succ_cons]; rw [← ih]
    · simp

theorem of_mem_takeWhile {α} (p : α → Bool) (l : List α) (a : α) (h : a ∈ l.takeWhile p) : p a = true := by
  induction l with
  | nil => simp at h
  | cons b l ih =>
    simp only [List.takeWhile_cons] at h
    split at h
    · rcases List.mem_cons.1 h with rfl | h
      · assumption
      · exact ih h
    · simp at h

@[simp] theorem stripped_length (lines : List Text) : (stripped lines).length = lines.length := by
  simp [stripped]

theorem headerLen_le (K : HConsts) (lines : List Text) : headerLen K lines ≤ lines.length := by
  unfold headerLen headerBlock
  have := takeWhile_length_le (fun l => decide (l.head? = some K.startSymbol)) (stripped lines)
  simpa using this

theorem headerBlock_eq_take (K : HConsts) (lines : List Text) :
    headerBlock K lines = (stripped lines).take (headerLen K lines) := by
  unfold headerLen headerBlock
  exact takeWhile_eq_take_length _ _

/-- the line after the header block does not start with the start symbol -/
theorem not_header_at_headerLen (K : HConsts) (lines : List Text) (l : Text)
    (h : (stripped lines)[headerLen K lines]? = some l) : l.head? ≠ some K.startSymbol := by
  unfold headerLen headerBlock at h
  generalize stripped lines = S at h
  induction S with
  | nil => simp at h
  | cons a S ih =>
    by_cases ha : a.head? = some K.startSymbol
    · simp only [List.takeWhile_cons, ha, decide_true, if_true, List.length_cons,
        List.getElem?_cons_succ] at h
      exact ih h
    · simp only [List.takeWhile_cons, ha, decide_false, Bool.false_eq_true, if_false,
        List.length_nil, List.getElem?_cons_zero, Option.some.injEq] at h
      subst h; exact ha

/-- every line of the header block starts with the start symbol -/
theorem header_of_mem_headerBlock (K : HConsts) (lines : List Text) (l : Text)
    (h : l ∈ headerBlock K lines) : l.head? = some K.startSymbol := by
  have := of_mem_takeWhile _ _ _ h
  simpa using this

/-! ### `advance` -/

@[simp] theorem advance_header (r : Reader) : r.advance.header = r.header := by
  unfold Reader.advance; split <;> rfl
@[simp] theorem advance_scheme (r : Reader) : r.advance.scheme = r.scheme := by
  unfold Reader.advance; split <;> rfl
@[simp] theorem advance_errors (r : Reader) : r.advance.errors = r.errors := by
  unfold Reader.advance; split <;> rfl
@[simp] theorem advance_mode (r : Reader) : r.advance.mode = r.mode := by
  unfold Reader.advance; split <;> rfl
@[simp] theorem advance_logs (r : Reader) : r.advance.logs = r.logs := by
  unfold Reader.advance; split <;> rfl
/-- every call pulls once -/
@[simp] theorem advance_pulled (r : Reader) : r.advance.pulled = r.pulled + 1 := by
  unfold Reader.advance; split <;> rfl
@[simp] theorem advance_src (r : Reader) : r.advance.src = r.src.tail := by
  unfold Reader.advance; split <;> simp_all
@[simp] theorem advance_next (r : Reader) : r.advance.next = r.src.head?.map rstripCRLF := by
  unfold Reader.advance; split <;> simp_all
theorem advance_lineNo (r : Reader) :
    r.advance.lineNo = r.lineNo + (if r.src = [] then 0 else 1) := by
  unfold Reader.advance; split <;> simp_all

/-- the part of the state `advance` does not look at commutes with it -/
theorem advance_with (r : Reader) (h : Header) (s : Option Scheme) (es : List VErr) (m : Mode)
    (lg : List LogRec) :
    ({ r with header := h, scheme := s, errors := es, mode := m, logs := lg } : Reader).advance =
      { r.advance with header := h, scheme := s, errors := es, mode := m, logs := lg } := by
  unfold Reader.advance
  cases r.src <;> rfl

/-- **the look-ahead stands at (0-based) line `p`**: `p + 1` pulls so far, the look-ahead is
    line `p` (if there is one), the line counter is the number of lines really read -/
structure At (lines : List Text) (r : Reader) (p : Nat) : Prop where
  pulled : r.pulled = p + 1
  src : r.src = lines.drop (p + 1)
  lineNo : r.lineNo = min (p + 1) lines.length
  next : r.next = (stripped lines)[p]?

theorem At.advance {lines : List Text} {r : Reader} {p : Nat} (h : At lines r p) :
    At lines r.advance (p + 1) := by
  refine ⟨by simp [h.pulled], by simp [h.src], ?_, ?_⟩
  · rw [advance_lineNo, h.src, h.lineNo]
    by_cases hp : p + 1 < lines.length
    · have : lines.drop (p + 1) ≠ [] := by simp; omega
      rw [if_neg this]; omega
    · have : lines.drop (p + 1) = [] := by simp; omega
      rw [if_pos this]; omega
  · rw [advance_next, h.src]
    simp [stripped, List.head?_drop]

/-- `src.length + pulled` bookkeeping: the lines not yet pulled are exactly the input minus the
    pulls -/
theorem At.src_length {lines : List Text} {r : Reader} {p : Nat} (h : At lines r p) :
    r.src.length + min r.pulled lines.length = lines.length := by
  rw [h.src, h.pulled]; simp; omega

theorem At.next_none_iff {lines : List Text} {r : Reader} {p : Nat} (h : At lines r p) :
    r.next = none ↔ lines.length ≤ p := by
  rw [h.next]; simp

/-! ### `readHeaderLines` -/

theorem readHeaderLines_spec (K : HConsts) :
    ∀ (fuel : Nat) (r : Reader) (acc : List Text), r.src.length < fuel →
      readHeaderLines K fuel r acc =
        ({ r with src := r.src.drop ((headerBlock K r.src).length + 1),
                  pulled := r.pulled + (headerBlock K r.src).length + 1,
                  next := (stripped r.src)[(headerBlock K r.src).length]?,
                  lineNo := r.lineNo + min ((headerBlock K r.src).length + 1) r.src.length },
         acc ++ headerBlock K r.src) := by
  intro fuel
  induction fuel with
  | zero => intro r acc h; omega
  | succ fuel ih =>
    intro r acc hf
    obtain ⟨src, pulled, next, lineNo, header, scheme, errors, mode, logs⟩ := r
    cases src with
    | nil =>
      simp [readHeaderLines, Reader.advance, headerBlock, stripped]
    | cons l ls =>
      simp only [List.length_cons] at hf
      by_cases hl : (rstripCRLF l).head? = some K.startSymbol
      · have hb : headerBlock K (l :: ls) = rstripCRLF l :: headerBlock K ls := by
          simp [headerBlock, stripped, hl]
        simp only [readHeaderLines, Reader.advance, hl, if_true, hb]
        rw [ih _ _ (by simp; omega)]
        simp [stripped]
        omega
      · have hb : headerBlock K (l :: ls) = [] := by
          simp [headerBlock, stripped, hl]
        simp [readHeaderLines, Reader.advance, hl, hb, stripped]

/-- **the header block as `__init__` reads it**: with the fuel `Reader.init` provides,
    `readHeaderLines` returns exactly the maximal prefix of start-symbol lines, leaves the
    look-ahead on the line after it (`(stripped lines)[k]?`), has pulled `k + 1` times, counts
    `min (k+1) |lines|` lines read, and has `lines.drop (k+1)` still to pull -/
theorem readHeaderLines_init (K : HConsts) (lines : List Text) (m : Mode) :
    readHeaderLines K (lines.length + 1) { src := lines, mode := m } [] =
      ({ src := lines.drop (headerLen K lines + 1), pulled := headerLen K lines + 1,
         next := (stripped lines)[headerLen K lines]?,
         lineNo := min (headerLen K lines + 1) lines.length, mode := m },
       headerBlock K lines) := by
  rw [readHeaderLines_spec K _ _ _ (by simp)]
  simp [headerLen]

/-! ### `Reader.init`, taken apart -/

/-- `HEADER_MISMATCH_SCHEME`: the given scheme against the scheme the header names -/
def initE1 (hs given : Option Scheme) : List VErr :=
  match given with
  | some g =>
    (match hs with
     | some s => if g.version ≠ s.version then [{ tpe := "HEADER_MISMATCH_SCHEME", line := none }] else []
     | none => [])
  | none => []

/-- the scheme before the column names are seen: the given one, else the header's -/
def initSch1 (hs given : Option Scheme) : Option Scheme :=
  match given with
  | some g => some g
  | none => hs

/-- no usable scheme: the reader falls back to `NoRestrictionsScheme(column names)` -/
def schemeless (sch1 : Option Scheme) : Prop := sch1.isNone ∨ (sch1.map (·.noRestrictions)) = some true

instance (sch1 : Option Scheme) : Decidable (schemeless sch1) := by unfold schemeless; infer_instance

/-- the scheme the records are read with -/
def initSch2 (colNames : Option (List Text)) (sch1 : Option Scheme) : Option Scheme :=
  match colNames with
  | some names => if schemeless sch1 then some (noRestrictionsScheme (names.map String.ofList)) else sch1
  | none => sch1

/-- the `NO_MATCHING_SCHEME_WARNING` log record -/
def initWarn (m : Mode) (colNames : Option (List Text)) (sch1 : Option Scheme) : List LogRec :=
  match colNames with
  | some _ => if schemeless sch1 then (if m ≠ .silent then [{ tpe := "NO_MATCHING_SCHEME_WARNING", line := none }] else []) else []
  | none => []

/-- the column-name errors; `k` = number of header lines, so the column-name line is line `k + 1` -/
def initE2 (colNames : Option (List Text)) (sch2 : Option Scheme) (k : Nat) : List VErr :=
  match colNames, sch2 with
  | some names, some s =>
    let snames := s.names.map String.toList
    if names.length ≠ snames.length then
      [{ tpe := "SCHEME_MISMATCHING_NUMBER_OF_COLUMN_NAMES", line := some (k + 1), origin := some (k + 1) }]
    else (names.zip snames).filterMap (fun p =>
      if p.1 ≠ p.2 then some { tpe := "SCHEME_MISMATCHING_COLUMN_NAMES", line := some (k + 1), origin := some (k + 1) } else none)
  | some _, none => []
  | none, _ => [{ tpe := "HEADER_MISSING_COLUMN_NAMES", line := some (k + 1), origin := some (k + 1) }]

/-- the reader `__init__` leaves: look-ahead at line `p` -/
def initReader (lines : List Text) (p : Nat) (h : Header) (sch : Option Scheme) (errs : List VErr)
    (m : Mode) (logs : List LogRec) : Reader :=
  { src := lines.drop (p + 1), pulled := p + 1, next := (stripped lines)[p]?,
    lineNo := min (p + 1) lines.length, header := h, scheme := sch, errors := errs, mode := m, logs := logs }

theorem init_eq (C : Ctx) (K : HConsts) (R : Registry) (lines : List Text) (mode : Option Mode)
    (given : Option Scheme) :
    Reader.init C K R lines mode given =
      match Header.fromLines K R (headerBlock K lines) (some (modeOrSilent mode)) with
      | (_, .error e) => .error e
      | (h, .ok hlogs) =>
        let k := headerLen K lines
        let colNames := (stripped lines)[k]?.map (splitOn '\t')
        let sch1 := initSch1 (h.scheme K R) given
        let sch2 := initSch2 colNames sch1
        let errs := h.errors ++ initE1 (h.scheme K R) given ++ initE2 colNames sch2 k
        match processErrors (modeOrSilent mode) errs with
        | .error e => .error e
        | .ok lg => .ok (initReader lines (min (k + 1) lines.length) h sch2 errs (modeOrSilent mode)
                          (hlogs ++ initWarn (modeOrSilent mode) colNames sch1 ++ lg)) := by
  unfold Reader.init
  simp only []
  rw [readHeaderLines_spec K _ _ _ (by simp)]
  simp only [List.nil_append]
  rcases hfl : Header.fromLines K R (headerBlock K lines) (some (modeOrSilent mode)) with ⟨h, res⟩
  cases res with
  | error e => rfl
  | ok hlogs =>
    simp only []
    have hk := headerLen_le K lines
    cases hc : (stripped lines)[headerLen K lines]? with
    | none =>
      have hlen : lines.length ≤ headerLen K lines := by simpa using hc
      have hk' : headerLen K lines = lines.length := by omega
      have e0 : (headerBlock K lines).length = headerLen K lines := rfl
      have hmin : min (headerLen K lines + 1) lines.length = headerLen K lines := by omega
      simp only [e0, hc, Nat.zero_add, hmin, Option.map_none]
      cases given <;> simp only [initE1, initSch1, initSch2, initE2, initWarn, initReader, hc, List.append_nil]
      all_goals simp only [hmin]
      all_goals rfl
    | some l =>
      have hlt : headerLen K lines < lines.length := by
        have := (List.getElem?_eq_some_iff.1 hc).1
        simpa using this
      have e0 : (headerBlock K lines).length = headerLen K lines := rfl
      have hmin : min (headerLen K lines + 1) lines.length = headerLen K lines + 1 := by omega
      simp only [e0, hc, Nat.zero_add, hmin, Option.map_some]
      have hsrc : (List.drop (headerLen K lines + 1) lines).tail = List.drop (headerLen K lines + 1 + 1) lines := by
        simp [List.tail_drop]
      have hnext : (List.drop (headerLen K lines + 1) lines).head?.map rstripCRLF = (stripped lines)[headerLen K lines + 1]? := by
        simp [stripped, List.head?_drop]
      have hln : (headerLen K lines + 1 + if List.drop (headerLen K lines + 1) lines = [] then 0 else 1)
          = min (headerLen K lines + 1 + 1) lines.length := by
        by_cases hp : headerLen K lines + 1 < lines.length
        · have : lines.drop (headerLen K lines + 1) ≠ [] := by simp; omega
          rw [if_neg this]; omega
        · have : lines.drop (headerLen K lines + 1) = [] := by simp; omega
          rw [if_pos this]; omega
      simp only [advance_src, advance_pulled, advance_next, advance_lineNo, advance_header, advance_errors,
        advance_mode, advance_logs, hsrc, hnext, hln]
      cases given <;> simp only [initE1, initSch1, initSch2, initE2, initWarn, initReader, List.append_nil]
      · by_cases hs : schemeless (Header.scheme K R h)
        · have hs' : (Header.scheme K R h).isNone = true ∨ (Header.scheme K R h).map (·.noRestrictions) = some true := hs
          simp only [hs, hs', ↓reduceIte]
          rfl
        · have hs' : ¬ ((Header.scheme K R h).isNone = true ∨ (Header.scheme K R h).map (·.noRestrictions) = some true) := hs
          simp only [hs, hs', ↓reduceIte]
          cases Header.scheme K R h <;> rfl
      · rename_i g
        by_cases hs : schemeless (some g)
        · have hs' : (some g).isNone = true ∨ (some g).map (·.noRestrictions) = some true := hs
          simp only [hs, hs', ↓reduceIte]
          rfl
        · have hs' : ¬ ((some g).isNone = true ∨ (some g).map (·.noRestrictions) = some true) := hs
          simp only [hs, hs', ↓reduceIte]
          rfl


/-! ## 3. the writer's `__init__` -/

/-- the two whole-header checks of `header.validate` -/
def hdrErrs (K : HConsts) (R : Registry) (h : Header) : List VErr :=
  C13.versionErrs K R h ++ C13.annotationErrs K R h

/-- they depend on the records of the header only -/
theorem hdrErrs_congr (K : HConsts) (R : Registry) {h1 h2 : Header} (e : h1.recs = h2.recs) :
    hdrErrs K R h1 = hdrErrs K R h2 := by
  obtain ⟨r1, e1, m1⟩ := h1
  obtain ⟨r2, e2, m2⟩ := h2
  simp only at e
  subst e
  rfl

theorem scheme_congr (K : HConsts) (R : Registry) {h1 h2 : Header} (e : h1.recs = h2.recs) :
    h1.scheme K R = h2.scheme K R := by
  obtain ⟨r1, e1, m1⟩ := h1
  obtain ⟨r2, e2, m2⟩ := h2
  simp only at e
  subst e
  rfl

theorem sortOrder_congr (K : HConsts) {h1 h2 : Header} (e : h1.recs = h2.recs) :
    h1.sortOrder K = h2.sortOrder K := by
  obtain ⟨r1, e1, m1⟩ := h1
  obtain ⟨r2, e2, m2⟩ := h2
  simp only at e
  subst e
  rfl

theorem renderLines_congr (K : HConsts) {h1 h2 : Header} (e : h1.recs = h2.recs) :
    h1.renderLines K = h2.renderLines K := by
  unfold Header.renderLines; rw [e]

/-- the header block a writer emits first -/
def headerOut (K : HConsts) (h : Header) : List Text :=
  if h.recs.isEmpty then [] else [joinWith '\n' (h.renderLines K) ++ ['\n']]

/-- `MafWriter(handle, header, stringency, assume_sorted=True)`, step by step -/
theorem writer_init_eq (K : HConsts) (R : Registry) (h : Header) (m : Mode) :
    Writer.init K R h (some m) true =
      match processErrors m (hdrErrs K R h) with
      | .error e => .error e
      | .ok _ =>
        match (h.scheme K R).filter Scheme.truthy with
        | some s => .ok { out := headerOut K h ++ [columnLine s],
                          header := { h with errors := hdrErrs K R h }, scheme := some s, mode := m,
                          assumeSorted := true, sorting := false }
        | none => .ok { out := headerOut K h, header := { h with errors := hdrErrs K R h }, mode := m,
                        assumeSorted := true } := by
  unfold Writer.init
  simp only [modeOrSilent]
  rw [C13.validate_rules]
  simp only [if_true, List.nil_append, Option.getD_some]
  unfold hdrErrs
  generalize processErrors m (C13.versionErrs K R h ++ C13.annotationErrs K R h) = pe
  cases pe with
  | error e => rfl
  | ok lg =>
    simp only []
    have hs : Header.scheme K R { h with errors := C13.versionErrs K R h ++ C13.annotationErrs K R h } =
        h.scheme K R := rfl
    rw [hs]
    cases (h.scheme K R).filter Scheme.truthy with
    | none => rfl
    | some s => rfl

/-! ## 4. one record: what is written, and what reading it back gives -/

/-- "the value of the column is the value its own text denotes under the scheme's class at
    position `i`" — true of every value obtained by parsing (`stable_of_parsed` in `Props/C02`),
    not of every value built through the API (`"007"` in a `StringOrIntegerColumn` prints `007`,
    which denotes the integer 7) -/
def ColStable (C : Ctx) (S : Scheme) (i : Nat) (c : Column) : Prop :=
  ∀ n cls sp t, S.cols[i]? = some (n, cls) → resolveSpec C.tbl cls = some sp → c.render C = .ok t →
    sp.accept C (plainOk cls) t = some c.value

def RecStable (C : Ctx) (S : Scheme) (r : Record) : Prop :=
  ∀ i c, r.slots[i]? = some (some c) → ColStable C S i c.col

/-- the record passes validation against `S` (the verdict does not depend on the stringency) -/
def Valid (C : Ctx) (S : Scheme) (r : Record) : Prop :=
  (r.validate C (some .strict) true (some S)).2 = .ok []

/-- name and value of every slot, in slot order -/
def cells (r : Record) : List (Option (Text × PyVal)) :=
  r.slots.map (fun o => o.map (fun c => (c.col.key, c.col.value)))

/-- `r` is printed as the TAB-join of `fields`: one field per scheme column, field `i` the text of
    the column in slot `i`, which is valid for position `i`, free of TAB/CR/LF -/
structure Emitted (C : Ctx) (S : Scheme) (r : Record) (fields : List Text) : Prop where
  flen : fields.length = S.size
  slen : r.slots.length = S.size
  cols : ∀ i, i < S.size → ∃ c f, r.slots[i]? = some (some c) ∧ fields[i]? = some f ∧
    ColValidAt C S i c.col ∧ c.col.render C = .ok f ∧ hasFieldSep f = false

theorem emitted_of_valid {C : Ctx} {S : Scheme} {r : Record} (hS : S.truthy = true)
    {logs : List LogRec} (hv : (r.validate C (some .strict) true (some S)).2 = .ok logs)
    {t : Text} (ht : r.render C = .ok t) :
    ∃ fields, t = joinWith '\t' fields ∧ Emitted C S r fields := by
  obtain ⟨_, _, hlen, _, hcols⟩ := Record.validate_strict_ok hS hv
  obtain ⟨fields, ht', hfl, hfi⟩ := Record.render_ok_fields ht
  refine ⟨fields, ht', by omega, hlen, ?_⟩
  intro i hi
  obtain ⟨c, hc, hvalid⟩ := hcols i hi
  obtain ⟨f, hf, hcf⟩ := hfi i c hc
  exact ⟨c, f, hc, hf, hvalid, hcf, hvalid.framed f hcf⟩

/-- the errors `validate` collects do not depend on the stringency -/
theorem validate_errors_mode (C : Ctx) (r : Record) (m m' : Option Mode) (b : Bool) (s : Option Scheme) :
    (r.validate C m b s).1.errors = (r.validate C m' b s).1.errors := rfl

theorem valid_iff_errors {C : Ctx} {S : Scheme} {r : Record} :
    Valid C S r ↔ (r.validate C (some .strict) true (some S)).1.errors = [] := by
  unfold Valid
  have h2 : (r.validate C (some .strict) true (some S)).2 =
      processErrors .strict (r.validate C (some .strict) true (some S)).1.errors := rfl
  rw [h2]
  cases (r.validate C (some .strict) true (some S)).1.errors with
  | nil => simp [processErrors]
  | cons e es => simp [processErrors]

theorem valid_of_strict_ok {C : Ctx} {S : Scheme} {r : Record} (hS : S.truthy = true)
    {logs : List LogRec} (hv : (r.validate C (some .strict) true (some S)).2 = .ok logs) :
    Valid C S r := by
  have := (Record.validate_strict_ok hS hv).2.1
  subst this
  exact hv

/-! ### `Record.render` from the texts of the slots -/

theorem mapM_eq_ok_of_getElem {α β ε : Type} (f : α → Except ε β) :
    ∀ (l : List α) (ys : List β), l.length = ys.length →
      (∀ (i : Nat) (a : α) (y : β), l[i]? = some a → ys[i]? = some y → f a = .ok y) →
      l.mapM f = .ok ys := by
  intro l
  induction l with
  | nil =>
    intro ys hl _
    cases ys with
    | nil => rfl
    | cons y ys => simp at hl
  | cons a l ih =>
    intro ys hl h
    cases ys with
    | nil => simp at hl
    | cons y ys =>
      have h0 := h 0 a y (by simp) (by simp)
      have hr := ih ys (by simpa using hl) (fun i a' y' ha hy => h (i + 1) a' y' (by simpa using ha) (by simpa using hy))
      simp [List.mapM_cons, h0, hr, bind, Except.bind, pure, Except.pure]

theorem render_of_fields {C : Ctx} {r : Record} {fields : List Text}
    (hlen : r.slots.length = fields.length)
    (h : ∀ (i : Nat) (f : Text), fields[i]? = some f →
      ∃ c : RCol, r.slots[i]? = some (some c) ∧ c.col.render C = .ok f) :
    r.render C = .ok (joinWith '\t' fields) := by
  unfold Record.render
  rw [mapM_eq_ok_of_getElem _ r.slots fields hlen]
  · rfl
  · intro i o f ho hf
    obtain ⟨c, hc, hr⟩ := h i f hf
    rw [ho] at hc
    cases hc
    exact hr

theorem Emitted.render {C : Ctx} {S : Scheme} {r : Record} {fields : List Text}
    (h : Emitted C S r fields) : r.render C = .ok (joinWith '\t' fields) := by
  apply render_of_fields (by rw [h.slen, h.flen])
  intro i f hf
  have hi : i < S.size := by
    rw [← h.flen]
    by_cases hlt : i < fields.length
    · exact hlt
    · rw [List.getElem?_eq_none (by omega)] at hf; cases hf
  obtain ⟨c, f', hc, hf', _, hr, _⟩ := h.cols i hi
  rw [hf] at hf'; cases hf'
  exact ⟨c, hc, hr⟩

theorem Emitted.clean {C : Ctx} {S : Scheme} {r : Record} {fields : List Text}
    (h : Emitted C S r fields) : ∀ f ∈ fields, ∀ ch ∈ f, ch ≠ '\t' ∧ ch ≠ '\n' ∧ ch ≠ '\r' := by
  intro f hf
  obtain ⟨i, hi⟩ := List.mem_iff_getElem?.1 hf
  have hlt : i < S.size := by
    rw [← h.flen]
    by_cases hlt : i < fields.length
    · exact hlt
    · rw [List.getElem?_eq_none (by omega)] at hi; cases hi
  obtain ⟨c, f', _, hf', _, _, hsep⟩ := h.cols i hlt
  rw [hi] at hf'; cases hf'
  exact hasFieldSep_eq_false.1 hsep

/-! ### reading the printed record back -/

/-- a line made of `S.size` TAB/CR/LF-free fields, each accepted by the class of its column, is
    read by `from_line` — in any stringency — as the record `accRec`, with no error and no log
    (`fromLine_strict_accepts_gen` with the record made explicit) -/
theorem fromLine_accepts_eq {C : Ctx} {S : Scheme} (hS : SchemeOKGen C S)
    (fields : List Text) (hlen : fields.length = S.size)
    (hclean : ∀ f ∈ fields, ∀ c ∈ f, c ≠ '\t' ∧ c ≠ '\n' ∧ c ≠ '\r')
    (hall : AllAccepted C S fields) (lineNo : Option Nat) (m : Mode) :
    Record.fromLine C (joinWith '\t' fields) none (some S) lineNo (some m)
        = .ok (accRec C S fields lineNo m S.size, []) := by
  have hne : fields ≠ [] := by
    intro e; have := hS.pos; rw [e] at hlen; simp at hlen; omega
  have hcl : ∀ c ∈ joinWith '\t' fields, c ≠ '\r' ∧ c ≠ '\n' :=
    joinWith_tab_clean fields (fun f hf c hc => ⟨(hclean f hf c hc).2.2, (hclean f hf c hc).2.1⟩)
  have hfields : splitOn '\t' (rstripCRLF (joinWith '\t' fields)) = fields := by
    rw [rstripCRLF_of_clean _ hcl]
    exact splitOn_tab_join fields hne (fun f hf hc => (hclean f hf _ hc).1 rfl)
  rw [fromLine_eq]
  simp only [hfields]
  have hn : ¬ ((S.names.map String.toList).length ≠ fields.length) := by
    simp [Scheme.names, hlen, Scheme.size]
  simp only [hn, if_false]
  obtain ⟨h1, h2, h3⟩ := fromLine_loop_accept hS fields hlen hall lineNo (modeOrSilent (some m))
    S.size (Nat.le_refl _)
  rw [List.take_of_length_le (by simp [Scheme.names, hlen, Scheme.size])] at h1
  rw [h1]
  simp only
  rw [validate_spec C _ h2 h3]
  have hnv : noValueErrs (accRec C S fields lineNo (modeOrSilent (some m)) S.size).line
      (accRec C S fields lineNo (modeOrSilent (some m)) S.size).slots = [] := by
    rw [noValueErrs_eq_nil_iff]
    simp [accRec]
  rw [hnv]
  simp only [accRec, List.append_nil, modeOrSilent, processErrors]

/-- a plain `MafColumnRecord` prints a text value as that text -/
def PlainRenders (C : Ctx) : Prop :=
  ∀ sp, resolveSpec C.tbl "MafColumnRecord" = some sp →
    ∀ t : Text, sp.render C.enums (.atom (.str t)) = .ok t

/-- a decidable sufficient condition: the base class has no null dictionary and inherits the base
    `__string_it__` (`str(value)`) -/
theorem plainRenders_of_check {C : Ctx}
    (h : (match resolveSpec C.tbl "MafColumnRecord" with
          | some sp => sp.nullDict == none && sp.stringChain.head? == some "MafColumnRecord"
          | none => true) = true) : PlainRenders C := by
  intro sp hsp t
  rw [hsp] at h
  simp only [Bool.and_eq_true, beq_iff_eq] at h
  obtain ⟨h1, h2⟩ := h
  cases hc : sp.stringChain with
  | nil => rw [hc] at h2; cases h2
  | cons c rest =>
    rw [hc] at h2
    simp only [List.head?_cons, Option.some.injEq] at h2
    subst h2
    simp [ColSpec.render, h1, runString, hc, pyStr, atomStr]

/-- everything about slot `i` of an emitted record with canonical values -/
theorem slot_facts {C : Ctx} {S : Scheme} {r : Record} {fields : List Text} (hS : SchemeOKGen C S)
    (he : Emitted C S r fields) (hst : RecStable C S r) {i : Nat} (hi : i < S.size) :
    ∃ n cls sp c f, S.cols[i]? = some (n, cls) ∧ resolveSpec C.tbl cls = some sp ∧
      r.slots[i]? = some (some c) ∧ fields[i]? = some f ∧ ColValidAt C S i c.col ∧
      c.col.render C = .ok f ∧ hasFieldSep f = false ∧ c.col.key = n.toList ∧
      sp.accept C (plainOk cls) f = some c.col.value := by
  obtain ⟨c, f, hc, hf, hvalid, hr, hsep⟩ := he.cols i hi
  obtain ⟨n, cls, hp, hk, _⟩ := hvalid.pos
  obtain ⟨sp, hsp, _, _⟩ := hS.cls_ok _ (List.mem_of_getElem? hp)
  exact ⟨n, cls, sp, c, f, hp, hsp, hc, hf, hvalid, hr, hsep, hk, hst i c hc n cls sp f hp hsp hr⟩

theorem allAccepted_of_stable {C : Ctx} {S : Scheme} {r : Record} {fields : List Text}
    (hS : SchemeOKGen C S) (he : Emitted C S r fields) (hst : RecStable C S r) :
    AllAccepted C S fields := by
  intro i n cls sp f hp hsp hf
  have hi : i < S.size := by
    by_cases hlt : i < S.cols.length
    · exact hlt
    · rw [List.getElem?_eq_none (by omega)] at hp; cases hp
  obtain ⟨n', cls', sp', c, f', hp', hsp', _, hf', _, _, _, _, hacc⟩ := slot_facts hS he hst hi
  rw [hp] at hp'; cases hp'
  rw [hsp] at hsp'; cases hsp'
  rw [hf] at hf'; cases hf'
  rw [hacc]; rfl

/-- the column the reader stores at position `i`: the scheme's class, the same name, the same value -/
theorem accCol_of_stable {C : Ctx} {S : Scheme} {r : Record} {fields : List Text}
    (hS : SchemeOKGen C S) (he : Emitted C S r fields) (hst : RecStable C S r) {i : Nat}
    (hi : i < S.size) :
    ∃ n cls sp c f, S.cols[i]? = some (n, cls) ∧ resolveSpec C.tbl cls = some sp ∧
      r.slots[i]? = some (some c) ∧ fields[i]? = some f ∧ ColValidAt C S i c.col ∧
      c.col.render C = .ok f ∧ hasFieldSep f = false ∧ c.col.key = n.toList ∧
      sp.accept C (plainOk cls) f = some c.col.value ∧
      accCol C S fields i = fieldCol i n cls c.col.value := by
  obtain ⟨n, cls, sp, c, f, hp, hsp, hc, hf, hv, hr, hsep, hk, hacc⟩ := slot_facts hS he hst hi
  obtain ⟨v, hv', hcol⟩ := accCol_eq (allAccepted_of_stable hS he hst) hp hf hsp
  rw [hacc] at hv'
  cases hv'
  exact ⟨n, cls, sp, c, f, hp, hsp, hc, hf, hv, hr, hsep, hk, hacc, hcol⟩

/-- … and it prints as the original column does -/
theorem fieldCol_render {C : Ctx} {S : Scheme} (hS : SchemeOKGen C S) (hP : PlainRenders C)
    {i : Nat} {n cls : String} {sp : ColSpec} {c : Column} {f : Text}
    (hp : S.cols[i]? = some (n, cls)) (hsp : resolveSpec C.tbl cls = some sp)
    (hvalid : ColValidAt C S i c) (hr : c.render C = .ok f)
    (hacc : sp.accept C (plainOk cls) f = some c.value) :
    (fieldCol i n cls c.value).col.render C = .ok f := by
  have hfc : (fieldCol i n cls c.value).col.render C = sp.render C.enums c.value := by
    simp [Column.render, fieldCol, hsp]
  rw [hfc]
  rcases hvalid.twin n cls hp with heq | heq | ⟨_, htr⟩
  · rw [← hr]
    simp [Column.render, heq, hsp]
  · subst heq
    obtain ⟨sp', hsp', _, hcase⟩ := hS.cls_ok _ (List.mem_of_getElem? hp)
    simp only at hsp' hcase
    rw [hsp] at hsp'; cases hsp'
    rcases hcase with ⟨hne, _⟩ | ⟨_, hb, _⟩
    · exact absurd rfl hne
    · have : sp.accept C (plainOk "MafColumnRecord") f = some (.atom (.str f)) := by
        simp [ColSpec.accept, ColSpec.buildValue, hb, plainOk]
      rw [this] at hacc
      injection hacc with hacc
      rw [← hacc]
      exact hP sp hsp f
  · rw [hr] at htr
    have := exceptTextEq_ok htr
    simpa [Column.render, hsp] using this

/-! ### the record read back -/

/-- the record `from_line` builds from the printed fields -/
abbrev reread (C : Ctx) (S : Scheme) (fields : List Text) (lineNo : Option Nat) (m : Mode) : Record :=
  accRec C S fields lineNo m S.size

theorem reread_slot (C : Ctx) (S : Scheme) (fields : List Text) (lineNo : Option Nat) (m : Mode)
    {i : Nat} (hi : i < S.size) :
    (reread C S fields lineNo m).slots[i]? = some (some (accCol C S fields i)) := by
  simp [reread, accRec, List.getElem?_map, List.getElem?_range hi]

theorem reread_slots_length (C : Ctx) (S : Scheme) (fields : List Text) (lineNo : Option Nat) (m : Mode) :
    (reread C S fields lineNo m).slots.length = S.size := by
  simp [reread, accRec]

theorem reread_errors (C : Ctx) (S : Scheme) (fields : List Text) (lineNo : Option Nat) (m : Mode) :
    (reread C S fields lineNo m).errors = [] := rfl

theorem reread_inv {C : Ctx} {S : Scheme} (hS : SchemeOKGen C S) {fields : List Text}
    (hlen : fields.length = S.size) (hall : AllAccepted C S fields) (lineNo : Option Nat) (m : Mode) :
    (reread C S fields lineNo m).Inv :=
  (fromLine_loop_accept hS fields hlen hall lineNo m S.size (Nat.le_refl _)).2.1

section
variable {C : Ctx} {S : Scheme} {r : Record} {fields : List Text}

/-- **equal text**: the record read back prints as the record written -/
theorem reread_render (hS : SchemeOKGen C S) (hP : PlainRenders C) (he : Emitted C S r fields)
    (hst : RecStable C S r) (lineNo : Option Nat) (m : Mode) :
    (reread C S fields lineNo m).render C = .ok (joinWith '\t' fields) := by
  apply render_of_fields (by rw [reread_slots_length, he.flen])
  intro i f hf
  have hi : i < S.size := by
    rw [← he.flen]
    by_cases hlt : i < fields.length
    · exact hlt
    · rw [List.getElem?_eq_none (by omega)] at hf; cases hf
  obtain ⟨n, cls, sp, c, f', hp, hsp, hc, hf', hv, hr, hsep, hk, hacc, hcol⟩ :=
    accCol_of_stable hS he hst hi
  rw [hf] at hf'; cases hf'
  refine ⟨_, reread_slot C S fields lineNo m hi, ?_⟩
  rw [hcol]
  exact fieldCol_render hS hP hp hsp hv hr hacc

/-- **equal names and values**, slot by slot -/
theorem reread_cells (hS : SchemeOKGen C S) (he : Emitted C S r fields)
    (hst : RecStable C S r) (lineNo : Option Nat) (m : Mode) :
    cells (reread C S fields lineNo m) = cells r := by
  apply List.ext_getElem?
  intro i
  simp only [cells, List.getElem?_map]
  by_cases hi : i < S.size
  · obtain ⟨n, cls, sp, c, f, hp, hsp, hc, hf, hv, hr, hsep, hk, hacc, hcol⟩ :=
      accCol_of_stable hS he hst hi
    rw [reread_slot C S fields lineNo m hi, hc, hcol]
    simp [fieldCol, hk]
  · rw [List.getElem?_eq_none (by rw [reread_slots_length]; omega),
      List.getElem?_eq_none (by rw [he.slen]; omega)]

theorem fieldCol_columnErrors (hS : SchemeOKGen C S) (q : Record) {i : Nat} {n cls : String}
    {sp : ColSpec} {v : PyVal} {f : Text} (hp : S.cols[i]? = some (n, cls))
    (hsp : resolveSpec C.tbl cls = some sp) (hacc : sp.accept C (plainOk cls) f = some v)
    (hr : (fieldCol i n cls v).col.render C = .ok f) (hsep : hasFieldSep f = false) :
    q.columnErrors C (some S) (fieldCol i n cls v) = [] := by
  have hval := (fromLineStep_accept hS none q f hp hsp hacc).2
  obtain ⟨hvi, _⟩ := Column.validate_nil hval
  obtain ⟨sp', hsp', hsub, _⟩ := hS.cls_ok _ (List.mem_of_getElem? hp)
  simp only at hsub
  have hfil : (some S).filter Scheme.truthy = some S := Scheme.truthy_filter hS.truthy
  have hcc := Scheme.columnClass_of_getElem? hS.nodup hp
  have hci := Scheme.columnIndex_of_getElem? hS.nodup hp
  have hsch : Column.schemeErrors C (fieldCol i n cls v).col (some S) none = [] := by
    simp [Column.schemeErrors, fieldCol, hfil, String.ofList_toList, hcc, hci, hsub]
  unfold Record.columnErrors
  simp [Column.validate, hvi, hsch, hfil, hr, hsep]

/-- validation finds nothing in a record whose slots hold error-free columns and whose two indexes
    are in sync -/
theorem validate_errors_nil_of (hS : S.truthy = true) (q : Record) (hlen : q.slots.length = S.size)
    (hcols : ∀ i, i < S.size → ∃ c, q.slots[i]? = some (some c) ∧ q.columnErrors C (some S) c = [])
    (hsync : q.syncErrors = []) (m : Option Mode) :
    (q.validate C m true (some S)).1.errors = [] := by
  have hall : ∀ o ∈ q.slots, ∃ c, o = some c ∧ q.columnErrors C (some S) c = [] := by
    intro o ho
    obtain ⟨i, hi⟩ := List.mem_iff_getElem?.1 ho
    have hlt : i < S.size := by
      rw [← hlen]
      by_cases hlt : i < q.slots.length
      · exact hlt
      · rw [List.getElem?_eq_none (by omega)] at hi; cases hi
    obtain ⟨c, hc, hce⟩ := hcols i hlt
    rw [hi] at hc
    cases hc
    exact ⟨c, rfl, hce⟩
  have hnone : q.slots.any (·.isNone) = false := by
    rw [List.any_eq_false]
    intro o ho
    obtain ⟨c, rfl, _⟩ := hall o ho
    simp
  simp only [Record.validate, if_true, Scheme.truthy_filter hS, List.nil_append,
    List.append_eq_nil_iff, hnone, Bool.false_eq_true, if_false]
  refine ⟨⟨?_, ?_⟩, hsync⟩
  · rw [if_neg]; omega
  · rw [List.flatMap_eq_nil_iff]
    intro o ho
    obtain ⟨c, rfl, hce⟩ := hall o ho
    exact hce

/-- **the record read back passes validation against the scheme** -/
theorem reread_valid (hS : SchemeOKGen C S) (hP : PlainRenders C) (he : Emitted C S r fields)
    (hst : RecStable C S r) (lineNo : Option Nat) (m : Mode) (m' : Option Mode) :
    ((reread C S fields lineNo m).validate C m' true (some S)).1.errors = [] := by
  have hall := allAccepted_of_stable hS he hst
  have hinv := reread_inv hS he.flen hall lineNo m
  have hnone : (reread C S fields lineNo m).slots.any (·.isNone) = false := by
    simp [reread, accRec]
  apply validate_errors_nil_of hS.truthy _ (reread_slots_length C S fields lineNo m) _
    (hinv.syncErrors hnone)
  intro i hi
  obtain ⟨n, cls, sp, c, f, hp, hsp, hc, hf, hv, hr, hsep, hk, hacc, hcol⟩ :=
    accCol_of_stable hS he hst hi
  refine ⟨_, reread_slot C S fields lineNo m hi, ?_⟩
  rw [hcol]
  exact fieldCol_columnErrors hS _ hp hsp hacc (fieldCol_render hS hP hp hsp hv hr hacc) hsep

end

/-! ### the order checker sees the same record -/

/-- `record[name].value` through the name map (what `toLoc` and the order checker read) -/
def valueOf (r : Record) (name : Text) : Option PyVal := (tdictGet r.dict name).map (·.col.value)

theorem lookup_of_cells {r q : Record} (hr : r.Inv) (hq : q.Inv) (h : cells q = cells r)
    {name : Text} {c : RCol} (hc : tdictGet r.dict name = some c) :
    ∃ c', tdictGet q.dict name = some c' ∧ c'.col.value = c.col.value := by
  obtain ⟨hk, i, _, hs⟩ := hr.dict_ok _ (mem_of_tdictGet hc)
  simp only at hk hs
  have hi : (cells q)[i]? = (cells r)[i]? := by rw [h]
  simp only [cells, List.getElem?_map, hs, Option.map_some] at hi
  cases hqs : q.slots[i]? with
  | none => rw [hqs] at hi; cases hi
  | some o =>
    rw [hqs] at hi
    cases o with
    | none => simp at hi
    | some c' =>
      simp only [Option.map_some, Option.some.injEq, Prod.mk.injEq] at hi
      obtain ⟨_, hg⟩ := hq.slot_ok i c' hqs
      rw [hi.1, hk] at hg
      exact ⟨c', hg, hi.2⟩

theorem valueOf_of_cells {r q : Record} (hr : r.Inv) (hq : q.Inv) (h : cells q = cells r)
    (name : Text) : valueOf q name = valueOf r name := by
  unfold valueOf
  cases hc : tdictGet r.dict name with
  | some c =>
    obtain ⟨c', hc', hv⟩ := lookup_of_cells hr hq h hc
    rw [hc']; simp [hv]
  | none =>
    cases hc' : tdictGet q.dict name with
    | none => rfl
    | some c' =>
      obtain ⟨c, hc2, _⟩ := lookup_of_cells hq hr h.symm hc'
      rw [hc] at hc2; cases hc2

theorem toLoc_of_valueOf {r q : Record} (h : ∀ name, valueOf q name = valueOf r name) :
    q.toLoc = r.toLoc := by
  unfold Record.toLoc
  have e : ∀ n : String, (tdictGet q.dict n.toList).map (·.col.value) =
      (tdictGet r.dict n.toList).map (·.col.value) := fun n => h n.toList
  simp only [e]

theorem addRecord_of_valueOf {r q : Record} (h : ∀ name, valueOf q name = valueOf r name)
    (chk : Checker) : chk.addRecord q = chk.addRecord r := by
  unfold Checker.addRecord
  have e : (tdictGet q.dict "Chromosome".toList).map (·.col.value) =
      (tdictGet r.dict "Chromosome".toList).map (·.col.value) := h _
  rw [toLoc_of_valueOf h, e]

/-- iterate the reader's order checker over a list of records -/
def checkRecords (chk : Checker) : List Record → Except PyErr Checker
  | [] => .ok chk
  | r :: rs =>
    match chk.addRecord r with
    | .ok chk' => checkRecords chk' rs
    | .error e => .error e

theorem checkRecords_congr {rs qs : List Record}
    (h : List.Forall₂ (fun q r => ∀ name, valueOf q name = valueOf r name) qs rs) (chk : Checker) :
    checkRecords chk qs = checkRecords chk rs := by
  induction h generalizing chk with
  | nil => rfl
  | cons hqr _ ih =>
    simp only [checkRecords, addRecord_of_valueOf hqr]
    cases chk.addRecord _ with
    | error e => rfl
    | ok chk' => exact ih chk'

/-! ## 5. iterating the reader over lines it accepts -/

theorem nextRecord_accept {C : Ctx} {r : Reader} {t : Text} {S : Scheme} {q : Record}
    (hn : r.next = some t) (hs : r.scheme = some S)
    (hf : Record.fromLine C t none (some S) (some r.lineNo) (some r.mode) = .ok (q, []))
    (hq : q.errors = []) : r.nextRecord C = .ok (some (q, r.advance)) := by
  obtain ⟨d, sl, er, ln, mo⟩ := q
  simp only at hq
  subst hq
  have e : ({ r with errors := r.errors ++ [], logs := r.logs ++ [] } : Reader) = r := by
    cases r; simp
  unfold Reader.nextRecord
  split
  · rename_i h; rw [hn] at h; cases h
  · rename_i l hl
    rw [hn] at hl; cases hl
    rw [hs, hf]
    simp only [List.map_nil]
    rw [← hs, e]

theorem checkRecords_cons_ok {chk chk' : Checker} {q : Record} {qs : List Record}
    (h : checkRecords chk (q :: qs) = .ok chk') :
    ∃ c1, chk.addRecord q = .ok c1 ∧ checkRecords c1 qs = .ok chk' := by
  simp only [checkRecords] at h
  cases ha : chk.addRecord q with
  | error e => rw [ha] at h; cases h
  | ok c1 => rw [ha] at h; exact ⟨c1, rfl, h⟩

/-- **the iteration over accepted lines**: a reader whose look-ahead stands at line `p`, with
    exactly `qs.length` lines left, line `p + i` being read by `from_line` (told it is physical line
    `p + 1 + i`) as `qs[i]` without error, and an order checker that lets `qs` through, returns
    exactly `qs`, raises nothing, collects no error and ends at the end of the input -/
theorem iterate_accept {C : Ctx} {K : HConsts} {lines : List Text} {S : Scheme} {m : Mode} :
    ∀ (qs : List Record) (fuel : Nat) (r : Reader) (p : Nat) (chk chk' : Checker) (acc : List Record),
      At lines r p → r.scheme = some S → r.mode = m →
      p + qs.length = lines.length → qs.length < fuel →
      (∀ i (hi : i < qs.length), ∃ t, (stripped lines)[p + i]? = some t ∧
        Record.fromLine C t none (some S) (some (p + 1 + i)) (some m) = .ok (qs[i], []) ∧
        qs[i].errors = []) →
      checkRecords chk qs = .ok chk' →
      ∃ r', Reader.iterate C K fuel r chk acc = (acc ++ qs, none, r') ∧ r'.errors = r.errors ∧
        r'.next = none ∧ r'.header = r.header ∧ r'.scheme = r.scheme ∧ r'.mode = r.mode := by
  intro qs
  induction qs with
  | nil =>
    intro fuel r p chk chk' acc hat _ _ hlen hfuel _ _
    cases fuel with
    | zero => simp at hfuel
    | succ fuel =>
      have hnone : r.next = none := by
        rw [hat.next]
        simp only [List.length_nil, Nat.add_zero] at hlen
        simp [hlen]
      refine ⟨r, ?_, rfl, hnone, rfl, rfl, rfl⟩
      unfold Reader.iterate
      simp [Reader.nextRecord, hnone]
  | cons q qs ih =>
    intro fuel r p chk chk' acc hat hs hm hlen hfuel hlines hchk
    cases fuel with
    | zero => simp at hfuel
    | succ fuel =>
      simp only [List.length_cons] at hlen hfuel
      obtain ⟨t, ht, hf, hq⟩ := hlines 0 (by simp)
      simp only [Nat.add_zero, List.getElem_cons_zero] at ht hf hq
      have hnext : r.next = some t := by rw [hat.next]; exact ht
      have hln : r.lineNo = p + 1 := by rw [hat.lineNo]; omega
      have hnr := nextRecord_accept (C := C) hnext hs (by rw [hln, hm]; exact hf) hq
      obtain ⟨c1, hadd, hrest⟩ := checkRecords_cons_ok hchk
      unfold Reader.iterate
      simp only [hnr, hadd]
      obtain ⟨r', h1, h2, h3, h4, h5, h6⟩ := ih fuel r.advance (p + 1) c1 chk' (acc ++ [q]) hat.advance
        (by simpa using hs) (by simpa using hm) (by omega) (by omega)
        (by
          intro i hi
          obtain ⟨t', ht', hf', hq'⟩ := hlines (i + 1) (by simp; omega)
          refine ⟨t', ?_, ?_, ?_⟩
          · rw [← ht']; congr 1; omega
          · have e : p + 1 + 1 + i = p + 1 + (i + 1) := by omega
            rw [e]
            simpa using hf'
          · simpa using hq')
        hrest
      refine ⟨r', ?_, ?_, h3, ?_, ?_, ?_⟩
      · rw [h1]; simp
      · rw [h2]; simp
      · rw [h4]; simp
      · rw [h5]; simp
      · rw [h6]; simp

/-! ## 6. the file a writer produces, as the reader sees it -/

/-- the lines of a file: header lines, the column-name line, the record lines -/
def fileOf (hl : List Text) (cl : Text) (ts : List Text) : List Text :=
  (hl ++ cl :: ts).map (· ++ ['\n'])

/-- a line the reader strips back to itself: no LF inside, no CR/LF at the end -/
def LineOK (l : Text) : Prop := '\n' ∉ l ∧ ∀ c, l.getLast? = some c → isCRLF c = false

theorem lineOK_of_clean {l : Text} (h : ∀ c ∈ l, c ≠ '\r' ∧ c ≠ '\n') : LineOK l := by
  refine ⟨fun hm => (h _ hm).2 rfl, ?_⟩
  intro c hc
  have := h c (List.mem_of_getLast? hc)
  simp [isCRLF, this.1, this.2]

theorem stripped_fileOf {hl : List Text} {cl : Text} {ts : List Text}
    (h : ∀ l ∈ hl ++ cl :: ts, LineOK l) : stripped (fileOf hl cl ts) = hl ++ cl :: ts := by
  unfold stripped fileOf
  rw [List.map_map]
  conv => rhs; rw [← List.map_id (hl ++ cl :: ts)]
  apply List.map_congr_left
  intro l hl'
  exact rstripCRLF_append_lf' l (h l hl').2

theorem fileLines_bytes {hl : List Text} {cl : Text} {ts : List Text}
    (h : ∀ l ∈ hl ++ cl :: ts, LineOK l) :
    fileLines (fileOf hl cl ts).flatten = fileOf hl cl ts :=
  fileLines_flatten _ (fun l hl' => (h l hl').1)

section
variable {K : HConsts} {hl : List Text} {cl : Text} {ts : List Text}

theorem headerBlock_fileOf (h : ∀ l ∈ hl ++ cl :: ts, LineOK l)
    (hh : ∀ l ∈ hl, l.head? = some K.startSymbol) (hc : cl.head? ≠ some K.startSymbol) :
    headerBlock K (fileOf hl cl ts) = hl := by
  unfold headerBlock
  rw [stripped_fileOf h]
  exact takeWhile_append_stop _ hl cl ts (fun l hl' => by simpa using hh l hl') (by simpa using hc)

theorem headerLen_fileOf (h : ∀ l ∈ hl ++ cl :: ts, LineOK l)
    (hh : ∀ l ∈ hl, l.head? = some K.startSymbol) (hc : cl.head? ≠ some K.startSymbol) :
    headerLen K (fileOf hl cl ts) = hl.length := by
  unfold headerLen; rw [headerBlock_fileOf h hh hc]

theorem fileOf_length : (fileOf hl cl ts).length = hl.length + 1 + ts.length := by
  simp [fileOf]; omega

theorem stripped_fileOf_col (h : ∀ l ∈ hl ++ cl :: ts, LineOK l) :
    (stripped (fileOf hl cl ts))[hl.length]? = some cl := by
  rw [stripped_fileOf h]; simp

theorem stripped_fileOf_data (h : ∀ l ∈ hl ++ cl :: ts, LineOK l) (i : Nat) :
    (stripped (fileOf hl cl ts))[hl.length + 1 + i]? = ts[i]? := by
  rw [stripped_fileOf h, List.getElem?_append_right (by omega)]
  have : hl.length + 1 + i - hl.length = i + 1 := by omega
  rw [this]; simp

/-- a file without column-name line and records: the header lines only -/
theorem headerBlock_headerOnly (h : ∀ l ∈ hl, LineOK l)
    (hh : ∀ l ∈ hl, l.head? = some K.startSymbol) :
    headerBlock K (hl.map (· ++ ['\n'])) = hl ∧ stripped (hl.map (· ++ ['\n'])) = hl := by
  have hs : stripped (hl.map (· ++ ['\n'])) = hl := by
    unfold stripped
    rw [List.map_map]
    conv => rhs; rw [← List.map_id hl]
    apply List.map_congr_left
    intro l hl'
    exact rstripCRLF_append_lf' l (h l hl').2
  refine ⟨?_, hs⟩
  unfold headerBlock
  rw [hs]
  exact takeWhile_all _ hl (fun l hl' => by simpa using hh l hl')

end

/-! ## 7. the header: printed by the writer, parsed by the reader -/

/-- **a header the grammar can carry**: every record is filed under its own key and is canonical,
    the keys are distinct (`Header.Inv`); a sort order carries exactly the contig list `from_lines`
    attaches to it (`closed`: forgetting the lists and re-applying the contigs pragma changes
    nothing); and no printed line contains a line feed.  Every header `MafHeader.from_lines` builds
    from LF-free lines satisfies this (`Props/C02`: `printable_of_parsed`). -/
structure Printable (K : HConsts) (h : Header) : Prop where
  inv : h.Inv K
  closed : (Header.applyContigs K { h with recs := h.recs.map (fun p => (p.1, p.2.reset)) }).recs = h.recs
  noLF : ∀ l ∈ h.renderLines K, '\n' ∉ l

theorem isCRLF_isPySpace {c : Char} (h : isCRLF c = true) : isPySpace c = true := by
  simp only [isCRLF, Bool.or_eq_true, decide_eq_true_eq] at h
  rcases h with rfl | rfl <;> decide

theorem getLast?_cons_append_cons_of_ne_nil {α} (a : α) (k : List α) (b : α) (s : List α) (hs : s ≠ []) :
    (a :: (k ++ b :: s)).getLast? = s.getLast? := by
  have : a :: (k ++ b :: s) = (a :: k ++ [b]) ++ s := by simp
  rw [this, List.getLast?_append]
  cases h : s.getLast? with
  | none => simp at h; exact absurd h hs
  | some x => simp

/-- a printed header line starts with the start symbol and is stripped back to itself -/
theorem renderLine_ok {K : HConsts} {h : Header} (hp : Printable K h) :
    ∀ l ∈ h.renderLines K, LineOK l ∧ l.head? = some K.startSymbol := by
  intro l hl
  refine ⟨⟨hp.noLF l hl, ?_⟩, ?_⟩
  · obtain ⟨p, hpm, rfl⟩ := List.mem_map.1 hl
    have hc := (hp.inv.canon p hpm).value.str_ok
    intro c hc'
    rw [HRec.render_eq, getLast?_cons_append_cons_of_ne_nil _ _ _ _ hc.1] at hc'
    have hns : isPySpace c = false := by
      have := rstripChars_last isPySpace p.2.value.str c
      rw [show rstripChars isPySpace p.2.value.str = p.2.value.str from hc.2] at this
      exact this hc'
    cases hcr : isCRLF c with
    | false => rfl
    | true => rw [isCRLF_isPySpace hcr] at hns; cases hns
  · obtain ⟨p, _, rfl⟩ := List.mem_map.1 hl
    rfl

/-- **`from_lines` on the printed header** gives the records back, in order, with exactly the
    whole-header errors of the original -/
theorem fromLines_rendered {K : HConsts} (R : Registry) {h : Header} (hp : Printable K h) (m : Mode) :
    Header.fromLines K R (h.renderLines K) (some m) =
      ({ recs := h.recs, errors := hdrErrs K R h, mode := m }, processErrors m (hdrErrs K R h)) := by
  unfold Header.fromLines
  simp only [modeOrSilent]
  rw [C13.reparse hp.inv m]
  have h1 : Header.applyContigs K { recs := h.recs.map (fun p => (p.1, p.2.reset)), errors := [], mode := m } =
      { recs := h.recs, errors := [], mode := m } := by
    have hr := applyContigs_recs_congr K
      (h1 := { recs := h.recs.map (fun p => (p.1, p.2.reset)), errors := [], mode := m })
      (h2 := { h with recs := h.recs.map (fun p => (p.1, p.2.reset)) }) rfl
    rw [hp.closed] at hr
    have he := applyContigs_errors K { recs := h.recs.map (fun p => (p.1, p.2.reset)), errors := [], mode := m }
    have hm := applyContigs_mode K { recs := h.recs.map (fun p => (p.1, p.2.reset)), errors := [], mode := m }
    generalize Header.applyContigs K { recs := h.recs.map (fun p => (p.1, p.2.reset)), errors := [], mode := m } = x at hr he hm
    obtain ⟨a, b, c⟩ := x
    simp only at hr he hm
    subst hr he hm
    rfl
  rw [h1, C13.validate_rules]
  simp only [Bool.false_eq_true, if_false, List.nil_append, Option.getD_none]
  have e : hdrErrs K R h = hdrErrs K R { recs := h.recs, errors := [], mode := m } :=
    hdrErrs_congr K R rfl
  rw [e]
  rfl

theorem zip_self_filterMap_ne {α β} [DecidableEq α] (l : List α) (b : β) :
    (l.zip l).filterMap (fun p => if p.1 ≠ p.2 then some b else none) = [] := by
  rw [List.filterMap_eq_nil_iff]
  intro p hp
  have : p.1 = p.2 := by
    have := List.of_mem_zip hp
    induction l with
    | nil => simp at hp
    | cons a l ih =>
      simp only [List.zip_cons_cons, List.mem_cons] at hp
      rcases hp with rfl | hp
      · rfl
      · exact ih hp (List.of_mem_zip hp)
  simp [this]

/-! ## 8. `MafReader(...)` on the file -/

/-- column names the file format can carry: no TAB, CR or LF inside a name -/
def NamesClean (names : List Text) : Prop := ∀ n ∈ names, ∀ c ∈ n, c ≠ '\t' ∧ c ≠ '\n' ∧ c ≠ '\r'

/-- the header the reader ends up with -/
abbrev readHeader (K : HConsts) (R : Registry) (h : Header) (m : Mode) : Header :=
  { recs := h.recs, errors := hdrErrs K R h, mode := m }

/-- **the reader's `__init__` on a written file**: header lines `str(header)`, then the column
    names, then the record lines.  The header is parsed back (`fromLines_rendered`), the column
    names are found on the line after it, the scheme `S` is what `__update_scheme__` settles on,
    and its names are the column names: the reader is constructed (unless Strict stringency meets a
    whole-header error) with its look-ahead on the first record line. -/
theorem reader_init_file {C : Ctx} {K : HConsts} {R : Registry} {h : Header} (hp : Printable K h)
    {m : Mode} {names : List Text} {ts : List Text} {S : Scheme} {lg0 : List LogRec}
    (hne : names ≠ []) (hclean : NamesClean names)
    (hhash : (joinWith '\t' names).head? ≠ some K.startSymbol)
    (hts : ∀ t ∈ ts, LineOK t)
    (hsch : initSch2 (some names) (initSch1 (h.scheme K R) none) = some S)
    (hSn : S.names.map String.toList = names)
    (hpe : processErrors m (hdrErrs K R h) = .ok lg0) :
    ∃ logs, Reader.init C K R (fileOf (h.renderLines K) (joinWith '\t' names) ts) (some m) none =
      .ok (initReader (fileOf (h.renderLines K) (joinWith '\t' names) ts) ((h.renderLines K).length + 1)
            (readHeader K R h m) (some S) (hdrErrs K R h) m logs) := by
  have hcl : ∀ c ∈ joinWith '\t' names, c ≠ '\r' ∧ c ≠ '\n' :=
    joinWith_tab_clean names (fun f hf c hc => ⟨(hclean f hf c hc).2.2, (hclean f hf c hc).2.1⟩)
  have hall : ∀ l ∈ h.renderLines K ++ joinWith '\t' names :: ts, LineOK l := by
    intro l hl
    rcases List.mem_append.1 hl with hl | hl
    · exact (renderLine_ok hp l hl).1
    · rcases List.mem_cons.1 hl with rfl | hl
      · exact lineOK_of_clean hcl
      · exact hts l hl
  have hh : ∀ l ∈ h.renderLines K, l.head? = some K.startSymbol := fun l hl => (renderLine_ok hp l hl).2
  have hsplit : splitOn '\t' (joinWith '\t' names) = names :=
    splitOn_tab_join names hne (fun f hf hc => (hclean f hf _ hc).1 rfl)
  rw [init_eq, headerBlock_fileOf hall hh hhash, headerLen_fileOf hall hh hhash]
  simp only [modeOrSilent]
  rw [fromLines_rendered R hp m, hpe]
  simp only [stripped_fileOf_col hall, Option.map_some, hsplit]
  have hs' : Header.scheme K R { recs := h.recs, errors := hdrErrs K R h, mode := m } = h.scheme K R :=
    scheme_congr K R rfl
  rw [hs', hsch]
  have he2 : initE2 (some names) (some S) (h.renderLines K).length = [] := by
    simp only [initE2, hSn, ne_eq, not_true_eq_false, if_false]
    exact zip_self_filterMap_ne names _
  simp only [initE1, he2, List.append_nil, hpe]
  have hmin : min ((h.renderLines K).length + 1) (fileOf (h.renderLines K) (joinWith '\t' names) ts).length =
      (h.renderLines K).length + 1 := by
    rw [fileOf_length]; omega
  rw [hmin]
  exact ⟨_, rfl⟩

/-! ## 9. `writer += record`, repeated -/

/-- `writer += r₁; writer += r₂; …`, stopping at the first exception -/
def writeAll (C : Ctx) (K : HConsts) (w : Writer) : List Record → Writer × Except PyErr Unit
  | [] => (w, .ok ())
  | r :: rs =>
    match w.write C K r with
    | (w', .ok ()) => writeAll C K w' rs
    | (w', .error e) => (w', .error e)

theorem forall₂_of_getElem {α β} {R : α → β → Prop} : ∀ (l1 : List α) (l2 : List β),
    l1.length = l2.length → (∀ i (h1 : i < l1.length) (h2 : i < l2.length), R l1[i] l2[i]) →
    List.Forall₂ R l1 l2
  | [], [], _, _ => .nil
  | [], _ :: _, h, _ => by simp at h
  | _ :: _, [], h, _ => by simp at h
  | a :: l1, b :: l2, h, hr =>
    .cons (hr 0 (by simp) (by simp))
      (forall₂_of_getElem l1 l2 (by simpa using h)
        (fun i h1 h2 => by
          have := hr (i + 1) (by simpa using h1) (by simpa using h2)
          simp only [List.getElem_cons_succ] at this
          exact this))

theorem forall₂_getElem {α β} {R : α → β → Prop} {l1 : List α} {l2 : List β}
    (h : List.Forall₂ R l1 l2) :
    l1.length = l2.length ∧ ∀ i (h1 : i < l1.length) (h2 : i < l2.length), R l1[i] l2[i] := by
  induction h with
  | nil => exact ⟨rfl, fun i h1 _ => by simp at h1⟩
  | cons hab _ ih =>
    refine ⟨by simp [ih.1], ?_⟩
    intro i h1 h2
    cases i with
    | zero => simpa using hab
    | succ i =>
      simp only [List.getElem_cons_succ]
      exact ih.2 i (by simpa using h1) (by simpa using h2)

/-- one `+=` of a direct (non-sorting) writer with a scheme, in any stringency: it succeeds iff
    validation does not raise and `str(record)` does not fail, and then appends that text and LF -/
theorem write_direct_iff {C : Ctx} {K : HConsts} {w w' : Writer} {r : Record} {S : Scheme}
    (hs : w.scheme = some S) (hS : S.truthy = true) (hsort : w.sorting = false) :
    w.write C K r = (w', .ok ()) ↔
      ∃ t lg, r.render C = .ok t ∧ (r.validate C (some w.mode) true (some S)).2 = .ok lg ∧
        w' = { w with out := w.out ++ [t ++ ['\n']] } := by
  rw [Writer.write_of_scheme C K w r hs hS]
  have hren := Record.render_validate C r (some w.mode) true (some S)
  generalize r.validate C (some w.mode) true (some S) = V at hren
  rcases V with ⟨r', (e' | l)⟩
  · constructor
    · intro h; simp at h
    · rintro ⟨t, lg, _, hv, _⟩; simp at hv
  · simp only [hsort, Bool.false_eq_true, if_false] at hren ⊢
    rw [hren]
    cases hr : r.render C with
    | error er =>
      constructor
      · intro h; simp at h
      · rintro ⟨t, lg, ht, _, _⟩; cases ht
    | ok t =>
      constructor
      · intro h
        simp only [Prod.mk.injEq, and_true] at h
        exact ⟨t, l, rfl, rfl, h.symm⟩
      · rintro ⟨t', lg, ht, _, rfl⟩
        cases ht
        rfl

theorem writeAll_direct {C : Ctx} {K : HConsts} {S : Scheme} (hS : S.truthy = true) :
    ∀ (rs : List Record) (w w' : Writer), w.scheme = some S → w.sorting = false →
      (writeAll C K w rs = (w', .ok ()) ↔
        ∃ ts : List Text, ts.length = rs.length ∧
          (∀ i (h1 : i < rs.length) (h2 : i < ts.length), rs[i].render C = .ok ts[i] ∧
            ∃ lg, (rs[i].validate C (some w.mode) true (some S)).2 = .ok lg) ∧
          w' = { w with out := w.out ++ ts.map (· ++ ['\n']) }) := by
  intro rs
  induction rs with
  | nil =>
    intro w w' _ _
    simp only [writeAll, Prod.mk.injEq, and_true, List.length_nil, List.length_eq_zero_iff]
    constructor
    · intro h; exact ⟨[], rfl, fun i h1 => by simp at h1, by simp [← h]⟩
    · rintro ⟨ts, rfl, _, h⟩; simpa using h.symm
  | cons r rs ih =>
    intro w w' hs hsort
    simp only [writeAll]
    constructor
    · intro h
      cases hw : w.write C K r with
      | mk w1 res =>
        rw [hw] at h
        cases res with
        | error e => simp at h
        | ok u =>
          cases u
          simp only at h
          obtain ⟨t, lg, hr, hv, hw1⟩ := (write_direct_iff hs hS hsort).1 hw
          subst hw1
          obtain ⟨ts, hl, hall, hw'⟩ := (ih { w with out := w.out ++ [t ++ ['\n']] } w' hs hsort).1 h
          refine ⟨t :: ts, by simp [hl], ?_, by rw [hw']; simp⟩
          intro i h1 h2
          cases i with
          | zero => exact ⟨by simpa using hr, lg, by simpa using hv⟩
          | succ i =>
            simp only [List.getElem_cons_succ]
            exact hall i (by simpa using h1) (by simpa using h2)
    · rintro ⟨ts, hl, hall, rfl⟩
      cases ts with
      | nil => simp at hl
      | cons t ts =>
        obtain ⟨hr, lg, hv⟩ := hall 0 (by simp) (by simp)
        have hw : w.write C K r = ({ w with out := w.out ++ [t ++ ['\n']] }, .ok ()) :=
          (write_direct_iff hs hS hsort).2 ⟨t, lg, by simpa using hr, by simpa using hv, rfl⟩
        rw [hw]
        simp only
        rw [(ih { w with out := w.out ++ [t ++ ['\n']] } _ hs hsort)]
        refine ⟨ts, by simpa using hl, ?_, by simp⟩
        intro i h1 h2
        have := hall (i + 1) (by simpa using h1) (by simpa using h2)
        simp only [List.getElem_cons_succ] at this
        exact this

/-! ## 10. reading the record lines back -/

/-- the records the reader returns for the printed records `fss`, the first one on physical line
    `p + 1` -/
def rereadAll (C : Ctx) (S : Scheme) (m : Mode) (p : Nat) (fss : List (List Text)) : List Record :=
  fss.zipIdx.map (fun x => reread C S x.1 (some (p + 1 + x.2)) m)

theorem rereadAll_length (C : Ctx) (S : Scheme) (m : Mode) (p : Nat) (fss : List (List Text)) :
    (rereadAll C S m p fss).length = fss.length := by simp [rereadAll]

theorem rereadAll_getElem (C : Ctx) (S : Scheme) (m : Mode) (p : Nat) (fss : List (List Text))
    (i : Nat) (h1 : i < (rereadAll C S m p fss).length) (h2 : i < fss.length) :
    (rereadAll C S m p fss)[i] = reread C S fss[i] (some (p + 1 + i)) m := by
  simp [rereadAll]

/-- **the record lines are read back**: a reader (scheme `S`, stringency `m`) whose look-ahead
    stands on the first of `rs.length` remaining lines, line `i` being the TAB-join of the fields
    `fss[i]` emitted for `rs[i]` (valid, canonical values, coherent), with an order checker that lets
    `rs` through: `list(reader)` raises nothing, collects no error, exhausts the input and returns
    the records `rereadAll`. -/
theorem read_body {C : Ctx} {K : HConsts} {S : Scheme} {m : Mode} (hS : SchemeOKGen C S)
    {rs : List Record} {fss : List (List Text)} (hlen : fss.length = rs.length)
    (hem : ∀ i (h1 : i < rs.length) (h2 : i < fss.length), Emitted C S rs[i] fss[i])
    (hst : ∀ r ∈ rs, RecStable C S r) (hinv : ∀ r ∈ rs, r.Inv)
    {lines : List Text} {r : Reader} {p : Nat} (hat : At lines r p) (hs : r.scheme = some S)
    (hm : r.mode = m) (hcount : p + rs.length = lines.length)
    (hlines : ∀ i (h2 : i < fss.length), (stripped lines)[p + i]? = some (joinWith '\t' fss[i]))
    {chk' : Checker} (hchk : checkRecords (r.checker K) rs = .ok chk') :
    ∃ r', r.readAll C K = (rereadAll C S m p fss, none, r') ∧ r'.errors = r.errors ∧
      r'.next = none ∧ r'.header = r.header ∧ r'.scheme = r.scheme ∧ r'.mode = r.mode := by
  have hql := rereadAll_length C S m p fss
  have hall : ∀ i (h1 : i < rs.length) (h2 : i < fss.length), AllAccepted C S fss[i] :=
    fun i h1 h2 => allAccepted_of_stable hS (hem i h1 h2) (hst _ (List.getElem_mem h1))
  have hchk' : checkRecords (r.checker K) (rereadAll C S m p fss) = .ok chk' := by
    rw [← hchk]
    apply checkRecords_congr
    apply forall₂_of_getElem _ _ (by rw [hql, hlen])
    intro i h1 h2 name
    have h3 : i < fss.length := by rw [hlen]; exact h2
    rw [rereadAll_getElem C S m p fss i h1 h3]
    exact valueOf_of_cells (hinv _ (List.getElem_mem h2))
      (reread_inv hS (hem i h2 h3).flen (hall i h2 h3) _ m)
      (reread_cells hS (hem i h2 h3) (hst _ (List.getElem_mem h2)) _ m) name
  have hfuel : (rereadAll C S m p fss).length < r.src.length + 2 := by
    rw [hql, hlen, hat.src, List.length_drop]; omega
  obtain ⟨r', h1, h2, h3, h4, h5, h6⟩ := iterate_accept (C := C) (K := K) (rereadAll C S m p fss)
    (r.src.length + 2) r p (r.checker K) chk' [] hat hs hm (by rw [hql, hlen]; exact hcount) hfuel
    (by
      intro i hi
      have h3 : i < fss.length := by rw [← hql]; exact hi
      have h2 : i < rs.length := by rw [← hlen]; exact h3
      refine ⟨_, hlines i h3, ?_, ?_⟩
      · rw [rereadAll_getElem C S m p fss i hi h3]
        exact fromLine_accepts_eq hS fss[i] (hem i h2 h3).flen (hem i h2 h3).clean (hall i h2 h3) _ m
      · rw [rereadAll_getElem C S m p fss i hi h3]; rfl)
    hchk'
  refine ⟨r', ?_, h2, h3, h4, h5, h6⟩
  unfold Reader.readAll
  rw [h1]; simp

/-! ## 11. the two halves, for any stringency -/

end RoundTrip

/-- the bytes on the handle: every `handle.write(text)` so far, concatenated -/
def Model.Writer.bytes (w : Writer) : Text := w.out.flatten

namespace RoundTrip

/-- the column names as the reader reads them: the fields of the line after the header block -/
def colNamesOf (K : HConsts) (lines : List Text) : Option (List Text) :=
  (stripped lines)[headerLen K lines]?.map (splitOn '\t')

/-- what the theorems ask of the scheme: the hypotheses of the `from_line` lemmas (`SchemeOKGen`:
    distinct names, at least one column, classes that resolve), names the file format can carry
    (no TAB/CR/LF), and a column-name line that is not mistaken for a header line -/
structure SchemeFit (C : Ctx) (K : HConsts) (S : Scheme) : Prop where
  ok : SchemeOKGen C S
  clean : NamesClean (S.names.map String.toList)
  nohash : (joinWith '\t' (S.names.map String.toList)).head? ≠ some K.startSymbol

/-- the text of the column-name line -/
abbrev colText (S : Scheme) : Text := joinWith '\t' (S.names.map String.toList)

theorem headerOut_flatten (K : HConsts) (h : Header) :
    (headerOut K h).flatten = ((h.renderLines K).map (· ++ ['\n'])).flatten := by
  unfold headerOut
  cases hr : h.recs with
  | nil => simp [Header.renderLines, hr]
  | cons p ps =>
    have hne : h.renderLines K ≠ [] := by simp [Header.renderLines, hr]
    simp only [List.isEmpty_cons, Bool.false_eq_true, if_false, List.flatten_cons, List.flatten_nil,
      List.append_nil]
    exact joinWith_lf_append _ hne

theorem bytes_fileOf (K : HConsts) (h : Header) (S : Scheme) (ts : List Text) :
    (headerOut K h ++ [columnLine S] ++ ts.map (· ++ ['\n'])).flatten =
      (fileOf (h.renderLines K) (colText S) ts).flatten := by
  simp only [List.flatten_append, headerOut_flatten, fileOf, List.map_append, List.map_cons,
    List.flatten_cons, columnLine, List.flatten_nil, List.append_nil, colText, List.append_assoc]

theorem lineOK_fields {C : Ctx} {S : Scheme} {r : Record} {fields : List Text}
    (he : Emitted C S r fields) : LineOK (joinWith '\t' fields) :=
  lineOK_of_clean (joinWith_tab_clean fields
    (fun f hf c hc => ⟨(he.clean f hf c hc).2.2, (he.clean f hf c hc).2.1⟩))

/-- **the writer's half**: a direct writer that has emitted `str(header)` and the column names of
    `S`, fed records that pass validation against `S`: the bytes on the handle are, line by line,
    the header lines, the column-name line and one line per record — the TAB-join of the texts of
    its columns. -/
theorem written_file {C : Ctx} {K : HConsts} {S : Scheme} {h : Header} (hp : Printable K h)
    (hfit : SchemeFit C K S) {w0 w : Writer} {rs : List Record}
    (hout : w0.out = headerOut K h ++ [columnLine S]) (hs : w0.scheme = some S)
    (hsort : w0.sorting = false) (hw : writeAll C K w0 rs = (w, .ok ()))
    (hvalid : ∀ r ∈ rs, Valid C S r) :
    ∃ fss : List (List Text), fss.length = rs.length ∧
      (∀ i (h1 : i < rs.length) (h2 : i < fss.length), Emitted C S rs[i] fss[i]) ∧
      w = { w0 with out := w0.out ++ (fss.map (joinWith '\t')).map (· ++ ['\n']) } ∧
      fileLines w.bytes = fileOf (h.renderLines K) (colText S) (fss.map (joinWith '\t')) ∧
      (∀ l ∈ h.renderLines K ++ colText S :: fss.map (joinWith '\t'), LineOK l) := by
  have hS := hfit.ok.truthy
  obtain ⟨ts, htl, hall, hw'⟩ := (writeAll_direct hS rs w0 w hs hsort).1 hw
  have hex : ∀ i : Fin rs.length, ∃ fields, ts[i.1]'(by rw [htl]; exact i.2) = joinWith '\t' fields ∧
      Emitted C S rs[i.1] fields := by
    intro i
    obtain ⟨hr, _⟩ := hall i.1 i.2 (by rw [htl]; exact i.2)
    exact emitted_of_valid hS (hvalid _ (List.getElem_mem i.2)) hr
  let fss : List (List Text) := List.ofFn (fun i => Classical.choose (hex i))
  have hfl : fss.length = rs.length := by simp [fss]
  have hfi : ∀ i (h1 : i < rs.length) (h2 : i < fss.length),
      ts[i]'(by rw [htl]; exact h1) = joinWith '\t' fss[i] ∧ Emitted C S rs[i] fss[i] := by
    intro i h1 h2
    have := Classical.choose_spec (hex ⟨i, h1⟩)
    simpa [fss] using this
  have hts : ts = fss.map (joinWith '\t') := by
    apply List.ext_getElem (by simp [hfl, htl])
    intro i h1 h2
    have h1' : i < rs.length := by rw [← htl]; exact h1
    rw [List.getElem_map]
    exact (hfi i h1' (by rw [hfl]; exact h1')).1
  have hok : ∀ l ∈ h.renderLines K ++ colText S :: fss.map (joinWith '\t'), LineOK l := by
    intro l hl
    rcases List.mem_append.1 hl with hl | hl
    · exact (renderLine_ok hp l hl).1
    · rcases List.mem_cons.1 hl with rfl | hl
      · exact lineOK_of_clean (joinWith_tab_clean _
          (fun f hf c hc => ⟨(hfit.clean f hf c hc).2.2, (hfit.clean f hf c hc).2.1⟩))
      · obtain ⟨fs, hfs, rfl⟩ := List.mem_map.1 hl
        obtain ⟨i, hi, rfl⟩ := List.getElem_of_mem hfs
        exact lineOK_fields (hfi i (by rw [← hfl]; exact hi) hi).2
  refine ⟨fss, hfl, fun i h1 h2 => (hfi i h1 h2).2, by rw [hw', hts], ?_, hok⟩
  rw [hw', Writer.bytes]
  simp only
  rw [hout, hts, bytes_fileOf]
  exact fileLines_bytes hok

theorem initReader_at (lines : List Text) (p : Nat) (hd : Header) (sch : Option Scheme) (es : List VErr)
    (m : Mode) (lg : List LogRec) : At lines (initReader lines p hd sch es m lg) p :=
  ⟨rfl, rfl, rfl, rfl⟩

/-- the records are supplied in the order the header declares: the reader's own order checker
    (`Checker.addRecord`, started from the header's sort order and contig list) lets them through -/
def InDeclaredOrder (K : HConsts) (h : Header) (rs : List Record) : Prop :=
  ∃ c, checkRecords { order := (h.sortOrder K).1, contigs := (h.sortOrder K).2 } rs = .ok c

/-- **the reader's half**: on the file of `written_file`, in stringency `m`: `MafReader(...)` is
    constructed with the header records of `h` and the scheme `S`, the column names read are the
    names of `S`; `list(reader)` raises nothing, adds no error to the whole-header errors, exhausts
    the input and returns `rereadAll`. -/
theorem read_file {C : Ctx} {K : HConsts} {R : Registry} {S : Scheme} {h : Header} {m : Mode}
    (hp : Printable K h) (hfit : SchemeFit C K S)
    {rs : List Record} {fss : List (List Text)} (hlen : fss.length = rs.length)
    (hem : ∀ i (h1 : i < rs.length) (h2 : i < fss.length), Emitted C S rs[i] fss[i])
    (hst : ∀ r ∈ rs, RecStable C S r) (hinv : ∀ r ∈ rs, r.Inv)
    (hsch : initSch2 (some (S.names.map String.toList)) (initSch1 (h.scheme K R) none) = some S)
    {lg0 : List LogRec} (hpe : processErrors m (hdrErrs K R h) = .ok lg0)
    (hord : InDeclaredOrder K h rs) :
    ∃ rd rd', Reader.init C K R (fileOf (h.renderLines K) (colText S) (fss.map (joinWith '\t'))) (some m) none
          = .ok rd ∧
      rd.header = readHeader K R h m ∧ rd.scheme = some S ∧ rd.errors = hdrErrs K R h ∧ rd.mode = m ∧
      colNamesOf K (fileOf (h.renderLines K) (colText S) (fss.map (joinWith '\t'))) =
        some (S.names.map String.toList) ∧
      rd.readAll C K = (rereadAll C S m ((h.renderLines K).length + 1) fss, none, rd') ∧
      rd'.errors = hdrErrs K R h ∧ rd'.next = none ∧ rd'.header = rd.header := by
  have hne : S.names.map String.toList ≠ [] := by
    have := hfit.ok.pos
    intro e
    simp [Scheme.names, Scheme.size] at e this
    rw [e] at this; simp at this
  have hok : ∀ l ∈ h.renderLines K ++ colText S :: fss.map (joinWith '\t'), LineOK l := by
    intro l hl
    rcases List.mem_append.1 hl with hl | hl
    · exact (renderLine_ok hp l hl).1
    · rcases List.mem_cons.1 hl with rfl | hl
      · exact lineOK_of_clean (joinWith_tab_clean _
          (fun f hf c hc => ⟨(hfit.clean f hf c hc).2.2, (hfit.clean f hf c hc).2.1⟩))
      · obtain ⟨fs, hfs, rfl⟩ := List.mem_map.1 hl
        obtain ⟨i, hi, rfl⟩ := List.getElem_of_mem hfs
        exact lineOK_fields (hem i (by rw [← hlen]; exact hi) hi)
  have hh : ∀ l ∈ h.renderLines K, l.head? = some K.startSymbol := fun l hl => (renderLine_ok hp l hl).2
  obtain ⟨logs, hinit⟩ := reader_init_file (C := C) (R := R) hp (m := m) (ts := fss.map (joinWith '\t'))
    hne hfit.clean hfit.nohash (fun t ht => hok t (by simp [ht])) hsch rfl hpe
  obtain ⟨c, hc⟩ := hord
  have hat := initReader_at (fileOf (h.renderLines K) (colText S) (fss.map (joinWith '\t')))
    ((h.renderLines K).length + 1) (readHeader K R h m) (some S) (hdrErrs K R h) m logs
  obtain ⟨rd', h1, h2, h3, h4, _, _⟩ := read_body (C := C) (K := K) (m := m) hfit.ok hlen hem hst hinv
    hat rfl rfl
    (by rw [fileOf_length, List.length_map, hlen])
    (by
      intro i h2
      rw [stripped_fileOf_data hok i]
      simp [h2])
    (chk' := c)
    (by
      have : (initReader (fileOf (h.renderLines K) (colText S) (fss.map (joinWith '\t')))
          ((h.renderLines K).length + 1) (readHeader K R h m) (some S) (hdrErrs K R h) m logs).checker K =
          { order := (h.sortOrder K).1, contigs := (h.sortOrder K).2 } := by
        unfold Reader.checker
        have : (readHeader K R h m).sortOrder K = h.sortOrder K := sortOrder_congr K rfl
        simp only [initReader, this]
      rw [this]; exact hc)
  refine ⟨_, rd', hinit, rfl, rfl, rfl, rfl, ?_, h1, h2, h3, h4⟩
  unfold colNamesOf
  rw [headerLen_fileOf hok hh hfit.nohash, stripped_fileOf_col hok]
  simp only [Option.map_some, colText]
  rw [splitOn_tab_join _ hne (fun f hf hc => (hfit.clean f hf _ hc).1 rfl)]

end RoundTrip
