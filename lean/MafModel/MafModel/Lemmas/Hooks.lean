/-
  Dispatch equations of the hook interpreters: one per defining class.
-/
import MafModel.Model.ColumnTypes
open Py Model
namespace Model

@[simp] theorem runBuildAtom_MafCustomColumnRecord (C : Ctx) (e : Option String) (rest : List String) (t : Text) :
    runBuildAtom C e ("MafCustomColumnRecord" :: rest) t = .ok .none := by
  simp [runBuildAtom]

@[simp] theorem runBuildAtom_BuildStringColumn (C : Ctx) (e : Option String) (rest : List String) (t : Text) :
    runBuildAtom C e ("_BuildStringColumn" :: rest) t = .ok (.str t) := by
  simp [runBuildAtom]

@[simp] theorem runBuildAtom_StringIntegerOrFloatColumn (C : Ctx) (e : Option String) (rest : List String) (t : Text) :
    runBuildAtom C e ("StringIntegerOrFloatColumn" :: rest) t = .ok (bStrIntFloat C.H t) := by
  simp [runBuildAtom]

@[simp] theorem runBuildAtom_StringOrIntegerColumn (C : Ctx) (e : Option String) (rest : List String) (t : Text) :
    runBuildAtom C e ("StringOrIntegerColumn" :: rest) t = .ok (bStrInt t) := by
  simp [runBuildAtom]

@[simp] theorem runBuildAtom_IntegerColumn (C : Ctx) (e : Option String) (rest : List String) (t : Text) :
    runBuildAtom C e ("IntegerColumn" :: rest) t = bInt t := by
  simp [runBuildAtom]

@[simp] theorem runBuildAtom_TranscriptStrand (C : Ctx) (e : Option String) (rest : List String) (t : Text) :
    runBuildAtom C e ("TranscriptStrand" :: rest) t = bInt t := by
  simp [runBuildAtom]

@[simp] theorem runBuildAtom_FloatColumn (C : Ctx) (e : Option String) (rest : List String) (t : Text) :
    runBuildAtom C e ("FloatColumn" :: rest) t = bFloat C.H t := by
  simp [runBuildAtom]

@[simp] theorem runBuildAtom_EnumColumn (C : Ctx) (e : Option String) (rest : List String) (t : Text) :
    runBuildAtom C e ("EnumColumn" :: rest) t = bEnum C.enums e t := by
  simp [runBuildAtom]

@[simp] theorem runBuildAtom_Canonical (C : Ctx) (e : Option String) (rest : List String) (t : Text) :
    runBuildAtom C e ("Canonical" :: rest) t = bCanonical t := by
  simp [runBuildAtom]

@[simp] theorem runBuildAtom_BooleanColumn (C : Ctx) (e : Option String) (rest : List String) (t : Text) :
    runBuildAtom C e ("BooleanColumn" :: rest) t = bBoolean t := by
  simp [runBuildAtom]

@[simp] theorem runBuildAtom_NullableYesOrNo (C : Ctx) (e : Option String) (rest : List String) (t : Text) :
    runBuildAtom C e ("NullableYesOrNo" :: rest) t = runBuildAtom C e rest (pyCapitalize t) := by
  simp [runBuildAtom]

@[simp] theorem runBuildAtom_NullableYOrN (C : Ctx) (e : Option String) (rest : List String) (t : Text) :
    runBuildAtom C e ("NullableYOrN" :: rest) t = runBuildAtom C e rest (pyCapitalize t) := by
  simp [runBuildAtom]

@[simp] theorem runBuildAtom_PickColumn (C : Ctx) (e : Option String) (rest : List String) (t : Text) :
    runBuildAtom C e ("PickColumn" :: rest) t = runBuildAtom C e rest (pyCapitalize t) := by
  simp [runBuildAtom]

@[simp] theorem runBuildAtom_YesNoOrUnknown (C : Ctx) (e : Option String) (rest : List String) (t : Text) :
    runBuildAtom C e ("YesNoOrUnknown" :: rest) t = runBuildAtom C e rest t := by
  simp [runBuildAtom]

@[simp] theorem runBuildAtom_UUIDColumn (C : Ctx) (e : Option String) (rest : List String) (t : Text) :
    runBuildAtom C e ("UUIDColumn" :: rest) t = bUuid t := by
  simp [runBuildAtom]

@[simp] theorem runBuildAtom_EntrezGeneId (C : Ctx) (e : Option String) (rest : List String) (t : Text) :
    runBuildAtom C e ("EntrezGeneId" :: rest) t =
      zeroIsNull (runBuildAtom C e rest t) := by
  simp [runBuildAtom]

@[simp] theorem runBuildAtom_nil (C : Ctx) (e : Option String) (t : Text) :
    runBuildAtom C e [] t = .error .attribute := by
  simp [runBuildAtom]

@[simp] theorem runValidate_MafCustomColumnRecord (e : Option String) (lo hi : Option Int) (ei : Atom → Bool)
    (rest : List String) (v : PyVal) :
    runValidate e lo hi ei ("MafCustomColumnRecord" :: rest) v = false := by
  simp [runValidate]

@[simp] theorem runValidate_RequireNullValue (e : Option String) (lo hi : Option Int) (ei : Atom → Bool)
    (rest : List String) (v : PyVal) :
    runValidate e lo hi ei ("RequireNullValue" :: rest) v = true := by
  simp [runValidate]

@[simp] theorem runValidate_NullableStringColumn (e : Option String) (lo hi : Option Int) (ei : Atom → Bool)
    (rest : List String) (v : PyVal) :
    runValidate e lo hi ei ("NullableStringColumn" :: rest) v = !isInstanceStr v := by
  simp [runValidate]

@[simp] theorem runValidate_StringColumn (e : Option String) (lo hi : Option Int) (ei : Atom → Bool)
    (rest : List String) (v : PyVal) :
    runValidate e lo hi ei ("StringColumn" :: rest) v = (if runValidate e lo hi ei rest v then true else !v.truthy) := by
  simp [runValidate]

@[simp] theorem runValidate_StringIntegerOrFloatColumn (e : Option String) (lo hi : Option Int) (ei : Atom → Bool)
    (rest : List String) (v : PyVal) :
    runValidate e lo hi ei ("StringIntegerOrFloatColumn" :: rest) v = !(isInstanceInt v || isInstanceFloat v || isInstanceStr v) := by
  simp [runValidate]

@[simp] theorem runValidate_StringOrIntegerColumn (e : Option String) (lo hi : Option Int) (ei : Atom → Bool)
    (rest : List String) (v : PyVal) :
    runValidate e lo hi ei ("StringOrIntegerColumn" :: rest) v = !(isInstanceInt v || isInstanceStr v) := by
  simp [runValidate]

@[simp] theorem runValidate_IntegerColumn (e : Option String) (lo hi : Option Int) (ei : Atom → Bool)
    (rest : List String) (v : PyVal) :
    runValidate e lo hi ei ("IntegerColumn" :: rest) v = vIntRange lo hi v := by
  simp [runValidate]

@[simp] theorem runValidate_FloatColumn (e : Option String) (lo hi : Option Int) (ei : Atom → Bool)
    (rest : List String) (v : PyVal) :
    runValidate e lo hi ei ("FloatColumn" :: rest) v = !isInstanceFloat v := by
  simp [runValidate]

@[simp] theorem runValidate_EnumColumn (e : Option String) (lo hi : Option Int) (ei : Atom → Bool)
    (rest : List String) (v : PyVal) :
    runValidate e lo hi ei ("EnumColumn" :: rest) v = vEnum e v := by
  simp [runValidate]

@[simp] theorem runValidate_SequenceOfValuesColumn (e : Option String) (lo hi : Option Int) (ei : Atom → Bool)
    (rest : List String) (v : PyVal) :
    runValidate e lo hi ei ("SequenceOfValuesColumn" :: rest) v = vSeq ei v := by
  simp [runValidate]

@[simp] theorem runValidate_NullableDnaString (e : Option String) (lo hi : Option Int) (ei : Atom → Bool)
    (rest : List String) (v : PyVal) :
    runValidate e lo hi ei ("NullableDnaString" :: rest) v = vDna v := by
  simp [runValidate]

@[simp] theorem runValidate_DnaString (e : Option String) (lo hi : Option Int) (ei : Atom → Bool)
    (rest : List String) (v : PyVal) :
    runValidate e lo hi ei ("DnaString" :: rest) v = (if runValidate e lo hi ei rest v then true else !v.truthy) := by
  simp [runValidate]

@[simp] theorem runValidate_Canonical (e : Option String) (lo hi : Option Int) (ei : Atom → Bool)
    (rest : List String) (v : PyVal) :
    runValidate e lo hi ei ("Canonical" :: rest) v = !isInstanceBool v := by
  simp [runValidate]

@[simp] theorem runValidate_BooleanColumn (e : Option String) (lo hi : Option Int) (ei : Atom → Bool)
    (rest : List String) (v : PyVal) :
    runValidate e lo hi ei ("BooleanColumn" :: rest) v = !isInstanceBool v := by
  simp [runValidate]

@[simp] theorem runValidate_UUIDColumn (e : Option String) (lo hi : Option Int) (ei : Atom → Bool)
    (rest : List String) (v : PyVal) :
    runValidate e lo hi ei ("UUIDColumn" :: rest) v = !isInstanceUuid v := by
  simp [runValidate]

@[simp] theorem runValidate_TranscriptStrand (e : Option String) (lo hi : Option Int) (ei : Atom → Bool)
    (rest : List String) (v : PyVal) :
    runValidate e lo hi ei ("TranscriptStrand" :: rest) v = vStrand v := by
  simp [runValidate]

@[simp] theorem runValidate_nil (e : Option String) (lo hi : Option Int) (ei : Atom → Bool) (v : PyVal) :
    runValidate e lo hi ei [] v = false := by
  simp [runValidate]

end Model
