/-
  The documented domain of every column type, written *flat*: one clause per
  type name, with no classes, inheritance, method resolution or hook chains.
  `specBuild ty t` is the typed value the field text `t` denotes under column
  type `ty`, or `none` when `t` lies outside the documented domain.

  This is the right-hand side of C01/C04/C05: the theorems relate the
  operational model (class table + MRO + hook bodies, regenerated from the
  source) to this specification.
-/
import MafModel.Model.ColumnTypes
open Py Model
namespace Spec

/-- a column type as schemes use it: a named type, or a redefinition of an
    inherited column (`extra` mixed over the inherited type) -/
inductive ColType where
  | named (n : String)
  | mixed (extra : String) (base : ColType)
  deriving Repr, DecidableEq, Inhabited

structure SCtx where
  enums : Enums
  H : FloatHost

def isDna (s : Text) : Bool := s.all (fun b => b = 'A' || b = 'C' || b = 'G' || b = 'T')

def intAtLeast (lo : Option Int) (t : Text) : Option PyVal :=
  match pyInt t with
  | some i => match lo with
    | some l => if l ≤ i then some (.atom (.int i)) else none
    | none => some (.atom (.int i))
  | none => none

def enumOf (S : SCtx) (cls : String) (t : Text) : Option Atom :=
  (enumLookup S.enums cls t).map (fun m => Atom.enum cls m)

def nullOr (t : Text) (f : Text → Option PyVal) : Option PyVal :=
  if t = [] then some (.atom .none) else f t

/-- element types of the sequence columns -/
def elemBuild (S : SCtx) (elem : String) (t : Text) : Option Atom :=
  if elem = "StringColumn" then (if t = [] then none else some (.str t))
  else if elem = "IntegerColumn" then (pyInt t).map Atom.int
  else if elem = "NullableYesOrNo" then enumOf S "NullableYesOrNoEnum" (pyCapitalize t)
  else if elem = "Sequencer" then enumOf S "SequencerEnum" t
  else none

def seqOf (S : SCtx) (elem : String) (t : Text) : Option PyVal :=
  if t = [] then some (.list [])
  else ((splitOn ';' t).mapM (elemBuild S elem)).map PyVal.list

/-- plain (non-nullable, non-capitalising) enumerated columns: type name ↦ vocabulary -/
def plainEnums : List (String × String) := [
  ("YesNoOrUnknown", "YesNoOrUnknownEnum"), ("Strand", "StrandEnum"),
  ("VariantClassification", "VariantClassificationEnum"), ("VariantType", "VariantTypeEnum"),
  ("VariantSupport", "VariantSupportEnum"), ("MutationStatus", "MutationStatusEnum"),
  ("Sequencer", "SequencerEnum"), ("Impact", "ImpactEnum"), ("MC3Overlap", "MC3OverlapEnum"),
  ("GdcValidationStatus", "GdcValidationStatusEnum")]

/-- enumerated columns whose empty text is the null value `None` -/
def nullableEnums : List (String × String) := [
  ("VerificationStatus", "VerificationStatusEnum"), ("ValidationStatus", "ValidationStatusEnum"),
  ("FeatureType", "FeatureTypeEnum")]

/-- enumerated columns that capitalise their input and whose null member is
    spelled `""` or `"Null"` -/
def capEnums : List (String × String) := [
  ("NullableYesOrNo", "NullableYesOrNoEnum"), ("NullableYOrN", "NullableYOrNEnum"),
  ("PickColumn", "PickEnum")]

def lookupName (tbl : List (String × String)) (n : String) : Option String :=
  (List.find? (fun p => p.1 == n) tbl).map (·.2)

/-- The typed value a text denotes under a named column type. -/
def namedBuild (S : SCtx) (n : String) (t : Text) : Option PyVal :=
  if n = "NullableStringColumn" then nullOr t (fun t => some (.atom (.str t)))
  else if n = "StringColumn" then (if t = [] then none else some (.atom (.str t)))
  else if n = "StringOrIntegerColumn" then
    some (match pyInt t with | some i => .atom (.int i) | none => .atom (.str t))
  else if n = "StringIntegerOrFloatColumn" then
    some (match S.H.parse t with
      | some f => .atom (.float f)
      | none => match pyInt t with | some i => .atom (.int i) | none => .atom (.str t))
  else if n = "IntegerColumn" then intAtLeast none t
  else if n = "NullableIntegerColumn" then nullOr t (intAtLeast none)
  else if n = "ZeroBasedIntegerColumn" then intAtLeast (some 0) t
  else if n = "OneBasedIntegerColumn" then intAtLeast (some 1) t
  else if n = "NullableZeroBasedIntegerColumn" then nullOr t (intAtLeast (some 0))
  else if n = "NullableOneBasedIntegerColumn" then nullOr t (intAtLeast (some 1))
  else if n = "EntrezGeneId" then
    -- "an integer, where zero is treated as null": zero however spelled
    match pyInt t with
    | some i => if i = 0 then some (.atom .none) else if 0 ≤ i then some (.atom (.int i)) else none
    | none => none
  else if n = "FloatColumn" then (S.H.parse t).map (fun f => .atom (.float f))
  else if n = "NullableFloatColumn" then nullOr t (fun t => (S.H.parse t).map (fun f => .atom (.float f)))
  else if n = "SequenceOfStrings" then seqOf S "StringColumn" t
  else if n = "SequenceOfIntegers" then seqOf S "IntegerColumn" t
  else if n = "SequenceOfNullableYesOrNo" then seqOf S "NullableYesOrNo" t
  else if n = "SequenceOfSequencers" then seqOf S "Sequencer" t
  else if n = "NullableDnaString" then
    nullOr t (fun t => if t = ['-'] ∨ isDna t then some (.atom (.str t)) else none)
  else if n = "DnaString" then
    if t = [] then none else if t = ['-'] ∨ isDna t then some (.atom (.str t)) else none
  else if n = "Canonical" then
    let u := pyUpper t
    if u = [] then some (.atom (.bool false)) else if u = "YES".toList then some (.atom (.bool true)) else none
  else if n = "BooleanColumn" then
    let u := pyUpper t
    if u = "TRUE".toList then some (.atom (.bool true))
    else if u = "FALSE".toList then some (.atom (.bool false)) else none
  else if n = "UUIDColumn" then (pyUuid t).map (fun k => .atom (.uuid k))
  else if n = "NullableUUIDColumn" then nullOr t (fun t => (pyUuid t).map (fun k => .atom (.uuid k)))
  else if n = "TranscriptStrand" then
    nullOr t (fun t => match pyInt t with
      | some i => if i = -1 ∨ i = 1 then some (.atom (.int i)) else none
      | none => none)
  else match lookupName plainEnums n with
  | some e => (enumOf S e t).map PyVal.atom
  | none => match lookupName nullableEnums n with
    | some e => nullOr t (fun t => (enumOf S e t).map PyVal.atom)
    | none => match lookupName capEnums n with
      | some e =>
        if t = [] ∨ t = "Null".toList then some (.atom (.enum e "Null"))
        else (enumOf S e (pyCapitalize t)).map PyVal.atom
      | none => none

/-- the null spellings of a named type, with the null value each denotes -/
def namedNulls (n : String) : List (Text × PyVal) :=
  if n ∈ ["NullableStringColumn", "NullableIntegerColumn", "NullableZeroBasedIntegerColumn",
          "NullableOneBasedIntegerColumn", "NullableFloatColumn", "NullableDnaString",
          "NullableUUIDColumn", "TranscriptStrand", "VerificationStatus", "ValidationStatus",
          "FeatureType"] then [([], .atom .none)]
  else if n ∈ ["SequenceOfStrings", "SequenceOfIntegers", "SequenceOfNullableYesOrNo",
               "SequenceOfSequencers"] then [([], .list [])]
  else if n = "EntrezGeneId" then [(['0'], .atom .none)]
  else match lookupName capEnums n with
    | some e => [("Null".toList, .atom (.enum e "Null")), ([], .atom (.enum e "Null"))]
    | none => []

def baseName : ColType → String
  | .named n => n
  | .mixed _ b => baseName b

/-- The typed value a text denotes under a column type.  A column redefined with
    `RequireNullValue` keeps only the null spellings of the inherited type; any
    other redefinition is outside this specification (`none`), and the theorems
    require the shipped definitions to use no other. -/
def specBuild (S : SCtx) : ColType → Text → Option PyVal
  | .named n, t => namedBuild S n t
  | .mixed extra b, t =>
    if extra = "RequireNullValue" then
      match specBuild S b t with
      | some v => if (namedNulls (baseName b)).any (fun p => p.1 = t) then some v else none
      | none => none
    else none

def inDomain (S : SCtx) (ty : ColType) (t : Text) : Bool := (specBuild S ty t).isSome

/-- is the value the null value of the type? -/
def isNullOf (ty : ColType) (v : PyVal) : Bool := (namedNulls (baseName ty)).any (fun p => p.2 == v)

/-- the preferred null spelling: `""` when it is one of the spellings -/
def preferredNull (ty : ColType) : Option Text :=
  let ks := (namedNulls (baseName ty)).map (·.1)
  if ks.contains [] then some [] else ks.head?

end Spec
