/-
  The documented layout of a scheme, as a function of the *set* of definitions
  (C14): a derived scheme's layout is its base layout in base order without the
  filtered columns, followed by its new columns in declaration order; a
  redefined column keeps its base position and gets the added constraint mixed
  over the inherited type.
-/
import MafModel.Spec.Domain
import MafModel.Model.Scheme
open Py Model
namespace Spec

abbrev Layout := List (String × ColType)

def findDef (defs : List SchemeDef) (ann : String) : Option SchemeDef :=
  List.find? (fun d => d.annotation == ann) defs

/-- apply one definition on top of its resolved base layout -/
def applyDef (base : Layout) (d : SchemeDef) : Layout :=
  let overridden : Layout := base.map (fun p =>
    match List.find? (fun c => c.1 == p.1) d.columns with
    | some c => (p.1, ColType.mixed c.2 p.2)
    | none => p)
  let fresh : Layout := (d.columns.filter (fun c => !(base.any (fun p => p.1 == c.1)))).map
    (fun c => (c.1, ColType.named c.2))
  let all := overridden ++ fresh
  match d.filtered with
  | some f => all.filter (fun p => !f.contains p.1)
  | none => all

/-- resolve a layout along the `extends` chain; `none` when the chain leaves the
    set or does not end within `fuel` steps (a cycle) -/
def resolve (defs : List SchemeDef) : Nat → String → Option Layout
  | 0, _ => none
  | fuel + 1, ann =>
    match findDef defs ann with
    | none => none
    | some d =>
      match d.hasBase with
      | none => some (d.columns.map (fun c => (c.1, ColType.named c.2)))
      | some b => (resolve defs fuel b).map (fun bl => applyDef bl d)

def layoutOf (defs : List SchemeDef) (ann : String) : Option Layout := resolve defs defs.length ann

def Layout.typeOf (l : Layout) (n : String) : Option ColType :=
  (List.find? (fun p => p.1 == n) l).map (·.2)

end Spec
