/-
  PyIR interpreter: the meaning of the translated Python fragment.

  Total by construction: `fuel` bounds the *nesting depth* (expression depth,
  statement nesting, call depth); loops and comprehensions recurse on the value
  being iterated, not on fuel.  Running out of fuel is the distinct error
  `.unmodelled "fuel"`, which no theorem's right-hand side ever is — so an
  equality `interp F … = model …` also says the fuel sufficed.

  Python semantics implemented here (each is a place where a wrong reading would
  make the tie meaningless, so they are listed):
  * `and` / `or` return an operand, not a boolean; truthiness as CPython's;
  * chained comparisons evaluate the middle operand once and short-circuit;
  * `<` on `int`/`bool` is numeric, on `str` lexicographic by code point, anything
    else (incl. `None`, `int` vs `str`) is `TypeError`;
  * `==` never raises; `True == 1`; `is` on `None`/`True`/`False`/classes is identity,
    on other values it is *not modelled* (error) — the translator only emits `is` against
    those constants;
  * `isinstance(True, int)` holds; a class is an instance test through the
    translated MRO;
  * attribute lookup: instance dictionary, then a zero-argument `property`‑kind
    method through the MRO; `enum.value` / `enum.name` through the enum table;
  * `super(C, self).m` resolves to the first definer of `m` after `C` in the MRO
    of the *instance's* class;
  * `try` handlers run in the environment the `try` was entered with (the
    translator restricts `try` bodies to a single statement, where that is exact).
-/
import MafModel.PyIR.Syntax
open Py
namespace PyIR

abbrev Env := List (String × Val)

/-- enum vocabularies: class ↦ [(member name, value text)] (from `Generated/Enums`) -/
abbrev Enums := List (String × List (String × String))

structure Host where
  /-- CPython `float(text)`: the `repr` of the result, `none` for ValueError -/
  floatParse : Text → Option Text
  enums : Enums

def outOfFuel : PyErr := .unmodelled "fuel"

/-! ### values -/

/-! ### primitive tests on payloads

Wrapped as irreducible definitions so that kernel evaluation of an interpreted body on a *symbolic* payload stops at a
readable atom (`intLt i 1`) instead of unfolding `Int.decLt`; `Prim.*_eq` give their meaning. -/
namespace Prim
@[irreducible] def intLt (a b : Int) : Bool := decide (a < b)
@[irreducible] def intEq (a b : Int) : Bool := a == b
@[irreducible] def textLt (a b : Text) : Bool := decide (a < b)
@[irreducible] def textEq (a b : Text) : Bool := a == b
@[irreducible] def nameEq (a b : String) : Bool := a == b
theorem intLt_eq (a b : Int) : intLt a b = decide (a < b) := by unfold intLt; rfl
theorem intEq_eq (a b : Int) : intEq a b = (a == b) := by unfold intEq; rfl
theorem textLt_eq (a b : Text) : textLt a b = decide (a < b) := by unfold textLt; rfl
theorem textEq_eq (a b : Text) : textEq a b = (a == b) := by unfold textEq; rfl
theorem nameEq_eq (a b : String) : nameEq a b = (a == b) := by unfold nameEq; rfl
end Prim



mutual
/-- Python `==` (never raises; objects compare by identity, which is not modelled: `false`) -/
def Val.pyEq : Val → Val → Bool
  | .none, .none => true
  | .bool a, .bool b => a == b
  | .bool a, .int b => Prim.intEq (if a then 1 else 0) b
  | .int a, .bool b => Prim.intEq a (if b then 1 else 0)
  | .int a, .int b => Prim.intEq a b
  | .float a, .float b => Prim.textEq a b
  | .str a, .str b => Prim.textEq a b
  | .enum c m, .enum c' m' => Prim.nameEq c c' && Prim.nameEq m m'
  | .uuid a, .uuid b => a == b
  | .other a, .other b => a == b
  | .list a, .list b => Val.pyEqList a b
  | .tuple a, .tuple b => Val.pyEqList a b
  | .cls a, .cls b => a == b
  | _, _ => false
def Val.pyEqList : List Val → List Val → Bool
  | [], [] => true
  | a :: as, b :: bs => Val.pyEq a b && Val.pyEqList as bs
  | _, _ => false
end

/-- `bool(v)` -/
def Val.truthy : Val → Bool
  | .none => false
  | .bool b => b
  | .int i => !Prim.intEq i 0
  | .float t => !(t == "0.0".toList || t == "-0.0".toList)
  | .str s => !s.isEmpty
  | .list xs => !xs.isEmpty
  | .tuple xs => !xs.isEmpty
  | _ => true

def lookup (env : Env) (x : String) : Option Val :=
  (env.find? (fun p => p.1 == x)).map (·.2)

def setVar (env : Env) (x : String) (v : Val) : Env :=
  if env.any (fun p => p.1 == x) then env.map (fun p => if p.1 == x then (x, v) else p)
  else env ++ [(x, v)]

/-- a dictionary is a list of `(key, value)` 2-tuples tagged as `obj "dict"`; only
    literals and read access occur in the fragment -/
def mkDict (kvs : List (Val × Val)) : Val := .obj "dict" (kvs.map (fun kv => ("", .tuple [kv.1, kv.2])))

def dictItems : List (String × Val) → List (Val × Val)
  | [] => []
  | (_, .tuple [k, v]) :: r => (k, v) :: dictItems r
  | _ :: r => dictItems r

/-- the elements `for x in v` ranges over -/
def iterate : Val → Except PyErr (List Val)
  | .list xs => .ok xs
  | .tuple xs => .ok xs
  | .str s => .ok (s.map (fun c => .str [c]))
  | .obj "dict" fs => .ok ((dictItems fs).map (·.1))
  | .obj "set" fs => .ok (fs.map (·.2))
  | _ => .error .type

/-- Python `<` -/
def ltVal : Val → Val → Except PyErr Bool
  | .int a, .int b => .ok (Prim.intLt a b)
  | .bool a, .int b => .ok (Prim.intLt (if a then 1 else 0) b)
  | .int a, .bool b => .ok (Prim.intLt a (if b then 1 else 0))
  | .bool a, .bool b => .ok (!a && b)
  | .str a, .str b => .ok (Prim.textLt a b)
  | .float _, _ => .error (.unmodelled "float order")
  | _, .float _ => .error (.unmodelled "float order")
  | _, _ => .error .type

def isInfix (p : Text) : Text → Bool
  | [] => p.isEmpty
  | c :: s => p.isPrefixOf (c :: s) || isInfix p s

def containsVal (x : Val) : Val → Except PyErr Bool
  | .str s => match x with
    | .str p => .ok (isInfix p s)
    | _ => .error .type
  | c => (iterate c).map (fun xs => xs.any (fun y => Val.pyEq y x))

/-- identity against the singletons the fragment tests with `is` -/
def isSame : Val → Val → Except PyErr Bool
  | .none, .none => .ok true
  | .none, _ => .ok false
  | _, .none => .ok false
  | .bool a, .bool b => .ok (a == b)
  | .cls a, .cls b => .ok (a == b)
  | .cls _, _ => .ok false
  | _, .cls _ => .ok false
  | .int a, .int b => if a == b then .error (.unmodelled "is on int") else .ok false
  | _, _ => .error (.unmodelled "is")

def applyCmp (op : CmpOp) (a b : Val) : Except PyErr Bool :=
  match op with
  | .lt => ltVal a b
  | .gt => ltVal b a
  | .le => do
      -- `a <= b` on the types the fragment compares is `a < b or a == b`
      let l ← ltVal a b
      .ok (l || Val.pyEq a b)
  | .ge => do
      let l ← ltVal b a
      .ok (l || Val.pyEq a b)
  | .eq => .ok (Val.pyEq a b)
  | .ne => .ok (!Val.pyEq a b)
  | .is_ => isSame a b
  | .isNot => (isSame a b).map (!·)
  | .in_ => containsVal a b
  | .notIn => (containsVal a b).map (!·)

/-! ### classes -/

def findClass (P : Program) (c : String) : Option ClassDef := P.find? (fun d => d.name == c)

def mroOf (P : Program) (c : String) : List String :=
  match findClass P c with
  | some d => d.mro
  | none => [c]

/-- the first class of `chain` defining `m` -/
def resolveIn (P : Program) (m : String) : List String → Option (String × FnDef)
  | [] => none
  | c :: rest =>
    match (findClass P c).bind (fun d => (d.methods.find? (fun p => p.1 == m)).map (·.2)) with
    | some f => some (c, f)
    | none => resolveIn P m rest

def resolveMethod (P : Program) (c m : String) : Option (String × FnDef) := resolveIn P m (mroOf P c)

/-- the part of the MRO after `c` -/
def mroAfter (P : Program) (inst c : String) : List String :=
  ((mroOf P inst).dropWhile (fun x => x != c)).drop 1

/-- names of built-in types: never the name of an enum or of a translated class -/
def builtinTypes : List String := ["int", "float", "str", "bool", "list", "tuple", "UUID", "dict", "set", "type"]

def builtinNames : List String :=
  ["isinstance", "int", "float", "str", "bool", "len", "set", "list", "tuple", "UUID", "type", "dict"]

/-- `isinstance(v, cls t)` -/
def isInstance1 (P : Program) (H : Host) (v : Val) (t : String) : Bool :=
  match v with
  | .none => false
  | .bool _ => t == "bool" || t == "int"
  | .int _ => t == "int"
  | .float _ => t == "float"
  | .str _ => t == "str"
  | .enum c _ => !builtinTypes.contains t && (Prim.nameEq t c || t == "Enum")
  | .uuid _ => t == "UUID"
  | .other _ => false
  | .list _ => t == "list"
  | .tuple _ => t == "tuple"
  | .obj c _ => !builtinTypes.contains t && (mroOf P c).contains t
  | .cls _ => t == "type"

def isInstance (P : Program) (H : Host) (v : Val) : Val → Except PyErr Bool
  | .cls t => .ok (isInstance1 P H v t)
  | .tuple ts => .ok (ts.any (fun t => match t with | .cls n => isInstance1 P H v n | _ => false))
  | _ => .error .type

def enumValue (H : Host) (c m : String) : Option Text :=
  ((H.enums.find? (fun p => p.1 == c)).bind (fun p => p.2.find? (fun q => q.1 == m))).map (·.2.toList)

/-- `EnumCls(text)`: by value -/
def enumByValue (H : Host) (c : String) (t : Text) : Option String :=
  ((H.enums.find? (fun p => p.1 == c)).bind (fun p => p.2.find? (fun q => q.2.toList == t))).map (·.1)

/-- `EnumCls[text]`: by member name -/
def enumByName (H : Host) (c : String) (t : Text) : Option String :=
  ((H.enums.find? (fun p => p.1 == c)).bind (fun p => p.2.find? (fun q => q.1.toList == t))).map (·.1)

def isEnumClass (H : Host) (c : String) : Bool := H.enums.any (fun p => p.1 == c)

/-- Python `str(v)` where maf-lib relies on it -/
def strOf (H : Host) : Val → Except PyErr Text
  | .none => .ok "None".toList
  | .bool true => .ok "True".toList
  | .bool false => .ok "False".toList
  | .int i => .ok (intStr i)
  | .float t => .ok t
  | .str s => .ok s
  | .uuid n => .ok (uuidStr n)
  | _ => .error (.unmodelled "str")

def excKind : String → PyErr
  | "ValueError" => .value
  | "KeyError" => .key
  | "TypeError" => .type
  | "IndexError" => .index
  | "AttributeError" => .attribute
  | "AssertionError" => .assertion
  | "NotImplementedError" => .notImplemented
  | "StopIteration" => .stopIteration
  | k => .unmodelled ("raise " ++ k)

def handles (k : String) (e : PyErr) : Bool :=
  match e with
  | .unmodelled _ => false            -- fuel / unmodelled constructs are never caught
  | _ => k == "Exception" || excKind k == e

/-! ### builtins (pure) -/

def callBuiltin (P : Program) (H : Host) (f : String) (args : List Val) : Except PyErr Val :=
  match f, args with
  | "isinstance", [v, t] => (isInstance P H v t).map Val.bool
  | "int", [.str s] => match pyInt s with
    | some i => .ok (.int i)
    | none => .error .value
  | "int", [.int i] => .ok (.int i)
  | "int", [.bool b] => .ok (.int (if b then 1 else 0))
  | "int", [.none] => .error .type
  | "float", [.str s] => match H.floatParse s with
    | some t => .ok (.float t)
    | none => .error .value
  | "float", [.none] => .error .type
  | "str", [v] => (strOf H v).map Val.str
  | "bool", [v] => .ok (.bool v.truthy)
  | "len", [v] => (iterate v).map (fun xs => .int xs.length)
  | "set", [v] => (iterate v).map (fun xs => .obj "set" (xs.map (fun x => ("", x))))
  | "list", [v] => (iterate v).map Val.list
  | "list", [] => .ok (.list [])
  | "tuple", [v] => (iterate v).map Val.tuple
  | "UUID", [.str s] => match pyUuid s with
    | some n => .ok (.uuid n)
    | none => .error .value
  | "type", [.obj c _] => .ok (.cls c)
  | "dict", kvs => .ok (mkDict (kvs.filterMap (fun kv => match kv with | .tuple [k, v] => some (k, v) | _ => none)))
  | f, _ => .error (.unmodelled ("builtin " ++ f))

/-- methods of built-in values -/
def callValMethod (H : Host) (recv : Val) (m : String) (args : List Val) : Except PyErr Val :=
  match recv, m, args with
  | .str s, "upper", [] => .ok (.str (pyUpper s))
  | .str s, "capitalize", [] => .ok (.str (pyCapitalize s))
  | .str s, "split", [.str [c]] => .ok (.list ((splitOn c s).map Val.str))
  | .str sep, "join", [v] => do
      let xs ← iterate v
      let ts ← xs.mapM (fun x => match x with | .str t => .ok t | _ => (.error .type : Except PyErr Text))
      match sep with
      | [c] => .ok (.str (joinWith c ts))
      | _ => .error (.unmodelled "join separator")
  | .obj "dict" fs, "keys", [] => .ok (.list ((dictItems fs).map (·.1)))
  | .obj "dict" fs, "values", [] => .ok (.list ((dictItems fs).map (·.2)))
  | .obj "dict" fs, "items", [] => .ok (.list ((dictItems fs).map (fun kv => .tuple [kv.1, kv.2])))
  | _, m, _ => .error (.unmodelled ("method " ++ m))

/-! ### loops over values (structural on the list, not on fuel) -/

def forLoop (step : Env → Nat → Val → Except PyErr (Env × Option Val)) :
    Env → Nat → List Val → Except PyErr (Env × Option Val)
  | env, _, [] => .ok (env, none)
  | env, i, v :: vs =>
    match step env i v with
    | .ok (env', none) => forLoop step env' (i + 1) vs
    | r => r

/-- `any(f x for x in xs)` with Python's short-circuit: an exception after a hit is not raised -/
def anyM (f : Val → Except PyErr Bool) : List Val → Except PyErr Bool
  | [] => .ok false
  | v :: vs => match f v with
    | .ok true => .ok true
    | .ok false => anyM f vs
    | .error e => .error e

def allM (f : Val → Except PyErr Bool) : List Val → Except PyErr Bool
  | [] => .ok true
  | v :: vs => match f v with
    | .ok false => .ok false
    | .ok true => allM f vs
    | .error e => .error e

/-- `a and b and …`: the first falsy operand, else the last -/
def andLoop (ev : Expr → Except PyErr Val) : List Expr → Except PyErr Val
  | [] => .ok (.bool true)
  | [e] => ev e
  | e :: es => match ev e with
    | .ok v => if v.truthy then andLoop ev es else .ok v
    | .error x => .error x

def orLoop (ev : Expr → Except PyErr Val) : List Expr → Except PyErr Val
  | [] => .ok (.bool false)
  | [e] => ev e
  | e :: es => match ev e with
    | .ok v => if v.truthy then .ok v else orLoop ev es
    | .error x => .error x

/-- `l op₁ e₁ op₂ e₂ …` -/
def cmpChain (ev : Expr → Except PyErr Val) : Val → List (CmpOp × Expr) → Except PyErr Val
  | _, [] => .ok (.bool true)
  | l, (op, e) :: rest => match ev e with
    | .error x => .error x
    | .ok r => match applyCmp op l r with
      | .error x => .error x
      | .ok false => .ok (.bool false)
      | .ok true => cmpChain ev r rest

def bindParams : List String → List Val → Option Env
  | [], [] => some []
  | p :: ps, v :: vs => (bindParams ps vs).map (fun e => (p, v) :: e)
  -- a missing trailing argument is a default of `None` (the only default the fragment uses)
  | p :: ps, [] => (bindParams ps []).map (fun e => (p, .none) :: e)
  | [], _ :: _ => none

/-- field write `x.a = v` on an instance held in a variable -/
def setField (o : Val) (a : String) (v : Val) : Option Val :=
  match o with
  | .obj c fs => some (.obj c (setVar fs a v))
  | _ => none

/-! ### the interpreter -/

mutual

/-- call `f` (defined in some class) with the receiver / class object already first in `args`;
    result: returned value (`None` when the body falls off the end) and the callee's final environment -/
def callFn (P : Program) (H : Host) : Nat → FnDef → List Val → Except PyErr (Val × Env)
  | 0, _, _ => .error outOfFuel
  | n + 1, f, args =>
    match bindParams f.params args with
    | none => .error .type
    | some env =>
      match execStmts P H n env f.body with
      | .ok (env', some v) => .ok (v, env')
      | .ok (env', none) => .ok (.none, env')
      | .error e => .error e
termination_by structural n => n

/-- `recv.m(args)` with `recv` already evaluated: value and the receiver after the call -/
def callMethod (P : Program) (H : Host) : Nat → Val → String → List Val → Except PyErr (Val × Option Val)
  | 0, _, _, _ => .error outOfFuel
  | n + 1, recv, m, args =>
    match recv with
    | .obj "dict" _ => (callValMethod H recv m args).map (fun v => (v, none))
    | .obj c _ =>
      match resolveMethod P c m with
      | none => .error .attribute
      | some (_, f) =>
        let first := match f.kind with
          | .instance => [recv]
          | .classmethod => [.cls c]
          | .staticmethod => []
        match callFn P H n f (first ++ args) with
        | .ok (v, env') => .ok (v, if f.kind == .instance then lookup env' (f.params.headD "self") else none)
        | .error e => .error e
    | .cls c =>
      match resolveMethod P c m with
      | none => .error .attribute
      | some (_, f) =>
        let first := match f.kind with
          | .instance => []            -- unbound call `C.m(obj, …)`: the caller passes the instance
          | .classmethod => [.cls c]
          | .staticmethod => []
        (callFn P H n f (first ++ args)).map (fun r => (r.1, none))
    | v => (callValMethod H v m args).map (fun r => (r, none))
termination_by structural n => n

def evalExpr (P : Program) (H : Host) : Nat → Env → Expr → Except PyErr Val
  | 0, _, _ => .error outOfFuel
  | n + 1, env, e =>
    match e with
    | .const v => .ok v
    | .message => .ok (.str "<message>".toList)
    | .name x => match lookup env x with
      | some v => .ok v
      | none => .ok (.cls x)
    | .attr e a => do
        let v ← evalExpr P H n env e
        match v with
        | .obj c fs =>
          match lookup fs a with
          | some w => .ok w
          | none =>
            -- a property (translated as a zero-argument instance method) or a bound constant hook
            match resolveMethod P c a with
            | some (_, f) => if f.params.length == 1 then (callFn P H n f [v]).map (·.1) else .error .attribute
            | none => .error .attribute
        | .enum c m => if a == "value" then (match enumValue H c m with
                                              | some t => .ok (.str t)
                                              | none => .error .attribute)
                       else if a == "name" then .ok (.str m.toList)
                       else .error .attribute
        | .cls c => if a == "__name__" then .ok (.str c.toList) else .error .attribute
        | _ => .error .attribute
    | .call f args => do
        let vs ← args.mapM (evalExpr P H n env)
        -- a name bound in the environment to a class (e.g. `enum_cls(value)`, `column_cls("", v)`)
        let target := match lookup env f with
          | some (.cls c) => c
          | _ => f
        if builtinNames.contains target then callBuiltin P H target vs
        else match findClass P target with
          | some _ =>
            -- instantiation: `__init__` through the MRO on a fresh instance
            match resolveMethod P target "__init__" with
            | some (_, f) =>
              (callFn P H n f (Val.obj target [] :: vs)).bind (fun r =>
                match lookup r.2 (f.params.headD "self") with
                | some o => .ok o
                | none => .error .attribute)
            | none => .ok (.obj target [])
          | none =>
            if isEnumClass H target then
              match vs with
              | [.str t] => match enumByValue H target t with
                | some m => .ok (.enum target m)
                | none => .error .value
              | _ => .error .value
            else .error (.unmodelled ("call " ++ target))
    | .method recv m args => do
        let r ← evalExpr P H n env recv
        let vs ← args.mapM (evalExpr P H n env)
        (callMethod P H n r m vs).map (·.1)
    | .superCall c m args => do
        let vs ← args.mapM (evalExpr P H n env)
        -- the instance (or class) the enclosing method was called on is its first parameter
        match env.head? with
        | some (_, .obj ic fs) =>
          match resolveIn P m (mroAfter P ic c) with
          | some (_, f) => (callFn P H n f (Val.obj ic fs :: vs)).map (·.1)
          | none => .error .attribute
        | some (_, .cls ic) =>
          match resolveIn P m (mroAfter P ic c) with
          | some (_, f) => (callFn P H n f ((if f.kind == .staticmethod then [] else [Val.cls ic]) ++ vs)).map (·.1)
          | none => .error .attribute
        | _ => .error .type
    | .cmp l rest => do
        let lv ← evalExpr P H n env l
        cmpChain (evalExpr P H n env) lv rest
    | .and es => andLoop (evalExpr P H n env) es
    | .or es => orLoop (evalExpr P H n env) es
    | .not e => do
        let v ← evalExpr P H n env e
        .ok (.bool (!v.truthy))
    | .sub l r => do
        let a ← evalExpr P H n env l
        let b ← evalExpr P H n env r
        match a, b with
        | .int x, .int y => .ok (.int (x - y))
        | .bool x, .bool y => .ok (.int ((if x then 1 else 0) - (if y then 1 else 0)))
        | .int x, .bool y => .ok (.int (x - (if y then 1 else 0)))
        | .bool x, .int y => .ok (.int ((if x then 1 else 0) - y))
        | _, _ => .error .type
    | .add l r => do
        let a ← evalExpr P H n env l
        let b ← evalExpr P H n env r
        match a, b with
        | .int x, .int y => .ok (.int (x + y))
        | .str x, .str y => .ok (.str (x ++ y))
        | .list x, .list y => .ok (.list (x ++ y))
        | _, _ => .error .type
    | .ifExp c a b => do
        let cv ← evalExpr P H n env c
        if cv.truthy then evalExpr P H n env a else evalExpr P H n env b
    | .tuple es => (es.mapM (evalExpr P H n env)).map Val.tuple
    | .list es => (es.mapM (evalExpr P H n env)).map Val.list
    | .subscript e i => do
        let v ← evalExpr P H n env e
        let k ← evalExpr P H n env i
        match v, k with
        | .list xs, .int j => if 0 ≤ j then (match xs[j.toNat]? with | some x => .ok x | none => .error .index) else .error (.unmodelled "negative index")
        | .tuple xs, .int j => if 0 ≤ j then (match xs[j.toNat]? with | some x => .ok x | none => .error .index) else .error (.unmodelled "negative index")
        | .obj "dict" fs, k => match (dictItems fs).find? (fun kv => Val.pyEq kv.1 k) with
          | some kv => .ok kv.2
          | none => .error .key
        | .cls c, .str t =>
          -- `EnumCls[text]`
          if isEnumClass H c then (match enumByName H c t with
            | some m => .ok (.enum c m)
            | none => .error .key)
          else .error .type
        | _, _ => .error .type
    | .quant isAll x it cond => do
        let xs ← (evalExpr P H n env it).bind iterate
        let f := fun v => (evalExpr P H n (setVar env x v) cond).map Val.truthy
        (if isAll then allM f xs else anyM f xs).map Val.bool
    | .listComp elt x it => do
        let xs ← (evalExpr P H n env it).bind iterate
        (xs.mapM (fun v => evalExpr P H n (setVar env x v) elt)).map Val.list
termination_by structural n => n

/-- run statements; `some v` = a `return v` was executed -/
def execStmts (P : Program) (H : Host) : Nat → Env → List Stmt → Except PyErr (Env × Option Val)
  | 0, _, _ => .error outOfFuel
  | _ + 1, env, [] => .ok (env, none)
  | n + 1, env, s :: rest =>
    match execStmt P H n env s with
    | .ok (env', none) => execStmts P H n env' rest
    | r => r
termination_by structural n => n

def execStmt (P : Program) (H : Host) : Nat → Env → Stmt → Except PyErr (Env × Option Val)
  | 0, _, _ => .error outOfFuel
  | n + 1, env, s =>
    match s with
    | .pass => .ok (env, none)
    | .assign x e =>
      match e with
      | .method (.name r) m args =>
        -- a call on a named receiver: the receiver's mutations are written back
        (do
          let rv ← evalExpr P H n env (.name r)
          let vs ← args.mapM (evalExpr P H n env)
          let (v, r') ← callMethod P H n rv m vs
          let env1 := match r' with | some o => setVar env r o | none => env
          .ok (setVar env1 x v, none))
      | _ => (evalExpr P H n env e).map (fun v => (setVar env x v, none))
    | .assignAttr o a e => do
        let v ← evalExpr P H n env e
        match (lookup env o).bind (fun ov => setField ov a v) with
        | some ov' => .ok (setVar env o ov', none)
        | none => .error .attribute
    | .expr e =>
      match e with
      | .method (.name r) m args =>
        (do
          let rv ← evalExpr P H n env (.name r)
          let vs ← args.mapM (evalExpr P H n env)
          match rv, m, vs with
          | .list xs, "append", [v] => .ok (setVar env r (.list (xs ++ [v])), none)
          | _, _, _ =>
            let (_, r') ← callMethod P H n rv m vs
            .ok (match r' with | some o => setVar env r o | none => env, none))
      | _ => (evalExpr P H n env e).map (fun _ => (env, none))
    | .ret e => (evalExpr P H n env e).map (fun v => (env, some v))
    | .raise k => .error (excKind k)
    | .assert_ e => do
        let v ← evalExpr P H n env e
        if v.truthy then .ok (env, none) else .error .assertion
    | .ifS c t e => do
        let cv ← evalExpr P H n env c
        if cv.truthy then execStmts P H n env t else execStmts P H n env e
    | .forS idx x it body => do
        let xs ← (evalExpr P H n env it).bind iterate
        forLoop (fun env i v =>
          let env1 := match idx with | some ix => setVar env ix (.int i) | none => env
          execStmts P H n (setVar env1 x v) body) env 0 xs
    | .tryS body hs =>
      match execStmts P H n env body with
      | .ok r => .ok r
      | .error e =>
        match hs.find? (fun h => handles h.1 e) with
        | some h => execStmts P H n env h.2
        | none => .error e
termination_by structural n => n

end

/-- the fuel every theorem and the driver use: far above the nesting depth of any translated body -/
def FUEL : Nat := 64

/-- a Boolean result compared with the expected one; the head is a `Bool`, so kernel evaluation is forced through the
    whole run (used to state evaluation lemmas whose proofs are case splits on the primitive tests) -/
def forcedBool (r : Except PyErr (Val × Env)) (expected : Bool) : Bool :=
  match r with
  | .ok (v, _) => v.truthy == expected
  | .error _ => false

theorem forcedBool_spec {r : Except PyErr (Val × Env)} {b : Bool} (h : forcedBool r b = true) :
    r.map (fun x => x.1.truthy) = .ok b := by
  unfold forcedBool at h
  split at h
  · simp only [Except.map]; congr 1; exact eq_of_beq h
  · cases h

/-- call method `m` of class `c` on explicit arguments (receiver / class object first where the kind needs one) -/
def run (P : Program) (H : Host) (c m : String) (args : List Val) : Except PyErr (Val × Env) :=
  match (findClass P c).bind (fun d => (d.methods.find? (fun p => p.1 == m)).map (·.2)) with
  | some f => callFn P H FUEL f args
  | none => .error .attribute

end PyIR
