/-
  PyIR interpreter: the meaning of the translated Python fragment.

  **Shape.**  A run does not evaluate the primitive tests on payloads (`i < 1`, `s == "-"`, "does `int(s)` parse")
  itself: it returns a *decision tree* (`Tree`) whose inner nodes are those tests (`Query`) and whose leaves are results.
  The meaning of a run is `Tree.eval H`, which answers every query with the real predicate (`Query.holds`).  This makes
  symbolic execution a matter of kernel evaluation: on an input with a symbolic payload (`.int i`, `.str s`) the run
  reduces, by `rfl`, to an explicit tree `ask (intLt i 1) (done r₁) (done r₂)`; a theorem about *every* `i` is then a
  case split on the queries (`Tree.eval_ask_of`), with concrete leaves.  Nothing is assumed about the trees: the
  statements are about `Tree.eval`, i.e. about the ordinary semantics.

  **Totality.**  `fuel` bounds the nesting depth (expression depth, statement nesting, call depth); loops and
  comprehensions recurse on the value iterated, not on fuel.  Running out of fuel is the distinct error
  `.unmodelled "fuel"`, which no theorem's right-hand side is — an equality `run … = model …` also says the fuel sufficed.

  **Python semantics implemented here** (each is a place where a wrong reading would make the tie meaningless):
  * `and` / `or` return an operand, not a boolean; truthiness as CPython's;
  * chained comparisons evaluate the middle operand once and short-circuit;
  * `<` on `int`/`bool` is numeric, on `str` lexicographic by code point, anything else (incl. `None`, `int` vs `str`)
    is `TypeError`; `==` never raises; `True == 1`;
  * `is` on `None` / `True` / `False` / classes is identity; on anything else it is *not modelled* (error);
  * `isinstance(True, int)` holds; a class is an instance test through the translated MRO;
  * attribute lookup: instance dictionary, then a one-parameter (property-like) method through the MRO;
    `enum.value` / `enum.name` through the enum table;
  * `super(C, self).m` resolves to the first definer of `m` after `C` in the MRO of the *instance's* class;
  * `try` handlers run in the environment the `try` was entered with (the translator restricts `try` bodies to a
    single statement, where that is exact); fuel exhaustion and unmodelled constructs are never caught.
-/
import MafModel.PyIR.Syntax
open Py
namespace PyIR

abbrev Env := List (String × Val)

/-- enum vocabularies: class ↦ [(member name, value text)] (from `Generated/Enums`) -/
abbrev Enums := List (String × List (String × String))

structure Host where
  /-- CPython `float(text)`: the `repr` of the result, `none` for ValueError -/
  floatParse : Text → Option Text
  enums : Enums

def outOfFuel : PyErr := .unmodelled "fuel"

/-! ### decision trees -/

/-- the primitive tests on payloads -/
inductive Query where
  | intLt (a b : Int)
  | intEq (a b : Int)
  | textLt (a b : Text)
  | textEq (a b : Text)
  | nameEq (a b : String)
  | textEmpty (s : Text)
  /-- does the host parser `kind` ∈ {int, float, uuid} accept `s` -/
  | parses (kind : String) (s : Text)
  deriving Repr, Inhabited

def Query.holds (H : Host) : Query → Bool
  | .intLt a b => decide (a < b)
  | .intEq a b => a == b
  | .textLt a b => decide (a < b)
  | .textEq a b => a == b
  | .nameEq a b => a == b
  | .textEmpty s => s.isEmpty
  | .parses "int" s => (pyInt s).isSome
  | .parses "float" s => (H.floatParse s).isSome
  | .parses "uuid" s => (pyUuid s).isSome
  | .parses _ _ => false

inductive Tree (α : Type) where
  | done (a : α)
  | ask (q : Query) (t f : Tree α)
  deriving Inhabited

def Tree.eval (H : Host) : Tree α → α
  | .done a => a
  | .ask q t f => if q.holds H then t.eval H else f.eval H

def Tree.bind : Tree α → (α → Tree β) → Tree β
  | .done a, k => k a
  | .ask q t f, k => .ask q (t.bind k) (f.bind k)

theorem Tree.eval_bind (H : Host) (t : Tree α) (k : α → Tree β) : (t.bind k).eval H = (k (t.eval H)).eval H := by
  induction t with
  | done a => rfl
  | ask q t f iht ihf => simp only [Tree.bind, Tree.eval]; split <;> assumption

/-- evaluation of a tree whose head node is known (by kernel evaluation: `h := rfl`) -/
theorem Tree.eval_ask_of {t T F : Tree α} {q : Query} (H : Host) (h : t = .ask q T F) :
    t.eval H = if q.holds H then T.eval H else F.eval H := by subst h; rfl

theorem Tree.eval_done_of {t : Tree α} {a : α} (H : Host) (h : t = .done a) : t.eval H = a := by subst h; rfl

/-- `P` holds at every leaf, under the answers of the queries on the way to it -/
def Tree.Forall (H : Host) (P : α → Prop) : Tree α → Prop
  | .done a => P a
  | .ask q t f => (q.holds H = true → t.Forall H P) ∧ (q.holds H = false → f.Forall H P)

theorem Tree.Forall.eval {H : Host} {P : α → Prop} : {t : Tree α} → t.Forall H P → P (t.eval H)
  | .done _, h => h
  | .ask q t f, h => by
    unfold Tree.eval
    cases hq : q.holds H
    · simpa using Tree.Forall.eval (h.2 hq)
    · simpa using Tree.Forall.eval (h.1 hq)

/-- one Boolean test -/
def test (q : Query) : Tree Bool := .ask q (.done true) (.done false)

/-- the interpreter's monad: a decision tree over results or Python exceptions -/
def M (α : Type) := Tree (Except PyErr α)

def M.ok (a : α) : M α := Tree.done (.ok a)
def M.err (e : PyErr) : M α := Tree.done (.error e)
def M.bind (x : M α) (k : α → M β) : M β :=
  Tree.bind x (fun r => match r with | .ok a => k a | .error e => Tree.done (.error e))
/-- a pure `Except` computation -/
def M.ofExcept : Except PyErr α → M α := Tree.done
/-- a decision without exception -/
def M.ofTree (t : Tree α) : M α := Tree.bind t (fun a => Tree.done (.ok a))
def M.tryCatch (x : M α) (h : PyErr → M α) : M α :=
  Tree.bind x (fun r => match r with | .ok a => Tree.done (.ok a) | .error e => h e)
def M.eval (H : Host) (x : M α) : Except PyErr α := Tree.eval H x

/-! ### values -/

mutual
/-- Python `==` (never raises; objects compare by identity, which is not modelled: `false`) -/
def Val.pyEq : Val → Val → Tree Bool
  | .none, .none => .done true
  | .bool a, .bool b => .done (a == b)
  | .bool a, .int b => test (.intEq (if a then 1 else 0) b)
  | .int a, .bool b => test (.intEq a (if b then 1 else 0))
  | .int a, .int b => test (.intEq a b)
  | .float a, .float b => test (.textEq a b)
  | .str a, .str b => test (.textEq a b)
  | .enum c m, .enum c' m' => .ask (.nameEq c c') (test (.nameEq m m')) (.done false)
  | .uuid a, .uuid b => .done (a == b)
  | .other a, .other b => .done (a == b)
  | .list a, .list b => Val.pyEqList a b
  | .tuple a, .tuple b => Val.pyEqList a b
  | .cls a, .cls b => .done (a == b)
  | _, _ => .done false
def Val.pyEqList : List Val → List Val → Tree Bool
  | [], [] => .done true
  | a :: as, b :: bs => (Val.pyEq a b).bind (fun r => if r then Val.pyEqList as bs else .done false)
  | _, _ => .done false
end

/-- `bool(v)` -/
def Val.truthy : Val → Tree Bool
  | .none => .done false
  | .bool b => .done b
  | .int i => .ask (.intEq i 0) (.done false) (.done true)
  | .float t => .ask (.textEq t "0.0".toList) (.done false) (.ask (.textEq t "-0.0".toList) (.done false) (.done true))
  | .str s => .ask (.textEmpty s) (.done false) (.done true)
  | .list xs => .done (!xs.isEmpty)
  | .tuple xs => .done (!xs.isEmpty)
  | _ => .done true

def Val.isNone : Val → Bool
  | .none => true
  | _ => false

def Val.asBool? : Val → Option Bool
  | .bool b => Option.some b
  | _ => Option.none

def lookup (env : Env) (x : String) : Option Val :=
  (env.find? (fun p => p.1 == x)).map (·.2)

def setVar (env : Env) (x : String) (v : Val) : Env :=
  if env.any (fun p => p.1 == x) then env.map (fun p => if p.1 == x then (x, v) else p)
  else env ++ [(x, v)]

/-- a dictionary is a list of `(key, value)` 2-tuples tagged as `obj "dict"`; only literals and read access occur -/
def mkDict (kvs : List (Val × Val)) : Val := .obj "dict" (kvs.map (fun kv => ("", .tuple [kv.1, kv.2])))

def dictItems : List (String × Val) → List (Val × Val)
  | [] => []
  | (_, .tuple [k, v]) :: r => (k, v) :: dictItems r
  | _ :: r => dictItems r

/-- the elements `for x in v` ranges over -/
def iterate : Val → Except PyErr (List Val)
  | .list xs => .ok xs
  | .tuple xs => .ok xs
  | .str s => .ok (s.map (fun c => .str [c]))
  | .obj "dict" fs => .ok ((dictItems fs).map (·.1))
  | .obj "set" fs => .ok (fs.map (·.2))
  | _ => .error .type

/-- Python `<` -/
def ltVal : Val → Val → M Bool
  | .int a, .int b => M.ofTree (test (.intLt a b))
  | .bool a, .int b => M.ofTree (test (.intLt (if a then 1 else 0) b))
  | .int a, .bool b => M.ofTree (test (.intLt a (if b then 1 else 0)))
  | .bool a, .bool b => M.ok (!a && b)
  | .str a, .str b => M.ofTree (test (.textLt a b))
  | .float _, _ => M.err (.unmodelled "float order")
  | _, .float _ => M.err (.unmodelled "float order")
  | _, _ => M.err .type

def isInfix (p : Text) : Text → Bool
  | [] => p.isEmpty
  | c :: s => p.isPrefixOf (c :: s) || isInfix p s

/-- `any(x == y for y in ys)` -/
def anyEq (x : Val) : List Val → Tree Bool
  | [] => .done false
  | y :: ys => (Val.pyEq y x).bind (fun r => if r then .done true else anyEq x ys)

def containsVal (x : Val) : Val → M Bool
  | .str s => match x with
    | .str p => M.ok (isInfix p s)
    | _ => M.err .type
  | c => match iterate c with
    | .ok xs => M.ofTree (anyEq x xs)
    | .error e => M.err e

/-- identity against the singletons the fragment tests with `is` -/
def isSame : Val → Val → Except PyErr Bool
  | .none, .none => .ok true
  | .none, _ => .ok false
  | _, .none => .ok false
  | .bool a, .bool b => .ok (a == b)
  | .cls a, .cls b => .ok (a == b)
  | .cls _, _ => .ok false
  | _, .cls _ => .ok false
  | _, _ => .error (.unmodelled "is")

def notM (x : M Bool) : M Bool := x.bind (fun b => M.ok (!b))
def orEq (l : M Bool) (a b : Val) : M Bool := l.bind (fun r => if r then M.ok true else M.ofTree (Val.pyEq a b))

def applyCmp (op : CmpOp) (a b : Val) : M Bool :=
  match op with
  | .lt => ltVal a b
  | .gt => ltVal b a
  -- `a <= b` on the types the fragment compares is `a < b or a == b`
  | .le => orEq (ltVal a b) a b
  | .ge => orEq (ltVal b a) a b
  | .eq => M.ofTree (Val.pyEq a b)
  | .ne => notM (M.ofTree (Val.pyEq a b))
  | .is_ => M.ofExcept (isSame a b)
  | .isNot => M.ofExcept ((isSame a b).map (!·))
  | .in_ => containsVal a b
  | .notIn => notM (containsVal a b)

/-! ### classes -/

def findClass (P : Program) (c : String) : Option ClassDef := P.find? (fun d => d.name == c)

def mroOf (P : Program) (c : String) : List String :=
  match findClass P c with
  | some d => d.mro
  | none => [c]

/-- the first class of `chain` defining `m` -/
def resolveIn (P : Program) (m : String) : List String → Option (String × FnDef)
  | [] => none
  | c :: rest =>
    match (findClass P c).bind (fun d => (d.methods.find? (fun p => p.1 == m)).map (·.2)) with
    | some f => some (c, f)
    | none => resolveIn P m rest

def resolveMethod (P : Program) (c m : String) : Option (String × FnDef) := resolveIn P m (mroOf P c)

/-- the part of the MRO after `c` -/
def mroAfter (P : Program) (inst c : String) : List String :=
  ((mroOf P inst).dropWhile (fun x => x != c)).drop 1

/-- names of built-in types: never the name of an enum or of a translated class -/
def builtinTypes : List String := ["int", "float", "str", "bool", "list", "tuple", "UUID", "dict", "set", "type"]

def builtinNames : List String :=
  ["isinstance", "int", "float", "str", "bool", "len", "set", "list", "tuple", "UUID", "type", "dict"]

/-- `isinstance(v, cls t)` -/
def isInstance1 (P : Program) (v : Val) (t : String) : Tree Bool :=
  match v with
  | .none => .done false
  | .bool _ => .done (t == "bool" || t == "int")
  | .int _ => .done (t == "int")
  | .float _ => .done (t == "float")
  | .str _ => .done (t == "str")
  | .enum c _ => if builtinTypes.contains t then .done false else if t == "Enum" then .done true else test (.nameEq t c)
  | .uuid _ => .done (t == "UUID")
  | .other _ => .done false
  | .list _ => .done (t == "list")
  | .tuple _ => .done (t == "tuple")
  | .obj c _ => .done (!builtinTypes.contains t && (mroOf P c).contains t)
  | .cls _ => .done (t == "type")

def anyInstance (P : Program) (v : Val) : List Val → Tree Bool
  | [] => .done false
  | .cls n :: ts => (isInstance1 P v n).bind (fun r => if r then .done true else anyInstance P v ts)
  | _ :: ts => anyInstance P v ts

def isInstance (P : Program) (v : Val) : Val → M Bool
  | .cls t => M.ofTree (isInstance1 P v t)
  | .tuple ts => M.ofTree (anyInstance P v ts)
  | _ => M.err .type

def enumValue (H : Host) (c m : String) : Option Text :=
  ((H.enums.find? (fun p => p.1 == c)).bind (fun p => p.2.find? (fun q => q.1 == m))).map (·.2.toList)

/-- `EnumCls(text)`: by value -/
def enumByValue (H : Host) (c : String) (t : Text) : Option String :=
  ((H.enums.find? (fun p => p.1 == c)).bind (fun p => p.2.find? (fun q => q.2.toList == t))).map (·.1)

/-- `EnumCls[text]`: by member name -/
def enumByName (H : Host) (c : String) (t : Text) : Option String :=
  ((H.enums.find? (fun p => p.1 == c)).bind (fun p => p.2.find? (fun q => q.1.toList == t))).map (·.1)

def isEnumClass (H : Host) (c : String) : Bool := H.enums.any (fun p => p.1 == c)

/-- Python `str(v)` where maf-lib relies on it -/
def strOf : Val → Except PyErr Text
  | .none => .ok "None".toList
  | .bool true => .ok "True".toList
  | .bool false => .ok "False".toList
  | .int i => .ok (intStr i)
  | .float t => .ok t
  | .str s => .ok s
  | .uuid n => .ok (uuidStr n)
  | _ => .error (.unmodelled "str")

def excKind : String → PyErr
  | "ValueError" => .value
  | "KeyError" => .key
  | "TypeError" => .type
  | "IndexError" => .index
  | "AttributeError" => .attribute
  | "AssertionError" => .assertion
  | "NotImplementedError" => .notImplemented
  | "StopIteration" => .stopIteration
  | k => .unmodelled ("raise " ++ k)

def handles (k : String) (e : PyErr) : Bool :=
  match e with
  | .unmodelled _ => false            -- fuel / unmodelled constructs are never caught
  | _ => k == "Exception" || excKind k == e

/-! ### builtins -/

def callBuiltin (P : Program) (H : Host) (f : String) (args : List Val) : M Val :=
  match f, args with
  | "isinstance", [v, t] => (isInstance P v t).bind (fun b => M.ok (.bool b))
  | "int", [.str s] => Tree.ask (.parses "int" s) (M.ok (.int ((pyInt s).getD 0))) (M.err .value)
  | "int", [.int i] => M.ok (.int i)
  | "int", [.bool b] => M.ok (.int (if b then 1 else 0))
  | "int", [.none] => M.err .type
  | "float", [.str s] => Tree.ask (.parses "float" s) (M.ok (.float ((H.floatParse s).getD []))) (M.err .value)
  | "float", [.none] => M.err .type
  | "str", [v] => M.ofExcept ((strOf v).map Val.str)
  | "bool", [v] => (M.ofTree v.truthy).bind (fun b => M.ok (.bool b))
  | "len", [v] => M.ofExcept ((iterate v).map (fun xs => .int xs.length))
  | "set", [v] => M.ofExcept ((iterate v).map (fun xs => .obj "set" (xs.map (fun x => ("", x)))))
  | "list", [v] => M.ofExcept ((iterate v).map Val.list)
  | "list", [] => M.ok (.list [])
  | "tuple", [v] => M.ofExcept ((iterate v).map Val.tuple)
  | "UUID", [.str s] => Tree.ask (.parses "uuid" s) (M.ok (.uuid ((pyUuid s).getD 0))) (M.err .value)
  | "type", [.obj c _] => M.ok (.cls c)
  | "dict", kvs => M.ok (mkDict (kvs.filterMap (fun kv => match kv with | .tuple [k, v] => some (k, v) | _ => none)))
  | f, _ => M.err (.unmodelled ("builtin " ++ f))

/-- methods of built-in values -/
def callValMethod (recv : Val) (m : String) (args : List Val) : Except PyErr Val :=
  match recv, m, args with
  | .str s, "upper", [] => .ok (.str (pyUpper s))
  | .str s, "capitalize", [] => .ok (.str (pyCapitalize s))
  | .str s, "split", [.str [c]] => .ok (.list ((splitOn c s).map Val.str))
  | .str sep, "join", [v] => do
      let xs ← iterate v
      let ts ← xs.mapM (fun x => match x with | .str t => .ok t | _ => (.error .type : Except PyErr Text))
      match sep with
      | [c] => .ok (.str (joinWith c ts))
      | _ => .error (.unmodelled "join separator")
  | .obj "dict" fs, "keys", [] => .ok (.list ((dictItems fs).map (·.1)))
  | .obj "dict" fs, "values", [] => .ok (.list ((dictItems fs).map (·.2)))
  | .obj "dict" fs, "items", [] => .ok (.list ((dictItems fs).map (fun kv => .tuple [kv.1, kv.2])))
  | _, m, _ => .error (.unmodelled ("method " ++ m))

/-- `d[k]` -/
def dictGet (k : Val) : List (Val × Val) → M Val
  | [] => M.err .key
  | (k', v) :: rest => (M.ofTree (Val.pyEq k' k)).bind (fun r => if r then M.ok v else dictGet k rest)

/-! ### loops over values (structural on the list, not on fuel) -/

def forLoop (step : Env → Nat → Val → M (Env × Option Val)) : Env → Nat → List Val → M (Env × Option Val)
  | env, _, [] => M.ok (env, none)
  | env, i, v :: vs =>
    (step env i v).bind (fun r => match r with
      | (env', none) => forLoop step env' (i + 1) vs
      | r => M.ok r)

/-- `any(f x for x in xs)` with Python's short-circuit -/
def anyM (f : Val → M Bool) : List Val → M Bool
  | [] => M.ok false
  | v :: vs => (f v).bind (fun r => if r then M.ok true else anyM f vs)

def allM (f : Val → M Bool) : List Val → M Bool
  | [] => M.ok true
  | v :: vs => (f v).bind (fun r => if r then allM f vs else M.ok false)

def mapValsM (f : Val → M Val) : List Val → M (List Val)
  | [] => M.ok []
  | v :: vs => (f v).bind (fun w => (mapValsM f vs).bind (fun ws => M.ok (w :: ws)))

def mapExprsM (ev : Expr → M Val) : List Expr → M (List Val)
  | [] => M.ok []
  | e :: es => (ev e).bind (fun w => (mapExprsM ev es).bind (fun ws => M.ok (w :: ws)))

/-- `a and b and …`: the first falsy operand, else the last -/
def andLoop (ev : Expr → M Val) : List Expr → M Val
  | [] => M.ok (.bool true)
  | [e] => ev e
  | e :: es => (ev e).bind (fun v => (M.ofTree v.truthy).bind (fun t => if t then andLoop ev es else M.ok v))

def orLoop (ev : Expr → M Val) : List Expr → M Val
  | [] => M.ok (.bool false)
  | [e] => ev e
  | e :: es => (ev e).bind (fun v => (M.ofTree v.truthy).bind (fun t => if t then M.ok v else orLoop ev es))

/-- `l op₁ e₁ op₂ e₂ …` -/
def cmpChain (ev : Expr → M Val) : Val → List (CmpOp × Expr) → M Val
  | _, [] => M.ok (.bool true)
  | l, (op, e) :: rest =>
    (ev e).bind (fun r => (applyCmp op l r).bind (fun b => if b then cmpChain ev r rest else M.ok (.bool false)))

def bindParams : List String → List Val → Option Env
  | [], [] => some []
  | p :: ps, v :: vs => (bindParams ps vs).map (fun e => (p, v) :: e)
  -- a missing trailing argument is a default of `None` (the only default the fragment uses)
  | p :: ps, [] => (bindParams ps []).map (fun e => (p, .none) :: e)
  | [], _ :: _ => none

/-- field write `x.a = v` on an instance held in a variable -/
def setField (o : Val) (a : String) (v : Val) : Option Val :=
  match o with
  | .obj c fs => some (.obj c (setVar fs a v))
  | _ => none

def subVals : Val → Val → Except PyErr Val
  | .int x, .int y => .ok (.int (x - y))
  | .bool x, .bool y => .ok (.int ((if x then 1 else 0) - (if y then 1 else 0)))
  | .int x, .bool y => .ok (.int (x - (if y then 1 else 0)))
  | .bool x, .int y => .ok (.int ((if x then 1 else 0) - y))
  | _, _ => .error .type

def addVals : Val → Val → Except PyErr Val
  | .int x, .int y => .ok (.int (x + y))
  | .str x, .str y => .ok (.str (x ++ y))
  | .list x, .list y => .ok (.list (x ++ y))
  | _, _ => .error .type

def indexVal (H : Host) : Val → Val → M Val
  | .list xs, .int j => if 0 ≤ j then (match xs[j.toNat]? with | some x => M.ok x | none => M.err .index) else M.err (.unmodelled "negative index")
  | .tuple xs, .int j => if 0 ≤ j then (match xs[j.toNat]? with | some x => M.ok x | none => M.err .index) else M.err (.unmodelled "negative index")
  | .obj "dict" fs, k => dictGet k (dictItems fs)
  | .cls c, .str t =>
    -- `EnumCls[text]`
    if isEnumClass H c then (match enumByName H c t with
      | some m => M.ok (.enum c m)
      | none => M.err .key)
    else M.err .type
  | _, _ => M.err .type

/-! ### the interpreter -/

mutual

/-- call `f` with the receiver / class object already first in `args`;
    result: returned value (`None` when the body falls off the end) and the callee's final environment -/
def callFn (P : Program) (H : Host) : Nat → FnDef → List Val → M (Val × Env)
  | 0, _, _ => M.err outOfFuel
  | n + 1, f, args =>
    match bindParams f.params args with
    | none => M.err .type
    | some env =>
      (execStmts P H n env f.body).bind (fun r => match r with
        | (env', some v) => M.ok (v, env')
        | (env', none) => M.ok (.none, env'))
termination_by structural n => n

/-- `recv.m(args)` with `recv` already evaluated: value and the receiver after the call -/
def callMethod (P : Program) (H : Host) : Nat → Val → String → List Val → M (Val × Option Val)
  | 0, _, _, _ => M.err outOfFuel
  | n + 1, recv, m, args =>
    match recv with
    | .obj "dict" _ => (M.ofExcept (callValMethod recv m args)).bind (fun v => M.ok (v, none))
    | .obj c _ =>
      match resolveMethod P c m with
      | none => M.err .attribute
      | some (_, f) =>
        let first := match f.kind with
          | .instance => [recv]
          | .classmethod => [.cls c]
          | .staticmethod => []
        (callFn P H n f (first ++ args)).bind (fun r =>
          M.ok (r.1, if f.kind == .instance then lookup r.2 (f.params.headD "self") else none))
    | .cls c =>
      match resolveMethod P c m with
      | none => M.err .attribute
      | some (_, f) =>
        let first := match f.kind with
          | .instance => []            -- unbound call `C.m(obj, …)`: the caller passes the instance
          | .classmethod => [.cls c]
          | .staticmethod => []
        (callFn P H n f (first ++ args)).bind (fun r => M.ok (r.1, none))
    | v => (M.ofExcept (callValMethod v m args)).bind (fun r => M.ok (r, none))
termination_by structural n => n

def evalExpr (P : Program) (H : Host) : Nat → Env → Expr → M Val
  | 0, _, _ => M.err outOfFuel
  | n + 1, env, e =>
    match e with
    | .const v => M.ok v
    | .message => M.ok (.str "<message>".toList)
    | .name x => match lookup env x with
      | some v => M.ok v
      | none => M.ok (.cls x)
    | .attr e a =>
      (evalExpr P H n env e).bind (fun v =>
        match v with
        | .obj c fs =>
          match lookup fs a with
          | some w => M.ok w
          | none =>
            -- a property (translated as a one-parameter instance method)
            match resolveMethod P c a with
            | some (_, f) => if f.params.length == 1 then (callFn P H n f [v]).bind (fun r => M.ok r.1) else M.err .attribute
            | none => M.err .attribute
        | .enum c m => if a == "value" then (match enumValue H c m with
                                              | some t => M.ok (.str t)
                                              | none => M.err .attribute)
                       else if a == "name" then M.ok (.str m.toList)
                       else M.err .attribute
        | .cls c =>
          if a == "__name__" then M.ok (.str c.toList)
          -- `EnumCls.Member`
          else match enumByName H c a.toList with
            | some m => M.ok (.enum c m)
            | none => M.err .attribute
        | _ => M.err .attribute)
    | .call f args =>
      (mapExprsM (evalExpr P H n env) args).bind (fun vs =>
        -- a name bound in the environment to a class (e.g. `enum_cls(value)`, `column_cls("", v)`)
        let target := match lookup env f with
          | some (.cls c) => c
          | _ => f
        if builtinNames.contains target then callBuiltin P H target vs
        else match findClass P target with
          | some _ =>
            -- instantiation: `__init__` through the MRO on a fresh instance
            match resolveMethod P target "__init__" with
            | some (_, f) =>
              (callFn P H n f (Val.obj target [] :: vs)).bind (fun r =>
                match lookup r.2 (f.params.headD "self") with
                | some o => M.ok o
                | none => M.err .attribute)
            | none => M.ok (.obj target [])
          | none =>
            if isEnumClass H target then
              match vs with
              | [.str t] => match enumByValue H target t with
                | some m => M.ok (.enum target m)
                | none => M.err .value
              | _ => M.err .value
            else M.err (.unmodelled ("call " ++ target)))
    | .method recv m args =>
      (evalExpr P H n env recv).bind (fun r =>
        (mapExprsM (evalExpr P H n env) args).bind (fun vs =>
          (callMethod P H n r m vs).bind (fun x => M.ok x.1)))
    | .superCall c m args =>
      (mapExprsM (evalExpr P H n env) args).bind (fun vs =>
        -- the instance (or class) the enclosing method was called on is its first parameter
        match env.head? with
        | some (_, .obj ic fs) =>
          match resolveIn P m (mroAfter P ic c) with
          | some (_, f) => (callFn P H n f (Val.obj ic fs :: vs)).bind (fun r => M.ok r.1)
          | none => M.err .attribute
        | some (_, .cls ic) =>
          match resolveIn P m (mroAfter P ic c) with
          | some (_, f) => (callFn P H n f ((if f.kind == .staticmethod then [] else [Val.cls ic]) ++ vs)).bind (fun r => M.ok r.1)
          | none => M.err .attribute
        | _ => M.err .type)
    | .cmp l rest => (evalExpr P H n env l).bind (fun lv => cmpChain (evalExpr P H n env) lv rest)
    | .and es => andLoop (evalExpr P H n env) es
    | .or es => orLoop (evalExpr P H n env) es
    | .not e => (evalExpr P H n env e).bind (fun v => (M.ofTree v.truthy).bind (fun t => M.ok (.bool (!t))))
    | .sub l r => (evalExpr P H n env l).bind (fun a => (evalExpr P H n env r).bind (fun b => M.ofExcept (subVals a b)))
    | .add l r => (evalExpr P H n env l).bind (fun a => (evalExpr P H n env r).bind (fun b => M.ofExcept (addVals a b)))
    | .ifExp c a b =>
      (evalExpr P H n env c).bind (fun cv => (M.ofTree cv.truthy).bind (fun t =>
        if t then evalExpr P H n env a else evalExpr P H n env b))
    | .tuple es => (mapExprsM (evalExpr P H n env) es).bind (fun vs => M.ok (.tuple vs))
    | .list es => (mapExprsM (evalExpr P H n env) es).bind (fun vs => M.ok (.list vs))
    | .subscript e i => (evalExpr P H n env e).bind (fun v => (evalExpr P H n env i).bind (fun k => indexVal H v k))
    | .quant isAll x it cond =>
      (evalExpr P H n env it).bind (fun iv => (M.ofExcept (iterate iv)).bind (fun xs =>
        let f := fun v => (evalExpr P H n (setVar env x v) cond).bind (fun c => M.ofTree c.truthy)
        (if isAll then allM f xs else anyM f xs).bind (fun b => M.ok (.bool b))))
    | .listComp elt x it =>
      (evalExpr P H n env it).bind (fun iv => (M.ofExcept (iterate iv)).bind (fun xs =>
        (mapValsM (fun v => evalExpr P H n (setVar env x v) elt) xs).bind (fun vs => M.ok (.list vs))))
termination_by structural n => n

/-- run statements; `some v` = a `return v` was executed -/
def execStmts (P : Program) (H : Host) : Nat → Env → List Stmt → M (Env × Option Val)
  | 0, _, _ => M.err outOfFuel
  | _ + 1, env, [] => M.ok (env, none)
  | n + 1, env, s :: rest =>
    (execStmt P H n env s).bind (fun r => match r with
      | (env', none) => execStmts P H n env' rest
      | r => M.ok r)
termination_by structural n => n

def execStmt (P : Program) (H : Host) : Nat → Env → Stmt → M (Env × Option Val)
  | 0, _, _ => M.err outOfFuel
  | n + 1, env, s =>
    match s with
    | .pass => M.ok (env, none)
    | .assign x e =>
      match e with
      | .method (.name r) m args =>
        -- a call on a named receiver: the receiver's mutations are written back
        (evalExpr P H n env (.name r)).bind (fun rv =>
          (mapExprsM (evalExpr P H n env) args).bind (fun vs =>
            (callMethod P H n rv m vs).bind (fun res =>
              let env1 := match res.2 with | some o => setVar env r o | none => env
              M.ok (setVar env1 x res.1, none))))
      | _ => (evalExpr P H n env e).bind (fun v => M.ok (setVar env x v, none))
    | .assignAttr o a e =>
      (evalExpr P H n env e).bind (fun v =>
        match (lookup env o).bind (fun ov => setField ov a v) with
        | some ov' => M.ok (setVar env o ov', none)
        | none => M.err .attribute)
    | .expr e =>
      match e with
      | .method (.name r) m args =>
        (evalExpr P H n env (.name r)).bind (fun rv =>
          (mapExprsM (evalExpr P H n env) args).bind (fun vs =>
            match rv, m, vs with
            | .list xs, "append", [v] => M.ok (setVar env r (.list (xs ++ [v])), none)
            | _, _, _ =>
              (callMethod P H n rv m vs).bind (fun res =>
                M.ok (match res.2 with | some o => setVar env r o | none => env, none))))
      | _ => (evalExpr P H n env e).bind (fun _ => M.ok (env, none))
    | .ret e => (evalExpr P H n env e).bind (fun v => M.ok (env, some v))
    | .raise k => M.err (excKind k)
    | .assert_ e => (evalExpr P H n env e).bind (fun v => (M.ofTree v.truthy).bind (fun t =>
        if t then M.ok (env, none) else M.err .assertion))
    | .ifS c t e => (evalExpr P H n env c).bind (fun cv => (M.ofTree cv.truthy).bind (fun b =>
        if b then execStmts P H n env t else execStmts P H n env e))
    | .forS idx x it body =>
      (evalExpr P H n env it).bind (fun iv => (M.ofExcept (iterate iv)).bind (fun xs =>
        forLoop (fun env i v =>
          let env1 := match idx with | some ix => setVar env ix (.int i) | none => env
          execStmts P H n (setVar env1 x v) body) env 0 xs))
    | .tryS body hs =>
      M.tryCatch (execStmts P H n env body) (fun e =>
        match hs.find? (fun h => handles h.1 e) with
        | some h => execStmts P H n env h.2
        | none => M.err e)
termination_by structural n => n

end

/-- the fuel every theorem and the driver use: far above the nesting depth of any translated body -/
def FUEL : Nat := 64

/-- the decision tree of calling method `m` of class `c` on explicit arguments (receiver / class object first where
    the kind needs one) -/
def runTree (P : Program) (H : Host) (c m : String) (args : List Val) : M (Val × Env) :=
  match (findClass P c).bind (fun d => (d.methods.find? (fun p => p.1 == m)).map (·.2)) with
  | some f => callFn P H FUEL f args
  | none => M.err .attribute

/-- the meaning of that call -/
def run (P : Program) (H : Host) (c m : String) (args : List Val) : Except PyErr (Val × Env) :=
  Tree.eval H (runTree P H c m args)

end PyIR
