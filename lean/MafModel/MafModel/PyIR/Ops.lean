/-
  Driver operations that *interpret the translated method bodies* (`Generated/Bodies.lean`), so that the PyIR
  interpreter itself — the hand-written meaning of the translated fragment — is validated against the real
  implementation on generated inputs (`body.validate`, `body.build`, `body.compare`, `body.overlaps`, `body.allele`).
-/
import Lean.Data.Json
import MafModel.Model.Ops
import MafModel.Lemmas.BodiesEmb
open Lean Py PyIR

namespace BodyOps
open Ops

def unembAtom : Val → Option Atom
  | .none => some .none
  | .bool b => some (.bool b)
  | .int i => some (.int i)
  | .float t => some (.float t)
  | .str s => some (.str s)
  | .enum c m => some (.enum c m)
  | .uuid n => some (.uuid n)
  | .other t => some (.other t)
  | _ => Option.none

def unemb : Val → Option PyVal
  | .list xs => (xs.mapM unembAtom).map PyVal.list
  | .tuple xs => (xs.mapM unembAtom).map PyVal.tuple
  | v => (unembAtom v).map PyVal.atom

def valJson (v : Val) : Json :=
  match unemb v with
  | some p => valToJson p
  | none => Json.mkObj [("t", "object")]

def kvOfJson (j : Json) : Val :=
  match j with
  | Json.null => .none
  | Json.str s => .str s.toList
  | Json.num n => .int n.mantissa
  | _ => .other "?"

def dispatch (j : Json) : Json :=
  let fp := (floatHostOf j).parse
  match getStr? j "op" with
  | some "body.validate" =>
    let K := (getStr? j "cls").getD ""
    let v := Bodies.emb (valOfJson ((j.getObjVal? "value").toOption.getD Json.null))
    match Bodies.hookInvalid fp K v with
    | .ok b => Json.mkObj [("invalid", Json.bool b)]
    | .error e => Json.mkObj [("exc", Json.str (errName e))]
  | some "body.build" =>
    let K := (getStr? j "cls").getD ""
    match Bodies.hookBuild fp K ((getStr? j "text").getD "").toList with
    | .ok v => Json.mkObj [("value", valJson v)]
    | .error e => Json.mkObj [("exc", Json.str (errName e))]
  | some "body.compare" =>
    let a := kvOfJson ((j.getObjVal? "a").toOption.getD Json.null)
    let b := kvOfJson ((j.getObjVal? "b").toOption.getD Json.null)
    match (run Generated.Bodies.program (Bodies.host fp) "SortOrderKey" "compare" [.cls "SortOrderKey", a, b]).map (·.1) with
    | .ok v => Json.mkObj [("value", valJson v)]
    | .error e => Json.mkObj [("exc", Json.str (errName e))]
  | some "body.overlaps" =>
    -- `LocatableOverlapIterator.__overlaps(min_key, cur_key)` (or, with "barcodes", `__overlaps_with_barcode`) on
    -- key objects as `Locatable.__init__` leaves them (plus the two barcode attributes)
    let keyOf (o : Json) : Val :=
      let g (k : String) := kvOfJson ((o.getObjVal? k).toOption.getD Json.null)
      .obj "_BarcodesAndCoordinateKey" [("tumor_barcode", g "tumor"), ("normal_barcode", g "normal"),
        ("_chromosome", g "chr"), ("_start", g "start"), ("_end", g "end")]
    let a := keyOf ((j.getObjVal? "a").toOption.getD Json.null)
    let b := keyOf ((j.getObjVal? "b").toOption.getD Json.null)
    let m := if (j.getObjVal? "barcodes").toOption == some (Json.bool true) then "_LocatableOverlapIterator__overlaps_with_barcode" else "_LocatableOverlapIterator__overlaps"
    match (run Generated.Bodies.program (Bodies.host fp) "LocatableOverlapIterator" m [.cls "LocatableOverlapIterator", a, b]).map (·.1) with
    | .ok v => Json.mkObj [("value", valJson v)]
    | .error e => Json.mkObj [("exc", Json.str (errName e))]
  | some "body.allele" =>
    -- `AlleleOverlapType.equality / intersects / subset (base, other)` on two lists of texts
    let strsOf (k : String) : Val := .list (((getArr j k).filterMap (fun x => x.getStr?.toOption)).map (fun s => Val.str s.toList))
    let m := (getStr? j "rel").getD "equality"
    match (run Generated.Bodies.program (Bodies.host fp) "AlleleOverlapType" m [.cls "AlleleOverlapType", strsOf "base", strsOf "other"]).map (·.1) with
    | .ok v => Json.mkObj [("value", valJson v)]
    | .error e => Json.mkObj [("exc", Json.str (errName e))]
  | some "body.skipped" =>
    Json.mkObj [("skipped", Json.arr (Generated.Bodies.skipped.map (fun (x : String × String × String) => Json.arr #[Json.str x.1, Json.str x.2.1, Json.str x.2.2])).toArray),
                ("translated", Json.num ((Generated.Bodies.program.foldl (fun (n : Nat) (d : ClassDef) => n + d.methods.length) 0 : Nat)))]
  | _ => Json.mkObj [("fatal", "unknown body op")]

end BodyOps
