/-
  PyIR: a deep embedding of the Python subset the translated method bodies of
  maf-lib are written in.  `verif/gen_bodies.py` turns the `ast` of each selected
  function of `/repo`'s working tree into a term of `FnDef` *syntactically* (one
  constructor per AST node, no interpretation); the meaning lives in
  `PyIR/Interp.lean`.  `Generated/Bodies.lean` is rewritten on every run, and the
  theorems of `Props/Bodies*.lean` state that interpreting those terms is the
  hand-written model — so a semantic change to a translated body breaks a proof
  obligation, whatever inputs the generators happen to produce.
-/
import MafModel.Py.Value
open Py
namespace PyIR

/-- Python values of the translated fragment.  `obj` is an instance with its
    attribute dictionary; `cls` a class object; `other` any object the fragment
    treats as opaque. -/
inductive Val where
  | none
  | bool (b : Bool)
  | int (i : Int)
  | float (tok : Text)
  | str (s : Text)
  | enum (cls : String) (member : String)
  | uuid (n : Nat)
  | other (tag : String)
  | list (xs : List Val)
  | tuple (xs : List Val)
  | obj (cls : String) (fields : List (String × Val))
  | cls (name : String)
  deriving Repr, Inhabited

inductive CmpOp where
  | lt | le | gt | ge | eq | ne | is_ | isNot | in_ | notIn
  deriving Repr, DecidableEq, Inhabited

inductive Expr where
  | const (v : Val)
  | name (x : String)
  | attr (e : Expr) (a : String)
  /-- `f(args)` where `f` is a name (builtin or class) -/
  | call (f : String) (args : List Expr)
  /-- `recv.m(args)` -/
  | method (recv : Expr) (m : String) (args : List Expr)
  /-- `super(C, self).m(args)` -/
  | superCall (c : String) (m : String) (args : List Expr)
  /-- `l op₁ e₁ op₂ e₂ …` (chained comparison) -/
  | cmp (l : Expr) (rest : List (CmpOp × Expr))
  | and (es : List Expr)
  | or (es : List Expr)
  | not (e : Expr)
  | sub (l r : Expr)
  | add (l r : Expr)
  | ifExp (c a b : Expr)
  /-- an f-string or `%`-formatted message: an opaque non-empty text -/
  | message
  | tuple (es : List Expr)
  | list (es : List Expr)
  | subscript (e i : Expr)
  /-- `any(cond for var in iter)` / `all(…)` -/
  | quant (isAll : Bool) (var : String) (iter cond : Expr)
  /-- `[elt for var in iter]` -/
  | listComp (elt : Expr) (var : String) (iter : Expr)
  deriving Repr, Inhabited

inductive Stmt where
  | assign (x : String) (e : Expr)
  | assignAttr (obj : String) (a : String) (e : Expr)
  | expr (e : Expr)
  | ret (e : Expr)
  /-- `raise K(...)`: only the exception class is kept -/
  | raise (k : String)
  | ifS (c : Expr) (t e : List Stmt)
  /-- `for x in iter:` ; with `enumerate` the index variable is bound too -/
  | forS (idx : Option String) (x : String) (iter : Expr) (body : List Stmt)
  /-- `try: body except K₁: h₁ …` (body restricted by the translator to one statement) -/
  | tryS (body : List Stmt) (handlers : List (String × List Stmt))
  | pass
  | assert_ (e : Expr)
  deriving Repr, Inhabited

inductive FnKind where
  | instance | classmethod | staticmethod
  deriving Repr, DecidableEq, Inhabited

structure FnDef where
  kind : FnKind
  /-- parameter names, `self`/`cls` included -/
  params : List String
  body : List Stmt
  deriving Repr, Inhabited

structure ClassDef where
  name : String
  /-- Python's C3 linearisation, the class itself first (computed by the translator
      from the `ast`, cross-checked against `cls.__mro__` on every run) -/
  mro : List String
  methods : List (String × FnDef)
  deriving Repr, Inhabited

abbrev Program := List ClassDef

end PyIR
