/-
  Python `str` operations used by maf-lib, over `List Char`.

  Every function here is the model of one CPython string method at the call
  sites maf-lib uses it.  They are tied to CPython by the correspondence check
  (`text.*` ops of the driver) and, for the Unicode tables, by re-deriving the
  tables from the running interpreter (`verif/pyfacts.py`).
-/
namespace Py

abbrev Text := List Char

/-- `s.split(sep)` for a one-character separator: never empty. -/
def splitOn (sep : Char) : Text → List Text
  | [] => [[]]
  | c :: cs =>
    if c = sep then [] :: splitOn sep cs
    else match splitOn sep cs with
      | [] => [[c]]
      | h :: t => (c :: h) :: t

/-- `sep.join(xs)` for a one-character separator. -/
def joinWith (sep : Char) : List Text → Text
  | [] => []
  | [x] => x
  | x :: y :: r => x ++ sep :: joinWith sep (y :: r)

theorem splitOn_ne_nil (sep : Char) (s : Text) : splitOn sep s ≠ [] := by
  induction s with
  | nil => simp [splitOn]
  | cons c cs ih =>
    unfold splitOn
    split
    · simp
    · split <;> simp

theorem joinWith_cons_cons (sep : Char) (x y : Text) (r : List Text) :
    joinWith sep (x :: y :: r) = x ++ sep :: joinWith sep (y :: r) := rfl

theorem joinWith_cons_of_ne_nil (sep : Char) (x : Text) (r : List Text) (h : r ≠ []) :
    joinWith sep (x :: r) = x ++ sep :: joinWith sep r := by
  cases r with
  | nil => exact absurd rfl h
  | cons y r => rfl

/-- `sep.join(s.split(sep)) == s`. -/
theorem joinWith_splitOn (sep : Char) (s : Text) : joinWith sep (splitOn sep s) = s := by
  induction s with
  | nil => simp [splitOn, joinWith]
  | cons c cs ih =>
    unfold splitOn
    split
    · rename_i h
      rw [joinWith_cons_of_ne_nil _ _ _ (splitOn_ne_nil sep cs), ih]; simp [h]
    · split
      · rename_i h; exact absurd h (splitOn_ne_nil sep cs)
      · rename_i hne h t heq
        rw [heq] at ih
        cases t with
        | nil => simp [joinWith] at ih ⊢; exact ih
        | cons y r =>
          rw [joinWith_cons_cons] at ih ⊢
          simp [← ih]

/-- `sep.join(xs).split(sep) == xs` when no element contains the separator. -/
theorem splitOn_joinWith (sep : Char) (xs : List Text) (hne : xs ≠ [])
    (h : ∀ x ∈ xs, sep ∉ x) : splitOn sep (joinWith sep xs) = xs := by
  induction xs with
  | nil => exact absurd rfl hne
  | cons x r ih =>
    have hx : sep ∉ x := h x (by simp)
    cases r with
    | nil =>
      simp only [joinWith]
      clear ih h hne
      induction x with
      | nil => simp [splitOn]
      | cons c cs ihc =>
        have hc : c ≠ sep := by intro e; apply hx; simp [e]
        have hcs : sep ∉ cs := by intro e; apply hx; simp [e]
        unfold splitOn
        simp [hc, ihc hcs]
    | cons y r' =>
      have ih' := ih (by simp) (fun z hz => h z (by simp [hz]))
      rw [joinWith_cons_cons]
      clear ih h hne
      induction x with
      | nil => simp [splitOn, ih']
      | cons c cs ihc =>
        have hc : c ≠ sep := by intro e; apply hx; simp [e]
        have hcs : sep ∉ cs := by intro e; apply hx; simp [e]
        have := ihc hcs
        simp only [List.cons_append]
        unfold splitOn
        simp [hc, this]

/-- No piece of a split contains the separator. -/
theorem not_mem_of_mem_splitOn (sep : Char) (s : Text) :
    ∀ x ∈ splitOn sep s, sep ∉ x := by
  induction s with
  | nil => simp [splitOn]
  | cons c cs ih =>
    unfold splitOn
    split
    · intro x hx
      simp at hx
      rcases hx with rfl | hx
      · simp
      · exact ih x hx
    · rename_i hc
      split
      · intro x hx; simp at hx; subst hx; simp; exact fun e => hc e.symm
      · rename_i h t heq
        rw [heq] at ih
        intro x hx
        simp at hx
        rcases hx with rfl | hx
        · have := ih h (by simp)
          simp; exact ⟨fun e => hc e.symm, this⟩
        · exact ih x (by simp [hx])

theorem splitOn_length (sep : Char) (s : Text) :
    (splitOn sep s).length = s.count sep + 1 := by
  induction s with
  | nil => simp [splitOn]
  | cons c cs ih =>
    unfold splitOn
    split
    · rename_i h; subst h; simp [ih]
    · rename_i hc
      split
      · rename_i h; exact absurd h (splitOn_ne_nil sep cs)
      · rename_i h t heq
        rw [heq] at ih
        have : (c == sep) = false := by simp [hc]
        simp [List.count_cons, this] at ih ⊢
        exact ih

/-- A text with no separator splits into itself. -/
theorem splitOn_of_not_mem (sep : Char) (s : Text) (h : sep ∉ s) : splitOn sep s = [s] := by
  have := splitOn_joinWith sep [s] (by simp) (by simpa using h)
  simpa [joinWith] using this

/-- `s.rstrip(chars)` for a finite set of characters. -/
def rstripChars (p : Char → Bool) (s : Text) : Text :=
  (s.reverse.dropWhile p).reverse

def isCRLF (c : Char) : Bool := c = '\r' || c = '\n'

/-- `s.rstrip("\r\n")`. -/
def rstripCRLF (s : Text) : Text := rstripChars isCRLF s

/-- `str.isspace` for a single character (29 code points, CPython 3.12). -/
def isPySpace (c : Char) : Bool :=
  let n := c.toNat
  (0x09 ≤ n && n ≤ 0x0D) || (0x1C ≤ n && n ≤ 0x20) || n = 0x85 || n = 0xA0 || n = 0x1680 ||
  (0x2000 ≤ n && n ≤ 0x200A) || n = 0x2028 || n = 0x2029 || n = 0x202F || n = 0x205F || n = 0x3000

/-- `s.rstrip()`. -/
def rstripWs (s : Text) : Text := rstripChars isPySpace s

/-- `s.lstrip()`-style helper on the ASCII whitespace `int()` strips. -/
def isAsciiSpace (c : Char) : Bool :=
  c = ' ' || c = '\t' || c = '\n' || c = '\r' || c = '\x0b' || c = '\x0c'

theorem rstripChars_idem (p : Char → Bool) (s : Text) :
    rstripChars p (rstripChars p s) = rstripChars p s := by
  unfold rstripChars
  simp only [List.reverse_reverse]
  congr 1
  generalize s.reverse = r
  induction r with
  | nil => simp
  | cons c cs ih =>
    by_cases h : p c
    · simp [h, ih]
    · simp [h]

theorem rstripChars_of_not_last (p : Char → Bool) (s : Text)
    (h : ∀ c, s.getLast? = some c → p c = false) : rstripChars p s = s := by
  unfold rstripChars
  cases hr : s.reverse with
  | nil => simp at hr; simp [hr]
  | cons c cs =>
    have hs : s = (c :: cs).reverse := by rw [← hr]; simp
    have : s.getLast? = some c := by rw [hs]; simp
    have hc := h c this
    simp [hc, hs]

/-- The result of `rstrip` never ends in a stripped character. -/
theorem rstripChars_last (p : Char → Bool) (s : Text) :
    ∀ c, (rstripChars p s).getLast? = some c → p c = false := by
  unfold rstripChars
  intro c
  simp only [List.getLast?_reverse]
  generalize s.reverse = r
  induction r with
  | nil => simp
  | cons d ds ih =>
    by_cases h : p d
    · simp [h]; exact ih
    · simp [h]; intro e; subst e; simpa using h

/-- A text with no stripped character at all is untouched. -/
theorem rstripChars_of_all_not (p : Char → Bool) (s : Text) (h : ∀ c ∈ s, p c = false) :
    rstripChars p s = s := by
  apply rstripChars_of_not_last
  intro c hc
  exact h c (List.mem_of_getLast? hc)

/-- `s.split(sep, 1)`: `none` when the separator is absent (Python returns `[s]`). -/
def split1 (sep : Char) : Text → Option (Text × Text)
  | [] => none
  | c :: cs =>
    if c = sep then some ([], cs)
    else match split1 sep cs with
      | none => none
      | some (a, b) => some (c :: a, b)

theorem split1_append (sep : Char) (k v : Text) (hk : sep ∉ k) :
    split1 sep (k ++ sep :: v) = some (k, v) := by
  induction k with
  | nil => simp [split1]
  | cons c cs ih =>
    have hc : c ≠ sep := by intro e; apply hk; simp [e]
    have hcs : sep ∉ cs := by intro e; apply hk; simp [e]
    simp [split1, hc, ih hcs]

theorem split1_some (sep : Char) (s k v : Text) (h : split1 sep s = some (k, v)) :
    s = k ++ sep :: v ∧ sep ∉ k := by
  induction s generalizing k v with
  | nil => simp [split1] at h
  | cons c cs ih =>
    unfold split1 at h
    split at h
    · rename_i hc; simp at h; obtain ⟨rfl, rfl⟩ := h; simp [hc]
    · rename_i hc
      split at h
      · simp at h
      · rename_i a b heq
        simp at h; obtain ⟨rfl, rfl⟩ := h
        have := ih a b heq
        refine ⟨by simp [this.1.symm], ?_⟩
        simp; exact ⟨fun e => hc e.symm, this.2⟩

theorem split1_none (sep : Char) (s : Text) : split1 sep s = none ↔ sep ∉ s := by
  induction s with
  | nil => simp [split1]
  | cons c cs ih =>
    unfold split1
    split
    · rename_i hc; simp [hc]
    · rename_i hc
      split
      · rename_i h; simp [ih.mp h]; exact fun e => hc e.symm
      · rename_i a b h
        have := (split1_some sep cs a b h).1
        simp; intro _; rw [this]; simp

def startsWith (p s : Text) : Bool := p.isPrefixOf s

/-- ASCII upper-casing of one character. -/
def asciiUpper (c : Char) : Char :=
  if 'a'.toNat ≤ c.toNat ∧ c.toNat ≤ 'z'.toNat then Char.ofNat (c.toNat - 32) else c

def asciiLower (c : Char) : Char :=
  if 'A'.toNat ≤ c.toNat ∧ c.toNat ≤ 'Z'.toNat then Char.ofNat (c.toNat + 32) else c

/-- `str.upper` for one character, exact whenever the result is pure ASCII:
    the ten non-ASCII code points whose upper-casing is pure ASCII are listed;
    every other non-ASCII character is left as it is (its real upper-casing
    contains a non-ASCII character, so the result can never equal an ASCII word). -/
def upperChar (c : Char) : Text :=
  if c.toNat < 128 then [asciiUpper c]
  else match c.toNat with
    | 0xDF => ['S', 'S']      -- ß
    | 0x131 => ['I']          -- ı
    | 0x17F => ['S']          -- ſ
    | 0xFB00 => ['F', 'F']
    | 0xFB01 => ['F', 'I']
    | 0xFB02 => ['F', 'L']
    | 0xFB03 => ['F', 'F', 'I']
    | 0xFB04 => ['F', 'F', 'L']
    | 0xFB05 => ['S', 'T']
    | 0xFB06 => ['S', 'T']
    | _ => [c]

/-- `s.upper()` (verdict-exact against ASCII vocabulary words). -/
def pyUpper (s : Text) : Text := s.flatMap upperChar

/-- `str.lower` for one character (verdict-exact: only U+212A KELVIN SIGN
    lower-cases to pure ASCII among non-ASCII characters). -/
def lowerChar (c : Char) : Text :=
  if c.toNat < 128 then [asciiLower c]
  else if c.toNat = 0x212A then ['k'] else [c]

/-- `str.title` of the first character as `capitalize` applies it (verdict-exact). -/
def titleChar (c : Char) : Text :=
  if c.toNat < 128 then [asciiUpper c]
  else match c.toNat with
    | 0xDF => ['S', 's']
    | 0x131 => ['I']
    | 0x17F => ['S']
    | 0xFB00 => ['F', 'f']
    | 0xFB01 => ['F', 'i']
    | 0xFB02 => ['F', 'l']
    | 0xFB03 => ['F', 'f', 'i']
    | 0xFB04 => ['F', 'f', 'l']
    | 0xFB05 => ['S', 't']
    | 0xFB06 => ['S', 't']
    | _ => [c]

/-- `s.capitalize()` (CPython ≥ 3.8: title-case the first character, lower the rest). -/
def pyCapitalize : Text → Text
  | [] => []
  | c :: cs => titleChar c ++ cs.flatMap lowerChar

def isAscii (s : Text) : Bool := s.all (fun c => c.toNat < 128)

/-- Text-mode universal-newline reading: `\n`, `\r\n` and a lone `\r` each end a
    line; the final line needs no terminator.  Lines are returned without their
    terminator (maf-lib strips trailing CR/LF from every line it reads). -/
def textLines : Text → List Text
  | [] => []
  | s => go s [] where
  go : Text → Text → List Text
    | [], acc => if acc.isEmpty then [] else [acc.reverse]
    | '\n' :: r, acc => acc.reverse :: go r []
    | '\r' :: '\n' :: r, acc => acc.reverse :: go r []
    | '\r' :: r, acc => acc.reverse :: go r []
    | c :: r, acc => go r (c :: acc)

end Py
