/-
  The universe of Python values a MAF column can carry, and the exceptions the
  modelled code can raise.
-/
import MafModel.Py.Text
import MafModel.Py.Int
import MafModel.Py.Uuid
namespace Py

/-- Scalar Python values.  `float` carries CPython's `repr` of the float (the
    float host is abstract, see `FloatHost`); `enum` carries the enum class name
    and the *member name*; `other` is any object of a type maf-lib does not know. -/
inductive Atom where
  | none
  | bool (b : Bool)
  | int (i : Int)
  | float (tok : Text)
  | str (s : Text)
  | enum (cls : String) (member : String)
  | uuid (n : Nat)
  | other (tag : String)
  deriving Repr, DecidableEq, Inhabited

inductive PyVal where
  | atom (a : Atom)
  | list (xs : List Atom)
  | tuple (xs : List Atom)
  deriving Repr, DecidableEq, Inhabited

instance : Coe Atom PyVal := ⟨PyVal.atom⟩

abbrev PyVal.none : PyVal := .atom .none
abbrev PyVal.str (s : Text) : PyVal := .atom (.str s)
abbrev PyVal.int (i : Int) : PyVal := .atom (.int i)
abbrev PyVal.bool (b : Bool) : PyVal := .atom (.bool b)

/-- Exceptions of the modelled code, by Python type.  `format` is
    `MafFormatException` with its error type (member name) and line number. -/
inductive PyErr where
  | format (tpe : String) (line : Option Nat)
  | value | key | type | index | attribute | assertion | notImplemented
  | stopIteration | generic
  | os (errno : Nat)
  | unmodelled (what : String)
  deriving Repr, DecidableEq, Inhabited

/-- Python `==` between scalars as far as maf-lib relies on it
    (`True == 1`; everything else structural; floats compare by token). -/
def Atom.pyEq : Atom → Atom → Bool
  | .bool a, .int b => (if a then 1 else 0) = b
  | .int a, .bool b => a = (if b then 1 else 0)
  | a, b => a == b

def PyVal.pyEq : PyVal → PyVal → Bool
  | .atom a, .atom b => a.pyEq b
  | .list a, .list b => a.length = b.length ∧ (a.zip b).all (fun p => p.1.pyEq p.2)
  | .tuple a, .tuple b => a.length = b.length ∧ (a.zip b).all (fun p => p.1.pyEq p.2)
  | _, _ => false

/-- `bool(v)` -/
def Atom.truthy : Atom → Bool
  | .none => false
  | .bool b => b
  | .int i => i ≠ 0
  | .float t => !(t = "0.0".toList || t = "-0.0".toList)
  | .str s => !s.isEmpty
  | .enum _ _ => true
  | .uuid _ => true
  | .other _ => true

def PyVal.truthy : PyVal → Bool
  | .atom a => a.truthy
  | .list xs => !xs.isEmpty
  | .tuple xs => !xs.isEmpty

end Py
