/-
  `uuid.UUID(text)` and `str(UUID)` (CPython 3.12 `Lib/uuid.py`):

      hex = hex.replace('urn:', '').replace('uuid:', '')
      hex = hex.strip('{}').replace('-', '')
      if len(hex) != 32: raise ValueError
      int = int_(hex, 16)

  The model accepts exactly 32 hexadecimal digits after that normalisation.  The
  extra leniency of `int(hex, 16)` (surrounding blanks, `0x`, `_`, sign) is in
  the property's "don't care" zone and outside this model.
-/
import MafModel.Py.Text
namespace Py

/-- `s.replace(pat, "")` for a non-empty pattern `p :: ps`. -/
def removeAll (p : Char) (ps : Text) : Text → Text
  | [] => []
  | c :: cs =>
    if (p :: ps).isPrefixOf (c :: cs) then removeAll p ps (cs.drop ps.length)
    else c :: removeAll p ps cs
termination_by s => s.length
decreasing_by
  all_goals simp_wf
  all_goals omega

def isBrace (c : Char) : Bool := c = '{' || c = '}'

/-- `s.strip("{}")` -/
def stripBraces (s : Text) : Text := rstripChars isBrace (s.dropWhile isBrace)

def hexVal (c : Char) : Option Nat :=
  if c.isDigit then some (c.toNat - '0'.toNat)
  else if 'a'.toNat ≤ c.toNat ∧ c.toNat ≤ 'f'.toNat then some (c.toNat - 'a'.toNat + 10)
  else if 'A'.toNat ≤ c.toNat ∧ c.toNat ≤ 'F'.toNat then some (c.toNat - 'A'.toNat + 10)
  else none

def parseHex : Text → Nat → Option Nat
  | [], acc => some acc
  | c :: cs, acc => match hexVal c with
    | some d => parseHex cs (16 * acc + d)
    | none => none

def uuidNormalize (s : Text) : Text :=
  let s1 := removeAll 'u' ['r', 'n', ':'] s
  let s2 := removeAll 'u' ['u', 'i', 'd', ':'] s1
  (stripBraces s2).filter (· ≠ '-')

/-- `uuid.UUID(text).int`; `none` is `ValueError`. -/
def pyUuid (s : Text) : Option Nat :=
  let h := uuidNormalize s
  if h.length = 32 then parseHex h 0 else none

def hexDigit (n : Nat) : Char := Nat.digitChar n

/-- 32 lower-case hex digits of `n` (`'%032x' % n`). -/
def hex32 (n : Nat) : Text :=
  let ds := Nat.toDigits 16 n
  List.replicate (32 - ds.length) '0' ++ ds

/-- `str(uuid.UUID(int=n))`: 8-4-4-4-12. -/
def uuidStr (n : Nat) : Text :=
  let h := hex32 n
  h.take 8 ++ '-' :: (h.drop 8).take 4 ++ '-' :: (h.drop 12).take 4 ++ '-' ::
    (h.drop 16).take 4 ++ '-' :: h.drop 20

end Py
