/-
  CPython's `int(text)` on ASCII input, and `str(int)`.

  Grammar (pinned against CPython 3.12 by fuzzing, see DESIGN.md §4): strip the
  ASCII whitespace `" \t\n\r\x0b\x0c"` on both sides, an optional sign, then
  `[0-9](_?[0-9])*`.  Unicode digits / spaces and the 4300-digit limit are in
  the property's "don't care" zone and outside this model.
-/
import MafModel.Py.Text
namespace Py

def isDigitC (c : Char) : Bool := c.isDigit

/-- digits with single inner underscores, accumulator version -/
def parseDigitsAux : Text → Nat → Bool → Option Nat
  | [], acc, lastU => if lastU then none else some acc
  | c :: cs, acc, lastU =>
    if c = '_' then (if lastU then none else parseDigitsAux cs acc true)
    else if c.isDigit then parseDigitsAux cs (10 * acc + (c.toNat - '0'.toNat)) false
    else none

def parseDigits : Text → Option Nat
  | [] => none
  | c :: cs => if c.isDigit then parseDigitsAux cs (c.toNat - '0'.toNat) false else none

def stripAscii (s : Text) : Text :=
  rstripChars isAsciiSpace (s.dropWhile isAsciiSpace)

/-- `int(text)` for a `str` argument; `none` is `ValueError`. -/
def pyInt (s : Text) : Option Int :=
  match stripAscii s with
  | '-' :: r => (parseDigits r).map (fun n => - (n : Int))
  | '+' :: r => (parseDigits r).map (fun n => (n : Int))
  | r => (parseDigits r).map (fun n => (n : Int))

/-- `str(n)` for a natural number. -/
def natStr (n : Nat) : Text := Nat.toDigits 10 n

/-- `str(i)` for an integer. -/
def intStr : Int → Text
  | .ofNat n => natStr n
  | .negSucc n => '-' :: natStr (n + 1)

theorem parseDigitsAux_digits (l : Text) (acc : Nat) (h : ∀ c ∈ l, c.isDigit = true) :
    parseDigitsAux l acc false = some (Nat.ofDigitChars 10 l acc) := by
  induction l generalizing acc with
  | nil => simp [parseDigitsAux]
  | cons c cs ih =>
    have hc : c.isDigit = true := h c (by simp)
    have hu : c ≠ '_' := by intro e; subst e; simp [Char.isDigit] at hc
    simp only [parseDigitsAux, hu, if_false, hc, if_true]
    rw [ih _ (fun d hd => h d (by simp [hd])), Nat.ofDigitChars_cons]

theorem natStr_digits (n : Nat) : ∀ c ∈ natStr n, c.isDigit = true :=
  fun _ hc => Nat.isDigit_of_mem_toDigits (by decide) (by decide) hc

theorem natStr_ne_nil (n : Nat) : natStr n ≠ [] := Nat.toDigits_ne_nil

theorem parseDigits_natStr (n : Nat) : parseDigits (natStr n) = some n := by
  have hd := natStr_digits n
  cases h : natStr n with
  | nil => exact absurd h (natStr_ne_nil n)
  | cons c cs =>
    rw [h] at hd
    have hc : c.isDigit = true := hd c (by simp)
    simp only [parseDigits, hc, if_true]
    rw [parseDigitsAux_digits _ _ (fun d hd' => hd d (by simp [hd']))]
    have := @Nat.ofDigitChars_ten_toDigits n
    unfold natStr at h
    rw [h, Nat.ofDigitChars_cons] at this
    simpa using this

theorem digit_not_space (c : Char) (h : c.isDigit = true) : isAsciiSpace c = false := by
  simp only [Char.isDigit, Bool.and_eq_true, decide_eq_true_eq] at h
  simp only [isAsciiSpace, Bool.or_eq_false_iff, decide_eq_false_iff_not]
  have h1 := h.1
  have h2 := h.2
  have : 48 ≤ c.val.toNat := h1
  refine ⟨⟨⟨⟨⟨?_, ?_⟩, ?_⟩, ?_⟩, ?_⟩, ?_⟩ <;> (intro e; subst e; simp at this)

theorem stripAscii_of_clean (s : Text) (hne : s ≠ [])
    (hfirst : ∀ c, s.head? = some c → isAsciiSpace c = false)
    (hlast : ∀ c, s.getLast? = some c → isAsciiSpace c = false) : stripAscii s = s := by
  unfold stripAscii
  cases s with
  | nil => exact absurd rfl hne
  | cons c cs =>
    have := hfirst c rfl
    rw [List.dropWhile_cons, this]
    simp only [Bool.false_eq_true, if_false]
    exact rstripChars_of_not_last _ _ hlast

/-- `int(str(i)) == i` -/
theorem pyInt_intStr (i : Int) : pyInt (intStr i) = some i := by
  cases i with
  | ofNat n =>
    have hd := natStr_digits n
    have hs : stripAscii (natStr n) = natStr n := by
      apply stripAscii_of_clean _ (natStr_ne_nil n)
      · intro c hc; exact digit_not_space c (hd c (List.mem_of_head? hc))
      · intro c hc; exact digit_not_space c (hd c (List.mem_of_getLast? hc))
    simp only [intStr, pyInt, hs]
    cases h : natStr n with
    | nil => exact absurd h (natStr_ne_nil n)
    | cons c cs =>
      have hc : c.isDigit = true := by rw [h] at hd; exact hd c (by simp)
      have h1 : c ≠ '-' := by intro e; subst e; simp [Char.isDigit] at hc
      have h2 : c ≠ '+' := by intro e; subst e; simp [Char.isDigit] at hc
      have := parseDigits_natStr n
      rw [h] at this
      split
      · rename_i heq; simp at heq; exact absurd heq.1 h1
      · rename_i heq; simp at heq; exact absurd heq.1 h2
      · simp [this]
  | negSucc n =>
    have hd := natStr_digits (n + 1)
    have hs : stripAscii ('-' :: natStr (n + 1)) = '-' :: natStr (n + 1) := by
      apply stripAscii_of_clean _ (by simp)
      · intro c hc; simp at hc; subst hc; decide
      · intro c hc
        rw [List.getLast?_cons_of_ne_nil (natStr_ne_nil _)] at hc
        exact digit_not_space c (hd c (List.mem_of_getLast? hc))
    simp only [intStr, pyInt, hs, parseDigits_natStr]
    simp [Int.negSucc_eq]

/-- The rendering of an integer contains no separator character. -/
theorem intStr_chars (i : Int) : ∀ c ∈ intStr i, c.isDigit = true ∨ c = '-' := by
  cases i with
  | ofNat n => intro c hc; exact .inl (natStr_digits n c hc)
  | negSucc n =>
    intro c hc
    simp [intStr] at hc
    rcases hc with rfl | hc
    · exact .inr rfl
    · exact .inl (natStr_digits _ c hc)

theorem intStr_ne_nil (i : Int) : intStr i ≠ [] := by
  cases i with
  | ofNat n => exact natStr_ne_nil n
  | negSucc n => simp [intStr]

end Py
