/-
  JSON-lines driver: one request per line on stdin, one response per line on
  stdout.  It evaluates the same definitions the theorems are about.
-/
import Lean.Data.Json
import MafModel.Model.Ops
import MafModel.PyIR.Ops
open Lean Py Model

partial def loop (env : Ops.Env) (stdin stdout : IO.FS.Stream) : IO Unit := do
  let line ← stdin.getLine
  if line.isEmpty then return ()
  let out := match Json.parse line with
    | .error e => Json.mkObj [("fatal", Json.str ("parse: " ++ e))]
    | .ok j => match Ops.getStr? j "op" with
      | some op => if op.startsWith "body." then BodyOps.dispatch j else Ops.dispatch env j
      | none => Ops.dispatch env j
  stdout.putStrLn out.compress
  loop env stdin stdout

def main : IO Unit := do
  let stdin ← IO.getStdin
  let stdout ← IO.getStdout
  loop Ops.initEnv stdin stdout
  stdout.flush
