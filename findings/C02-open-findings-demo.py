"""Replays, on /repo, of the open C02 findings listed in known_findings.json (kernel-checked counterparts:
   C02.api_value_counterexample, C02.header_lf_counterexample (outside the quantifier: the header grammar cannot carry LF),
   C02.hash_column_counterexample in lean/MafModel/MafModel/Props/C02.lean).
   /venv/bin/python findings/C02-open-findings-demo.py"""
import sys, io
sys.path.insert(0, '/repo')
from maflib.header import MafHeader, MafHeaderRecord
from maflib.writer import MafWriter
from maflib.reader import MafReader
from maflib.record import MafRecord
from maflib.column import MafColumnRecord
from maflib.scheme_factory import find_scheme
from maflib.validation import ValidationStringency as VS
from maflib.column_types import StringOrIntegerColumn

class H(io.StringIO):
    def close(self): pass
def lines_of(txt): return [l + "\n" for l in txt.split("\n")[:-1]]

# (a) C02.api_value_counterexample: API-built "01" in gdc-1.0.0's Chromosome (StringOrIntegerColumn)
scheme = find_scheme(version="gdc-1.0.0", annotation="gdc-1.0.0")
def sample(cls):
    for cand in ["", "A", "1", "chr1", "+", "SNP", "Silent", "Somatic", "Unknown", "0.5", "TCGA",
                 "Illumina HiSeq", "Yes", "No", "True", "00000000-0000-0000-0000-000000000000", "-",
                 "Untested", "none", "Phase_I", "WXS", "Valid"]:
        try:
            c = cls.build("x", cand, 0)
            if not c.validate(): return cand
        except Exception: pass
    raise SystemExit("no sample for %s" % cls)
text = "\t".join(sample(scheme.column_class(n)) for n in scheme.column_names())
r = MafRecord.from_line(text, scheme=scheme, line_number=1, validation_stringency=VS.Strict)
r["Chromosome"] = StringOrIntegerColumn("Chromosome", "01", scheme.column_index("Chromosome"))
h = MafHeader(); h["version"] = MafHeaderRecord(key="version", value="gdc-1.0.0")
out = H(); w = MafWriter(out, h, VS.Strict); w += r; w.close()
rd = MafReader(lines=lines_of(out.getvalue()), validation_stringency=VS.Strict)
recs = list(rd)
out2 = H(); w2 = MafWriter(out2, rd.header(), VS.Strict)
for x in recs: w2 += x
w2.close()
print("(a) written value %r, re-read value %r, equal text: %s, second file identical: %s" % (
    r["Chromosome"].value, recs[0]["Chromosome"].value, str(recs[0]) == str(r), out2.getvalue() == out.getvalue()))

# (b) C02.header_lf_counterexample: a header value containing LF
h = MafHeader()
h["version"] = MafHeaderRecord(key="version", value="gdc-1.0.0")
h["note"] = MafHeaderRecord(key="note", value="x\ny")
out = H(); w = MafWriter(out, h, VS.Strict); w.close()
try:
    MafReader(lines=lines_of(out.getvalue()), validation_stringency=VS.Strict)
    print("(b) read back")
except Exception as e:
    print("(b) Strict writer accepted the header; Strict reader:", type(e).__name__, str(e)[:90])

# (c) C02.hash_column_counterexample: scheme-less first column named '#id'
def rec():
    r = MafRecord(); r["#id"] = MafColumnRecord("#id", "a", 0); r["B"] = MafColumnRecord("B", "b", 1); return r
out = H(); w = MafWriter(out, MafHeader(), VS.Silent); w += rec(); w += rec(); w.close()
rd = MafReader(lines=lines_of(out.getvalue()), validation_stringency=VS.Silent)
recs = list(rd)
print("(c) 2 records written, %d read back, column names read: %s" % (len(recs), rd.scheme().column_names()))

# (d) Entrez_Gene_Id = 0 through the API
r = MafRecord.from_line(text, scheme=scheme, line_number=1, validation_stringency=VS.Strict)
r["Entrez_Gene_Id"].value = 0
out = H(); w = MafWriter(out, h0 if 'h0' in dir() else MafHeader.from_lines(["#version gdc-1.0.0"]), VS.Strict); w += r; w.close()
rd = MafReader(lines=lines_of(out.getvalue()), validation_stringency=VS.Strict)
print("(d) Entrez_Gene_Id written value 0, re-read value %r" % list(rd)[0]["Entrez_Gene_Id"].value)
