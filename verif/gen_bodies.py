"""Body translator: Python method bodies of /repo  ->  MafModel/Generated/Bodies.lean  (PyIR terms).

Purely syntactic: one PyIR constructor per `ast` node, nothing is interpreted or simplified here (the meaning of the
terms is `PyIR/Interp.lean`).  Every class of the listed modules is attempted; a method that uses a construct outside
the fragment is *skipped with its reason* (reported in the evidence as untranslated), never approximated.  The classes'
linearisations are computed here with C3 from the `ast` bases and cross-checked against `cls.__mro__` by the checks.

Things dropped on purpose (they have no effect on the value semantics the theorems are about): docstrings, type
annotations, the arguments of exception constructors (only the exception class is kept), the text of f-strings and
`%`-formatted messages (an opaque non-empty message).
"""
import ast
import os
import sys

from .gen import REPO, OUT, lstr, write_if_changed

MODULES = ["maflib/column.py", "maflib/column_types.py", "maflib/locatable.py", "maflib/sort_order.py",
           "maflib/overlap_iter.py", "maflib/util.py", "maflib/validation.py"]

CMPOPS = {ast.Lt: ".lt", ast.LtE: ".le", ast.Gt: ".gt", ast.GtE: ".ge", ast.Eq: ".eq", ast.NotEq: ".ne",
          ast.Is: ".is_", ast.IsNot: ".isNot", ast.In: ".in_", ast.NotIn: ".notIn"}


class Skip(Exception):
    pass


def mangle(name, cls):
    if cls and name.startswith("__") and not name.endswith("__"):
        return "_%s%s" % (cls.lstrip("_"), name)
    return name


def lchars(s):
    return "%s.toList" % lstr(s)


class Tr:
    def __init__(self, cls, param_table):
        self.cls = cls
        self.param_table = param_table     # method name -> set of param tuples (without self/cls) over all classes

    # ---------------------------------------------------------------- expressions
    def const(self, v):
        if v is None:
            return "(.const .none)"
        if v is True:
            return "(.const (.bool true))"
        if v is False:
            return "(.const (.bool false))"
        if isinstance(v, int):
            return "(.const (.int (%d)))" % v
        if isinstance(v, str):
            return "(.const (.str %s))" % lchars(v)
        raise Skip("constant %r" % (v,))

    def exprs(self, es):
        return "[" + ", ".join(self.expr(e) for e in es) + "]"

    def call_args(self, node, mname):
        """positional arguments; keywords are placed by the parameter order every translated definition of `mname` shares"""
        if any(isinstance(a, ast.Starred) for a in node.args) or any(k.arg is None for k in node.keywords):
            raise Skip("star arguments")
        args = list(node.args)
        if node.keywords:
            orders = self.param_table.get(mname)
            if not orders or len(orders) != 1:
                raise Skip("keyword arguments to %s (parameter order unknown or not unique)" % mname)
            order = list(next(iter(orders)))
            slots = {i: a for i, a in enumerate(args)}
            for k in node.keywords:
                if k.arg not in order:
                    raise Skip("keyword %s of %s" % (k.arg, mname))
                slots[order.index(k.arg)] = k.value
            n = max(slots) + 1
            if any(i not in slots for i in range(n)):
                raise Skip("keyword arguments of %s leave a gap" % mname)
            args = [slots[i] for i in range(n)]
        return self.exprs(args)

    def expr(self, e):
        if isinstance(e, ast.Constant):
            return self.const(e.value)
        if isinstance(e, ast.Name):
            return "(.name %s)" % lstr(e.id)
        if isinstance(e, ast.Attribute):
            return "(.attr %s %s)" % (self.expr(e.value), lstr(mangle(e.attr, self.cls)))
        if isinstance(e, ast.Call):
            f = e.func
            if isinstance(f, ast.Name):
                if f.id in ("any", "all") and len(e.args) == 1 and isinstance(e.args[0], ast.GeneratorExp):
                    g = e.args[0]
                    if len(g.generators) != 1 or g.generators[0].ifs or not isinstance(g.generators[0].target, ast.Name):
                        raise Skip("generator shape")
                    return "(.quant %s %s %s %s)" % ("true" if f.id == "all" else "false", lstr(g.generators[0].target.id),
                                                    self.expr(g.generators[0].iter), self.expr(g.elt))
                if f.id == "super":
                    raise Skip("bare super()")
                if e.keywords:
                    raise Skip("keyword arguments to %s(...)" % f.id)
                return "(.call %s %s)" % (lstr(f.id), self.exprs(e.args))
            if isinstance(f, ast.Attribute):
                # super(C, self).m(...)  /  super().m(...)
                if isinstance(f.value, ast.Call) and isinstance(f.value.func, ast.Name) and f.value.func.id == "super":
                    sargs = f.value.args
                    if len(sargs) == 0:
                        c = self.cls
                    elif len(sargs) == 2 and isinstance(sargs[0], ast.Name):
                        c = sargs[0].id
                    else:
                        raise Skip("super() shape")
                    return "(.superCall %s %s %s)" % (lstr(c), lstr(f.attr), self.call_args(e, f.attr))
                m = mangle(f.attr, self.cls)
                return "(.method %s %s %s)" % (self.expr(f.value), lstr(m), self.call_args(e, f.attr))
            raise Skip("call of a computed callee")
        if isinstance(e, ast.Compare):
            rest = []
            for op, c in zip(e.ops, e.comparators):
                rest.append("(%s, %s)" % (CMPOPS[type(op)], self.expr(c)))
            return "(.cmp %s [%s])" % (self.expr(e.left), ", ".join(rest))
        if isinstance(e, ast.BoolOp):
            return "(.%s %s)" % ("and" if isinstance(e.op, ast.And) else "or", self.exprs(e.values))
        if isinstance(e, ast.UnaryOp):
            if isinstance(e.op, ast.Not):
                return "(.not %s)" % self.expr(e.operand)
            if isinstance(e.op, ast.USub) and isinstance(e.operand, ast.Constant) and isinstance(e.operand.value, int):
                return "(.const (.int (%d)))" % (-e.operand.value)
            raise Skip("unary operator")
        if isinstance(e, ast.BinOp):
            if isinstance(e.op, ast.Mod) and isinstance(e.left, ast.Constant) and isinstance(e.left.value, str):
                return ".message"
            if isinstance(e.op, ast.Sub):
                return "(.sub %s %s)" % (self.expr(e.left), self.expr(e.right))
            if isinstance(e.op, ast.Add):
                return "(.add %s %s)" % (self.expr(e.left), self.expr(e.right))
            raise Skip("binary operator %s" % type(e.op).__name__)
        if isinstance(e, ast.JoinedStr):
            return ".message"
        if isinstance(e, ast.IfExp):
            return "(.ifExp %s %s %s)" % (self.expr(e.test), self.expr(e.body), self.expr(e.orelse))
        if isinstance(e, ast.Tuple):
            return "(.tuple %s)" % self.exprs(e.elts)
        if isinstance(e, ast.List):
            return "(.list %s)" % self.exprs(e.elts)
        if isinstance(e, ast.Dict):
            if any(k is None for k in e.keys):
                raise Skip("dict unpacking")
            return "(.call \"dict\" [%s])" % ", ".join("(.tuple [%s, %s])" % (self.expr(k), self.expr(v)) for k, v in zip(e.keys, e.values))
        if isinstance(e, ast.Subscript):
            if isinstance(e.slice, ast.Slice):
                raise Skip("slice")
            return "(.subscript %s %s)" % (self.expr(e.value), self.expr(e.slice))
        if isinstance(e, ast.ListComp):
            if len(e.generators) != 1 or e.generators[0].ifs or not isinstance(e.generators[0].target, ast.Name):
                raise Skip("comprehension shape")
            return "(.listComp %s %s %s)" % (self.expr(e.elt), lstr(e.generators[0].target.id), self.expr(e.generators[0].iter))
        raise Skip("expression %s" % type(e).__name__)

    # ---------------------------------------------------------------- statements
    def stmts(self, body):
        out = []
        for s in body:
            t = self.stmt(s)
            if t is not None:
                out.append(t)
        return "[" + ", ".join(out) + "]"

    def stmt(self, s):
        if isinstance(s, ast.Expr):
            if isinstance(s.value, ast.Constant) and isinstance(s.value.value, str):
                return None                    # docstring
            return "(.expr %s)" % self.expr(s.value)
        if isinstance(s, ast.Pass):
            return ".pass"
        if isinstance(s, ast.Return):
            return "(.ret %s)" % (self.expr(s.value) if s.value is not None else "(.const .none)")
        if isinstance(s, (ast.Assign, ast.AnnAssign)):
            if isinstance(s, ast.Assign):
                if len(s.targets) != 1:
                    raise Skip("multiple assignment targets")
                tgt, val = s.targets[0], s.value
            else:
                tgt, val = s.target, s.value
                if val is None:
                    return None                # a bare annotation
            if isinstance(tgt, ast.Name):
                return "(.assign %s %s)" % (lstr(tgt.id), self.expr(val))
            if isinstance(tgt, ast.Attribute) and isinstance(tgt.value, ast.Name):
                return "(.assignAttr %s %s %s)" % (lstr(tgt.value.id), lstr(mangle(tgt.attr, self.cls)), self.expr(val))
            raise Skip("assignment target %s" % type(tgt).__name__)
        if isinstance(s, ast.Raise):
            x = s.exc
            if isinstance(x, ast.Call):
                x = x.func
            if isinstance(x, ast.Name) and s.cause is None:
                return "(.raise %s)" % lstr(x.id)
            raise Skip("raise shape")
        if isinstance(s, ast.If):
            return "(.ifS %s %s %s)" % (self.expr(s.test), self.stmts(s.body), self.stmts(s.orelse))
        if isinstance(s, ast.For):
            if s.orelse:
                raise Skip("for-else")
            it, idx = s.iter, None
            if isinstance(it, ast.Call) and isinstance(it.func, ast.Name) and it.func.id == "enumerate" and len(it.args) == 1 and not it.keywords:
                if not (isinstance(s.target, ast.Tuple) and len(s.target.elts) == 2 and all(isinstance(x, ast.Name) for x in s.target.elts)):
                    raise Skip("enumerate target")
                idx, var, it = s.target.elts[0].id, s.target.elts[1].id, it.args[0]
            elif isinstance(s.target, ast.Name):
                var = s.target.id
            else:
                raise Skip("for target")
            return "(.forS %s %s %s %s)" % ("(some %s)" % lstr(idx) if idx else "none", lstr(var), self.expr(it), self.stmts(s.body))
        if isinstance(s, ast.Try):
            if s.orelse or s.finalbody:
                raise Skip("try-else / finally")
            real = [b for b in s.body if not (isinstance(b, ast.Expr) and isinstance(b.value, ast.Constant))]
            if len(real) != 1:
                raise Skip("try body of more than one statement")
            hs = []
            for h in s.handlers:
                if h.name is not None and any(isinstance(n, ast.Name) and n.id == h.name for b in h.body for n in ast.walk(b)):
                    raise Skip("exception object used")
                if isinstance(h.type, ast.Name):
                    hs.append("(%s, %s)" % (lstr(h.type.id), self.stmts(h.body)))
                else:
                    raise Skip("handler type")
            return "(.tryS %s [%s])" % (self.stmts(s.body), ", ".join(hs))
        if isinstance(s, ast.Assert):
            return "(.assert_ %s)" % self.expr(s.test)
        raise Skip("statement %s" % type(s).__name__)


def fn_kind(fn):
    kinds = [d.id for d in fn.decorator_list if isinstance(d, ast.Name)]
    attrs = [d.attr for d in fn.decorator_list if isinstance(d, ast.Attribute)]
    if "classmethod" in kinds:
        return ".classmethod"
    if "staticmethod" in kinds:
        return ".staticmethod"
    if "property" in kinds:
        return ".instance"
    if "setter" in attrs:
        return None           # property setters are not translated
    return ".instance"


def c3(name, bases_of):
    def merge(seqs):
        res = []
        seqs = [list(s) for s in seqs if s]
        while seqs:
            for s in seqs:
                h = s[0]
                if not any(h in t[1:] for t in seqs):
                    break
            else:
                raise Skip("inconsistent MRO for %s" % name)
            res.append(h)
            seqs = [[x for x in s if x != h] for s in seqs]
            seqs = [s for s in seqs if s]
        return res
    bases = bases_of.get(name, [])
    return [name] + merge([c3(b, bases_of) for b in bases] + [list(bases)])


def extract():
    classes = []          # (module, ClassDef)
    for rel in MODULES:
        with open(os.path.join(REPO, rel)) as h:
            tree = ast.parse(h.read(), filename=rel)
        for node in tree.body:
            if isinstance(node, ast.ClassDef):
                classes.append((rel, node))
    bases_of = {}
    for rel, c in classes:
        bases_of[c.name] = [b.id for b in c.bases if isinstance(b, ast.Name) and b.id != "object"]
    # parameter orders per method name (for keyword arguments)
    param_table = {}
    for rel, c in classes:
        for st in c.body:
            if isinstance(st, ast.FunctionDef):
                k = fn_kind(st)
                ps = [a.arg for a in st.args.args]
                if k in (".instance", ".classmethod") and ps:
                    ps = ps[1:]
                param_table.setdefault(st.name, set()).add(tuple(ps))
    out = []
    for rel, c in classes:
        tr = Tr(c.name, param_table)
        methods, skipped = [], []
        for st in c.body:
            # a class-level constant (`EmptyStringMessage = "..."`) is read as `self.NAME`: a one-parameter method returning it
            if isinstance(st, (ast.Assign, ast.AnnAssign)):
                tgt = st.targets[0] if isinstance(st, ast.Assign) and len(st.targets) == 1 else getattr(st, "target", None)
                val = st.value
                if isinstance(tgt, ast.Name) and isinstance(val, ast.Constant) and isinstance(val.value, (str, int)) and not isinstance(val.value, bool) \
                        and not (tgt.id.startswith("__") and tgt.id.endswith("__")):
                    methods.append((mangle(tgt.id, c.name), ".instance", ["self"], "[(.ret %s)]" % tr.const(val.value)))
                continue
            if not isinstance(st, ast.FunctionDef):
                continue
            kind = fn_kind(st)
            if kind is None:
                continue
            name = mangle(st.name, c.name)
            try:
                if st.args.vararg or st.args.kwarg or st.args.kwonlyargs or st.args.posonlyargs:
                    raise Skip("*args / **kwargs")
                for d in list(st.args.defaults):
                    if not (isinstance(d, ast.Constant) and d.value is None):
                        raise Skip("a default other than None")
                body = tr.stmts(st.body)
                methods.append((name, kind, [a.arg for a in st.args.args], body))
            except Skip as e:
                skipped.append((name, str(e)))
        try:
            mro = c3(c.name, bases_of)
        except Skip as e:
            mro = [c.name]
            skipped.append(("<mro>", str(e)))
        out.append({"module": rel, "name": c.name, "mro": mro, "methods": methods, "skipped": skipped})
    return out


def ident(s):
    return "".join(ch if ch.isalnum() else "_" for ch in s)


def emit(classes):
    L = ["/- GENERATED by verif/gen_bodies.py from /repo's working tree on every run.  Do not edit. -/",
         "import MafModel.PyIR.Syntax", "set_option maxRecDepth 4096", "namespace Generated.Bodies", "open PyIR", ""]
    for c in classes:
        for name, kind, params, body in c["methods"]:
            L.append("/-- `%s.%s` (%s) -/" % (c["name"], name, c["module"]))
            L.append("def %s__%s : FnDef :=\n  { kind := %s, params := [%s],\n    body := %s }" % (
                ident(c["name"]), ident(name), kind, ", ".join(lstr(p) for p in params), body))
            L.append("")
    L.append("def program : Program := [")
    rows = []
    for c in classes:
        ms = ", ".join("(%s, %s__%s)" % (lstr(n), ident(c["name"]), ident(n)) for n, _k, _p, _b in c["methods"])
        rows.append("  { name := %s, mro := [%s], methods := [%s] }" % (lstr(c["name"]), ", ".join(lstr(x) for x in c["mro"]), ms))
    L.append(",\n".join(rows) + "]")
    L.append("")
    L.append("/-- methods the translator skipped, with the construct that is outside the fragment -/")
    L.append("def skipped : List (String × String × String) := [")
    L.append(",\n".join("  (%s, %s, %s)" % (lstr(c["name"]), lstr(n), lstr(why)) for c in classes for n, why in c["skipped"]) + "]")
    L.append("")
    L.append("end Generated.Bodies")
    return "\n".join(L) + "\n"


def main():
    cs = extract()
    changed = write_if_changed(os.path.join(OUT, "Bodies.lean"), emit(cs))
    n = sum(len(c["methods"]) for c in cs)
    k = sum(len(c["skipped"]) for c in cs)
    print("gen_bodies: %d classes, %d method bodies translated, %d skipped; rewritten: %s" % (len(cs), n, k, changed))
    return cs


if __name__ == "__main__":
    cs = main()
    if "-v" in sys.argv:
        for c in cs:
            for n, why in c["skipped"]:
                print("  skipped %s.%s: %s" % (c["name"], n, why))
