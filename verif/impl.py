"""Executors of the line-protocol ops against the real maflib (in-process)."""
from .common import enc_val, exc_name, import_maflib

import_maflib()
from maflib.column import MafColumnRecord  # noqa: E402
from maflib.record import MafRecord  # noqa: E402
from maflib.scheme_factory import all_schemes  # noqa: E402
from maflib.schemes import NoRestrictionsScheme  # noqa: E402
from maflib.validation import ValidationStringency  # noqa: E402
import maflib.column_types as CT  # noqa: E402

MODES = {"Strict": ValidationStringency.Strict, "Lenient": ValidationStringency.Lenient,
         "Silent": ValidationStringency.Silent, None: None}

_SCHEMES = {}


def scheme_by_annotation(ann):
    if ann not in _SCHEMES:
        for s in all_schemes():
            if s.annotation_spec() == ann and s is not NoRestrictionsScheme:
                _SCHEMES[ann] = s()
    return _SCHEMES.get(ann)


def builtin_annotations():
    return [s.annotation_spec() for s in all_schemes() if s is not NoRestrictionsScheme]


def class_of(req):
    if "cls" in req:
        return getattr(CT, req["cls"])
    return scheme_by_annotation(req["scheme"]).column_class(req["col"])


def scheme_of(req):
    if "scheme" in req:
        return scheme_by_annotation(req["scheme"])
    if "norestrict" in req:
        return NoRestrictionsScheme(column_names=req["norestrict"])
    return None


def col_json(col):
    try:
        errs = col.validate()
        invalid = len(errs) > 0
    except Exception as e:  # noqa
        invalid = "EXC:" + exc_name(e)
    try:
        s = {"ok": str(col)}
    except Exception as e:  # noqa
        s = {"err": exc_name(e)}
    return {"cls": type(col).__name__, "key": col.key, "value": enc_val(col.value),
            "index": col.column_index, "invalid": invalid, "str": s}


def op_mro(req):
    cls = class_of(req)
    return {"mro": [c.__name__ for c in cls.__mro__ if c is not object]}


def op_col_build(req):
    cls = class_of(req)
    try:
        col = cls.build(name=req.get("name", ""), value=req["text"], column_index=req.get("index"))
    except Exception as e:  # noqa
        return {"exc": exc_name(e)}
    return {"col": col_json(col)}


def dec_val(j):
    import uuid
    t = j["t"]
    if t == "none":
        return None
    if t == "bool":
        return j["v"]
    if t == "int":
        return int(j["v"])
    if t == "float":
        return float(j["v"])
    if t == "str":
        return j["v"]
    if t == "enum":
        import maflib.column_values as CV
        return getattr(CV, j["c"])[j["m"]]
    if t == "uuid":
        return uuid.UUID(int=int(j["v"]))
    if t == "list":
        return [dec_val(x) for x in j["v"]]
    if t == "tuple":
        return tuple(dec_val(x) for x in j["v"])
    return object()


def op_col_api(req):
    cls = class_of(req)
    col = cls(req.get("name", ""), dec_val(req["value"]), req.get("index"))
    return {"col": col_json(col)}


def errs_json(errs):
    return [[e.tpe.name, e.line_number] for e in errs]


class LogCapture:
    """Window over the records captured on the maflib logger tree."""

    def __enter__(self):
        from .common import CAPTURE
        self.cap = CAPTURE
        self.start = len(CAPTURE.records)
        return self

    def __exit__(self, *a):
        self.records = self.cap.records[self.start:]
        del self.cap.records[self.start:]

    def parsed(self):
        """(error type, line) per 'Ignoring MAF validation error' warning; other
        records are reported as ("OTHER:<level>", None)."""
        import re
        out = []
        for name, level, m in self.records:
            mm = re.match(r"Ignoring MAF validation error: ([A-Z_]+): (?:On line number (\d+): )?", m)
            if mm and level == "WARNING":
                out.append([mm.group(1), int(mm.group(2)) if mm.group(2) else None])
            elif m.startswith("No matching scheme was found") and level == "WARNING":
                out.append(["NO_MATCHING_SCHEME_WARNING", None])
            else:
                out.append(["OTHER:" + level, None])
        return out


def record_json(rec):
    cols = rec._MafRecord__columns_list
    try:
        s = {"ok": str(rec)}
    except Exception as e:  # noqa
        s = {"err": exc_name(e)}
    return {"errors": errs_json(rec.validation_errors),
            "keys": list(rec),
            "slots": [col_json(c) if c is not None else None for c in cols],
            "dict": list(rec._MafRecord__columns_dict.keys()),
            "str": s}


def op_rec_from_line(req):
    kw = {}
    if "names" in req:
        kw["column_names"] = req["names"]
    sch = scheme_of(req)
    with LogCapture() as lc:
        try:
            rec = MafRecord.from_line(req["line"], scheme=sch, line_number=req.get("lineno"),
                                      validation_stringency=MODES[req.get("mode")], **kw)
        except Exception as e:  # noqa
            return {"exc": exc_name(e)}
    return {"rec": record_json(rec), "logs": lc.parsed()}


def header_json(h):
    from maflib.header import MafHeader
    recs = [[k, str(h[k])] for k in h]
    so = h.sort_order()
    return {"records": recs, "errors": errs_json(h.validation_errors), "version": h.version(),
            "annotation": h.annotation(), "sort_order": so.name() if so is not None else None,
            "sort_contigs": list(getattr(so, "_contigs", []) or []),
            "contigs": h.contigs()}


def op_hdr_lines(req):
    from maflib.header import MafHeader
    with LogCapture() as lc:
        try:
            h = MafHeader.from_lines(req["lines"], validation_stringency=MODES[req.get("mode")])
        except Exception as e:  # noqa
            return {"exc": exc_name(e)}
    try:
        sch = h.scheme()
        sch = sch.annotation_spec() if sch is not None else None
    except Exception as e:  # noqa
        sch = "EXC:" + exc_name(e)
    return {"header": header_json(h), "logs": lc.parsed(), "scheme": sch}


def rec_summary(rec):
    try:
        s = {"ok": str(rec)}
    except Exception as e:  # noqa
        s = {"err": exc_name(e)}
    return {"errors": errs_json(rec.validation_errors), "keys": list(rec), "str": s}


def op_reader_run(req):
    from maflib.reader import MafReader
    given = scheme_by_annotation(req["given"]) if req.get("given") else None
    if req.get("given_norestrict") is not None:
        given = NoRestrictionsScheme(column_names=req["given_norestrict"])
    with LogCapture() as lc:
        try:
            reader = MafReader(lines=list(req["lines"]), validation_stringency=MODES[req.get("mode")], scheme=given)
        except Exception as e:  # noqa
            return {"init_exc": exc_name(e)}
        out = {"header": header_json(reader.header()), "init_errors": errs_json(reader.validation_errors)}
        sch = reader.scheme()
        out["scheme"] = None if sch is None else {"annotation": sch.annotation_spec(), "names": sch.column_names()}
        recs = []
        exc = None
        try:
            for rec in reader:
                recs.append(rec_summary(rec))
        except Exception as e:  # noqa
            exc = exc_name(e)
        out["records"] = recs
        out["iter_exc"] = exc
        out["errors"] = errs_json(reader.validation_errors)
    out["logs"] = lc.parsed()
    return out


class RecordingHandle:
    """A text handle that records every write call (the writer closes it; we keep the text)."""

    def __init__(self):
        self.chunks = []
        self.closed = False

    def write(self, t):
        self.chunks.append(t)
        return len(t)

    def close(self):
        self.closed = True

    def text(self):
        return "".join(self.chunks)


def mk_record(spec):
    """A record from a specification: parsed (Silent) or assembled through the API, then mutated."""
    if "parse" in spec:
        p = spec["parse"]
        kw = {}
        if p.get("names") is not None:
            kw["column_names"] = p["names"]
        try:
            return MafRecord.from_line(p["line"], scheme=scheme_of(p), validation_stringency=MODES["Silent"], **kw)
        except Exception:  # noqa
            return MafRecord()
    rec = MafRecord()
    objs = []
    for cj in spec.get("cols", []):
        cls = class_of(cj) if ("cls" in cj or "scheme" in cj) else MafColumnRecord
        col = cls(cj["key"], dec_val(cj["value"]), cj.get("index"))
        objs.append(col)
        try:
            rec.add(col)
        except Exception:  # noqa
            pass
    for mj in spec.get("mut", []):
        if mj["i"] < len(objs):
            col = objs[mj["i"]]
            if mj["field"] == "value":
                col.value = dec_val(mj["to"])
            elif mj["field"] == "index":
                col.column_index = mj["to"]
            elif mj["field"] == "key":
                col.key = mj["to"]
    return rec


def op_writer_run(req):
    from maflib.header import MafHeader
    from maflib.writer import MafWriter
    h = MafHeader.from_lines(req["header_lines"], validation_stringency=MODES["Silent"])
    buf = RecordingHandle()
    try:
        w = MafWriter.from_fd(buf, h, validation_stringency=MODES[req.get("mode")],
                              assume_sorted=req.get("assume_sorted", True))
    except Exception as e:  # noqa
        return {"init_exc": exc_name(e)}
    out = {"init_out": buf.text(), "steps": []}
    for o in req["ops"]:
        exc = None
        try:
            if o["k"] == "close":
                w.close()
            else:
                w += mk_record(o["rec"])
        except Exception as e:  # noqa
            exc = exc_name(e)
        out["steps"].append({"exc": exc, "out": buf.text()})
    return out


OPS = {"writer.run": op_writer_run, "hdr.lines": op_hdr_lines, "reader.run": op_reader_run, "mro": op_mro, "col.build": op_col_build, "col.api": op_col_api,
       "rec.from_line": op_rec_from_line}


def run(req):
    return OPS[req["op"]](req)


# ------------------------------------------------------------------ entry points (readers / writers by every public route)
# Additive helpers: the same content offered to the library through each way it has of opening a reader or a writer.
READER_ROUTES = ["list", "list-nl", "list-crlf", "iter", "handle", "path", "path-crlf", "gz", "gz-crlf"]
PATH_READER_ROUTES = ["path", "path-crlf", "gz", "gz-crlf"]
WRITER_CHANNELS = ["plain", "gz", "handle", "ctor"]


def file_text(lines, eol="\n", final=True):
    """The text of a file holding `lines` (their own terminators dropped), each ended by `eol`
    (the last one only when `final`)."""
    bare = [l.rstrip("\r\n") for l in lines]
    return eol.join(bare) + (eol if (final and bare) else "")


def physical_lines(text):
    """The lines a text-mode handle (universal newlines) yields for `text`, terminators dropped."""
    import re
    parts = re.split(r"\r\n|\r|\n", text)
    if parts and parts[-1] == "":
        parts.pop()
    return parts


def route_lines(route, lines, final=True):
    """The physical lines (no terminators) a reader opened by `route` sees for `lines`."""
    if route in PATH_READER_ROUTES:
        return physical_lines(file_text(lines, "\r\n" if route.endswith("crlf") else "\n", final))
    if route == "handle":          # io.StringIO: lines end at "\n" only; the reader strips CR/LF at the end of each
        parts = file_text(lines, "\n", final).split("\n")
        if parts and parts[-1] == "":
            parts.pop()
        return [p.rstrip("\r\n") for p in parts]
    return [l.rstrip("\r\n") for l in lines]


def open_reader(route, lines, mode, scheme=None, tmp=None, final=True):
    """A MafReader over `lines` by one of READER_ROUTES (`mode`: a ValidationStringency or None; `tmp`: a directory
    for the path routes).  May raise what the library raises."""
    import gzip
    import io
    import os
    from maflib.reader import MafReader
    if route == "list":
        return MafReader(lines=list(lines), validation_stringency=mode, scheme=scheme)
    bare = [l.rstrip("\r\n") for l in lines]
    if route == "list-nl":
        return MafReader(lines=[l + "\n" for l in bare], validation_stringency=mode, scheme=scheme)
    if route == "list-crlf":
        return MafReader(lines=[l + "\r\n" for l in bare], validation_stringency=mode, scheme=scheme)
    if route == "iter":
        return MafReader(lines=(l for l in bare), validation_stringency=mode, scheme=scheme)
    if route == "handle":
        h = io.StringIO(file_text(lines, "\n", final))
        return MafReader(lines=h, closeable=h, validation_stringency=mode, scheme=scheme)
    if route not in PATH_READER_ROUTES:
        raise ValueError("unknown reader route %r" % route)
    text = file_text(lines, "\r\n" if route.endswith("crlf") else "\n", final)
    _open_reader_n[0] += 1
    path = os.path.join(tmp, "in%d.maf%s" % (_open_reader_n[0], ".gz" if route.startswith("gz") else ""))
    if route.startswith("gz"):
        with gzip.open(path, "wt", newline="", encoding="utf-8") as f:
            f.write(text)
    else:
        with open(path, "w", newline="", encoding="utf-8") as f:
            f.write(text)
    return MafReader.reader_from(path, validation_stringency=mode, scheme=scheme)


_open_reader_n = [0]


def reader_run_via(req, route, tmp=None, final=True):
    """op_reader_run through another reader route: the same answer shape, so that the answers are comparable."""
    given = scheme_by_annotation(req["given"]) if req.get("given") else None
    if req.get("given_norestrict") is not None:
        given = NoRestrictionsScheme(column_names=req["given_norestrict"])
    with LogCapture() as lc:
        try:
            reader = open_reader(route, req["lines"], MODES[req.get("mode")], given, tmp, final)
        except Exception as e:  # noqa
            return {"init_exc": exc_name(e)}
        out = {"header": header_json(reader.header()), "init_errors": errs_json(reader.validation_errors)}
        sch = reader.scheme()
        out["scheme"] = None if sch is None else {"annotation": sch.annotation_spec(), "names": sch.column_names()}
        recs = []
        exc = None
        try:
            for rec in reader:
                recs.append(rec_summary(rec))
        except Exception as e:  # noqa
            exc = exc_name(e)
        out["records"] = recs
        out["iter_exc"] = exc
        out["errors"] = errs_json(reader.validation_errors)
        try:
            reader.close()
        except Exception:  # noqa
            pass
    out["logs"] = lc.parsed()
    return out


class KeepingStringIO:
    """A caller-supplied text handle that keeps its content when the writer closes it."""

    def __init__(self):
        import io
        self.buf = io.StringIO()
        self.final = None

    def write(self, t):
        return self.buf.write(t)

    def close(self):
        if self.final is None:
            self.final = self.buf.getvalue()

    def text(self):
        return self.final if self.final is not None else self.buf.getvalue()


def open_writer(channel, header, mode, tmp=None, assume_sorted=True, name="out"):
    """A MafWriter by one of WRITER_CHANNELS -> (writer, text_of_what_was_written_so_far(), path or None).
    May raise what the library raises."""
    import gzip
    import os
    from maflib.writer import MafWriter
    if channel in ("handle", "ctor"):
        buf = KeepingStringIO()
        if channel == "handle":
            w = MafWriter.from_fd(buf, header, validation_stringency=mode, assume_sorted=assume_sorted)
        else:
            w = MafWriter(buf, header, validation_stringency=mode, assume_sorted=assume_sorted)
        return w, buf.text, None
    if channel not in ("plain", "gz"):
        raise ValueError("unknown writer channel %r" % channel)
    path = os.path.join(tmp, name + ".maf" + (".gz" if channel == "gz" else ""))
    if os.path.exists(path):
        os.remove(path)

    def text():
        if not os.path.exists(path):
            return ""
        if channel == "gz":
            with gzip.open(path, "rt", newline="", encoding="utf-8") as f:
                return f.read()
        with open(path, "r", newline="", encoding="utf-8") as f:
            return f.read()
    w = MafWriter.from_path(path, header, validation_stringency=mode, assume_sorted=assume_sorted)
    return w, text, path


# ------------------------------------------------------------------ writer histories (records that live across steps)
# Additive helper (C05 / C06): a writer session in which record OBJECTS persist between steps, so that a record can be
# parsed / validated / offered and then changed through every mutable handle the API exposes, and offered again.
def _history_value(col, o):
    """One in-place change of a column object `col` described by `o` (what a caller holding the object can do)."""
    f = o["field"]
    if f == "value":
        col.value = dec_val(o["to"])
    elif f == "index":
        col.column_index = o["to"]
    elif f == "key":
        col.key = o["to"]
    elif f == "list.append":
        col.value.append(dec_val(o["to"]))
    elif f == "list.insert":
        col.value.insert(o.get("at", 0), dec_val(o["to"]))
    elif f == "list.setitem":
        col.value[o.get("at", 0)] = dec_val(o["to"])
    elif f == "list.extend":
        col.value.extend(dec_val(o["to"]))
    elif f == "list.pop":
        col.value.pop()
    elif f == "list.clear":
        del col.value[:]
    else:
        raise ValueError("unknown mutation %r" % f)


def _history_build_col(cj):
    cls = class_of(cj) if ("cls" in cj or "scheme" in cj) else MafColumnRecord
    return cls(cj["key"], dec_val(cj["value"]), cj.get("index"))


def op_writer_history(req):
    """ops: {"k": "new", "id", "how": "parse" (line, scheme, mode) | "api" (cols), "validate": annotation or None}
            {"k": "validate", "id", "scheme": annotation}          record.validate(scheme=...) in Silent mode
            {"k": "mut", "id", "i": construction index of the column object, "field": ..., "to": ..., "at": ...}
            {"k": "replace", "id", "col": column spec}              record[key] = a new column object
            {"k": "delete", "id", "key": name}                      del record[name]
            {"k": "write", "id", "call": "iadd" | "write"}          offered to the writer
            {"k": "close"}
    -> {"init_out", "steps": [{"exc", "out" (text written so far; for path channels what is on disk), "snap" (write steps:
        the text and watched values of the record at the moment it is offered)}]}"""
    import shutil
    import tempfile
    from maflib.header import MafHeader
    h = MafHeader.from_lines(req["header_lines"], validation_stringency=MODES["Silent"])
    channel = req.get("channel", "handle")
    tmp = tempfile.mkdtemp(prefix="verif_hist_") if channel in ("plain", "gz") else None
    try:
        try:
            w, text, _path = open_writer(channel, h, MODES[req.get("mode", "Strict")], tmp=tmp,
                                         assume_sorted=req.get("assume_sorted", True))
        except Exception as e:  # noqa
            return {"init_exc": exc_name(e)}
        out = {"init_out": text(), "steps": []}
        recs, objs = {}, {}
        watch = req.get("watch") or []
        wsch = scheme_by_annotation(req["watch_scheme"]) if req.get("watch_scheme") else None
        for o in req["ops"]:
            exc, snap, k = None, None, o["k"]
            try:
                if k == "new":
                    if o["how"] == "parse":
                        rec = MafRecord()
                        recs[o["id"]] = rec
                        objs[o["id"]] = []
                        rec = MafRecord.from_line(o["line"], scheme=scheme_of(o), validation_stringency=MODES[o.get("mode", "Strict")])
                        recs[o["id"]] = rec
                        objs[o["id"]] = [rec[j] for j in range(len(rec))]
                    else:
                        rec = MafRecord()
                        recs[o["id"]] = rec
                        objs[o["id"]] = []
                        for cj in o["cols"]:
                            col = _history_build_col(cj)
                            objs[o["id"]].append(col)
                            try:
                                rec.add(col)
                            except Exception:  # noqa
                                pass
                    if o.get("validate"):
                        rec.validate(validation_stringency=MODES["Silent"], scheme=scheme_by_annotation(o["validate"]))
                elif k == "validate":
                    recs[o["id"]].validate(validation_stringency=MODES["Silent"], scheme=scheme_by_annotation(o["scheme"]))
                elif k == "mut":
                    col = objs[o["id"]][o["i"]]
                    if col is not None:
                        _history_value(col, o)
                elif k == "replace":
                    col = _history_build_col(o["col"])
                    objs[o["id"]].append(col)
                    recs[o["id"]][col.key] = col
                elif k == "delete":
                    del recs[o["id"]][o["key"]]
                elif k == "write":
                    rec = recs[o["id"]]
                    try:
                        snap = {"ok": str(rec)}
                    except Exception as e:  # noqa
                        snap = {"err": exc_name(e)}
                    if watch and wsch is not None:
                        seen = {}
                        slots = [rec[j] for j in range(len(rec))]
                        for name in watch:
                            cands = []
                            try:
                                cands.append(rec[name])
                            except Exception:  # noqa
                                pass
                            pos = wsch.column_index(name=name)
                            if pos is not None and pos < len(slots):
                                cands.append(slots[pos])
                            seen[name] = [enc_val(c.value) for c in cands if c is not None]
                        snap["watch"] = seen
                    if o.get("call") == "write":
                        w.write(rec)
                    else:
                        w += rec
                elif k == "close":
                    w.close()
            except Exception as e:  # noqa
                exc = exc_name(e)
            st = {"exc": exc, "out": text()}
            if snap is not None:
                st["snap"] = snap
            out["steps"].append(st)
        return out
    finally:
        if tmp:
            shutil.rmtree(tmp, ignore_errors=True)


OPS["writer.history"] = op_writer_history


# Additive helpers: a writer.history request as the model's writer.run request (the model has no live objects: every offer
# becomes a fresh record in the state the live object has at that moment), and the comparison of the two answers.
from .common import float_table as _float_table  # noqa: E402


def _apply_list_op(cur, o):
    """The model's view of an in-place list change: the new value (JSON encoding), or None when the call raises / is no change."""
    if cur.get("t") != "list":
        return None
    v = list(cur["v"])
    f = o["field"]
    try:
        if f == "list.append":
            v.append(o["to"])
        elif f == "list.insert":
            v.insert(o.get("at", 0), o["to"])
        elif f == "list.setitem":
            v[o.get("at", 0)] = o["to"]
        elif f == "list.extend":
            if o["to"].get("t") not in ("list", "tuple"):
                return None
            v.extend(o["to"]["v"])
        elif f == "list.pop":
            v.pop()
        elif f == "list.clear":
            v = []
    except IndexError:
        return None
    return {"t": "list", "v": v}


def history_model_request(req):
    """The same session for the model's writer.run: every offer becomes a fresh record in the state the live object has at that
    moment (construction + the changes so far).  None when the history uses record[name] = ... / del (no model op keeps objects)."""
    if any(o["k"] in ("replace", "delete") for o in req["ops"]):
        return None
    cols, muts, cur, ops, texts, lenient = {}, {}, {}, [], [], {}
    for o in req["ops"]:
        if o["k"] == "new":
            cols[o["id"]] = o.get("cols") or []
            muts[o["id"]] = []
            cur[o["id"]] = {j: c["value"] for j, c in enumerate(cols[o["id"]])}
            if o["how"] == "parse" and o.get("mode", "Strict") != "Strict":
                # any line parsed without raising: the model parses it the same way (and has no changes of such a record)
                lenient[o["id"]] = {"line": o["line"], "scheme": o["scheme"]}
                texts += o["line"].rstrip("\r\n").split("\t")
        elif o["k"] == "mut":
            if o["id"] in lenient:
                return None
            if o["i"] >= len(cols[o["id"]]):
                continue
            if o["field"].startswith("list."):
                nv = _apply_list_op(cur[o["id"]][o["i"]], o)
                if nv is None:
                    continue
                m = {"i": o["i"], "field": "value", "to": nv}
            else:
                m = {"i": o["i"], "field": o["field"], "to": o["to"]}
            if m["field"] == "value":
                cur[o["id"]][o["i"]] = m["to"]
            muts[o["id"]].append(m)
        elif o["k"] == "write":
            if o["id"] in lenient:
                ops.append({"k": "write", "rec": {"parse": dict(lenient[o["id"]])}})
            else:
                ops.append({"k": "write", "rec": {"cols": cols[o["id"]], "mut": list(muts[o["id"]])}})
        elif o["k"] == "close":
            ops.append({"k": "close"})

    def strs(v):
        if v.get("t") in ("str", "float"):          # the model renders a float through the table of the host's float()/repr()
            yield v["v"]
        elif v.get("t") in ("list", "tuple"):
            for x in v["v"]:
                yield from strs(x)
    for w in ops:
        if w["k"] == "write" and "cols" in w["rec"]:
            for c in w["rec"]["cols"]:
                texts += list(strs(c["value"]))
            for m in w["rec"]["mut"]:
                if m["field"] == "value":
                    texts += list(strs(m["to"]))
    return {"op": "writer.run", "header_lines": req["header_lines"], "mode": "Strict", "assume_sorted": req["assume_sorted"], "ops": ops,
            "floats": _float_table(texts + ["1.5", "7.5"])}


def history_model_differs(req, m, i):
    """Compare the model's answer with the implementation's on the offers and the close (None = the same)."""
    live = req["channel"] in ("handle", "ctor")
    mine = [(k, st) for k, (o, st) in enumerate(zip(req["ops"], i.get("steps", []))) if o["k"] in ("write", "close")]
    if "init_exc" in m or "init_exc" in i:
        return None if m.get("init_exc") == i.get("init_exc") else {"op": "writer.history", "step": None, "model": m.get("init_exc"), "impl": i.get("init_exc")}
    for n, ((k, st), ms) in enumerate(zip(mine, m["steps"])):
        last = n == len(mine) - 1
        if st["exc"] != ms["exc"] or ((live or last) and st["out"] != ms["out"]):
            return {"op": "writer.history", "step": k, "sorting": not req["assume_sorted"], "channel": req["channel"], "patterns": req.get("patterns"),
                    "model": {"exc": ms["exc"], "tail": ms["out"][-80:]}, "impl": {"exc": st["exc"], "tail": st["out"][-80:]}}
    return None
