"""Executors of the line-protocol ops against the real maflib (in-process)."""
from .common import enc_val, exc_name, import_maflib

import_maflib()
from maflib.column import MafColumnRecord  # noqa: E402
from maflib.record import MafRecord  # noqa: E402
from maflib.scheme_factory import all_schemes  # noqa: E402
from maflib.schemes import NoRestrictionsScheme  # noqa: E402
from maflib.validation import ValidationStringency  # noqa: E402
import maflib.column_types as CT  # noqa: E402

MODES = {"Strict": ValidationStringency.Strict, "Lenient": ValidationStringency.Lenient,
         "Silent": ValidationStringency.Silent, None: None}

_SCHEMES = {}


def scheme_by_annotation(ann):
    if ann not in _SCHEMES:
        for s in all_schemes():
            if s.annotation_spec() == ann and s is not NoRestrictionsScheme:
                _SCHEMES[ann] = s()
    return _SCHEMES.get(ann)


def builtin_annotations():
    return [s.annotation_spec() for s in all_schemes() if s is not NoRestrictionsScheme]


def class_of(req):
    if "cls" in req:
        return getattr(CT, req["cls"])
    return scheme_by_annotation(req["scheme"]).column_class(req["col"])


def scheme_of(req):
    if "scheme" in req:
        return scheme_by_annotation(req["scheme"])
    if "norestrict" in req:
        return NoRestrictionsScheme(column_names=req["norestrict"])
    return None


def col_json(col):
    try:
        errs = col.validate()
        invalid = len(errs) > 0
    except Exception as e:  # noqa
        invalid = "EXC:" + exc_name(e)
    try:
        s = {"ok": str(col)}
    except Exception as e:  # noqa
        s = {"err": exc_name(e)}
    return {"cls": type(col).__name__, "key": col.key, "value": enc_val(col.value),
            "index": col.column_index, "invalid": invalid, "str": s}


def op_mro(req):
    cls = class_of(req)
    return {"mro": [c.__name__ for c in cls.__mro__ if c is not object]}


def op_col_build(req):
    cls = class_of(req)
    try:
        col = cls.build(name=req.get("name", ""), value=req["text"], column_index=req.get("index"))
    except Exception as e:  # noqa
        return {"exc": exc_name(e)}
    return {"col": col_json(col)}


def dec_val(j):
    import uuid
    t = j["t"]
    if t == "none":
        return None
    if t == "bool":
        return j["v"]
    if t == "int":
        return int(j["v"])
    if t == "float":
        return float(j["v"])
    if t == "str":
        return j["v"]
    if t == "enum":
        import maflib.column_values as CV
        return getattr(CV, j["c"])[j["m"]]
    if t == "uuid":
        return uuid.UUID(int=int(j["v"]))
    if t == "list":
        return [dec_val(x) for x in j["v"]]
    if t == "tuple":
        return tuple(dec_val(x) for x in j["v"])
    return object()


def op_col_api(req):
    cls = class_of(req)
    col = cls(req.get("name", ""), dec_val(req["value"]), req.get("index"))
    return {"col": col_json(col)}


def errs_json(errs):
    return [[e.tpe.name, e.line_number] for e in errs]


class LogCapture:
    """Window over the records captured on the maflib logger tree."""

    def __enter__(self):
        from .common import CAPTURE
        self.cap = CAPTURE
        self.start = len(CAPTURE.records)
        return self

    def __exit__(self, *a):
        self.records = self.cap.records[self.start:]
        del self.cap.records[self.start:]

    def parsed(self):
        """(error type, line) per 'Ignoring MAF validation error' warning; other
        records are reported as ("OTHER:<level>", None)."""
        import re
        out = []
        for name, level, m in self.records:
            mm = re.match(r"Ignoring MAF validation error: ([A-Z_]+): (?:On line number (\d+): )?", m)
            if mm and level == "WARNING":
                out.append([mm.group(1), int(mm.group(2)) if mm.group(2) else None])
            elif m.startswith("No matching scheme was found") and level == "WARNING":
                out.append(["NO_MATCHING_SCHEME_WARNING", None])
            else:
                out.append(["OTHER:" + level, None])
        return out


def record_json(rec):
    cols = rec._MafRecord__columns_list
    try:
        s = {"ok": str(rec)}
    except Exception as e:  # noqa
        s = {"err": exc_name(e)}
    return {"errors": errs_json(rec.validation_errors),
            "keys": list(rec),
            "slots": [col_json(c) if c is not None else None for c in cols],
            "dict": list(rec._MafRecord__columns_dict.keys()),
            "str": s}


def op_rec_from_line(req):
    kw = {}
    if "names" in req:
        kw["column_names"] = req["names"]
    sch = scheme_of(req)
    with LogCapture() as lc:
        try:
            rec = MafRecord.from_line(req["line"], scheme=sch, line_number=req.get("lineno"),
                                      validation_stringency=MODES[req.get("mode")], **kw)
        except Exception as e:  # noqa
            return {"exc": exc_name(e)}
    return {"rec": record_json(rec), "logs": lc.parsed()}


def header_json(h):
    from maflib.header import MafHeader
    recs = [[k, str(h[k])] for k in h]
    so = h.sort_order()
    return {"records": recs, "errors": errs_json(h.validation_errors), "version": h.version(),
            "annotation": h.annotation(), "sort_order": so.name() if so is not None else None,
            "sort_contigs": list(getattr(so, "_contigs", []) or []),
            "contigs": h.contigs()}


def op_hdr_lines(req):
    from maflib.header import MafHeader
    with LogCapture() as lc:
        try:
            h = MafHeader.from_lines(req["lines"], validation_stringency=MODES[req.get("mode")])
        except Exception as e:  # noqa
            return {"exc": exc_name(e)}
    try:
        sch = h.scheme()
        sch = sch.annotation_spec() if sch is not None else None
    except Exception as e:  # noqa
        sch = "EXC:" + exc_name(e)
    return {"header": header_json(h), "logs": lc.parsed(), "scheme": sch}


def rec_summary(rec):
    try:
        s = {"ok": str(rec)}
    except Exception as e:  # noqa
        s = {"err": exc_name(e)}
    return {"errors": errs_json(rec.validation_errors), "keys": list(rec), "str": s}


def op_reader_run(req):
    from maflib.reader import MafReader
    given = scheme_by_annotation(req["given"]) if req.get("given") else None
    if req.get("given_norestrict") is not None:
        given = NoRestrictionsScheme(column_names=req["given_norestrict"])
    with LogCapture() as lc:
        try:
            reader = MafReader(lines=list(req["lines"]), validation_stringency=MODES[req.get("mode")], scheme=given)
        except Exception as e:  # noqa
            return {"init_exc": exc_name(e)}
        out = {"header": header_json(reader.header()), "init_errors": errs_json(reader.validation_errors)}
        sch = reader.scheme()
        out["scheme"] = None if sch is None else {"annotation": sch.annotation_spec(), "names": sch.column_names()}
        recs = []
        exc = None
        try:
            for rec in reader:
                recs.append(rec_summary(rec))
        except Exception as e:  # noqa
            exc = exc_name(e)
        out["records"] = recs
        out["iter_exc"] = exc
        out["errors"] = errs_json(reader.validation_errors)
    out["logs"] = lc.parsed()
    return out


class RecordingHandle:
    """A text handle that records every write call (the writer closes it; we keep the text)."""

    def __init__(self):
        self.chunks = []
        self.closed = False

    def write(self, t):
        self.chunks.append(t)
        return len(t)

    def close(self):
        self.closed = True

    def text(self):
        return "".join(self.chunks)


def mk_record(spec):
    """A record from a specification: parsed (Silent) or assembled through the API, then mutated."""
    if "parse" in spec:
        p = spec["parse"]
        kw = {}
        if p.get("names") is not None:
            kw["column_names"] = p["names"]
        try:
            return MafRecord.from_line(p["line"], scheme=scheme_of(p), validation_stringency=MODES["Silent"], **kw)
        except Exception:  # noqa
            return MafRecord()
    rec = MafRecord()
    objs = []
    for cj in spec.get("cols", []):
        cls = class_of(cj) if ("cls" in cj or "scheme" in cj) else MafColumnRecord
        col = cls(cj["key"], dec_val(cj["value"]), cj.get("index"))
        objs.append(col)
        try:
            rec.add(col)
        except Exception:  # noqa
            pass
    for mj in spec.get("mut", []):
        if mj["i"] < len(objs):
            col = objs[mj["i"]]
            if mj["field"] == "value":
                col.value = dec_val(mj["to"])
            elif mj["field"] == "index":
                col.column_index = mj["to"]
            elif mj["field"] == "key":
                col.key = mj["to"]
    return rec


def op_writer_run(req):
    from maflib.header import MafHeader
    from maflib.writer import MafWriter
    h = MafHeader.from_lines(req["header_lines"], validation_stringency=MODES["Silent"])
    buf = RecordingHandle()
    try:
        w = MafWriter.from_fd(buf, h, validation_stringency=MODES[req.get("mode")],
                              assume_sorted=req.get("assume_sorted", True))
    except Exception as e:  # noqa
        return {"init_exc": exc_name(e)}
    out = {"init_out": buf.text(), "steps": []}
    for o in req["ops"]:
        exc = None
        try:
            if o["k"] == "close":
                w.close()
            else:
                w += mk_record(o["rec"])
        except Exception as e:  # noqa
            exc = exc_name(e)
        out["steps"].append({"exc": exc, "out": buf.text()})
    return out


OPS = {"writer.run": op_writer_run, "hdr.lines": op_hdr_lines, "reader.run": op_reader_run, "mro": op_mro, "col.build": op_col_build, "col.api": op_col_api,
       "rec.from_line": op_rec_from_line}


def run(req):
    return OPS[req["op"]](req)
