"""Maintains /verif/seeded/<id>/ and runs the registered checks against every seeded change.

usage: python -m verif.seeded import   (copy confirmed mutants from the incoming directory)
       python -m verif.seeded run [ids...]   (apply each to /repo, run its property's quick check, undo)
"""
import json
import os
import shutil
import subprocess
import sys

from .common import REPO, VERIF

SEEDED = os.path.join(VERIF, "seeded")
INCOMING = os.environ.get("SEEDED_INCOMING", "/tmp/mut/out")


def sh(cmd, **kw):
    return subprocess.run(cmd, shell=True, stdout=subprocess.PIPE, stderr=subprocess.STDOUT, text=True, **kw)


def confirm(patch, demo, wt):
    """Confirm in a scratch worktree: demo passes clean, 217 tests pass with the patch, demo fails with it."""
    sh("git -C %s checkout -q -- ." % wt)
    env = dict(os.environ, PYTHONPATH=wt)
    c0 = subprocess.run(["/venv/bin/python", demo, wt], env=env, stdout=subprocess.DEVNULL, stderr=subprocess.DEVNULL, timeout=900).returncode
    if sh("git -C %s apply --check %s" % (wt, patch)).returncode != 0:
        return {"applies": False, "clean_demo_exit": c0}
    sh("git -C %s apply %s" % (wt, patch))
    t = sh("cd %s && PYTHONPATH=%s /venv/bin/python -m pytest -q -p no:cacheprovider tests 2>&1 | tail -1" % (wt, wt)).stdout.strip()
    c1 = subprocess.run(["/venv/bin/python", demo, wt], env=env, stdout=subprocess.DEVNULL, stderr=subprocess.DEVNULL, timeout=900).returncode
    sh("git -C %s checkout -q -- ." % wt)
    return {"applies": True, "clean_demo_exit": c0, "tests_with_patch": t, "patched_demo_exit": c1}


def do_import():
    wt = "/tmp/seeded_wt"
    sh("git -C %s worktree remove --force %s" % (REPO, wt))
    sh("git -C %s worktree add -q --detach %s HEAD" % (REPO, wt))
    head = sh("git -C %s rev-parse --short HEAD" % REPO).stdout.strip()
    try:
        for pid in sorted(os.listdir(INCOMING)):
            d = os.path.join(INCOMING, pid)
            for x in ("a", "b", "c", "d", "e", "f", "g", "h", "i", "j", "k", "l", "m", "n", "o", "p"):
                patch = os.path.join(d, "patch_%s.rebased.diff" % x)
                if not os.path.exists(patch):
                    patch = os.path.join(d, "patch_%s.diff" % x)
                demo = os.path.join(d, "demo_%s.rebased.py" % x)
                if not os.path.exists(demo):
                    demo = os.path.join(d, "demo_%s.py" % x)
                meta = os.path.join(d, "meta_%s.rebased.json" % x)
                if not os.path.exists(meta):
                    meta = os.path.join(d, "meta_%s.json" % x)
                if not (os.path.exists(patch) and os.path.exists(demo)):
                    continue
                if os.path.exists(os.path.join(SEEDED, "%s-%s" % (pid, x), "patch.diff")) and "--force" not in sys.argv:
                    continue
                res = confirm(patch, demo, wt)
                ok = res.get("applies") and res["clean_demo_exit"] == 0 and res["patched_demo_exit"] == 1 and "217 passed" in res["tests_with_patch"]
                sid = "%s-%s" % (pid, x)
                print(sid, "CONFIRMED" if ok else "rejected", res)
                if not ok:
                    continue
                dst = os.path.join(SEEDED, sid)
                os.makedirs(dst, exist_ok=True)
                shutil.copy(patch, os.path.join(dst, "patch.diff"))
                shutil.copy(demo, os.path.join(dst, "demo.py"))
                m = {}
                try:
                    m = json.load(open(meta))
                except Exception:  # noqa
                    pass
                old = {}
                if os.path.exists(os.path.join(dst, "meta.json")):
                    old = json.load(open(os.path.join(dst, "meta.json")))
                old.update({"id": sid, "property": pid, "summary": m.get("summary"), "needs": m.get("needs"), "files": m.get("files"),
                            "source": "written by a fresh sub-agent given only the property text and a scratch worktree",
                            "confirmed": {"base_commit": head, "clean_demo_exit": res["clean_demo_exit"],
                                          "tests_with_patch": res["tests_with_patch"], "patched_demo_exit": res["patched_demo_exit"],
                                          "how": "scratch worktree: demo on clean tree; git apply; pytest; demo; git checkout"}})
                json.dump(old, open(os.path.join(dst, "meta.json"), "w"), indent=1)
    finally:
        sh("git -C %s worktree remove --force %s" % (REPO, wt))


def do_run(ids):
    assert sh("git -C %s status --porcelain" % REPO).stdout.strip() == "", "/repo is not clean"
    for sid in sorted(os.listdir(SEEDED)):
        if ids and sid not in ids:
            continue
        d = os.path.join(SEEDED, sid)
        meta = json.load(open(os.path.join(d, "meta.json")))
        pid = meta["property"]
        try:
            if sh("git -C %s apply %s" % (REPO, os.path.join(d, "patch.diff"))).returncode != 0:
                print(sid, "patch does not apply")
                continue
            r = sh("cd %s && VERIF_EVIDENCE_DIR=/tmp/seeded_evidence VERIF_SEED=1 /venv/bin/python check.py %s --tier quick" % (VERIF, pid), timeout=3000)
            lines = [l for l in r.stdout.splitlines() if l.startswith("VIOLATION") or l.startswith(pid + " tier")]
            detected = r.returncode == 1 and any(l.startswith("VIOLATION") for l in lines)
            with_input = detected and not any("no-failing-input-found" in l for l in lines)
            replay = None
            for l in lines:
                if l.startswith("VIOLATION"):
                    rp = l.split("replay=")[1].split()[0]
                    try:
                        rj = json.load(open(os.path.join(VERIF, rp)))
                        f = rj.get("failure") or {}
                        replay = {"what": f.get("what"), "kind": f.get("kind"), "broken": [b if isinstance(b, list) else [b.get("kind"), b.get("name")] for b in rj.get("broken", [])][:3]}
                    except Exception:  # noqa
                        pass
            meta["check_result"] = {"check": pid, "exit": r.returncode, "detected": detected, "failing_input_found": with_input,
                                    "summary": lines[-1] if lines else r.stdout[-300:], "replay": replay}
            json.dump(meta, open(os.path.join(d, "meta.json"), "w"), indent=1)
            print(sid, "DETECTED" if detected else "MISSED", "(replay with failing input)" if with_input else "", lines[-1] if lines else "")
        finally:
            sh("git -C %s checkout -q -- ." % REPO)
    sh("cd %s && python3 -m verif.gen" % VERIF)


def do_table(pattern):
    """Markdown rows (id | what it does | how the check reports it) for DESIGN.md."""
    import re
    for sid in sorted(os.listdir(SEEDED)):
        if not re.search(pattern, sid):
            continue
        m = json.load(open(os.path.join(SEEDED, sid, "meta.json")))
        cr = m.get("check_result") or {}
        rp = cr.get("replay") or {}
        summ = " ".join((m.get("summary") or m.get("what") or "").replace("|", "/").split())
        if len(summ) > 230:
            summ = summ[:230].rsplit(" ", 1)[0] + " …"
        if m.get("confirmed_at_head") is False:
            res = "not property-breaking at HEAD any more"
        elif cr.get("detected") and cr.get("failing_input_found"):
            res = (rp.get("what") or "detected")[:110]
        elif cr.get("detected"):
            res = "detected, no-failing-input-found"
        else:
            res = "**missed**"
        print("| %s | %s | %s |" % (sid, summ, res.replace("|", "/")))


if __name__ == "__main__":
    if sys.argv[1] == "table":
        do_table(sys.argv[2] if len(sys.argv) > 2 else ".")
    elif sys.argv[1] == "import":
        do_import()
    else:
        do_run(sys.argv[2:])
