"""Check runner: regenerate, build, audit, correspondence, oracle, verdict, evidence."""
import fcntl
import importlib
import json
import os
import re
import subprocess
import sys
import time
from collections import Counter

from . import common
from .common import LEAN_DIR, VERIF, Timer, write_json

ALLOWED_AXIOMS = {"propext", "Classical.choice", "Quot.sound"}
FORBIDDEN = re.compile(r"\b(sorry|admit|native_decide|bv_decide|implemented_by|unsafe)\b|^\s*axiom\s|maxHeartbeats\s+0\b")

TRUSTED_BASE = [
    "Lean 4.33 kernel (theorems are checked by `lake build`; the thorough tier re-checks the .olean files with leanchecker)",
    "axioms: at most propext, Classical.choice, Quot.sound (audited with #print axioms on every run); no sorry/admit/native_decide/bv_decide",
    "translator verif/gen.py (Python ast/json -> Generated/*.lean), cross-checked against live introspection",
    "correspondence harness + generators: the hand-written parts of the model (hook bodies, control flow) are validated only on generated cases",
    "compiled Lean driver (Lean compiler/runtime trusted for the correspondence, not for theorems)",
    "CPython, its stdlib (int/float/str/uuid/Enum/heapq/sorted/gzip/tempfile/os) are modelled, not verified",
]


class Lock:
    def __enter__(self):
        os.makedirs(os.path.join(LEAN_DIR, ".lake"), exist_ok=True)
        self.h = open(os.path.join(LEAN_DIR, ".lake", "verif.lock"), "w")
        fcntl.flock(self.h, fcntl.LOCK_EX)
        return self

    def __exit__(self, *a):
        fcntl.flock(self.h, fcntl.LOCK_UN)
        self.h.close()


def run_gen():
    p = subprocess.run([sys.executable, "-m", "verif.gen"], cwd=VERIF, stdout=subprocess.PIPE,
                       stderr=subprocess.STDOUT, text=True)
    return p.returncode == 0, p.stdout.strip()


def lake_build(targets, timeout=3000):
    p = subprocess.run(["lake", "build"] + targets, cwd=LEAN_DIR, stdout=subprocess.PIPE,
                       stderr=subprocess.STDOUT, text=True, timeout=timeout)
    return p.returncode == 0, p.stdout


def props_file(pid):
    return os.path.join(LEAN_DIR, "MafModel", "Props", pid + ".lean")


def props_modules(pid):
    """Props/<pid>.lean and its companions Props/<pid><Suffix>.lean (e.g. C01Record, C01Builtin)."""
    d = os.path.join(LEAN_DIR, "MafModel", "Props")
    out = []
    if os.path.isdir(d):
        for f in sorted(os.listdir(d)):
            m = re.match(r"^(%s)([A-Z][A-Za-z]*)?\.lean$" % pid, f)
            if m:
                out.append(f[:-5])
    return out


def theorem_names(pid):
    """Fully qualified names of the theorems stated in Props/<pid>*.lean."""
    out = []
    for mod in props_modules(pid):
        out += theorem_names_file(os.path.join(LEAN_DIR, "MafModel", "Props", mod + ".lean"))
    return out


def theorem_names_file(path):
    ns = []
    out = []
    with open(path) as h:
        for line in h:
            m = re.match(r"^namespace\s+(\S+)", line)
            if m:
                ns.append(m.group(1))
            m = re.match(r"^end\s+(\S+)", line)
            if m and ns and ns[-1] == m.group(1):
                ns.pop()
            m = re.match(r"^(?:protected\s+)?theorem\s+([^\s:({\[]+)", line)
            if m:
                nm = m.group(1)
                out.append(nm[len("_root_."):] if nm.startswith("_root_.") else ".".join(ns + [nm]))
    return out


def strip_comments(src):
    src = re.sub(r"/-.*?-/", "", src, flags=re.S)
    return re.sub(r"--.*", "", src)


def grep_forbidden():
    bad = []
    for root, _d, files in os.walk(os.path.join(LEAN_DIR, "MafModel")):
        for f in files:
            if f.endswith(".lean"):
                p = os.path.join(root, f)
                with open(p) as h:
                    for i, line in enumerate(strip_comments(h.read()).splitlines()):
                        if FORBIDDEN.search(line):
                            bad.append("%s:%d: %s" % (os.path.relpath(p, LEAN_DIR), i + 1, line.strip()[:80]))
    return bad


def audit(pid):
    """#print axioms for every theorem of Props/<pid>: {theorem: [axioms]} or error text."""
    names = theorem_names(pid)
    if not names:
        return {}, "no theorems"
    src = "".join("import MafModel.Props.%s\n" % m for m in props_modules(pid)) + "".join("#print axioms %s\n" % n for n in names)
    path = os.path.join(LEAN_DIR, ".lake", "audit_%s.lean" % pid)
    with open(path, "w") as h:
        h.write(src)
    p = subprocess.run(["lake", "env", "lean", path], cwd=LEAN_DIR, stdout=subprocess.PIPE,
                       stderr=subprocess.STDOUT, text=True, timeout=900)
    res = {}
    text = p.stdout
    norm = {n.replace("«", "").replace("»", ""): n for n in names}
    for m in re.finditer(r"'(\S+)' depends on axioms: \[([^\]]*)\]", text, flags=re.S):
        key = m.group(1).replace("«", "").replace("»", "")
        res[norm.get(key, m.group(1))] = [a.strip() for a in m.group(2).replace("\n", " ").split(",") if a.strip()]
    for m in re.finditer(r"'(\S+)' does not depend on any axioms", text):
        key = m.group(1).replace("«", "").replace("»", "")
        res[norm.get(key, m.group(1))] = []
    if p.returncode != 0 or len(res) != len(names):
        return res, text[-2000:]
    return res, None


def failing_theorems(pid, log):
    """Map build errors in Props/<pid>.lean to the theorem they fall in."""
    found = []
    for m in re.finditer(r"Props/(%s[A-Za-z]*)\.lean:(\d+):\d+:" % pid, log):
        path = os.path.join(LEAN_DIR, "MafModel", "Props", m.group(1) + ".lean")
        if not os.path.exists(path):
            continue
        lines = open(path).read().splitlines()
        ln = int(m.group(2))
        name = None
        for i in range(min(ln, len(lines)) - 1, -1, -1):
            mm = re.match(r"^(?:private\s+)?(?:theorem|example|def|lemma)\s+([^\s:({\[]+)?", lines[i])
            if mm:
                name = mm.group(1) or "example@%d" % (i + 1)
                break
        if name and name not in found:
            found.append(name)
    return found


class Ctx:
    def __init__(self, pid, tier, seed):
        self.pid = pid
        self.tier = tier
        self.seed = seed
        self.driver = common.Driver()
        self.timer = Timer()

    def rng(self, *salt):
        return common.rng_for(self.seed, self.pid, *salt)

    escalate = False

    def scale(self, quick, thorough):
        if self.tier == "thorough":
            return thorough
        # source of an anchored function differs from the validated baseline: look harder (never a verdict by itself)
        return min(thorough, quick * 4) if self.escalate else quick


class Outcome:
    """What a property module reports."""

    last = None      # the Outcome most recently created (lets the runner keep what a module found before it crashed)

    def __init__(self):
        Outcome.last = self
        self.evaluations = 0
        self.nontrivial = set()
        self.samples = []
        self.distribution = Counter()
        self.disagreements = []   # model vs implementation (correspondence)
        self.failures = []        # the property's own oracle failing on the implementation
        self.notes = []
        self.unmodelled = 0
        self.dontcare = 0
        self.rule = ""
        self.extra = {}

    def sample(self, x, limit=6):
        if len(self.samples) < limit:
            self.samples.append(x)


def load_known():
    path = os.path.join(VERIF, "known_findings.json")
    if not os.path.exists(path):
        return {"findings": [], "fixed": []}
    with open(path) as h:
        return json.load(h)


def match_known(pid, failure, known):
    from . import known as K
    for f in known.get("findings", []):
        if f.get("property") != pid:
            continue
        fn = getattr(K, f["matcher"], None)
        if fn and fn(failure, f):
            return f
    return None


def main(argv):
    import argparse
    ap = argparse.ArgumentParser()
    ap.add_argument("pid", nargs="?")
    ap.add_argument("--tier", default=os.environ.get("VERIF_TIER", "quick"))
    ap.add_argument("--replay")
    ap.add_argument("--setup", action="store_true")
    a = ap.parse_args(argv)
    if a.setup:
        return setup()
    if not a.pid:
        ap.error("property id required")
    seed = int(os.environ.get("VERIF_SEED", "0") or 0)
    if a.replay:
        return replay(a.pid, a.replay)
    try:
        return check(a.pid, a.tier, seed)
    except subprocess.TimeoutExpired as e:
        print("TIMEOUT: %s" % e)
        return 2


def _same_failure(a, b):
    drop = ("_found", "_unshrunk", "shrunk_from")
    ka = {k: v for k, v in a.items() if k not in drop}
    kb = {k: v for k, v in b.items() if k not in drop}
    return json.dumps(ka, sort_keys=True, default=str) == json.dumps(kb, sort_keys=True, default=str)


def replay(pid, path):
    """Re-run one stored violation on the current tree.

    A replay with a failing input is re-evaluated on the implementation (and the model) by the property module's
    `replay_case`; modules without one regenerate the case from the recorded seed.  A replay that only names a broken
    theorem / correspondence re-runs regeneration, build and audit.  Exit 1 when the violation is still there."""
    with open(path) as h:
        rp = json.load(h)
    mod = importlib.import_module("verif.props.%s" % pid.lower())
    f = rp.get("failure")
    if f:
        found = f.get("_found") or {"tier": "quick", "seed": 0}
        print("stored failure: %s" % json.dumps({k: v for k, v in f.items() if k != "_unshrunk"}, default=str)[:1500])
        with Lock():
            ok, msg = run_gen()
            lake_build(["driver"])
        ctx = Ctx(pid, found["tier"], found["seed"])
        ctx.driver_ok = os.path.exists(common.DRIVER)
        again = mod.replay_case(ctx, f) if hasattr(mod, "replay_case") else None
        if again is not None:                        # list of failures the stored input produces now
            how = "stored input re-evaluated on the implementation"
        else:
            out = mod.run(ctx)
            cands = [f] + ([f["_unshrunk"]] if "_unshrunk" in f else [])
            again = [g for g in out.failures if any(_same_failure(g, c) for c in cands)]
            if not again:
                again = [g for g in out.failures if g.get("kind") == f.get("kind") and g.get("what") == f.get("what")][:1]
            how = "case regenerated from seed %s (%s tier)" % (found["seed"], found["tier"])
        known = load_known()
        listed = [(g, match_known(pid, g, known)) for g in again]
        again = [g for g, k in listed if not k]
        seen = set()
        for _g, k in listed:
            if k and k["id"] not in seen:            # still failing, and listed: an open finding, not a new violation
                seen.add(k["id"])
                print("KNOWN-FINDING: property=%s %s" % (pid, k["what"]))
        if seen and not again:
            print("REPRODUCED property=%s as the listed finding(s) %s (%s); exit 0: a listed finding is not reported as a violation" % (pid, sorted(seen), how))
            return 0
        if again:
            print("now: %s" % json.dumps({k: v for k, v in again[0].items() if k != "_unshrunk"}, default=str)[:1500])
            print("REPRODUCED property=%s (%s)" % (pid, how))
            print("VIOLATION property=%s replay=%s" % (pid, path))
            return 1
        print("NOT REPRODUCED property=%s: the stored input satisfies the property on the current tree (%s)" % (pid, how))
        return 0
    # broken tie only
    still = []
    with Lock():
        ok, msg = run_gen()
        if not ok:
            still.append("translator: " + msg[-300:])
        bok, blog = lake_build(["driver"] + ["MafModel.Props.%s" % m for m in props_modules(pid)])
        if not bok:
            still += ["theorem: " + t for t in (failing_theorems(pid, blog) or ["Props/%s does not build" % pid])]
        elif theorem_names(pid):
            axioms, aerr = audit(pid)
            if aerr:
                still.append("audit: " + aerr[:300])
            still += ["audit: %s depends on %s" % (t, a) for t, a in axioms.items() if [x for x in a if x not in ALLOWED_AXIOMS]]
    if any(b.get("kind") == "correspondence" for b in rp.get("broken", [])):
        ctx = Ctx(pid, "quick", 0)
        ctx.driver_ok = os.path.exists(common.DRIVER)
        out = mod.run(ctx)
        if out.disagreements:
            still.append("correspondence: %s" % json.dumps(out.disagreements[0], default=str)[:600])
    for b in rp.get("broken", []):
        print("stored: %s %s" % (b.get("kind"), b.get("name")))
    if still:
        for x in still:
            print("still broken: " + x)
        print("VIOLATION property=%s replay=%s no-failing-input-found" % (pid, path))
        return 1
    print("NOT REPRODUCED property=%s: theorems, audit and correspondence check on the current tree" % pid)
    return 0


def anchored_changes(pid):
    """Changed functions (vs verif/fingerprints_baseline.json) in the files the property is anchored in."""
    from . import gen
    ch = gen.source_changes()
    if not ch:
        return []
    files = {"maflib/util.py", "maflib/validation.py"}
    with open(os.path.join(VERIF, "properties.jsonl")) as h:
        for l in h:
            d = json.loads(l)
            if d["id"] == pid:
                files |= set(d.get("anchors", {}).get("files", []))
    return [c for c in ch if c.split(":")[0] in files or (c.startswith("maflib/schemas/") and pid in ("C01", "C05", "C14", "C20"))]


def setup():
    with Lock():
        ok, msg = run_gen()
        print(msg)
        if not ok:
            return 1
        d = os.path.join(LEAN_DIR, "MafModel", "Props")
        props = sorted("MafModel.Props." + f[:-5] for f in os.listdir(d) if f.endswith(".lean"))
        # every property's theorems are built here, so that a check only rebuilds what a source change invalidates
        ok, log = lake_build(["MafModel", "driver"] + props)
        print(log[-3000:])
        return 0 if ok else 1


def check(pid, tier, seed):
    t = Timer()
    mod = importlib.import_module("verif.props.%s" % pid.lower())
    broken = []      # (kind, name, detail)
    with Lock():
        ok, msg = run_gen()
        if not ok:
            broken.append(("translator", "verif/gen.py", msg))
        targets = ["driver"] + ["MafModel.Props.%s" % m for m in props_modules(pid)]
        bok, blog = lake_build(targets)
        driver_ok = os.path.exists(common.DRIVER)
        if not bok:
            # did the driver itself build?  (rebuild it alone to know)
            dok, dlog = lake_build(["driver"])
            driver_ok = dok
            ths = failing_theorems(pid, blog)
            if ths:
                for th in ths:
                    broken.append(("theorem", th, "proof obligation no longer checks"))
            elif not dok:
                broken.append(("model", "driver", dlog[-1500:]))
            else:
                broken.append(("theorem", "Props/%s (import)" % pid, blog[-1500:]))
        names = theorem_names(pid)
        axioms, aerr = ({}, None)
        if bok and names:
            axioms, aerr = audit(pid)
            if aerr:
                broken.append(("audit", "#print axioms", aerr))
            for th, axs in axioms.items():
                extra = [x for x in axs if x not in ALLOWED_AXIOMS]
                if extra:
                    broken.append(("audit", th, "depends on %s" % extra))
        recheck = None
        if bok and names and tier == "thorough":
            # independent re-check of the compiled .olean files
            try:
                lp = subprocess.run(["lake", "env", "leanchecker"] + ["MafModel.Props.%s" % m for m in props_modules(pid)],
                                    cwd=LEAN_DIR, stdout=subprocess.PIPE, stderr=subprocess.STDOUT, text=True, timeout=1800)
                recheck = {"rc": lp.returncode, "tail": lp.stdout[-300:]}
                if lp.returncode != 0:
                    broken.append(("audit", "leanchecker", lp.stdout[-1500:]))
            except subprocess.TimeoutExpired:
                recheck = {"rc": None, "tail": "timeout"}
        bad = grep_forbidden()
        if bad:
            broken.append(("audit", "forbidden construct", "; ".join(bad[:5])))

    ctx = Ctx(pid, tier, seed)
    ctx.driver_ok = driver_ok
    changed_src = anchored_changes(pid)
    ctx.escalate = bool(changed_src) and not os.environ.get("VERIF_NO_ESCALATE")
    Outcome.last = None
    try:
        out = mod.run(ctx)
    except subprocess.TimeoutExpired:
        raise
    except Exception as e:  # noqa
        # a harness exception on this tree: keep the oracle failures collected before it (they are judged as usual);
        # with none collected this is a crash of the check (exit 2), never a verdict
        import traceback
        tb = traceback.format_exc()
        out = Outcome.last
        if out is None or not out.failures:
            print(tb)
            print("HARNESS-CRASH property=%s: %r" % (pid, e))
            return 2
        out.notes.append("the property module raised %r after %d evaluations; verdict from the failures collected before it" % (e, out.evaluations))
        print(tb[-1500:])
    for d in out.disagreements[:1]:
        broken.append(("correspondence", d.get("op", "?"), "model and implementation differ"))

    known = load_known()
    unlisted, listed = [], []
    for f in out.failures:
        k = match_known(pid, f, known)
        f.setdefault("_found", {"tier": tier, "seed": seed})
        (listed if k else unlisted).append((f, k))

    searched = None
    if broken and not unlisted:
        # a broken tie is not by itself a violation: search for a failing input
        st = Timer()
        ctx2 = Ctx(pid, "thorough", seed + 7919)
        ctx2.driver_ok = driver_ok
        ctx2.hints = [d for d in out.disagreements[:20]]
        try:
            out2 = mod.search(ctx2) if hasattr(mod, "search") else mod.run(ctx2)
        except Exception as e:  # noqa
            out2 = Outcome()
            out2.notes.append("search crashed: %r" % e)
        searched = {"cases": out2.evaluations, "seconds": st.s()}
        for f in out2.failures:
            k = match_known(pid, f, known)
            f.setdefault("_found", {"tier": "thorough", "seed": seed + 7919})
            (listed if k else unlisted).append((f, k))

    violations = 0
    lines = []
    os.makedirs(common.REPLAY_DIR, exist_ok=True)
    if unlisted:
        f = unlisted[0][0]
        f0 = f
        if hasattr(mod, "shrink"):
            try:
                f = mod.shrink(ctx, f)
            except Exception:  # noqa
                pass
        if f is not f0:
            f = dict(f, _unshrunk=f0)
        rp = os.path.join("replays", "%s-%d.json" % (pid, seed))
        write_json(os.path.join(VERIF, rp), {"property": pid, "failure": f,
                                             "broken": [list(b) for b in broken],
                                             "other_failures": len(unlisted) - 1})
        lines.append("VIOLATION property=%s replay=%s" % (pid, rp))
        violations = len(unlisted)
    elif broken:
        rp = os.path.join("replays", "%s-%d.json" % (pid, seed))
        write_json(os.path.join(VERIF, rp), {"property": pid,
                                             "broken": [{"kind": b[0], "name": b[1], "detail": b[2]} for b in broken],
                                             "disagreements": out.disagreements[:5],
                                             "searched": searched})
        lines.append("VIOLATION property=%s replay=%s no-failing-input-found" % (pid, rp))
        violations = 1
    seen = set()
    for f, k in listed:
        if k["id"] not in seen:
            seen.add(k["id"])
            print("KNOWN-FINDING: property=%s %s" % (pid, k["what"]))

    n_obl = len(names)
    n_ok = len([n for n in names if n in axioms and not [x for x in axioms[n] if x not in ALLOWED_AXIOMS]]) if bok else 0
    cov = {
        "obligations": max(n_obl, 1) if n_obl else 0,
        "discharged": n_ok,
        "checker_cmd": "cd lean/MafModel && lake build %s && lake env lean .lake/audit_%s.lean" % (" ".join("MafModel.Props.%s" % m for m in props_modules(pid)), pid),
        "trusted_base": TRUSTED_BASE + getattr(mod, "TRUSTED_EXTRA", []),
        "theorems": {n: axioms.get(n) for n in names},
        "evaluations": out.evaluations,
        "distinct_nontrivial": len(out.nontrivial),
        "rule": out.rule,
        "samples": out.samples or [{"theorems": names[:5]}],
        "distribution": dict(out.distribution),
        "correspondence_disagreements": len(out.disagreements),
        "oracle_failures": len(out.failures),
        "known_findings_matched": sorted(seen),
        "unmodelled_skipped": out.unmodelled,
        "dontcare_zone": out.dontcare,
        "broken": [{"kind": b[0], "name": b[1]} for b in broken],
        "notes": out.notes,
        "leanchecker": recheck,
        "source_changes_vs_baseline": changed_src[:40],
    }
    cov.update(out.extra)
    if not n_obl:
        # no theorem yet for this property: fall back to the generic keys only
        for k in ("obligations", "discharged", "checker_cmd"):
            cov.pop(k, None)
    ev = {"property_id": pid, "tier": tier if tier in ("quick", "thorough") else "quick", "seed": seed,
          "level": getattr(mod, "LEVEL", "proof"), "coverage": cov,
          "assumptions": getattr(mod, "ASSUMPTIONS", []), "wall_s": t.s(), "violations": violations}
    write_json(os.path.join(common.EVIDENCE_DIR, "%s.json" % pid), ev)
    for l in lines:
        print(l)
    print("%s tier=%s seed=%d theorems=%d/%d cases=%d nontrivial=%d disagreements=%d failures=%d (known %d) wall=%.1fs" % (
        pid, tier, seed, n_ok, n_obl, out.evaluations, len(out.nontrivial), len(out.disagreements),
        len(out.failures), len(listed), t.s()))
    return 1 if violations else 0
