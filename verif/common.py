"""Shared plumbing: paths, the Lean driver, value encoding, evidence, verdicts."""
import json
import os
import random
import subprocess
import sys
import time
import uuid as _uuid
from enum import Enum

VERIF = os.path.dirname(os.path.dirname(os.path.abspath(__file__)))
REPO = os.environ.get("VERIF_REPO", "/repo")
LEAN_DIR = os.environ.get("VERIF_LEAN_DIR", os.path.join(VERIF, "lean", "MafModel"))
DRIVER = os.path.join(LEAN_DIR, ".lake", "build", "bin", "driver")
EVIDENCE_DIR = os.environ.get("VERIF_EVIDENCE_DIR", os.path.join(VERIF, "evidence"))
REPLAY_DIR = os.path.join(VERIF, "replays")
CORPUS_DIR = os.path.join(VERIF, "corpus")
GUARD = "MAFLIB_VERIF"


def import_maflib():
    """Import maflib from REPO's working tree and assert that is what we got."""
    if REPO not in sys.path:
        sys.path.insert(0, REPO)
    import maflib  # noqa
    real = os.path.realpath(os.path.dirname(maflib.__file__))
    want = os.path.realpath(os.path.join(REPO, "maflib"))
    assert real == want, "maflib imported from %s, expected %s" % (real, want)
    import logging
    import maflib.logger  # noqa  (installs the library's stderr handler; replaced below)
    lg = logging.getLogger("maflib")
    for h in list(lg.handlers):          # drop the library's stderr handler
        lg.removeHandler(h)
    lg.setLevel(logging.DEBUG)
    lg.propagate = False
    if not any(isinstance(h, _Capture) for h in lg.handlers):
        lg.addHandler(CAPTURE)
    return maflib


import logging as _logging


class _Capture(_logging.Handler):
    """Collects every record emitted on the `maflib` logger tree."""

    def __init__(self):
        super().__init__(level=_logging.DEBUG)
        self.records = []

    def emit(self, record):
        try:
            text = record.getMessage()
        except Exception as e:  # noqa  (a message that cannot be rendered is no warning about anything; it is kept as such)
            text = "UNRENDERABLE (%s): %r %% %r" % (type(e).__name__, record.msg, record.args)
        self.records.append((record.name, record.levelname, text))


CAPTURE = _Capture()


# ------------------------------------------------------------------ values
def enc_atom(v):
    if v is None:
        return {"t": "none"}
    if isinstance(v, bool):
        return {"t": "bool", "v": v}
    if isinstance(v, int):
        return {"t": "int", "v": str(v)}
    if isinstance(v, float):
        return {"t": "float", "v": repr(v)}
    if isinstance(v, str):
        return {"t": "str", "v": v}
    if isinstance(v, Enum):
        return {"t": "enum", "c": type(v).__name__, "m": v.name}
    if isinstance(v, _uuid.UUID):
        return {"t": "uuid", "v": str(v.int)}
    return {"t": "other", "v": type(v).__name__}


def enc_val(v):
    if isinstance(v, list):
        return {"t": "list", "v": [enc_atom(x) for x in v]}
    if isinstance(v, tuple):
        return {"t": "tuple", "v": [enc_atom(x) for x in v]}
    return enc_atom(v)


def float_table(texts):
    """Graph of CPython's float()/repr() on the given texts (and their ';' pieces)."""
    tbl = {}
    for t in texts:
        for piece in [t] + (t.split(";") if ";" in t else []):
            if piece in tbl:
                continue
            try:
                tbl[piece] = repr(float(piece))
            except (ValueError, OverflowError):
                tbl[piece] = None
    # renderings are parsed again by the sorter codec and by round trips: close the table under repr
    for r in [v for v in tbl.values() if v is not None]:
        if r not in tbl:
            tbl[r] = repr(float(r))
    return tbl


def exc_name(e):
    from maflib.validation import MafFormatException
    if isinstance(e, MafFormatException):
        return "MafFormatException:%s:%s" % (e.tpe.name, e.line_number)
    if isinstance(e, OSError):
        return "OSError:%s" % e.errno
    return type(e).__name__


def is_model_text(s):
    """Texts the model can represent: no lone surrogates (Lean Char excludes them)."""
    return not any(0xD800 <= ord(c) <= 0xDFFF for c in s)


# ------------------------------------------------------------------ driver
class Driver:
    """Runs the compiled Lean driver on a batch of requests."""

    def __init__(self, path=DRIVER):
        self.path = path

    def available(self):
        return os.path.exists(self.path)

    def run(self, requests, timeout=600):
        if not requests:
            return []
        data = "\n".join(json.dumps(r, ensure_ascii=True) for r in requests) + "\n"
        p = subprocess.run([self.path], input=data.encode("utf-8"), stdout=subprocess.PIPE,
                           stderr=subprocess.PIPE, timeout=timeout)
        if p.returncode != 0:
            raise RuntimeError("driver failed: %s" % p.stderr.decode("utf-8", "replace")[:2000])
        lines = p.stdout.decode("utf-8").split("\n")
        if lines and lines[-1] == "":
            lines.pop()
        if len(lines) != len(requests):
            raise RuntimeError("driver returned %d lines for %d requests" % (len(lines), len(requests)))
        return [json.loads(l) for l in lines]


def has_unmodelled(obj):
    """True when a model answer contains an UNMODELLED marker (outside the model's domain)."""
    if isinstance(obj, str):
        return obj.startswith("UNMODELLED") or obj == "<MISSING>"
    if isinstance(obj, dict):
        return any(has_unmodelled(v) for v in obj.values())
    if isinstance(obj, list):
        return any(has_unmodelled(v) for v in obj)
    return False


# ------------------------------------------------------------------ misc
def rng_for(seed, *salt):
    return random.Random("%s/%s" % (seed, "/".join(str(s) for s in salt)))


class Timer:
    def __init__(self):
        self.t0 = time.time()

    def s(self):
        return round(time.time() - self.t0, 3)


def write_json(path, obj):
    os.makedirs(os.path.dirname(path), exist_ok=True)
    tmp = path + ".tmp"
    with open(tmp, "w") as h:
        json.dump(obj, h, indent=1, sort_keys=True, default=str)
    os.replace(tmp, path)
