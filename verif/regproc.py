"""Runs one registration history in a fresh interpreter (the scheme registry is process-global).
stdin: one JSON request {"ops": [...], "late_import": bool}; stdout: {"steps": [...]}."""
import json
import os
import sys
import tempfile

sys.path.insert(0, os.path.dirname(os.path.dirname(os.path.abspath(__file__))))


def main():
    req = json.loads(sys.stdin.read())
    from verif.common import import_maflib, exc_name
    import_maflib()
    from maflib import scheme_factory as SF
    steps = []
    tmp = tempfile.mkdtemp()
    counter = [0]
    held = {}
    given = []
    if not req.get("late_import"):
        import maflib.header  # noqa  (the supported lists are computed when this module is imported)
    for o in req["ops"]:
        k = o["k"]
        try:
            if k == "register":
                paths = []
                for d in o["defs"]:
                    p = os.path.join(tmp, "x%d.json" % counter[0])
                    counter[0] += 1
                    with open(p, "w") as h:
                        json.dump({"version": d["version"], "annotation-spec": d["annotation"],
                                   "extends": d["extends"] if d.get("extends") is not None else "None",
                                   "filtered": d["filtered"] if d.get("filtered") is not None else "None",
                                   "columns": d["columns"]}, h)
                    paths.append(p)
                try:
                    # the spelling of a file name: absolute, relative to the working directory, with a "./", or a pathlib.Path
                    spell = o.get("spell", "abs")
                    if spell != "abs":
                        import pathlib
                        os.chdir(tmp)
                        paths = [os.path.basename(q) if spell == "rel" else "./" + os.path.basename(q) if spell == "dot" else pathlib.Path(q) for q in paths]
                    if o.get("again"):
                        # the caller hands over its whole configured list every time: the names given before, spelt as before, then the new ones
                        paths = list(given) + paths
                    # the file names as the caller happens to hold them: a list, a tuple, or a one-shot iterable
                    form = o.get("paths_as", "list")
                    arg = paths if form == "list" else tuple(paths) if form == "tuple" else (q for q in paths) if form == "generator" else map(lambda q: q, paths)      # (one-shot, the spellings untouched)
                    SF.all_schemes(extra_filenames=arg)
                    steps.append({"exc": None})
                    given.extend(q for q in paths if q not in given)      # (names of a refused call are not part of the caller's configured list)
                except Exception as e:  # noqa
                    steps.append({"exc": exc_name(e)})
            elif k == "find":
                try:
                    s = SF.find_scheme(version=o.get("version"), annotation=o.get("annotation"))
                    steps.append({"found": None} if s is None else
                                 {"annotation": s.annotation_spec(), "version": s.version(), "names": s.column_names()})
                except Exception as e:  # noqa
                    steps.append({"exc": exc_name(e)})
            elif k == "header":
                from verif import impl
                from maflib.header import MafHeader
                try:
                    h = MafHeader.from_lines(o["lines"], validation_stringency=impl.MODES[o.get("mode")])
                    steps.append({"errors": impl.errs_json(h.validation_errors)})
                except Exception as e:  # noqa
                    steps.append({"exc": exc_name(e)})
            elif k == "read":
                from verif import impl
                from maflib.reader import MafReader
                try:
                    rd = MafReader(lines=list(o["lines"]), validation_stringency=impl.MODES[o.get("mode")])
                except Exception as e:  # noqa
                    steps.append({"init_exc": exc_name(e)})
                    continue
                n, exc = 0, None
                try:
                    for _r in rd:
                        n += 1
                except Exception as e:  # noqa
                    exc = exc_name(e)
                sch = rd.scheme()
                steps.append({"scheme": None if sch is None else sch.annotation_spec(), "n": n,
                              "errors": impl.errs_json(rd.validation_errors), "iter_exc": exc})
            elif k == "keep":
                # parse records (Strict) under the scheme the header names NOW and keep the record OBJECTS
                from maflib.header import MafHeader
                from maflib.record import MafRecord
                from maflib.validation import ValidationStringency as VS
                try:
                    h = MafHeader.from_lines(o["header"], validation_stringency=VS.Strict)
                    sch = h.scheme()
                    held[o["slot"]] = [MafRecord.from_line(line, scheme=sch, validation_stringency=VS.Strict) for line in o["records"]]
                    steps.append({"kept": len(held[o["slot"]]), "scheme": None if sch is None else sch.annotation_spec()})
                except Exception as e:  # noqa
                    steps.append({"exc": exc_name(e)})
            elif k == "hold_header":
                # a header OBJECT made now (Silent) and looked at (scheme(), validate()) - possibly before its scheme exists
                from maflib.header import MafHeader
                from maflib.validation import ValidationStringency as VS
                try:
                    h = MafHeader.from_lines(o["lines"], validation_stringency=VS.Silent)
                    sch = h.scheme()
                    h.validate(validation_stringency=VS.Silent)
                    held["hdr", o["slot"]] = h
                    steps.append({"held": True, "scheme": None if sch is None else sch.annotation_spec()})
                except Exception as e:  # noqa
                    steps.append({"exc": exc_name(e)})
            elif k == "use_held_header":
                # the header object kept earlier, used NOW, next to a header parsed now from the same lines
                from verif import impl
                from maflib.header import MafHeader
                from maflib.validation import ValidationStringency as VS
                try:
                    def view(h):
                        sch = h.scheme()
                        errs = impl.errs_json(h.validate(validation_stringency=VS.Silent))
                        buf = impl.RecordingHandle()
                        from maflib.writer import MafWriter
                        w = MafWriter.from_fd(buf, h, validation_stringency=VS.Silent)
                        w.close()
                        return {"scheme": None if sch is None else sch.annotation_spec(), "errors": errs, "written": buf.text()}
                    steps.append({"held": view(held["hdr", o["slot"]]), "fresh": view(MafHeader.from_lines(o["lines"], validation_stringency=VS.Silent))})
                except Exception as e:  # noqa
                    steps.append({"exc": exc_name(e)})
            elif k == "write_kept":
                # a Strict writer opened NOW for the same header is offered the records kept earlier
                from verif import impl
                from maflib.header import MafHeader
                from maflib.validation import ValidationStringency as VS
                from maflib.writer import MafWriter
                buf = impl.RecordingHandle()
                try:
                    h = MafHeader.from_lines(o["header"], validation_stringency=VS.Strict)
                    w = MafWriter.from_fd(buf, h, validation_stringency=VS.Strict)
                    for r in held.get(o["slot"], []):
                        w += r
                    w.close()
                    body = [l for l in buf.text().split("\n")[:-1] if not l.startswith("#")][1:]
                    steps.append({"ok": body == [str(r) for r in held.get(o["slot"], [])], "n": len(body)})
                except Exception as e:  # noqa
                    steps.append({"exc": exc_name(e)})
            elif k == "roundtrip":
                # write records under a header naming the scheme (Strict), read the bytes back (Strict)
                from verif import impl
                from maflib.header import MafHeader
                from maflib.reader import MafReader
                from maflib.record import MafRecord
                from maflib.validation import ValidationStringency as VS
                from maflib.writer import MafWriter
                buf = impl.RecordingHandle()
                try:
                    h = MafHeader.from_lines(o["header"], validation_stringency=VS.Strict)
                    w = MafWriter.from_fd(buf, h, validation_stringency=VS.Strict)
                    sch = h.scheme()
                    for line in o["records"]:
                        w += MafRecord.from_line(line, scheme=sch, validation_stringency=VS.Strict)
                    w.close()
                    lines = buf.text().split("\n")[:-1]
                    rd = MafReader(lines=lines, validation_stringency=VS.Strict)
                    got = [str(r) for r in rd]
                    steps.append({"ok": got == list(o["records"]), "scheme": rd.scheme().annotation_spec(), "n": len(got)})
                except Exception as e:  # noqa
                    steps.append({"exc": exc_name(e)})
        except Exception as e:  # noqa
            steps.append({"harness_exc": repr(e)})
    print(json.dumps({"steps": steps}))


if __name__ == "__main__":
    main()
