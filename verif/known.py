"""Matchers for known_findings.json: each recognises one specific failing case
(call site + the distinguishing feature of the input).  Any other failure of the
same property is a VIOLATION."""


def c04_single_null_element(failure, finding):
    """A sequence-of-nullable-yes/no field whose text is exactly one spelling of the
    null member ('Null' in any case): value [Null] renders as '' which denotes []."""
    if failure.get("kind") != "value-changed":
        return False
    text = failure.get("text")
    if not isinstance(text, str) or text.capitalize() != "Null":
        return False
    v, r = failure.get("value"), failure.get("reparsed")
    return (v == {"t": "list", "v": [{"t": "enum", "c": "NullableYesOrNoEnum", "m": "Null"}]}
            and r == {"t": "list", "v": []})


def _reads_as(text, fn):
    try:
        fn(text)
        return True
    except (ValueError, TypeError):
        return False


def c02_union_numeric_text(failure, finding):
    """An API-assigned *str* value of a string-or-number column whose text Python itself reads as a number
    ('1', '01', '007' in Chromosome / NCBI_Build), or an int in a string-integer-or-float column: the writer accepts
    it, the reader gives the number back.  Decided from the stored input alone (never from what the library
    says about it), so a change that breaks other values of these or other columns is still reported."""
    if failure.get("kind") not in ("values", "records", "rewrite"):
        return False
    cls, wv = failure.get("column_class"), failure.get("written_value") or {}
    if cls == "StringOrIntegerColumn":
        return wv.get("t") == "str" and _reads_as(wv.get("v"), int)
    if cls == "StringIntegerOrFloatColumn":
        return (wv.get("t") == "str" and _reads_as(wv.get("v"), float)) or wv.get("t") == "int"
    return False


def c02_entrez_api_zero(failure, finding):
    """Entrez_Gene_Id assigned the integer 0 through the API: written as '0', which is the column's null spelling."""
    if failure.get("kind") not in ("values", "records", "rewrite"):
        return False
    return failure.get("column_class") == "EntrezGeneId" and failure.get("written_value") == {"t": "int", "v": "0"}


def c02_hash_first_column(failure, finding):
    """A scheme-less column set whose first column name starts with '#': its column-name line is read as a header line."""
    return failure.get("first_column_starts_with_hash") is True and failure.get("scheme") is None


def c03_nonstrict_sorting_writer_close(failure, finding):
    """A Silent / Lenient SORTING writer (assume_sorted=False under a sortable order) whose close() raises the format
    exception: the queued records are re-parsed by the sorter's codec, which is hard-wired to Strict.  Identified by the
    call site alone - writing entry point, sorting writer, the exception raised by close() (never by open or write) in
    a non-strict mode - so that a non-strict writer failing anywhere else, or an unsorted one failing at all, is still
    reported."""
    if failure.get("kind") != "nonstrict-raises" or failure.get("entry") != "write" or failure.get("sorting") is not True:
        return False
    stages = failure.get("stages") or {}
    bad = [m for m in ("Silent", "Lenient") if m in stages]
    return bool(bad) and all(stages[m] == "close" for m in bad) and str(failure.get("got", "")).startswith("MafFormatException")
