"""Matchers for known_findings.json: each recognises one specific failing case
(exception kind + call site + the distinguishing feature of the input)."""
