"""Matchers for known_findings.json: each recognises one specific failing case
(call site + the distinguishing feature of the input).  Any other failure of the
same property is a VIOLATION."""


def c04_single_null_element(failure, finding):
    """A sequence-of-nullable-yes/no field whose text is exactly one spelling of the
    null member ('Null' in any case): value [Null] renders as '' which denotes []."""
    if failure.get("kind") != "value-changed":
        return False
    text = failure.get("text")
    if not isinstance(text, str) or text.capitalize() != "Null":
        return False
    v, r = failure.get("value"), failure.get("reparsed")
    return (v == {"t": "list", "v": [{"t": "enum", "c": "NullableYesOrNoEnum", "m": "Null"}]}
            and r == {"t": "list", "v": []})
