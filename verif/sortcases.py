"""Records / locatables for the sort-order, sorter, writer and overlap checks."""
from . import impl
from maflib.locatable import Locatable
from maflib.record import MafRecord
from maflib.column import MafColumnRecord
from maflib.validation import ValidationStringency as VS

BASIC = "gdc-1.0.0"
CHROMS = ["1", "2", "10", "X", "chr1", "chr2", "chr10", "chrX", "MT"]
# more than ten names: ranks 10+ only order correctly when compared as numbers
LONG = [str(i) for i in range(1, 13)] + ["X"]
LONG_CHR = ["chr" + x for x in LONG]


# barcode pools (round 8): names of which one is a proper prefix of another ("T1" / "T1A" / "T1-x"), and characters
# on both sides of the usual separators ('|' 0x7C, '~', ' ', '-', '.') - an order taken over a JOINED text
# ("tumor|normal") differs from the component-wise order exactly on these
TUMORS = ["T1", "T1", "T2", "TA", "T1A", "T1-x", "T1|N", "T", "T1.b", "T1~"]
NORMALS = ["N1", "N1", "N2", "", "N1A", "N", "N1|T", "N1-x"]


def typed_record(rng, tumor="T1", normal="N1", chrom="1", start=10, end=12, ann=BASIC, extra=None):
    """A record parsed under a typed scheme (Chromosome becomes int for numeric names)."""
    from . import colcases
    sch = impl.scheme_by_annotation(ann)
    names = sch.column_names()
    fields = list(_base_fields(ann, rng))
    def put(n, v):
        if n in names:
            fields[names.index(n)] = "" if v is None else str(v)
    put("Tumor_Sample_Barcode", tumor)
    put("Matched_Norm_Sample_Barcode", normal)
    put("Chromosome", chrom)
    put("Start_Position", start)
    put("End_Position", end)
    for k, v in (extra or {}).items():
        put(k, v)
    return MafRecord.from_line("\t".join(fields), scheme=sch, validation_stringency=VS.Silent)


_BASE = {}


def _base_fields(ann, rng):
    if ann not in _BASE:
        from . import colcases
        import random
        r = random.Random(12345)
        sch = impl.scheme_by_annotation(ann)
        fs = colcases.valid_fields(ann, r)
        # keep the line strictly valid and free of exotic texts
        out = []
        for n, f in zip(sch.column_names(), fs):
            cls = sch.column_class(n)
            try:
                c = cls.build(name=n, value=f)
                ok = not c.validate() and f.isascii() and f == str(c)
            except Exception:  # noqa
                ok = False
            out.append(f if ok else _plain_valid(cls, n))
        _BASE[ann] = out
    return _BASE[ann]


def _plain_valid(cls, n):
    for t in ["", "1", "A", "Unknown", "Yes", "+", "SNP", "Silent", "Somatic", "MODIFIER", "Transcript",
              "00000000-0000-0000-0000-000000000000", "1.5", "x", "Illumina HiSeq", "True", "None"]:
        try:
            c = cls.build(name=n, value=t)
            if not c.validate() and str(c) == t:
                return t
        except Exception:  # noqa
            pass
    return ""


def untyped_record(tumor="T1", normal="N1", chrom="1", start="10", end="12", names=None, drop=()):
    """A scheme-less record: every value is the text of the file."""
    names = names or ["Hugo_Symbol", "Chromosome", "Start_Position", "End_Position", "Tumor_Sample_Barcode",
                      "Matched_Norm_Sample_Barcode", "Reference_Allele", "Tumor_Seq_Allele2"]
    vals = {"Hugo_Symbol": "G", "Chromosome": chrom, "Start_Position": start, "End_Position": end,
            "Tumor_Sample_Barcode": tumor, "Matched_Norm_Sample_Barcode": normal, "Reference_Allele": "A",
            "Tumor_Seq_Allele2": "C"}
    rec = MafRecord()
    for n in names:
        if n in drop:
            continue
        v = vals.get(n, "")
        rec.add(MafColumnRecord(n, "" if v is None else str(v)))
    return rec


class Loc(Locatable):
    """A plain locatable (no barcodes).  Remembers what it was built from: the oracle's view of the input must not go
    through the library's own constructor."""

    def __init__(self, chromosome, start, end):
        self.given = (chromosome, start, end)
        Locatable.__init__(self, chromosome, start, end)

    def __repr__(self):
        return "Loc(%r,%r,%r)" % (self.chromosome, self.start, self.end)


def kv(v):
    if v is None:
        return None
    if isinstance(v, bool):
        return int(v)
    if isinstance(v, int):
        return v
    if isinstance(v, str):
        return v
    return "<%s>" % type(v).__name__


def loc_json(obj):
    """What a sort order reads from the object, through the same accessors the library uses."""
    if isinstance(obj, MafRecord):
        # straight from the columns the record holds (the oracle's view of the input does not go through the record's
        # convenience accessors)
        def cell(column):
            try:
                c = obj[column]
            except Exception:  # noqa
                return None, False
            return (None, False) if c is None else (c.value, True)
        (c, hc), (s, hs), (e, he) = cell("Chromosome"), cell("Start_Position"), cell("End_Position")
        has = hc and hs and he
        if not has:
            c = s = e = None
        return {"hasCoords": has, "tumor": kv(cell("Tumor_Sample_Barcode")[0]),
                "normal": kv(cell("Matched_Norm_Sample_Barcode")[0]), "chr": kv(c), "start": kv(s), "stop": kv(e)}
    c, s, e = getattr(obj, "given", (obj.chromosome, obj.start, obj.end))
    return {"hasCoords": True, "tumor": None, "normal": None, "chr": kv(c), "start": kv(s), "stop": kv(e)}


def order_obj(name, contigs):
    from maflib.sort_order import BarcodesAndCoordinate, Coordinate, Unknown, Unsorted
    if name == "Coordinate":
        return Coordinate(contigs=list(contigs) if contigs else None)
    if name == "BarcodesAndCoordinate":
        return BarcodesAndCoordinate(contigs=list(contigs) if contigs else None)
    return Unsorted() if name == "Unsorted" else Unknown()


# ---------------------------------------------------------------------------------------------------------------------
# Routes: every way the library offers to hand an (order name, contig list) pair to a sort order object or to a header.
# All of them must give the order that Coordinate(contigs=...) / BarcodesAndCoordinate(contigs=...) gives.  (additive)

def fai_path(tmp, contigs):
    """A FASTA index (.fai: name, length, offset, line bases, line width) listing `contigs`, written under `tmp`."""
    import hashlib
    import os
    p = os.path.join(tmp, "ix_%s.fai" % hashlib.sha1("\x00".join(contigs).encode("utf-8")).hexdigest()[:12])
    if not os.path.exists(p):
        with open(p, "w") as h:
            off = 6
            for k, c in enumerate(contigs):
                n = 1000 + 17 * k
                h.write("%s\t%d\t%d\t60\t61\n" % (c, n, off))
                off += n + n // 60 + 7
    return p


def _order_cls(name):
    from maflib.sort_order import SortOrder
    return SortOrder.find(name)


def route_header_lines(name, contigs, typed=False, contigs_first=False, annotation="my-spec"):
    """Pragma lines declaring (name, contigs), the two pragmas in either order."""
    h = ["#version gdc-1.0.0"] + ([] if typed else ["#annotation.spec " + annotation])
    c = ["#contigs " + ",".join(contigs)] if contigs else []
    o = ["#sort.order " + name] if name else []
    return h + (c + o if contigs_first else o + c)


# routes that end in a header (usable by a writer, and by header.sort_order())
HEADER_ROUTES = [
    "lines-order-first", "lines-contigs-first",                      # MafHeader.from_lines, pragmas in either order
    "defaults-obj-contigs", "defaults-name-contigs",                 # from_defaults(sort_order=Cls() | "Name", contigs=[...])
    "defaults-obj-fasta", "defaults-name-fasta",                     # from_defaults(sort_order=..., fasta_index=path)
    "defaults-bound", "defaults-bound-fasta",                        # from_defaults(sort_order=Cls(contigs=...) | Cls(fasta_index=...))
    "from_reader-obj-contigs", "from_reader-name-fasta",             # from_reader(reader of a bare file, sort_order=..., contigs= | fasta_index=)
    "from_reader-bound", "from_reader-keep",                         # from_reader(sort_order=Cls(contigs=...)) | from_reader(reader of a file that declares both)
    "reader-header", "reader-path-header", "reader-gz-header",       # MafReader(lines) / reader_from(path) / reader_from(path.gz) .header()
    # from_reader on a reader whose file already declares one half of the pair, the other half given as an argument
    "from_reader-file-contigs+order", "from_reader-file-order+contigs", "from_reader-file-both+contigs",
]
# routes that end in a sort order object only
DIRECT_ROUTES = ["ctor-contigs", "ctor-positional", "ctor-fasta", "ctor-fasta-positional", "find-contigs",
                 "record-name-contigs", "record-obj-fasta", "record-bound"]
ORDER_ROUTES = DIRECT_ROUTES + HEADER_ROUTES
NEEDS_CONTIGS = {"ctor-fasta", "ctor-fasta-positional", "record-obj-fasta", "defaults-obj-fasta", "defaults-name-fasta",
                 "defaults-bound-fasta", "from_reader-name-fasta", "from_reader-file-contigs+order",
                 "from_reader-file-order+contigs", "from_reader-file-both+contigs"}


# PENDING_DEFECTS: routes on which the unchanged library gives header.sort_order() a contig list other than the one the
# header itself declares (reported, not yet fixed): MafHeader.from_reader does not rebind the sort order when one half of
# the (order, contigs) pair comes from the reader's file and the other half from its arguments.  Skipped where the
# header's sort_order() is used for keys; a writer sorts with header.contigs(), so writer checks keep these routes.
PENDING_DEFECTS = set()


def routes_for(contigs, routes=None, skip_pending=True):
    """The routes applicable to a contig list (a FASTA index route needs a non-empty list)."""
    return [r for r in (routes or ORDER_ROUTES) if (contigs or r not in NEEDS_CONTIGS) and not (skip_pending and r in PENDING_DEFECTS)]


def _bare_reader(lines, how, tmp):
    """A reader over header `lines` plus a column line, opened from lines / a path / a gzip path."""
    import gzip
    import hashlib
    import os
    from maflib.reader import MafReader
    body = lines + ["Hugo_Symbol\tChromosome\tStart_Position\tEnd_Position\tTumor_Sample_Barcode\tMatched_Norm_Sample_Barcode"]
    if how == "lines":
        return MafReader(lines=list(body), validation_stringency=VS.Silent)
    p = os.path.join(tmp, "hdr_%s.maf%s" % (hashlib.sha1("\n".join(body).encode("utf-8")).hexdigest()[:12], ".gz" if how == "gz" else ""))
    with (gzip.open(p, "wt") if how == "gz" else open(p, "w")) as h:
        h.write("\n".join(body) + "\n")
    return MafReader.reader_from(p, validation_stringency=VS.Silent)


def header_via(route, name, contigs, tmp, typed=False):
    """The header the library builds when (name, contigs) is supplied through `route`."""
    from maflib.header import MafHeader
    contigs = list(contigs or [])
    cls = _order_cls(name)
    ann = None if typed else "my-spec"
    base = {"version": "gdc-1.0.0", "annotation": ann}
    bare = route_header_lines(None, [], typed)
    if route in ("lines-order-first", "lines-contigs-first"):
        return MafHeader.from_lines(route_header_lines(name, contigs, typed, route == "lines-contigs-first"), validation_stringency=VS.Silent)
    if route in ("defaults-obj-contigs", "defaults-name-contigs"):
        return MafHeader.from_defaults(sort_order=cls() if "-obj-" in route else name, contigs=contigs or None, **base)
    if route in ("defaults-obj-fasta", "defaults-name-fasta"):
        return MafHeader.from_defaults(sort_order=cls() if "-obj-" in route else name, fasta_index=fai_path(tmp, contigs), **base)
    if route == "defaults-bound":
        return MafHeader.from_defaults(sort_order=cls(contigs=contigs or None), **base)
    if route == "defaults-bound-fasta":
        return MafHeader.from_defaults(sort_order=cls(fasta_index=fai_path(tmp, contigs)), **base)
    if route.startswith("from_reader") or route.startswith("reader"):
        how = "gz" if "-gz-" in route else ("path" if "-path-" in route else "lines")
        if route in ("reader-header", "reader-path-header", "reader-gz-header"):
            rd = _bare_reader(route_header_lines(name, contigs, typed, len(contigs) % 2 == 1), how, tmp)
            try:
                return rd.header()
            finally:
                rd.close()
        if route == "from_reader-keep":
            return MafHeader.from_reader(_bare_reader(route_header_lines(name, contigs, typed), how, tmp))
        if route == "from_reader-obj-contigs":
            return MafHeader.from_reader(_bare_reader(bare, how, tmp), sort_order=cls(), contigs=contigs or None)
        if route == "from_reader-name-fasta":
            return MafHeader.from_reader(_bare_reader(bare, how, tmp), sort_order=name, fasta_index=fai_path(tmp, contigs))
        if route == "from_reader-bound":
            return MafHeader.from_reader(_bare_reader(bare, how, tmp), sort_order=cls(contigs=contigs or None))
        if route == "from_reader-file-contigs+order":
            return MafHeader.from_reader(_bare_reader(route_header_lines(None, contigs, typed), how, tmp), sort_order=cls())
        if route == "from_reader-file-order+contigs":
            return MafHeader.from_reader(_bare_reader(route_header_lines(name, [], typed), how, tmp), contigs=contigs)
        if route == "from_reader-file-both+contigs":
            other = sorted(contigs) if sorted(contigs) != contigs else list(reversed(contigs))
            return MafHeader.from_reader(_bare_reader(route_header_lines(name, other, typed), how, tmp), contigs=contigs)
    raise KeyError(route)


def order_via(route, name, contigs, tmp):
    """The sort order object the library builds when (name, contigs) is supplied through `route`."""
    contigs = list(contigs or [])
    if route in HEADER_ROUTES:
        return header_via(route, name, contigs, tmp).sort_order()
    cls = _order_cls(name)
    if route == "ctor-contigs":
        return cls(contigs=contigs or None)
    if route == "ctor-positional":
        return cls(None, contigs or None)
    if route == "ctor-fasta":
        return cls(fasta_index=fai_path(tmp, contigs))
    if route == "ctor-fasta-positional":
        return cls(fai_path(tmp, contigs))
    if route == "find-contigs":
        from maflib.sort_order import SortOrder
        return SortOrder.find(sort_order_name=name)(contigs=contigs or None)
    from maflib.header import MafHeaderSortOrderRecord
    if route == "record-name-contigs":
        return MafHeaderSortOrderRecord(value=name, contigs=contigs or None).value
    if route == "record-obj-fasta":
        return MafHeaderSortOrderRecord(value=cls(), fasta_index=fai_path(tmp, contigs)).value
    if route == "record-bound":
        return MafHeaderSortOrderRecord(value=cls(contigs=contigs or None)).value
    raise KeyError(route)


def retarget(rec, other):
    """Change `rec` IN PLACE (column.value = ...) so that it carries the location and barcodes of `other` (a record of the
    same kind); returns the text the record has now, rendered from fresh column objects (not from the record's str())."""
    for n in ("Tumor_Sample_Barcode", "Matched_Norm_Sample_Barcode", "Chromosome", "Start_Position", "End_Position"):
        if n in rec and n in other:
            rec[n].value = other[n].value
    return "\t".join(str(type(c)(c.key, c.value, c.column_index)) for c in rec.values())
