"""Records / locatables for the sort-order, sorter, writer and overlap checks."""
from . import impl
from maflib.locatable import Locatable
from maflib.record import MafRecord
from maflib.column import MafColumnRecord
from maflib.validation import ValidationStringency as VS

BASIC = "gdc-1.0.0"
CHROMS = ["1", "2", "10", "X", "chr1", "chr2", "chr10", "chrX", "MT"]


def typed_record(rng, tumor="T1", normal="N1", chrom="1", start=10, end=12, ann=BASIC, extra=None):
    """A record parsed under a typed scheme (Chromosome becomes int for numeric names)."""
    from . import colcases
    sch = impl.scheme_by_annotation(ann)
    names = sch.column_names()
    fields = list(_base_fields(ann, rng))
    def put(n, v):
        if n in names:
            fields[names.index(n)] = "" if v is None else str(v)
    put("Tumor_Sample_Barcode", tumor)
    put("Matched_Norm_Sample_Barcode", normal)
    put("Chromosome", chrom)
    put("Start_Position", start)
    put("End_Position", end)
    for k, v in (extra or {}).items():
        put(k, v)
    return MafRecord.from_line("\t".join(fields), scheme=sch, validation_stringency=VS.Silent)


_BASE = {}


def _base_fields(ann, rng):
    if ann not in _BASE:
        from . import colcases
        import random
        r = random.Random(12345)
        sch = impl.scheme_by_annotation(ann)
        fs = colcases.valid_fields(ann, r)
        # keep the line strictly valid and free of exotic texts
        out = []
        for n, f in zip(sch.column_names(), fs):
            cls = sch.column_class(n)
            try:
                c = cls.build(name=n, value=f)
                ok = not c.validate() and f.isascii() and f == str(c)
            except Exception:  # noqa
                ok = False
            out.append(f if ok else _plain_valid(cls, n))
        _BASE[ann] = out
    return _BASE[ann]


def _plain_valid(cls, n):
    for t in ["", "1", "A", "Unknown", "Yes", "+", "SNP", "Silent", "Somatic", "MODIFIER", "Transcript",
              "00000000-0000-0000-0000-000000000000", "1.5", "x", "Illumina HiSeq", "True", "None"]:
        try:
            c = cls.build(name=n, value=t)
            if not c.validate() and str(c) == t:
                return t
        except Exception:  # noqa
            pass
    return ""


def untyped_record(tumor="T1", normal="N1", chrom="1", start="10", end="12", names=None, drop=()):
    """A scheme-less record: every value is the text of the file."""
    names = names or ["Hugo_Symbol", "Chromosome", "Start_Position", "End_Position", "Tumor_Sample_Barcode",
                      "Matched_Norm_Sample_Barcode", "Reference_Allele", "Tumor_Seq_Allele2"]
    vals = {"Hugo_Symbol": "G", "Chromosome": chrom, "Start_Position": start, "End_Position": end,
            "Tumor_Sample_Barcode": tumor, "Matched_Norm_Sample_Barcode": normal, "Reference_Allele": "A",
            "Tumor_Seq_Allele2": "C"}
    rec = MafRecord()
    for n in names:
        if n in drop:
            continue
        v = vals.get(n, "")
        rec.add(MafColumnRecord(n, "" if v is None else str(v)))
    return rec


class Loc(Locatable):
    """A plain locatable (no barcodes)."""

    def __repr__(self):
        return "Loc(%r,%r,%r)" % (self.chromosome, self.start, self.end)


def kv(v):
    if v is None:
        return None
    if isinstance(v, bool):
        return int(v)
    if isinstance(v, int):
        return v
    if isinstance(v, str):
        return v
    return "<%s>" % type(v).__name__


def loc_json(obj):
    """What a sort order reads from the object, through the same accessors the library uses."""
    if isinstance(obj, MafRecord):
        try:
            c, s, e = obj.chromosome, obj.start, obj.end
            has = True
        except KeyError:
            c = s = e = None
            has = False
        except (AttributeError, TypeError):
            c = s = e = None
            has = False
        return {"hasCoords": has, "tumor": kv(obj.value("Tumor_Sample_Barcode")),
                "normal": kv(obj.value("Matched_Norm_Sample_Barcode")), "chr": kv(c), "start": kv(s), "stop": kv(e)}
    return {"hasCoords": True, "tumor": None, "normal": None, "chr": kv(obj.chromosome), "start": kv(obj.start),
            "stop": kv(obj.end)}


def order_obj(name, contigs):
    from maflib.sort_order import BarcodesAndCoordinate, Coordinate, Unknown, Unsorted
    if name == "Coordinate":
        return Coordinate(contigs=list(contigs) if contigs else None)
    if name == "BarcodesAndCoordinate":
        return BarcodesAndCoordinate(contigs=list(contigs) if contigs else None)
    return Unsorted() if name == "Unsorted" else Unknown()
