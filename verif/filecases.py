"""Generators of header lines and whole files (lists of lines) over an adversarial alphabet."""
from . import colcases, impl
from .common import is_model_text

GOOD_PRAGMAS = ["#version gdc-1.0.0", "#annotation.spec gdc-1.0.0-public", "#annotation.spec gdc-1.0.0-protected",
                "#annotation.spec gdc-2.0.0-aliquot", "#sort.order Coordinate", "#sort.order BarcodesAndCoordinate",
                "#sort.order Unsorted", "#sort.order Unknown", "#contigs chr1,chr2,chr10", "#contigs 1,2,10,X",
                "#center broad.mit.edu", "#note made by the harness", "#n.samples 4", "#filedate 2020-01-01 ",
                "#version gdc-2.0.0", "#version no-version", "#annotation.spec no-annotation-specification",
                "#annotation.spec nothing-known", "#sort.order Bogus", "#contigs ", "#contigs a", "#k v w  x",
                "#key value\t", "#key \tvalue", "#tab\tkey value", "#unicode Ünï", "#key value "]
BAD_HEADER = ["#", "##", "# ", "#key", "#key ", "# value", "#  ", "#key  ", "#key   \t", "# key value", "#=", "#\tx y"]


def header_lines(rng, n=None, allow_bad=True):
    n = rng.randrange(0, 6) if n is None else n
    out = []
    for _ in range(n):
        k = rng.random()
        if k < 0.7 or not allow_bad:
            out.append(rng.choice(GOOD_PRAGMAS))
        elif k < 0.9:
            out.append(rng.choice(BAD_HEADER))
        else:
            out.append(rng.choice(out) if out else "#version gdc-1.0.0")   # duplicate
    return out


def typical_header(rng, ann, sort=None, contigs=None):
    out = ["#version gdc-1.0.0"]
    if ann != "gdc-1.0.0":
        out.append("#annotation.spec " + ann)
    if contigs and rng.random() < 0.5:
        out.append("#contigs " + ",".join(contigs))
        contigs = None
    if sort:
        out.append("#sort.order " + sort)
    if contigs:
        out.append("#contigs " + ",".join(contigs))
    return out


ODD_LINES = ["", " ", "\t", "\t\t\t", "#late pragma", "#version gdc-1.0.0", "a", "a\tb", "\x00", "é\tß", "x" * 50,
             "1\t2\t3", "\x0b", "#", "None"]


def data_lines(rng, ann, n):
    """Lines for the body of a file read under layout `ann` (or scheme-less when ann is None)."""
    out = []
    for _ in range(n):
        k = rng.random()
        if ann is None:
            if k < 0.7:
                out.append("\t".join(rng.choice(["a", "1", "", "x y", "7", "chr1", "é"]) for _ in range(4)))
            else:
                out.append(rng.choice(ODD_LINES))
        else:
            if k < 0.85:
                out.extend(colcases.line_cases(ann, rng, 1))
            else:
                out.append(rng.choice(ODD_LINES))
    return [l for l in out if is_model_text(l)]


def column_line(rng, ann):
    if ann is None:
        return rng.choice(["c1\tc2\tc3\tc4", "a\tb\tc\td", "a\ta\tb\tc", "x\t\ty\tz"])
    names = impl.scheme_by_annotation(ann).column_names()
    k = rng.random()
    if k < 0.75:
        return "\t".join(names)
    names = list(names)
    if k < 0.85:
        i = rng.randrange(len(names))
        names[i] = names[i] + "_x"
    elif k < 0.92:
        names = names[:-1]
    else:
        i, j = rng.sample(range(len(names)), 2)
        names[i], names[j] = names[j], names[i]
    return "\t".join(names)


def whole_file(rng, ann=None, sort=None, contigs=None, n_data=None, header=None, col=True):
    lines = list(header if header is not None else typical_header(rng, ann or "nothing-known", sort, contigs))
    if ann is None and header is None:
        lines = [l for l in lines if not l.startswith("#annotation.spec")] + ["#annotation.spec my-own-spec"]
    if col:
        lines.append(column_line(rng, ann))
    n_data = rng.randrange(0, 5) if n_data is None else n_data
    lines += data_lines(rng, ann, n_data)
    # terminators: the reader strips CR/LF from every line it is given
    if rng.random() < 0.3:
        lines = [l + rng.choice(["\n", "\r\n", "", "\n"]) for l in lines]
    return lines
