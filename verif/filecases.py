"""Generators of header lines and whole files (lists of lines) over an adversarial alphabet."""
from . import colcases, impl
from .common import is_model_text

GOOD_PRAGMAS = ["#version gdc-1.0.0", "#annotation.spec gdc-1.0.0-public", "#annotation.spec gdc-1.0.0-protected",
                "#annotation.spec gdc-2.0.0-aliquot", "#sort.order Coordinate", "#sort.order BarcodesAndCoordinate",
                "#sort.order Unsorted", "#sort.order Unknown", "#contigs chr1,chr2,chr10", "#contigs 1,2,10,X",
                "#center broad.mit.edu", "#note made by the harness", "#n.samples 4", "#filedate 2020-01-01 ",
                "#version gdc-2.0.0", "#version no-version", "#annotation.spec no-annotation-specification",
                "#annotation.spec nothing-known", "#sort.order Bogus", "#contigs ", "#contigs a", "#contigs chr1,chr2,", "#contigs ,1,2", "#contigs 1,,2", "#contigs ,", "#k v w  x",
                "#gc% 12", "#version 100%", "#sort.order %d", "#annotation.spec 50%s",
                "#key value\t", "#key \tvalue", "#tab\tkey value", "#unicode Ünï", "#key value ",
                # a key may itself start with the line symbol (VCF-style double hash): only ONE symbol starts the line
                "##source caller-x", "##version gdc-1.0.0", "##contigs a,b", "##sort.order Coordinate", "###three hashes", "##center x"]
BAD_HEADER = ["#", "##", "# ", "#key", "#key ", "# value", "#  ", "#key  ", "#key   \t", "# key value", "#=", "#\tx y", "## free text", "##key", "## "]


def header_lines(rng, n=None, allow_bad=True):
    n = rng.randrange(0, 6) if n is None else n
    out = []
    for _ in range(n):
        k = rng.random()
        if k < 0.7 or not allow_bad:
            out.append(rng.choice(GOOD_PRAGMAS))
        elif k < 0.9:
            out.append(rng.choice(BAD_HEADER))
        else:
            out.append(rng.choice(out) if out else "#version gdc-1.0.0")   # duplicate
    return out


def typical_header(rng, ann, sort=None, contigs=None):
    out = ["#version gdc-1.0.0"]
    if ann != "gdc-1.0.0":
        out.append("#annotation.spec " + ann)
    if contigs and rng.random() < 0.5:
        out.append("#contigs " + ",".join(contigs))
        contigs = None
    if sort:
        out.append("#sort.order " + sort)
    if contigs:
        out.append("#contigs " + ",".join(contigs))
    return out


ODD_LINES = ["", " ", "\t", "\t\t\t", "#late pragma", "#version gdc-1.0.0", "a", "a\tb", "\x00", "é\tß", "x" * 50,
             "1\t2\t3", "\x0b", "#", "None"]


def data_lines(rng, ann, n):
    """Lines for the body of a file read under layout `ann` (or scheme-less when ann is None)."""
    out = []
    for _ in range(n):
        k = rng.random()
        if ann is None:
            if k < 0.7:
                out.append("\t".join(rng.choice(["a", "1", "", "x y", "7", "chr1", "é"]) for _ in range(4)))
            else:
                out.append(rng.choice(ODD_LINES))
        else:
            if k < 0.85:
                out.extend(colcases.line_cases(ann, rng, 1))
            else:
                out.append(rng.choice(ODD_LINES))
    return [l for l in out if is_model_text(l)]


def column_line(rng, ann):
    if ann is None:
        return rng.choice(["c1\tc2\tc3\tc4", "a\tb\tc\td", "a\ta\tb\tc", "x\t\ty\tz"])
    names = impl.scheme_by_annotation(ann).column_names()
    k = rng.random()
    if k < 0.75:
        return "\t".join(names)
    names = list(names)
    if k < 0.85:
        i = rng.randrange(len(names))
        names[i] = names[i] + "_x"
    elif k < 0.92:
        names = names[:-1]
    else:
        i, j = rng.sample(range(len(names)), 2)
        names[i], names[j] = names[j], names[i]
    return "\t".join(names)


def whole_file(rng, ann=None, sort=None, contigs=None, n_data=None, header=None, col=True):
    lines = list(header if header is not None else typical_header(rng, ann or "nothing-known", sort, contigs))
    if ann is None and header is None:
        lines = [l for l in lines if not l.startswith("#annotation.spec")] + ["#annotation.spec my-own-spec"]
    if col:
        lines.append(column_line(rng, ann))
    n_data = rng.randrange(0, 5) if n_data is None else n_data
    lines += data_lines(rng, ann, n_data)
    # terminators: the reader strips CR/LF from every line it is given
    if rng.random() < 0.3:
        lines = [l + rng.choice(["\n", "\r\n", "", "\n"]) for l in lines]
    return lines


# ------------------------------------------------------------------ files on disk, every reader factory, every consumption style
# (additive: used by C16 / C17 / C19; nothing above depends on it)
# characters str.splitlines() breaks on although they do not end a line of a text file
LINEBREAKISH = ["\x0b", "\x0c", "\x1c", "\x1d", "\x1e", "\x85", "\u2028", "\u2029"]
# other characters that tend to be special-cased by text handling (NUL, Ctrl-Z, DEL, BOM, zero-width / no-break space)
ODD_CHARS = ["\x00", "\x1a", "\x7f", "\ufeff", "\u200b", "\xa0", "\x1f", "\x08"]
TERMINATORS = ["\n", "\r\n", "\r"]
READER_VIAS = ["list", "iter", "path", "gz"]
CONSUME_STYLES = ["for", "next", "iter", "method", "iter-method"]
UNCHECKED_STYLES = ("next", "method")      # taken from the reader itself: the declared order is not enforced
STYLE_TEXT = {"for": "a for loop", "iter": "iter(reader) and next() on it", "next": "next(reader)", "method": "reader.next()",
              "iter-method": "iter(reader) and .next() on it"}


def inject_chars(rng, lines, chars, n=None):
    """Copies of `lines` with `n` (default 1..3) characters of `chars` inserted at random places (inside a field, at
    the start / end of a field or of a line) of random lines, the column line and pragmas included."""
    out = list(lines)
    if not out:
        return out
    for _ in range(rng.randrange(1, 4) if n is None else n):
        k = rng.randrange(len(out))
        l = out[k]
        body = l.rstrip("\r\n")
        pos = rng.choice([0, len(body), rng.randrange(len(body) + 1), rng.randrange(len(body) + 1)])
        if body.startswith("#") and pos == 0:
            pos = len(body)                        # keep a pragma a pragma
        out[k] = body[:pos] + rng.choice(chars) + body[pos:] + l[len(body):]
    return out


def physical_lines(text):
    """The physical lines of a text file holding `text`: ended by LF, CRLF or a lone CR (what a text-mode handle with
    universal newlines yields), terminators dropped; a final terminator does not start another line."""
    import re
    parts = re.split(r"\r\n|\r|\n", text)
    if parts and parts[-1] == "":
        parts.pop()
    return parts


def text_of(rng, lines, terms=None, final=None):
    """The text of a file whose lines are `lines` (own terminators kept as content of the text), line k ended by a
    terminator drawn from `terms` (default: one style for the whole file, sometimes mixed); the last line is left
    unterminated when `final` is False (default: sometimes)."""
    terms = terms or rng.choice([["\n"], ["\n"], ["\r\n"], ["\r"], TERMINATORS])
    final = (rng.random() < 0.8) if final is None else final
    out = []
    for k, l in enumerate(lines):
        out.append(l)
        if k < len(lines) - 1 or final:
            out.append(rng.choice(terms))
    return "".join(out)


def with_empty_lines(rng, lines, p=0.3):
    """`lines` with empty lines inserted (anywhere: among the pragmas, before / after the column line, in the body, at the end)."""
    out = []
    for l in lines:
        while rng.random() < p * 0.5:
            out.append("")
        out.append(l)
    while rng.random() < p:
        out.append("")
    return out


def file_encoding():
    import locale
    import sys
    return "utf-8" if sys.flags.utf8_mode else locale.getpreferredencoding(False)


def encodable(text):
    try:
        text.encode(file_encoding())
        return True
    except UnicodeError:
        return False


def write_file(tmp, text, gz, name="case"):
    """Writes `text` byte for byte (no newline translation) to a plain or gzip file in directory `tmp`; the path."""
    import gzip
    import os
    path = os.path.join(tmp, name + (".maf.gz" if gz else ".maf"))
    data = text.encode(file_encoding())
    with (gzip.open(path, "wb") if gz else open(path, "wb")) as h:
        h.write(data)
    return path


def given_scheme(req):
    if req.get("given_norestrict") is not None:
        from maflib.schemes import NoRestrictionsScheme
        return NoRestrictionsScheme(column_names=req["given_norestrict"])
    return impl.scheme_by_annotation(req["given"]) if req.get("given") else None


def open_by(via, req, tmp):
    """A MafReader for the request by factory `via`: "list" / "iter" = MafReader(lines=<list / one-shot iterator of req["lines"]>),
    "path" / "gz" = MafReader.reader_from(<plain / gzip file holding req["text"]>).  Raises what the library raises."""
    from maflib.reader import MafReader
    mode, given = impl.MODES[req.get("mode")], given_scheme(req)
    if via in ("path", "gz"):
        return MafReader.reader_from(write_file(tmp, req["text"], via == "gz"), validation_stringency=mode, scheme=given)
    lines = list(req["lines"])
    return MafReader(lines=lines if via == "list" else iter(lines), validation_stringency=mode, scheme=given)


def consume(reader, style, each):
    """Consumes the reader to the end in one of CONSUME_STYLES, calling each(record): "for" = a for loop over the reader,
    "iter" = explicit iter(reader) then next() on it, "next" = next(reader) on the reader itself, "method" / "iter-method" =
    the .next() method of the reader / of iter(reader)."""
    if style == "for":
        it = iter(reader)
        for rec in it:
            each(rec)
        step = lambda: next(it)    # noqa
    else:
        it = iter(reader) if style in ("iter", "iter-method") else reader
        step = it.next if style in ("method", "iter-method") else (lambda: next(it))
        while True:
            try:
                rec = step()
            except StopIteration:
                break
            each(rec)
    # asking again after the end is still iterating: the answer is StopIteration again (anything else propagates to the
    # caller like any other failure of the iteration; a record handed out now is one record too many)
    for _ in range(2):
        try:
            rec = step()
        except StopIteration:
            continue
        each(rec)


def reader_open(req):
    """impl.op_reader_run's answer (same keys, comparable with the model's reader.run answer on content_lines(req)) for a
    reader opened by req["via"] and consumed in style req["consume"]."""
    import shutil
    import tempfile
    from .common import exc_name
    via = req.get("via", "list")
    tmp = tempfile.mkdtemp(prefix="verif_rd_") if via in ("path", "gz") else None
    reader = None
    try:
        with impl.LogCapture() as lc:
            try:
                reader = open_by(via, req, tmp)
            except Exception as e:  # noqa
                return {"init_exc": exc_name(e)}
            out = {"header": impl.header_json(reader.header()), "init_errors": impl.errs_json(reader.validation_errors)}
            sch = reader.scheme()
            out["scheme"] = None if sch is None else {"annotation": sch.annotation_spec(), "names": sch.column_names()}
            recs = []
            exc = None
            try:
                consume(reader, req.get("consume", "for"), lambda rec: recs.append(impl.rec_summary(rec)))
            except Exception as e:  # noqa
                exc = exc_name(e)
            out["records"] = recs
            out["iter_exc"] = exc
            out["errors"] = impl.errs_json(reader.validation_errors)
        out["logs"] = lc.parsed()
        return out
    finally:
        try:
            if reader is not None:
                reader.close()
        except Exception:  # noqa
            pass
        if tmp:
            shutil.rmtree(tmp, ignore_errors=True)


def content_lines(req):
    """The lines the reader of the request is given: the physical lines of the file's text for the path-based
    factories, the lines themselves otherwise."""
    return physical_lines(req["text"]) if req.get("via") in ("path", "gz") else list(req["lines"])


def rerun_in_fresh_process(pid, failure, input_keys):
    """A stored failure whose input passes when evaluated on its own may depend on what the process did before (state the
    library keeps between calls).  Re-runs the recorded generation (tier and seed in failure["_found"]; plain, then with the
    source-change escalation of case counts) in a fresh interpreter and returns the failures of the same kind on the same
    input (the stored one or the one it was shrunk from), [] when there is none."""
    import json
    import subprocess
    import sys
    from .common import VERIF
    found = failure.get("_found") or {"tier": "quick", "seed": 0}
    cands = [failure] + ([failure["_unshrunk"]] if isinstance(failure.get("_unshrunk"), dict) else [])
    targets = [{k: c.get(k) for k in ("kind",) + tuple(input_keys)} for c in cands]
    code = ("import sys, json, importlib\n"
            "sys.path.insert(0, %r)\n"
            "from verif import runner\n"
            "spec = json.loads(sys.stdin.read())\n"
            "mod = importlib.import_module('verif.props.' + spec['pid'].lower())\n"
            "ctx = runner.Ctx(spec['pid'], spec['tier'], spec['seed'])\n"
            "ctx.driver_ok = True\n"
            "ctx.escalate = spec['escalate']\n"
            "out = mod.run(ctx)\n"
            "keys = spec['keys']\n"
            "hit = [f for f in out.failures if any(all(f.get(k) == t.get(k) for k in keys) for t in spec['targets'])]\n"
            "sys.stdout.write('\\n@@RESULT@@' + json.dumps(hit, default=str))\n") % VERIF
    for escalate in ((False,) if found["tier"] == "thorough" else (False, True)):
        spec = {"pid": pid, "tier": found["tier"], "seed": found["seed"], "escalate": escalate,
                "keys": ["kind"] + list(input_keys), "targets": json.loads(json.dumps(targets, default=str))}
        p = subprocess.run([sys.executable, "-c", code], input=json.dumps(spec).encode("utf-8"), stdout=subprocess.PIPE,
                           stderr=subprocess.PIPE, cwd=VERIF)
        text = p.stdout.decode("utf-8", "replace")
        if p.returncode != 0 or "@@RESULT@@" not in text:
            print("re-run of the recorded generation failed: %s" % p.stderr.decode("utf-8", "replace")[-300:])
            return []
        hit = json.loads(text.split("@@RESULT@@", 1)[1])
        print("re-run of the recorded generation (%s tier, seed %s%s) in a fresh process: %d failure(s) of this kind on this input" % (
            found["tier"], found["seed"], ", escalated case counts" if escalate else "", len(hit)))
        if hit:
            return hit
    return []
