"""Column-level case generation shared by C01 / C04 / C05 / C06."""
from . import impl, textgen
from .common import float_table, is_model_text


def class_signatures():
    """(mro names) -> list of (annotation, column name) using a class with that MRO."""
    sigs = {}
    for ann in impl.builtin_annotations():
        sch = impl.scheme_by_annotation(ann)
        for name in sch.column_names():
            cls = sch.column_class(name)
            sig = tuple(c.__name__ for c in cls.__mro__ if c is not object)
            sigs.setdefault(sig, []).append((ann, name))
    return sigs


def pool_for(cls, rng):
    """Type-directed text pool for one column class (by live introspection)."""
    import maflib.column_types as CT
    texts = list(textgen.universal_texts(rng))
    if issubclass(cls, CT.EnumColumn):
        members = [(m.name, m.value) for m in cls.__enum_class__()]
        texts += textgen.enum_texts(rng, members)
    if issubclass(cls, CT.SequenceOfValuesColumn):
        ecls = cls.__column_class__()
        elems = pool_for(ecls, rng)
        texts += textgen.list_texts(rng, [e for e in elems if e and "\t" not in e])
    if issubclass(cls, (CT.IntegerColumn, CT.TranscriptStrand, CT.StringOrIntegerColumn,
                        CT.StringIntegerOrFloatColumn)):
        texts += textgen.int_texts(rng)
    if issubclass(cls, (CT.FloatColumn, CT.StringIntegerOrFloatColumn)):
        texts += textgen.float_texts(rng)
    if issubclass(cls, CT.NullableDnaString):
        texts += textgen.dna_texts(rng)
    if issubclass(cls, CT.UUIDColumn):
        texts += textgen.uuid_texts(rng)
    if issubclass(cls, (CT.Canonical, CT.BooleanColumn)):
        for w in ["yes", "true", "false", "", "yeſ", "falſe", "no", "ye", "yess", "t", "1", "0"]:
            texts += textgen.case_variants(w)
    texts += textgen.string_texts(rng)
    # random mutations of some pool members
    for _ in range(12):
        texts.append(textgen.mutate(rng, rng.choice(texts)))
    seen = set()
    out = []
    for t in texts:
        if t not in seen and is_model_text(t):
            seen.add(t)
            out.append(t)
    return out


def dontcare_numeric(t):
    """Host-parser leniency outside the model: non-ASCII digits/spaces, 4300-digit limit."""
    if len(t) > 4000:
        return True
    return any(ord(c) > 127 and (c.isspace() or c.isdigit() or c.isdecimal() or c.isnumeric()) for c in t)


def dontcare_uuid(t):
    h = t.replace("urn:", "").replace("uuid:", "").strip("{}").replace("-", "")
    if len(h) != 32:
        return False
    return any(c not in "0123456789abcdefABCDEF" for c in h)


def build_req(ann, name, text, idx=None):
    r = {"op": "col.build", "scheme": ann, "col": name, "name": name, "text": text,
         "floats": float_table([text])}
    if idx is not None:
        r["index"] = idx
    return r


_VALID_CACHE = {}


def valid_texts(ann, name, rng):
    """Texts of the pool the implementation currently accepts for this column
    (used for *generation* of mostly-valid lines only, never for a verdict)."""
    key = (ann, name)
    if key not in _VALID_CACHE:
        sch = impl.scheme_by_annotation(ann)
        cls = sch.column_class(name)
        ok = []
        for t in pool_for(cls, rng):
            if "\t" in t or "\n" in t or "\r" in t or dontcare_numeric(t) or dontcare_uuid(t):
                continue
            try:
                col = cls.build(name=name, value=t)
                if not col.validate():
                    ok.append(t)
            except Exception:  # noqa
                pass
        _VALID_CACHE[key] = ok or [""]
    return _VALID_CACHE[key]


def valid_fields(ann, rng, prefer_nonnull=0.7):
    sch = impl.scheme_by_annotation(ann)
    out = []
    for name in sch.column_names():
        vt = valid_texts(ann, name, rng)
        nn = [t for t in vt if t]
        if nn and rng.random() < prefer_nonnull:
            out.append(rng.choice(nn))
        else:
            out.append(rng.choice(vt))
    return out


def line_cases(ann, rng, n):
    """Whole-line cases: valid, k perturbed fields, wrong field counts."""
    sch = impl.scheme_by_annotation(ann)
    names = sch.column_names()
    cases = []
    for _ in range(n):
        fields = valid_fields(ann, rng)
        kind = rng.random()
        if kind < 0.25:
            pass
        elif kind < 0.75:
            for _k in range(rng.choice([1, 1, 1, 2, 3])):
                i = rng.randrange(len(fields))
                cls = sch.column_class(names[i])
                pool = [t for t in pool_for(cls, rng) if "\t" not in t]
                if rng.random() < 0.95:   # keep most lines inside the modelled zone
                    pool = [t for t in pool if not dontcare_numeric(t) and not dontcare_uuid(t)]
                fields[i] = rng.choice(pool)
        elif kind < 0.85:
            k = rng.choice([1, 1, 2, len(fields) - 1, len(fields)])
            fields = fields[:len(fields) - k]
        elif kind < 0.95:
            fields = fields + [rng.choice(["", "x", "1"])] * rng.choice([1, 2])
        else:
            fields[-1] = fields[-1] + rng.choice(["\n", "\r\n", "\r", "\n\n"])
        cases.append("\t".join(fields))
    return cases


def from_line_req(ann, line, mode, lineno):
    pieces = line.rstrip("\r\n").split("\t")
    return {"op": "rec.from_line", "scheme": ann, "line": line, "mode": mode, "lineno": lineno,
            "floats": float_table(pieces)}


def edit_parsed_lists(ann, rng):
    """A piece of process history: a line of the layout whose list columns are (mostly) empty is parsed and the caller
    edits, in place, every list the parsed record hands out (rec[name].value.append(...)).  A record's values belong to
    that record: nothing parsed, written or read afterwards may notice.  -> undo(), which takes the edits back (so that
    a broken library cannot spoil the cases that come after)."""
    from maflib.record import MafRecord
    from maflib.validation import ValidationStringency as VS
    sch = impl.scheme_by_annotation(ann)
    touched = []
    for prefer in (0.0, 0.0, 0.3):
        rec = MafRecord.from_line("\t".join(valid_fields(ann, rng, prefer_nonnull=prefer)), scheme=sch, validation_stringency=VS.Silent)
        for c in rec.values():
            if c is not None and isinstance(c.value, list):
                c.value.append("flagged")
                touched.append(c)

    def undo():
        for c in touched:
            if isinstance(c.value, list) and "flagged" in c.value:
                c.value.remove("flagged")
    return undo
