"""Writes MANIFEST.json from the table below (single source of truth)."""
import json
import os

from .common import VERIF

CLAIMED = {
    "C01": dict(
        technique="Lean 4 proof (operational class-table model = flat domain spec) + regenerated tables + differential correspondence",
        text=("Lean theorems relate the operational model of column parsing/validation (class table regenerated from the source, "
              "C3 MRO, hook chains, from_line) to a flat per-type domain specification for every text; decide-obligations tie every "
              "class of every generated layout to the resolved spec the theorem is about. The hand-written hook bodies are tied to the "
              "code by differential execution on type-directed field pools and whole lines in 3 modes, and the property's own zone "
              "oracle (must-accept / must-reject / don't-care) runs on the implementation."),
        note="FloatHost abstract (graph recorded from CPython each run); host-parser leniency beyond the ASCII grammar is the don't-care zone; hook bodies modelled by hand",
        design="§6 C01"),
    "C04": dict(
        technique="Lean 4 proof (render/parse fixpoint per column type) + differential correspondence + fixpoint oracle on the implementation",
        text=("Per-type Lean lemmas: an accepted text renders to a text that is accepted with the same value, contains no separator and uses the preferred null "
              "spelling (int/uuid round trips proved; float and enum-vocabulary facts are explicit hypotheses, the latter discharged by decide on the regenerated "
              "tables). The implementation is checked directly: parse -> render -> parse -> render on every accepted spelling of the type-directed pools and on whole lines."),
        note="FloatHost laws assumed and checked on the run's graph; one known finding (single-element list of the null member); model hook bodies tied by correspondence",
        design="§6 C04"),
    "C05": dict(
        technique="Lean 4 proof over regenerated scheme definitions (decide +kernel) + field-level non-exposure theorem + parse/writer oracle",
        text=("decide-obligations over the generated definitions: the four public/masked layouts give each germline column a RequireNullValue redefinition of a maskable type and "
              "omit the VCF-only columns; theorems: such a column's domain is exactly its null spelling and the operational model keeps no column object for any other text "
              "(never exposed, non-interference). The implementation is exercised in 3 parse modes and through Strict writers (direct and sorting) with mutated, protected-class and generic columns."),
        note="writer side relies on C06's check for arbitrary API records; record-level lifting of the field theorem is by correspondence",
        design="§6 C05"),
    "C06": dict(
        technique="Lean 4 proof (what Strict validation lets through renders to a line Strict parsing accepts; refusals are the format exception; sorting path through the codec) + __validate__ hook bodies translated from the source each run (PyIR) and proved equal to the model + differential correspondence of API-built records + write-then-read oracle",
        text=("Theorems over the model of MafRecord.validate / MafColumnRecord.validate(scheme) / Writer.write / Writer.close for every record in the PyVal universe (any column class, index, value type): "
              "C06.emitted_line_accepted (a direct Strict writer's emitted line is read back by Strict from_line with no error, for custom, plain and mixed schemes, including sub-class columns through the twin check), "
              "validate_ok_shape, queue_validated, close_lines_accepted, sorted_writer_lines_accepted (a sorting Strict writer fed any mix of accepted and refused records, then closed), nullable_subclass_refused; refusals are PyErr.format. "
              "Tied by col.api / writer.run on records with every deviation kind; the oracle feeds every emitted line to a Strict reader and requires refusals to be the library's format exception with no bytes written. "
              "Tie by translation: the __validate__ method bodies of maflib/column_types.py are translated from the working tree on every run into PyIR terms (Generated/Bodies.lean) and C06Bodies.validate_* "
              "(59 theorems) state that interpreting them - real MRO dispatch, super(), constant hooks of the instance's class - equals the hand model's verdict over the regenerated class table for every value, "
              "for every column class whose hook does not iterate over its value, and - by induction over the interpreter's for loop (C06BodiesDna, 24 theorems) - for NullableDnaString and DnaString, whose hook walks the characters of the value; the interpreter itself is validated against the real methods on every run (body.validate / body.build)."),
        note="the hooks of SequenceOfValuesColumn and its sub-classes (a nested dynamic call per element) are translated, executed and compared on every run, not proved; sorting-path theorems are stated for schemes of custom column types (unrestricted/mixed schemes on the sorting path are covered by the correspondence only); FloatHost laws assumed and checked on the run's graph",
        design="§6 C06"),
    "C08": dict(
        technique="Lean 4 proof (total preorder of the key comparison, operator agreement, totality on well-formed records) + SortOrderKey.compare translated from the source each run (PyIR) and proved equal to the model's cmpKV + differential correspondence",
        text=("Lean theorems on the model of SortOrderKey.compare / _CoordinateKey / _BarcodesAndCoordinateKey: keys built by one (order, contigs) from well-formed records always compare, "
              "the comparison is reflexive, antisymmetric, transitive and total, the six total_ordering operators agree with it, it is the documented lexicographic order with None last, "
              "numeric positions and contig rank, and a chromosome missing from the contig list is ValueError. Tied by comparing all six operators on typed records, scheme-less records and plain locatables. Tie by translation: SortOrderKey.compare is translated from the working tree on every run "
              "(Generated/Bodies.lean) and C08Bodies.compare_eq_cmpKV states that interpreting it equals the model's cmpKV for every pair of components (None last, sign of the difference, TypeError on int vs text)."),
        note="key construction (__init__) and the __cmp__ chains are hand-modelled (translated and executed against the implementation, not proved); Python's str comparison is modelled as code-point lexicographic order",
        design="§6 C08"),
    "C15": dict(
        technique="Lean 4 proof (invariant by induction over edit histories) + differential correspondence of edit histories + coherence oracle",
        text=("The record model (name map + slot list with Python dict/list semantics) carries an invariant proved for the initial record and preserved by every set/add/delete in every addressing form and by the inherited popitem() / clear(); "
              "failed operations leave the record unchanged. The model is tied to MafRecord by replaying random and (thorough) all short edit histories on both and comparing the full observation after every step; "
              "the property's own coherence conditions are evaluated on the implementation through its public API."),
        note="post-hoc mutation of stored column objects is outside the property; object identity is modelled by an oid field",
        design="§6 C15"),
    "C03": dict(
        technique="Lean 4 proof (mode factorisation of the modelled entry points) + three-mode differential runs + relation oracle",
        text=("The model threads the stringency exactly where the code does; theorems (record parsing: C01Record.strict/modes_agree; header: C13.mode_*; reader/validation: Props/C03 when present) "
              "state that Silent and Lenient return the same value and error list, Lenient logs one warning per error, Silent none, and Strict fails with the first collected error or returns the Silent result. "
              "Every generated input is run in the three modes on the implementation and the three relations are evaluated on its own results at five entry points."),
        note="log records are observed through a handler on the 'maflib' logger tree; writer/validation entry points are implementation-side only until Props/C03 lands",
        design="§6 C03"),
    "C07": dict(
        technique="Lean 4 proof (k-way merge of sorted chunks is a sorted permutation; key canonicity) + differential correspondence + direct sortedness/permutation oracle",
        text=("Theorems over the sorter model for every strict-weak key order, capacity >= 1, policy and input: output is a permutation, non-decreasing, its key sequence is independent of capacity / policy / insertion order, "
              "chunk bookkeeping invariants. Tied by running the real Sorter/MafSorter for every capacity 1..n+1, both policies, shuffled insertions, falsy keys and items, three codec configurations."),
        note="heapq/gzip/struct/tempfile are modelled (first-minimal choice; outputs compared as key sequences + multisets)",
        design="§6 C07"),
    "C09": dict(
        technique="Lean 4 proof (order checker = longest non-descending prefix) + differential correspondence through the reader + descent-position oracle",
        text=("Theorems: iterating through the checker yields everything iff keys are non-decreasing, otherwise exactly the prefix before the first descent and ValueError; non-sortable orders never reject; "
              "records that cannot be keyed are skipped. Tied by reading generated files (typed and scheme-less, contigs absent/lexical/karyotypic) with the first descent at every position."),
        note="the documented key order used by the oracle is written directly in Python (C08's expected_cmp)",
        design="§6 C09"),
    "C10": dict(
        technique="Lean 4 proof (composition: sorter output is accepted by the order checker for the same order/contigs) + writer/reader differential runs",
        text=("Theorem C10.own_reader_accepts composes C07 (sorted permutation) with C09 (checker accepts sorted input) over keys built by one (order, contigs); the writer model is tied to MafWriter by comparing "
              "the bytes on the handle after every call; the oracle re-reads each produced file with the library's reader and checks the documented order for every permutation of small multisets."),
        note="single sorted run (n < 10000); the codec round trip is C04's theorem; gzip/handles observed",
        design="§6 C10"),
    "C11": dict(
        technique="Lean 4 proof (loop invariant of the overlap sweep: partition, soundness, completeness, order) + differential correspondence + connected-components oracle",
        text=("Theorems over the literal model of the iterator loop under sorted inputs and closed intervals: slots concatenate to the inputs, groups are non-empty, two records share a group iff a chain of overlaps links them, "
              "groups are emitted in key order. Tied by comparing group structure on random and (thorough) exhaustive small configurations; the oracle computes connected components of the overlap graph. "
              "Tie by translation: the overlap predicate LocatableOverlapIterator.__overlaps is translated from the working tree on every run (Generated/Bodies.lean) and C11Bodies.overlaps_eq / overlaps_barcodeKey / "
              "overlaps_eq_overlapsHead / overlaps_with_barcode_eq(_overlapsHead) state that interpreting both overlap predicates on key objects equals the model's overlapsHead (same chromosome - and barcode pair - and lo.start <= cur.start <= the widened end) for every pair of keys."),
        note="the enforcing/peekable wrappers are observed (out-of-order inputs must raise), not modelled in Lean",
        design="§6 C11"),
    "C12": dict(
        technique="Lean 4 proof (first-input partition and exact filtering) + differential correspondence + direct specification oracle",
        text=("Theorems: the first slot is partitioned into compatibility subgroups (order preserved, each later member matches an earlier one, a new subgroup only when none matches), other slots are exactly the filter of the "
              "positional slot by the emitted subgroup, and the three relations meet their documentation. Tied on C11's configurations with varied ref/alt alleles. Tie by translation: the relation methods AlleleOverlapType.equality / intersects / subset are translated from the working tree on every run (Generated/Bodies.lean) and C12Bodies.relations_eq_model states, by induction over the interpreter's loops, that interpreting them equals the model's AlleleRel.test for all lists of allele texts."),
        note="positional groups come from C11",
        design="§6 C12"),
    "C13": dict(
        technique="Lean 4 proof (line grammar characterisation, print/parse identity, accessor and rule tables) + differential correspondence + grammar oracle",
        text=("77 theorems over the header model: every line is kept or diagnosed with exactly one error of the right category and 1-based index, first duplicate wins, printing a parsed header and parsing it again is the identity, "
              "accessors and header-level rules are decision tables; constants tied to the generated ones by rfl. The implementation is compared with the model and with a directly written grammar; derived-header independence is checked by mutate-and-observe."),
        note="deepcopy aliasing is implementation-side only",
        design="§6 C13"),
    "C16": dict(
        technique="Lean 4 total model with every raising primitive modelled + differential correspondence on adversarial files + exception-kind oracle",
        text=("The reader model is total by construction and models every exception the code can raise; it is compared with MafReader on adversarial files in 3 modes, and the oracle checks that only the format exception (Strict) "
              "or the ordering error (declared sortable order) escape and that one record is yielded per line after the column line. Lean theorems on counts/kinds land in Props/C16."),
        note="lone surrogates are outside the model",
        design="§6 C16"),
    "C17": dict(
        technique="Lean 4 model with ghost origins + compositional error-list oracle + differential correspondence",
        text=("Errors in the model carry the physical index of the line they are about; the implementation's error list of a Silent read is compared with a compositional specification (each line diagnosed alone, numbered by position) "
              "for defects injected at every kind of position. Lean theorems (Props/C17) state line = origin."),
        note="HEADER_MISSING_COLUMN_NAMES refers to the line after the header block",
        design="§6 C17"),
    "C02": dict(
        technique="Lean 4 proof (end-to-end: Writer model -> file lines -> Reader model gives back header, columns, records; second write byte-identical) + writer/reader differential runs + round-trip oracle on every channel and reader route",
        text=("Theorems over the writer and reader models: C02.round_trip_typed (Strict, recognised scheme: same pragmas in order, same column line, same records with equal text and equal typed cells, no errors), C02.rewrite_identical "
              "(writing the re-read content gives the same bytes), C02.round_trip_schemeless (Silent), C02.header_only_file; kernel-checked counterexamples mark the necessary hypotheses. The models are tied to the code by comparing bytes after every call; "
              "the oracle writes, re-reads and re-writes real files through plain paths, .gz paths, handles and the constructor, reads back through every reader route, with parsed and API-built values of every type and headers built by every constructor."),
        note="theorems need values that are the parse of their own text (RecStable; false otherwise: C02.api_value_counterexample, listed as known findings) and LF-free header values; sorting variant not proved in Lean (C10 covers order); gzip / locale encoding are observed",
        design="§6 C02"),
    "C14": dict(
        technique="Lean 4 proof (build loop = declarative resolve; order independence; rejection cases; override MRO) + decide over regenerated definitions + differential runs in many load orders",
        text=("Theorems: build_schemes succeeds iff every definition is grounded and filters exist, the built layout is Spec.resolve (base layout minus filtered, then new columns, redefinitions in place), "
              "permuting the definitions changes nothing, RequireNullValue redefinitions put the null-only validator in front of the inherited chain, duplicate annotations are rejected at the entry point; "
              "all hypotheses are discharged for the shipped definitions by decide +kernel. Random forests with injected defects are loaded in all (small) or many orders on model and implementation."),
        note="class-level identity under an explicit freshness hypothesis on synthesised names (checked for shipped data); un-linearisable redefinitions (Python TypeError) are outside the model",
        design="§6 C14"),
    "C18": dict(
        technique="Lean 4 proof over an effect model of the sorter's spill-file bookkeeping (every workload, every fault position) + exact I/O-trace correspondence under fault injection + leak/propagation oracle on the implementation",
        text=("Model/Resources.lean transcribes Sorter.add/__spill/iteration/close call for call over a resource state (files, descriptors, handles, one-shot fault plan). Theorems for every n, capacity, spill policy, abandonment point and fault position: "
              "C18.no_leak (after close nothing is left), propagates / raised_only_ioErr / raises_only_if_fired (the injected failure reaches the caller, nothing else is raised), clean_run (fault-free: complete sorted output, nothing left), "
              "close_idempotent, close_failure_recoverable (a failed close can be retried), invariant_after_add. Tied by comparing the model's and the implementation's exact I/O call trace for every fault position of each workload; "
              "the oracle inspects the temp directory, descriptors and handles after close(), checks propagation, and runs fault plans the model cannot express (persistent and multiple faults with a retried close, EOFError / zlib errors and real truncation on reads, "
              "a caller that carries on after a failure, sorting writers) on the implementation only."),
        note="the OS really closing/removing, CPython refcounting of abandoned generators, and multi-fault / non-OSError plans are observed on the implementation, not proved; the sorting writer's completeness clause is oracle-only",
        design="§6 C18"),
    "C19": dict(
        technique="Lean 4 proof (look-ahead invariants of reader / overlap / sorter state machines) + instrumented iterators and handles on the implementation",
        text=("Theorems: the reader's pull counter is min(k+1,|lines|)+1+n after n records (C19.reader_lookahead), overlap iteration consumes exactly what it emits (C19Overlap.slot_split, run_pulled_le), the sorter stash stays below capacity "
              "and everything else is in spill files (C07.stash_lt_cap, count, spilled_all_but_fewer_than_cap). The implementation is run over counting iterators, a recording handle and a private temp directory, checking the bound after every step."),
        note="buffering below handle.write() is not observed",
        design="§6 C19"),
    "C20": dict(
        technique="Lean 4 proof over the registry state machine (monotone, failed registration is a no-op, registered definitions resolve and validate like built-ins, built-ins unchanged) + histories replayed on fresh interpreters + first-class oracle",
        text=("Model/Registry.lean: built-in definitions regenerated from the source plus accumulated extras, rebuilt by the proved scheme builder (C14). Theorems: C20.monotone, monotone_history, history_prefix, failed_registration_noop, register_fails_iff, "
              "resolves / registry_finds (every registered definition resolves to a scheme with the declarative layout), first_class / version_accepted / annotation_accepted (header validation treats it as a built-in), builtins_unchanged / layout_unchanged. "
              "Tied by running histories of registrations, lookups, header validation, Strict reads and write/read-back on the model and on a fresh interpreter per history; the oracle checks resolution, layout = base + new - filtered, validation, and that earlier registrations and built-ins survive."),
        note="name shapes of versions/annotations and the Strict read/round-trip steps are implementation-side; theorems assume column names of a definition are distinct and annotations non-empty (checked for the shipped data)",
        design="§6 C20"),
}

PENDING_REASON = "check not built yet in this round (planned, see DESIGN.md §6); not claimed until its check exists and passes on the unchanged tree"


def main():
    props = [json.loads(l) for l in open(os.path.join(VERIF, "properties.jsonl"))]
    checks = []
    na = []
    for p in props:
        pid = p["id"]
        if pid in CLAIMED:
            c = CLAIMED[pid]
            checks.append({
                "property_id": pid,
                "quick_cmd": "/venv/bin/python check.py %s --tier quick" % pid,
                "thorough_cmd": "/venv/bin/python check.py %s --tier thorough" % pid,
                "evidence_file": "evidence/%s.json" % pid,
                "replay_cmd_template": "/venv/bin/python check.py %s --replay {path}" % pid,
                "engine": "lean-maf-model",
                "level_claimed": {"category": c.get("category", "proof"), "text": c["text"], "design_ref": c["design"]},
                "level_note": c["note"],
                "technique": c["technique"],
            })
        else:
            na.append({"property_id": pid, "reason": PENDING_REASON})
    m = {
        "version": 1,
        "setup_cmd": "/venv/bin/python check.py --setup",
        "hooks": {"guard": "MAFLIB_VERIF", "enable": "none needed: all observation is from outside the library (wrappers, logging handler, monkey-patched os/gzip/tempfile in the harness process); the guard name is reserved and unused",
                  "baseline_off_cmd": "cd /repo && /venv/bin/python -m pytest -ra -q -p no:cacheprovider --timeout=900 --continue-on-collection-errors",
                  "source_commits": [], "add_only": True},
        "engines": [{"name": "lean-maf-model", "path": "lean/MafModel",
                     "serves_properties": sorted(CLAIMED),
                     "kind_free_text": "Lean 4 model of maf-lib + theorems (lake), translator verif/gen.py regenerating Generated/*.lean each run, compiled JSON-lines driver, Python differential harness (check.py)"}],
        "checks": checks,
        "notes": "Every check: regenerate Generated/*.lean from /repo, lake build the property's theorems + driver, #print axioms audit, correspondence (model vs implementation), direct property oracle on the implementation, known-findings filter, evidence. Exit 2 = harness timeout/crash (never a VIOLATION line).",
        "not_applicable": na,
    }
    with open(os.path.join(VERIF, "MANIFEST.json"), "w") as h:
        json.dump(m, h, indent=1)
    print("MANIFEST: %d checks, %d not claimed" % (len(checks), len(na)))


if __name__ == "__main__":
    main()
