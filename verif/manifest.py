"""Writes MANIFEST.json from the table below (single source of truth)."""
import json
import os

from .common import VERIF

CLAIMED = {
    "C01": dict(
        technique="Lean 4 proof (operational class-table model = flat domain spec) + regenerated tables + differential correspondence",
        text=("Lean theorems relate the operational model of column parsing/validation (class table regenerated from the source, "
              "C3 MRO, hook chains, from_line) to a flat per-type domain specification for every text; decide-obligations tie every "
              "class of every generated layout to the resolved spec the theorem is about. The hand-written hook bodies are tied to the "
              "code by differential execution on type-directed field pools and whole lines in 3 modes, and the property's own zone "
              "oracle (must-accept / must-reject / don't-care) runs on the implementation."),
        note="FloatHost abstract (graph recorded from CPython each run); host-parser leniency beyond the ASCII grammar is the don't-care zone; hook bodies modelled by hand",
        design="§6 C01"),
}

PENDING_REASON = "check not built yet in this round (planned, see DESIGN.md §6); not claimed until its check exists and passes on the unchanged tree"


def main():
    props = [json.loads(l) for l in open(os.path.join(VERIF, "properties.jsonl"))]
    checks = []
    na = []
    for p in props:
        pid = p["id"]
        if pid in CLAIMED:
            c = CLAIMED[pid]
            checks.append({
                "property_id": pid,
                "quick_cmd": "/venv/bin/python check.py %s --tier quick" % pid,
                "thorough_cmd": "/venv/bin/python check.py %s --tier thorough" % pid,
                "evidence_file": "evidence/%s.json" % pid,
                "replay_cmd_template": "/venv/bin/python check.py %s --replay {path}" % pid,
                "engine": "lean-maf-model",
                "level_claimed": {"category": c.get("category", "proof"), "text": c["text"], "design_ref": c["design"]},
                "level_note": c["note"],
                "technique": c["technique"],
            })
        else:
            na.append({"property_id": pid, "reason": PENDING_REASON})
    m = {
        "version": 1,
        "setup_cmd": "/venv/bin/python check.py --setup",
        "hooks": {"guard": "MAFLIB_VERIF", "enable": "none needed: all observation is from outside the library (wrappers, logging handler, monkey-patched os/gzip/tempfile in the harness process); the guard name is reserved and unused",
                  "baseline_off_cmd": "cd /repo && /venv/bin/python -m pytest -ra -q -p no:cacheprovider --timeout=900 --continue-on-collection-errors",
                  "source_commits": [], "add_only": True},
        "engines": [{"name": "lean-maf-model", "path": "lean/MafModel",
                     "serves_properties": sorted(CLAIMED),
                     "kind_free_text": "Lean 4 model of maf-lib + theorems (lake), translator verif/gen.py regenerating Generated/*.lean each run, compiled JSON-lines driver, Python differential harness (check.py)"}],
        "checks": checks,
        "notes": "Every check: regenerate Generated/*.lean from /repo, lake build the property's theorems + driver, #print axioms audit, correspondence (model vs implementation), direct property oracle on the implementation, known-findings filter, evidence. Exit 2 = harness timeout/crash (never a VIOLATION line).",
        "not_applicable": na,
    }
    with open(os.path.join(VERIF, "MANIFEST.json"), "w") as h:
        json.dump(m, h, indent=1)
    print("MANIFEST: %d checks, %d not claimed" % (len(checks), len(na)))


if __name__ == "__main__":
    main()
