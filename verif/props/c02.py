"""C02 - files written by the library read back identically (plain, gzip, handle)."""
import gzip
import json
import io
import os
import tempfile

from .. import colcases, filecases, impl, sortcases as SC
from ..common import enc_val, exc_name, float_table, has_unmodelled
from ..runner import Outcome
from .c04 import py_eq

LEVEL = "proof"
ASSUMPTIONS = ["gzip / text-mode encoding round-trip the bytes (zlib, UTF-8 locale): observed on every generated file, not proved",
               "a 'record the writer accepts without validation errors' has no TAB/CR/LF inside a field (such records now carry a validation error)"]
CHANNELS = ["plain", "gz", "handle"]
PLAIN_NAMES = ["f.maf", "f.maf", "f.maf", "F.MAF.GZ", "f.maf.Gz", "f.gz.maf", "f.mafgz", "f.maf.gZ", "f.GZ"]


def gen_header(rng, ann):
    """Any pragma the header grammar can carry: non-empty values without trailing blanks or line breaks, keys without blank."""
    lines = ["#version gdc-1.0.0"]
    if ann and ann != "gdc-1.0.0":
        lines.append("#annotation.spec " + ann)
    elif not ann:
        lines.append("#annotation.spec lab-own-spec")
    extra = ["#center broad.mit.edu", "#note several words here", "#n.samples 4", "#weird  two  blanks", "#x:y z=1;2", "#tab\tkey v\tw",
             "#unicode Ünï cødé", "#contigs chr1,chr2,chr10", "#sort.order Unsorted", "#sort.order Unknown", "#k #v", "#url http://x/y?z=1"]
    for e in rng.sample(extra, rng.randrange(0, 5)):
        if not any(l.split(" ")[0] == e.split(" ")[0] for l in lines):
            lines.append(e)
    rng.shuffle(lines)
    return lines


def gen_records(rng, ann, n):
    """Lines accepted under the layout (or arbitrary clean fields when scheme-less)."""
    if ann:
        out = []
        for _ in range(n):
            fields = colcases.valid_fields(ann, rng, prefer_nonnull=rng.choice([0.2, 0.7, 0.95]))
            # empty trailing fields where the layout allows
            out.append("\t".join(fields))
        return out
    names = ["Hugo_Symbol", "Chromosome", "Start_Position", "End_Position", "c5", "c6"]
    return ["\t".join(rng.choice(["", "a", "1", "x y", " lead", "é", "#x", "7;8", "-", "None"]) for _ in names) for _ in range(n)]


def api_touch(rec, rng):
    """Replace the value of some list-valued columns by lists built directly from element values
    (trailing / leading / inner null members, single elements), as the API allows.
    -> the edits made: [[column name, [encoded element values]], ...] (see apply_edits)."""
    import maflib.column_types as CT
    edits = []
    for col in list(rec.values()):
        if col is None or not isinstance(col, CT.SequenceOfValuesColumn) or rng.random() < 0.5:
            continue
        ecls = col.__column_class__()
        if issubclass(ecls, CT.EnumColumn):
            members = list(ecls.__enum_class__())
            vals = [rng.choice(members) for _ in range(rng.randrange(1, 4))]
            if rng.random() < 0.5 and hasattr(ecls.__enum_class__(), "Null"):
                vals.append(ecls.__enum_class__().Null)
            if len(vals) == 1 and str(vals[0]) == "":
                continue      # the known finding (C04): [Null] has no spelling
        elif issubclass(ecls, CT.IntegerColumn):
            vals = [rng.randrange(-5, 50) for _ in range(rng.randrange(1, 4))]
        else:
            vals = [rng.choice(["a", "b c", "x.y", "7"]) for _ in range(rng.randrange(1, 4))]
        col.value = vals
        edits.append([col.key, [enc_val(v) for v in vals]])
    return edits


def apply_edits(rec, edits):
    """Redo the edits api_touch made (replay): the same list values assigned to the same columns."""
    import maflib.column_types as CT
    for key, vals in edits:
        try:
            col = rec[key]
        except KeyError:
            col = None
        if col is None:
            continue
        ecls = col.__column_class__() if isinstance(col, CT.SequenceOfValuesColumn) else None
        if isinstance(vals, dict):        # an edit of api_touch_wide: one encoded value (a list value is {"t": "list", ...})
            col.value = dec_api_value(vals, col, ecls)
            continue
        out = []
        for v in vals:
            if v.get("t") == "enum" and ecls is not None and issubclass(ecls, CT.EnumColumn):
                out.append(ecls.__enum_class__()[v["m"]])
            else:
                out.append(impl.dec_val(v))
        col.value = out


# Input families on which the unchanged library violates the property (reported, not repaired): skipped for now.
#   "int-rendering-is-null-spelling": a non-null value assigned through the API whose rendering is one of the column's null
#       spellings: Entrez_Gene_Id (EntrezGeneId, nullable dict {"0": None}) holding the integer 0 validates without error,
#       a Strict writer emits "0", and every reader returns None for it: typed values differ after the round trip.
PENDING_DEFECTS = {"int-rendering-is-null-spelling": False}


def pending_defect_value(col):
    """The value the column now holds is in a PENDING_DEFECTS family."""
    if PENDING_DEFECTS.get("int-rendering-is-null-spelling"):
        nd = type(col).__nullable_dict__() or {}
        try:
            text = col.__string_it__()
        except Exception:  # noqa
            return False
        if text in nd and not (nd[text] == col.value and type(nd[text]) is type(col.value)):
            return True
    return False


AWKWARD_FLOATS = [10 / 30, 2 / 3, 0.1 + 0.2, 1.1 * 3, 1e-07, 123456.789, 5e-324, 1.7976931348623157e308, 2.0 ** 53 + 2, 1e22, 1e23,
                  0.1, -0.0, 0.0, 1.0, 100.0, 1e16, 1.5e-10, 4.35, 0.1 * 3, 1 / 3 * 1e-5, 2.2250738585072014e-308, 9007199254740993.0,
                  0.30000000000000004, 0.29999999999999993, 1e15 + 0.3, -123456789.12345679]
SORT_COLUMNS = ("Chromosome", "Start_Position", "End_Position", "Tumor_Sample_Barcode", "Matched_Norm_Sample_Barcode")


def api_value(cls, rng):
    """A typed value for a column of class `cls`, as a caller computing it would assign it (never text to be parsed):
    the awkward corners of each type.  None = this class is left alone."""
    import uuid
    import maflib.column_types as CT
    nullable = cls.__nullable_dict__() or {}
    if nullable and rng.random() < 0.15:
        return rng.choice(list(nullable.values()))
    if rng.random() < 0.12:
        # a value of a neighbouring Python type (the column's own validation refuses it at present, and the assignment is
        # then taken back; should validation ever let it through, the writer accepts a value its text does not denote)
        if issubclass(cls, CT.FloatColumn):
            return rng.choice([1, 0, 7, 10 ** 23])
        if issubclass(cls, CT.IntegerColumn):
            return rng.choice([7.0, 2.5, True])
        if issubclass(cls, CT.BooleanColumn):
            return rng.choice([1, 0, "True"])
        if issubclass(cls, CT.UUIDColumn):
            return "12345678-1234-5678-1234-567812345678"
        if issubclass(cls, CT.EnumColumn):
            return str(rng.choice(list(cls.__enum_class__())).value)
    if issubclass(cls, CT.SequenceOfValuesColumn):
        ecls = cls.__column_class__()
        n = rng.choice([0, 1, 1, 2, 3])
        if issubclass(ecls, CT.EnumColumn):
            members = [m for m in ecls.__enum_class__() if str(m.value) != "" and m.name != "Null"]
            return [rng.choice(members) for _ in range(n)]
        if issubclass(ecls, CT.IntegerColumn):
            return [rng.choice([0, 1, 7, 42, 2 ** 40]) for _ in range(n)]
        if issubclass(ecls, CT.NullableStringColumn):
            return [rng.choice(["a", "b c", "x.y", "é", "p.Val600Glu"]) for _ in range(n)]
        return None
    if issubclass(cls, CT.FloatColumn):
        k = rng.random()
        if k < 0.5:
            return rng.choice(AWKWARD_FLOATS)
        if k < 0.7:
            return rng.random()
        if k < 0.85:
            return rng.uniform(-1e6, 1e6)
        return rng.random() * 10.0 ** rng.randrange(-300, 300)
    if issubclass(cls, CT.IntegerColumn):
        return rng.choice([0, 1, 2, 7, 42, 12345, 2 ** 31, 2 ** 63, 10 ** 20])
    if issubclass(cls, CT.UUIDColumn):
        return uuid.UUID(int=rng.getrandbits(128))
    if issubclass(cls, CT.EnumColumn):
        return rng.choice(list(cls.__enum_class__()))
    if issubclass(cls, CT.BooleanColumn):
        return rng.choice([True, False])
    if issubclass(cls, CT.NullableDnaString):
        return rng.choice(["A", "ACGT", "-", "TTTTTTTTTT", "N"])
    if issubclass(cls, CT.NullableStringColumn):
        return rng.choice(["a", "b c", "x.y", "é", "p.Val600Glu", "c.1799T>A", " lead", "#x", "7", "None"])
    return None


def api_touch_wide(rec, rng, scheme, p=0.25):
    """Assign typed values computed by the caller to some columns of any type (floats with long reprs, big integers,
    empty and one-element lists, enum members, UUID objects, booleans, None for nullable columns).  An assignment the
    column's own validation refuses is taken back (such a record is not one the writer accepts: outside the property).
    The columns a sort order reads are left alone.  -> the edits made: [[column name, encoded value], ...]"""
    edits = []
    for col in list(rec.values()):
        if col is None or col.key in SORT_COLUMNS or rng.random() >= p:
            continue
        cls = scheme.column_class(col.key)
        if cls is None or not isinstance(col, cls):
            continue
        v = api_value(cls, rng)
        if v is None and None not in (cls.__nullable_dict__() or {}).values():
            continue
        old = col.value
        col.value = v
        try:
            bad = bool(col.validate(scheme=scheme)) or any(c in str(col) for c in "\t\r\n")
        except Exception:  # noqa
            bad = True
        if bad or pending_defect_value(col):
            col.value = old
            continue
        edits.append([col.key, enc_val(v)])
    return edits


def dec_api_value(j, col, ecls=None):
    """Decode an encoded API value for column `col` (enum members are looked up in the column's own enum class)."""
    import maflib.column_types as CT
    if j.get("t") == "list":
        return [dec_api_value(x, col, ecls) for x in j["v"]]
    if j.get("t") == "enum":
        holder = ecls if ecls is not None else type(col)
        if issubclass(holder, CT.EnumColumn):
            return holder.__enum_class__()[j["m"]]
    return impl.dec_val(j)


class Toucher:
    """API edits of the records offered to the writer: drawn from `rng` (and logged) in a run, or the
    stored ones (per record, in order) in a replay.  `wide`: values of every column type (api_touch_wide)
    instead of list values only (api_touch)."""

    def __init__(self, rng=None, stored=None, wide=None):
        self.rng, self.stored, self.log, self.wide = rng, stored, [], wide

    def __call__(self, k, rec):
        if self.rng is not None and self.wide is not None:
            self.log.append(api_touch_wide(rec, self.rng, self.wide))
        elif self.rng is not None:
            self.log.append(api_touch(rec, self.rng))
        else:
            edits = self.stored[k] if k < len(self.stored) else []
            apply_edits(rec, edits)
            self.log.append(edits)


DERIVED_FROM = {"gdc-1.0.0-public": "gdc-1.0.0-protected", "gdc-2.0.0-aliquot-merged-masked": "gdc-2.0.0-aliquot-merged"}


def derived_header(rng, ann):
    """A header obtained from a reader of a *protected* file and edited in place to name another layout."""
    if not DERIVED_FROM.get(ann):
        return None
    how = rng.choice(["inplace", "setitem"])
    h, lines = make_derived_header(ann, how)
    return h, lines, how


def make_derived_header(ann, how):
    from maflib.header import MafHeader, MafHeaderAnnotationSpecRecord
    from maflib.reader import MafReader
    src = DERIVED_FROM[ann]
    names = impl.scheme_by_annotation(src).column_names()
    reader = MafReader(lines=["#version gdc-1.0.0", "#annotation.spec " + src, "#center x", "\t".join(names)])
    reader.header().validate()
    h = MafHeader.from_reader(reader)
    h.validate()
    if how == "inplace":
        h["annotation.spec"].value = ann
    else:
        h["annotation.spec"] = MafHeaderAnnotationSpecRecord(value=ann)
    return h, ["#version gdc-1.0.0", "#annotation.spec " + ann, "#center x"]


def api_record(names, row):
    """A scheme-less record assembled through the API: MafRecord() + MafColumnRecord(name, value, index) per column."""
    from maflib.column import MafColumnRecord
    from maflib.record import MafRecord
    rec = MafRecord()
    for k, (n, v) in enumerate(zip(names, row)):
        rec.add(MafColumnRecord(n, impl.dec_val(v), k))
    return rec


def not_canonical(col):
    """The value the column holds is not what parsing the column's own text gives (another value or another type):
    type(col).build(name, str(col)).value != col.value.  Only values assigned through the API can be so."""
    if col is None:
        return False
    try:
        c2 = type(col).build(name=col.key, value=str(col))
        return bool(c2.value != col.value or type(c2.value) is not type(col.value))
    except Exception:  # noqa
        return True


def diff_position(a_lines, b_lines):
    """(index of the first differing line, index of its first differing field) of two lists of tab-separated lines."""
    for j, (a, b) in enumerate(zip(a_lines, b_lines)):
        if a != b:
            fa, fb = a.split("\t"), b.split("\t")
            for k, (x, y) in enumerate(zip(fa, fb)):
                if x != y:
                    return j, k
            return j, min(len(fa), len(fb))
    return (min(len(a_lines), len(b_lines)), None) if len(a_lines) != len(b_lines) else (None, None)


def write_file(channel, header_lines, recs, scheme, names, mode, tmp, header_obj=None, touch=None, api_rows=None):
    """`recs`: the lines the offered records are parsed from - or, with `api_rows` (scheme-less), ignored: the records
    are assembled from the rows of encoded values.  Channels: plain / gz (MafWriter.from_path), handle (MafWriter.from_fd
    on a caller handle), ctor (the MafWriter constructor on a caller handle)."""
    from maflib.header import MafHeader
    from maflib.record import MafRecord
    from maflib.validation import ValidationStringency as VS
    from maflib.writer import MafWriter
    h = header_obj if header_obj is not None else MafHeader.from_lines(header_lines, validation_stringency=VS.Silent)
    # the name decides the compression on both sides (from_path and reader_from): exactly the suffix ".gz" means gzip, and
    # names that merely look like it (other letter case, the suffix elsewhere) are plain files for the writer AND the reader
    import zlib
    pick = zlib.crc32(repr((header_lines, recs if api_rows is None else api_rows)).encode("utf-8", "replace"))
    path = os.path.join(tmp, "f.maf.gz" if channel == "gz" else PLAIN_NAMES[pick % len(PLAIN_NAMES)])
    written = []
    noncanon = []
    if channel in ("handle", "ctor"):
        buf = io.StringIO()
        keep = {}
        orig_close = buf.close
        buf.close = lambda: keep.setdefault("text", buf.getvalue())
        w = MafWriter.from_fd(buf, h, validation_stringency=mode) if channel == "handle" else MafWriter(buf, h, validation_stringency=mode)
    else:
        w = MafWriter.from_path(path, h, validation_stringency=mode)
    for k, line in enumerate(recs if api_rows is None else api_rows):
        if api_rows is not None:
            rec = api_record(names, line)
        else:
            rec = MafRecord.from_line(line, scheme=scheme, column_names=names, validation_stringency=VS.Silent)
        if touch is not None:
            touch(k, rec)
        written.append((str(rec), [enc_val(v) for v in rec.column_values()]))
        noncanon.append([not_canonical(c) for c in rec.values()] if (touch is not None and scheme is not None) else None)
        w += rec
    # the caller owns the handle of the handle channels: a non-sorting writer has passed every record on when write()
    # returned, so a caller that reads its handle without ever closing the writer (a with-block around the handle, a
    # StringIO read by getvalue()) sees the whole file
    if channel in ("handle", "ctor") and pick % 3 == 0 and getattr(w, "_sorter", None) is None:
        keep.setdefault("text", buf.getvalue())
    else:
        w.close()
    write_file.last_written = written
    write_file.last_noncanonical = noncanon
    if channel in ("handle", "ctor"):
        return keep["text"], None
    with open(path, "rb") as f:
        magic = f.read(2)
    if magic == b"\x1f\x8b":       # what is on disk decides how the harness looks at it, not the name
        with gzip.open(path, "rt") as f:
            text = f.read()
    else:
        with open(path, "r", newline="") as f:
            text = f.read()
    return text, path


def read_back(channel, text, path, mode):
    from maflib.reader import MafReader
    if channel in ("handle", "ctor"):
        rd = MafReader(lines=io.StringIO(text), validation_stringency=mode)
    else:
        rd = MafReader.reader_from(path, validation_stringency=mode)
    hdr = [(k, str(rd.header()[k])) for k in rd.header()]
    recs = list(rd)
    rd.close()
    return hdr, rd.scheme().column_names() if rd.scheme() else None, recs, rd


READ_ROUTES = ["list", "list-nl", "iter", "handle", "path", "gz", "open-file"]


def read_back_via(route, text, tmp, mode):
    """The written text read by another public way of opening a reader than the channel's own: MafReader over the list
    of its lines (bare / with their LF), a generator, a text handle, an open file object; reader_from on a plain / .gz
    copy of it."""
    from maflib.reader import MafReader
    lines = text.split("\n")
    if lines and lines[-1] == "":
        lines.pop()
    closeable = None
    if route == "list":
        rd = MafReader(lines=lines, validation_stringency=mode)
    elif route == "list-nl":
        rd = MafReader(lines=[l + "\n" for l in lines], validation_stringency=mode)
    elif route == "iter":
        rd = MafReader(lines=(l for l in lines), validation_stringency=mode)
    elif route == "handle":
        rd = MafReader(lines=io.StringIO(text), validation_stringency=mode)
    else:
        path = os.path.join(tmp, "copy.maf" + (".gz" if route == "gz" else ""))
        if route == "gz":
            with gzip.open(path, "wt", newline="", encoding="utf-8") as f:
                f.write(text)
        else:
            with open(path, "w", newline="", encoding="utf-8") as f:
                f.write(text)
        if route == "open-file":
            closeable = open(path, "r", newline="\n", encoding="utf-8")
            rd = MafReader(lines=closeable, closeable=closeable, validation_stringency=mode)
        else:
            rd = MafReader.reader_from(path, validation_stringency=mode)
    hdr = [(k, str(rd.header()[k])) for k in rd.header()]
    recs = list(rd)
    rd.close()
    return hdr, rd.scheme().column_names() if rd.scheme() else None, recs, rd


NO_SCHEME_NAMES = ["Hugo_Symbol", "Chromosome", "Start_Position", "End_Position", "c5", "c6"]


# ------------------------------------------------------------------ headers by every public route
EXTRA_PRAGMAS = ["#center broad.mit.edu", "#note several words here", "#n.samples 4", "#weird  two  blanks", "#x:y z=1;2", "#tab\tkey v\tw",
                 "#unicode Ünï cødé", "#k #v", "#url http://x/y?z=1", "#filedate 2020-01-01"]
CONTIG_LISTS = [["chr1", "chr2", "chr10"], ["1", "2", "10", "X"], ["chr2", "chr1", "chrX"], ["chrM"]]
ORDERS = [None, None, "Unsorted", "Unknown", "Coordinate", "Coordinate", "BarcodesAndCoordinate"]
HEADER_ROUTES = ["assembled", "assembled-ctor", "defaults", "defaults-fai", "from_reader", "line_reader", "from_lines"]


def _pragma_record(line, contigs=None, ctor=False):
    """One header record: parsed from its line, or (ctor) made with the record classes' own constructors."""
    from maflib.header import (MafHeader, MafHeaderAnnotationSpecRecord, MafHeaderContigRecord, MafHeaderRecord,
                               MafHeaderSortOrderRecord, MafHeaderVersionRecord)
    if not ctor:
        rec, err = MafHeaderRecord.from_line(line)
        assert err is None, line
        return rec
    key, value = line[1:].split(" ", 1)
    if key == MafHeader.VersionKey:
        return MafHeaderVersionRecord(value=value)
    if key == MafHeader.AnnotationSpecKey:
        return MafHeaderAnnotationSpecRecord(value=value)
    if key == MafHeader.SortOrderKey:
        return MafHeaderSortOrderRecord(value=value, contigs=list(contigs) if contigs else None)
    if key == MafHeader.ContigKey:
        return MafHeaderContigRecord(value=value.split(","))
    return MafHeaderRecord(key=key, value=value)


def build_header(spec, tmp):
    """The header object of a case, obtained by the public route the spec names:
      assembled / assembled-ctor  MafHeader() + header[key] = record, in the order of spec["lines"]
      from_lines / line_reader    MafHeader.from_lines(lines) / MafHeader.from_line_reader(LineReader over the text)
      defaults / defaults-fai     MafHeader.from_defaults(version, annotation, sort_order (name or object), contigs or a
                                  .fai file) + the extra pragmas set afterwards
      from_reader                 MafHeader.from_reader(reader over spec["src"] + a column line, overrides) + extras"""
    from maflib.header import MafHeader
    from maflib.reader import MafReader
    from maflib.util import LineReader
    from maflib.validation import ValidationStringency as VS
    route = spec["route"]
    if route in ("assembled", "assembled-ctor"):
        contigs = next((l.split(" ", 1)[1].split(",") for l in spec["lines"] if l.startswith("#contigs ")), None)
        h = MafHeader()
        for l in spec["lines"]:
            rec = _pragma_record(l, contigs, ctor=(route == "assembled-ctor"))
            h[rec.key] = rec
        return h
    if route == "from_lines":
        return MafHeader.from_lines(list(spec["lines"]), validation_stringency=VS.Silent)
    if route == "line_reader":
        text = "".join(l + "\n" for l in spec["lines"]) + "not a header line\n"
        return MafHeader.from_line_reader(LineReader(io.StringIO(text)), validation_stringency=VS.Silent)
    so = spec.get("sort_order")
    if so is not None and spec.get("sort_as") == "object":
        so = SC.order_obj(so, None)
    kw = {"version": spec.get("version"), "annotation": spec.get("annotation"), "sort_order": so}
    if route in ("defaults-fai", "from_reader") and spec.get("fai"):
        fai = os.path.join(tmp, "ref.fa.fai")
        with open(fai, "w") as f:
            f.write("".join("%s\t%d\t%d\t60\t61\n" % (c, 1000 + k, 7 * k) for k, c in enumerate(spec["fai"])))
        kw["fasta_index"] = fai
    elif spec.get("contigs"):
        kw["contigs"] = list(spec["contigs"])
    if route in ("defaults", "defaults-fai"):
        h = MafHeader.from_defaults(**kw)
    elif route == "from_reader":
        src_scheme = MafHeader.from_lines(list(spec["src"]), validation_stringency=VS.Silent).scheme()
        col = "\t".join(src_scheme.column_names()) if src_scheme is not None else "\t".join(NO_SCHEME_NAMES)
        reader = MafReader(lines=list(spec["src"]) + [col], validation_stringency=VS.Silent)
        h = MafHeader.from_reader(reader, **kw)
    else:
        raise ValueError("unknown header route %r" % route)
    for l in spec.get("extra", []):
        rec = _pragma_record(l)
        h[rec.key] = rec
    return h


def gen_header_spec(rng, ann):
    """A header over the pragma grammar (version / annotation as the layout needs - or an unrecognised pair for a scheme-less
    file -, optional sort order and contig list in any relative position, other pragmas around them) and the route it
    reaches the writer by."""
    sch = impl.scheme_by_annotation(ann) if ann else None
    if sch is not None:
        version, annotation = sch.version(), (None if sch.is_basic() else ann)
    else:
        version, annotation = rng.choice([("gdc-1.0.0", "lab-own-spec"), ("gdc-1.0.0", "lab-own-spec"), (None, None), ("my-1.0", None)])
    order = rng.choice(ORDERS)
    contigs = rng.choice(CONTIG_LISTS) if rng.random() < (0.7 if order in ("Coordinate", "BarcodesAndCoordinate") else 0.25) else None
    extra = rng.sample(EXTRA_PRAGMAS, rng.randrange(0, 4))
    route = rng.choice(HEADER_ROUTES)
    special = (["#sort.order " + order] if order else []) + (["#contigs " + ",".join(contigs)] if contigs else [])
    ident = (["#version " + version] if version else []) + (["#annotation.spec " + annotation] if annotation else [])
    if route in ("assembled", "assembled-ctor", "from_lines", "line_reader"):
        lines = ident + special + extra
        rng.shuffle(lines)
        return {"route": route, "lines": lines}, order, contigs
    spec = {"route": route, "version": version, "annotation": annotation, "sort_order": order,
            "sort_as": rng.choice(["name", "object"]), "extra": extra}
    if route == "defaults-fai":
        if contigs:
            spec["fai"] = contigs
    elif contigs:
        spec["contigs"] = contigs
    if route == "from_reader":
        # the source file's own header: the same or the protected layout, perhaps already carrying an order / contigs / pragmas
        src_ann = DERIVED_FROM.get(ann, ann) if (ann and rng.random() < 0.5) else ann
        src_sch = impl.scheme_by_annotation(src_ann) if src_ann else None
        if src_sch is not None:
            src = ["#version " + src_sch.version()] + ([] if src_sch.is_basic() else ["#annotation.spec " + src_ann])
        else:
            src = ident[:] or ["#center somewhere"]
        src += rng.sample(EXTRA_PRAGMAS, rng.randrange(0, 3))
        if rng.random() < 0.5:
            src.append("#sort.order " + rng.choice(["Unsorted", "Coordinate", "BarcodesAndCoordinate"]))
        if rng.random() < 0.3:
            src.append("#contigs " + ",".join(rng.choice(CONTIG_LISTS)))
        rng.shuffle(src)
        spec["src"] = src
        spec["extra"] = [l for l in extra if not any(x.split(" ")[0] == l.split(" ")[0] for x in src)]
        if src_ann == ann and rng.random() < 0.5:
            spec["version"] = spec["annotation"] = None       # nothing to override
        if rng.random() < 0.3 and contigs:
            spec["fai"] = spec.pop("contigs")
    return spec, order, contigs


def gen_located_records(rng, ann, n, contigs):
    """Accepted lines under `ann` that are in every declared order at once: one chromosome (a member of the contig list
    when there is one), one pair of barcodes, non-decreasing start and end."""
    names = impl.scheme_by_annotation(ann).column_names()
    chrom = rng.choice(contigs) if contigs else rng.choice(["chr1", "1", "X", "chr10"])
    out, pos = [], rng.randrange(1, 1000)
    for _ in range(n):
        fields = colcases.valid_fields(ann, rng, prefer_nonnull=rng.choice([0.2, 0.7, 0.95]))
        pos += rng.randrange(0, 500)

        def put(name, v):
            if name in names:
                fields[names.index(name)] = v
        put("Chromosome", chrom)
        put("Start_Position", str(pos))
        put("End_Position", str(pos + 10))
        put("Tumor_Sample_Barcode", "TCGA-T1")
        put("Matched_Norm_Sample_Barcode", "TCGA-N1")
        out.append("\t".join(fields))
    return out


NO_SCHEME_NAME_SETS = [NO_SCHEME_NAMES, ["only"], ["a", "b"], ["c1", "c2", "c3", "c4", "c5", "c6", "c7", "c8"], ["Hugo_Symbol", "x y", "#z"]]
NO_SCHEME_VALUES = ["", "", "a", "1", "x y", " lead", "trail ", "é", "#x", "7;8", "-", "None", " ", "0.30000000000000004"]


def gen_rows(rng, names, n):
    """Scheme-less rows (texts): any clean field texts; rows whose fields are all empty at any position of the file."""
    rows = []
    for _ in range(n):
        k = rng.random()
        if k < 0.25:
            rows.append([""] * len(names))
        elif k < 0.4:
            rows.append([rng.choice(["", "", "", "a"]) for _ in names])
        else:
            rows.append([rng.choice(NO_SCHEME_VALUES) for _ in names])
    return rows


def eval_roundtrip(case, tmp, toucher=None):
    """One case on the implementation: write, read back, compare, write again (the property's oracle).

    case = {"scheme": annotation or None, "header": header lines, "lines": the generated data lines,
            "channel": plain|gz|handle|ctor, "derived": None|"inplace"|"setitem" (header taken from a reader of the protected
            file and edited to name `scheme`), "edits": None or the API edits per record,
            optional: "header_spec" (the public route the header object is obtained by, see build_header; the pragmas that
            must come back are the ones the object lists when it is handed to the writer), "names" (scheme-less column
            names), "rows" (scheme-less records assembled through the API from these rows of encoded values, instead of
            being parsed from "lines"), "read_routes" (further reader entry points the written text is read back by)}.
    `toucher` draws (run) or re-applies (replay) the API edits; case["edits"] is filled in with what was applied."""
    from maflib.header import MafHeader
    from maflib.record import MafRecord
    from maflib.validation import ValidationStringency as VS
    ann, channel, header_lines = case["scheme"], case["channel"], case["header"]
    scheme = impl.scheme_by_annotation(ann) if ann else None
    names = None if ann else (case.get("names") or NO_SCHEME_NAMES)
    mode = VS.Strict if ann else VS.Silent
    rows = case.get("rows")
    # the records offered to the writer: parsed from generated lines (or assembled from rows); their text is what must come back
    if rows is not None:
        recs = [str(api_record(names, r)) for r in rows]
    else:
        recs = [str(MafRecord.from_line(l, scheme=scheme, column_names=names, validation_stringency=VS.Silent))
                for l in case["lines"]]
    where = {"header": header_lines, "scheme": ann, "records": [r[:120] for r in recs], "channel": channel}
    hobj = None
    expected_hdr = None
    if case.get("derived"):
        hobj, _lines = make_derived_header(ann, case["derived"])
        where["header"] = header_lines
        where["header_source"] = "from_reader + %s edit of annotation.spec" % case["derived"]
    elif case.get("header_spec"):
        hobj = build_header(case["header_spec"], tmp)
        expected_hdr = [(k, str(hobj[k])) for k in hobj]
        header_lines = where["header"] = [t for _k, t in expected_hdr]
        where["header_source"] = case["header_spec"]["route"]
    e = {"failures": [], "status": "done", "where": where, "recs": recs, "names": names, "text": None, "header_lines": header_lines}
    fails = e["failures"]

    def fail(**kw):
        if not scheme and recs and names and names[0].startswith("#"):
            # the column-name line the writer emits for this column set starts with the header line symbol
            kw["first_column_starts_with_hash"] = True
        fails.append(dict(where, case=dict(case, edits=list(toucher.log) if toucher is not None else None), **kw))

    def api_marks(j, k, got=None):
        """Fields describing column k of offered record j when it holds an API-assigned value (recognised scheme)."""
        if not scheme or noncanon is None or j is None or k is None or j >= len(noncanon) or noncanon[j] is None or k >= len(noncanon[j]):
            return {}
        name = scheme.column_names()[k] if k < len(scheme.column_names()) else None
        m = {"column": name, "column_class": scheme.column_class(name).__name__ if name else None, "record_index": j,
             "written_value": offered[j][1][k], "written_text": offered[j][0].split("\t")[k],
             "api_value_not_canonical": bool(noncanon[j][k])}
        if got is not None and j < len(got):
            vals = [enc_val(v) for v in got[j].column_values()]
            m["reread_value"] = vals[k] if k < len(vals) else None
        return m
    noncanon = offered = None
    try:
        text, path = write_file(channel, header_lines, recs, scheme, names, mode, tmp, header_obj=hobj, touch=toucher, api_rows=rows)
        if toucher is not None:
            recs = e["recs"] = [t for t, _v in write_file.last_written]
            where["records"] = [r[:120] for r in recs]
            where["api_values"] = True
    except Exception as x:  # noqa
        # not accepted by the writer: outside the property (must be the format exception though)
        e["status"] = "writer-refused: " + exc_name(x)
        if not exc_name(x).startswith("MafFormatException"):
            fail(what="writing failed with %s" % exc_name(x), kind="write-exception")
        return e
    e["text"] = text
    offered = list(write_file.last_written)
    noncanon = list(write_file.last_noncanonical)
    if expected_hdr is None:
        h0 = MafHeader.from_lines(header_lines, validation_stringency=VS.Silent)
        expected_hdr = [(k, str(h0[k])) for k in h0]
    want_cols = scheme.column_names() if scheme else (names if recs else None)

    def judge(hdr, cols, got, rd, via=""):
        if hdr != expected_hdr:
            fail(what="header pragmas differ after the round trip" + via, kind="header", expected=expected_hdr, got=hdr)
        if cols != want_cols:
            fail(what="column-name line differs after the round trip" + via, kind="columns", expected=want_cols, got=cols)
        if [str(r) for r in got] != recs:
            j, k = diff_position(recs, [str(r) for r in got])
            fail(what="records differ (text or order) after the round trip" + via, kind="records",
                 expected=recs, got=[str(r) for r in got], **api_marks(j, k, got))
        elif scheme:
            for j, ((line, a), r) in enumerate(zip(offered, got)):
                b = [enc_val(v) for v in r.column_values()]
                bad = [k for k, (x, y) in enumerate(zip(a, b)) if not py_eq(x, y) and not (x.get("t") == "float" and x["v"] == "nan")]
                if bad:
                    k = bad[0]
                    fail(what="typed values differ after the round trip" + via, kind="values",
                         **dict({"column": scheme.column_names()[k], "column_class": scheme.column_class(scheme.column_names()[k]).__name__,
                                 "record_index": j, "written_value": a[k], "written_text": line.split("\t")[k], "reread_value": b[k]},
                                **api_marks(j, k, got)))
                    break
        if rd.validation_errors and mode == VS.Strict:
            fail(what="re-reading reported validation errors" + via, kind="reread-errors")
    try:
        hdr, cols, got, rd = read_back(channel, text, path, mode)
    except Exception as x:  # noqa
        e["status"] = "read-back failed: " + exc_name(x)
        fail(what="reading the written file back failed with %s" % exc_name(x), kind="read-back", text=text[:300])
        return e
    e["read"] = {"header": hdr, "columns": cols, "records": [str(r) for r in got]}
    judge(hdr, cols, got, rd)
    for route in case.get("read_routes") or []:
        via = " (read back through reader route '%s')" % route
        try:
            judge(*read_back_via(route, text, tmp, mode), via=via)
        except Exception as x:  # noqa
            fail(what="reading the written file back failed with %s%s" % (exc_name(x), via), kind="read-back", text=text[:300])
    # writing the re-read content again is byte-identical
    try:
        if case.get("header_spec"):       # the re-read content as the reader holds it: its header object, its records
            text2, _p = write_file(channel, None, [str(r) for r in got], scheme, cols if not scheme else None, mode, tmp, header_obj=rd.header())
        else:
            text2, _p = write_file(channel, [s for _k, s in hdr], [str(r) for r in got], scheme, names, mode, tmp)
        if text2 != text:
            i, k = diff_position(text.split("\n"), text2.split("\n"))
            n_head = len(text.split("\n")) - 1 - len(recs)          # pragma lines + the column-name line
            fail(what="writing the re-read content again is not byte-identical", kind="rewrite",
                 first=text[:200], second=text2[:200], **(api_marks(i - n_head, k, got) if i is not None and i >= n_head else {}))
    except Exception as x:  # noqa
        fail(what="re-writing failed with %s" % exc_name(x), kind="rewrite")
    return e


def model_req(ann, header_lines, recs, names):
    """writer.run request for the model: the same header and records through a caller handle."""
    fields = [p for l in recs for p in l.split("\t")]
    ops = [{"k": "write", "rec": {"parse": ({"line": l, "scheme": ann} if ann else {"line": l, "names": names})}} for l in recs] + [{"k": "close"}]
    return {"op": "writer.run", "header_lines": header_lines, "mode": "Strict" if ann else "Silent", "assume_sorted": True,
            "ops": ops, "floats": float_table(fields)}


def model_text(m):
    return m["steps"][-1]["out"] if "steps" in m and m["steps"] else m.get("init_out")


def run(ctx):
    out = Outcome()
    out.rule = ("headers over the pragma grammar (inner blanks, odd characters, the special keys) x recognised layouts (Strict) or scheme-less column sets (Silent) x 0-4 accepted records "
                "(empty trailing fields, null spellings, list- and enum-valued columns) x three channels (plain path, .gz path, caller handle); write, read back, write again; "
                "second family: the header object obtained by every public route (assembled from parsed / constructed records, from_lines, from_line_reader, from_defaults + pragmas, "
                "from_reader + overrides; sort order and contigs anywhere) x every layout with typed API values in columns of every type (floats needing 17 digits, big integers, empty lists, "
                "None) or scheme-less sets of 1-8 columns with parsed / API-assembled rows (all-empty rows anywhere) x four channels (+ the constructor) x further read-back routes; "
                "non-trivial = at least one record; distinct (header, records, channel)")
    rng = ctx.rng("c02")
    reqs = []
    with tempfile.TemporaryDirectory() as tmp:
        for _ in range(ctx.scale(150, 2500)):
            ann = rng.choice([None, "gdc-1.0.0", "gdc-1.0.0-public", "gdc-1.0.0-public", "gdc-2.0.0-aliquot-merged-masked", "gdc-1.0.0-genie"])
            header_lines = gen_header(rng, ann)
            lines = gen_records(rng, ann, rng.randrange(0, 5))
            channel = rng.choice(CHANNELS)
            out.evaluations += 1
            how = None
            if ann in ("gdc-1.0.0-public", "gdc-2.0.0-aliquot-merged-masked") and rng.random() < 0.5:
                dh = derived_header(rng, ann)
                if rng.random() < 0.5:
                    lines = []          # a header-only file
                if dh:
                    _hobj, header_lines, how = dh
            toucher = Toucher(rng=rng) if (ann and rng.random() < 0.4) else None
            case = {"scheme": ann, "header": header_lines, "lines": lines, "channel": channel, "derived": how, "edits": None}
            e = eval_roundtrip(case, tmp, toucher)
            out.failures += e["failures"]
            if e["text"] is None:
                out.distribution["writer-refused"] += 1
                continue
            if "read" not in e:
                continue
            where, recs, text = e["where"], e["recs"], e["text"]
            out.distribution["channel:" + channel] += 1
            if recs:
                out.nontrivial.add(repr(where))
            if len(out.samples) < 3 and recs:
                out.sample({"header": header_lines, "scheme": ann, "channel": channel, "n_records": len(recs), "bytes": len(text)})
            # correspondence: the model writes the same bytes and reads them back the same way
            if channel == "handle" and len(reqs) < ctx.scale(60, 600):
                reqs.append((model_req(ann, header_lines, recs, e["names"]), text))
        route_cases(ctx, out, reqs, tmp)
        union_value_cases(ctx, out, tmp)
        hash_column_cases(ctx, out, tmp)
        reuse_cases(ctx, out, tmp)
        edited_list_history_cases(ctx, out, tmp)
    mo = ctx.driver.run([r for r, _ in reqs])
    for (r, text), m in zip(reqs, mo):
        if has_unmodelled(m):
            out.unmodelled += 1
            continue
        mt = model_text(m)
        if "init_exc" in m or mt != text:
            fields = [p for o in r["ops"] if o["k"] == "write" for p in o["rec"]["parse"]["line"].split("\t")]
            if any(colcases.dontcare_numeric(p) or colcases.dontcare_uuid(p) for f in fields for p in [f] + f.split(";")):
                out.dontcare += 1
            else:
                out.disagreements.append({"op": "writer.run", "header": r["header_lines"], "model": (m.get("init_exc") or mt[-200:]), "impl": text[-200:]})
    return out


def eval_roundtrip_after(case, tmp, toucher=None):
    """eval_roundtrip after the piece of process history the case names (case["history"]): "parsed-lists-edited" = a
    parsed record's list values were edited in place earlier in the process (colcases.edit_parsed_lists)."""
    import random
    undo = colcases.edit_parsed_lists(case["scheme"], random.Random(7)) if case.get("history") == "parsed-lists-edited" else (lambda: None)
    try:
        return eval_roundtrip(case, tmp, toucher)
    finally:
        undo()


def edited_list_history_cases(ctx, out, tmp):
    """Round trips of records whose list columns the caller sets to lists of its own (here: empty ones), after a parsed
    record's lists were edited in place: what comes back is what was supplied."""
    import maflib.column_types as CT
    rng = ctx.rng("c02-edited-lists")
    layouts = [a for a in impl.builtin_annotations()
               if any(issubclass(impl.scheme_by_annotation(a).column_class(n), CT.SequenceOfValuesColumn) for n in impl.scheme_by_annotation(a).column_names())]
    for ann in rng.sample(layouts, min(len(layouts), ctx.scale(4, len(layouts)))):
        sch = impl.scheme_by_annotation(ann)
        listcols = [n for n in sch.column_names() if issubclass(sch.column_class(n), CT.SequenceOfValuesColumn)]
        lines = ["\t".join(colcases.valid_fields(ann, rng, prefer_nonnull=0.5)) for _ in range(2)]
        edits = [[[n, []] for n in listcols] for _ in lines]
        case = {"scheme": ann, "header": ["#version " + sch.version(), "#annotation.spec " + ann], "lines": lines, "channel": rng.choice(CHANNELS),
                "derived": None, "edits": None, "history": "parsed-lists-edited"}
        out.evaluations += 1
        e = eval_roundtrip_after(case, tmp, Toucher(stored=edits))
        out.failures += e["failures"]
        out.distribution["round trip after a parsed record's lists were edited in place"] += 1
        if e.get("recs"):
            out.nontrivial.add(repr((ann, "parsed-lists-edited", lines)))


def route_cases(ctx, out, reqs, tmp):
    """The same oracle with the header reaching the writer by every public route (direct assembly from parsed or constructed
    records, from_lines, from_line_reader, from_defaults + further pragmas, from_reader with overrides; sort order and
    contig list in any relative position), every layout, typed values assigned through the API to columns of every type,
    scheme-less column sets of 1-8 columns with rows parsed or assembled through the API (all-empty rows anywhere), the
    four writer channels, and the written text read back by further reader entry points."""
    from maflib.sort_order import Coordinate
    rng = ctx.rng("c02-routes")
    layouts = impl.builtin_annotations()
    n_model = 0
    for _ in range(ctx.scale(120, 2000)):
        ann = rng.choice([None, None, None] + layouts[:ctx.scale(6, len(layouts))])
        spec, _order, _contigs = gen_header_spec(rng, ann)
        out.evaluations += 1
        case = {"scheme": ann, "header": [], "lines": [], "channel": rng.choice(impl.WRITER_CHANNELS), "derived": None, "edits": None,
                "header_spec": spec, "names": None, "rows": None, "read_routes": rng.sample(READ_ROUTES, rng.choice([0, 1, 1, 2]))}
        try:
            h = build_header(spec, tmp)
        except Exception as x:  # noqa
            out.failures.append({"what": "building the header failed with %s" % exc_name(x), "kind": "header-build", "scheme": ann, "case": case})
            continue
        ordered, contigs = isinstance(h.sort_order(), Coordinate), h.contigs()
        n = rng.randrange(0, 5)
        toucher = None
        if ann:
            case["lines"] = gen_located_records(rng, ann, n, contigs) if ordered else gen_records(rng, ann, n)
            if rng.random() < 0.6:
                toucher = Toucher(rng=rng, wide=impl.scheme_by_annotation(ann))
        else:
            names = case["names"] = rng.choice(NO_SCHEME_NAME_SETS)
            if ordered and "Chromosome" in names:
                n = 0          # text fields would have to be coordinates: the ordered scheme-less file is header-only
            texts = gen_rows(rng, names, n)
            if rng.random() < 0.5:
                case["rows"] = [[enc_val(rng.choice([7, 0.1 + 0.2, None, 10 ** 20]) if rng.random() < 0.05 else v) for v in r] for r in texts]
            else:
                case["lines"] = ["\t".join(r) for r in texts]
            if any(not any(r) for r in texts):
                out.distribution["rows:with an all-empty row"] += 1
        e = eval_roundtrip(case, tmp, toucher)
        out.failures += e["failures"]
        out.distribution["header-route:" + spec["route"]] += 1
        if toucher is not None:
            out.distribution["api-values assigned"] += sum(len(x) for x in toucher.log)
        if e["text"] is None:
            out.distribution["writer-refused"] += 1
            continue
        if "read" not in e:
            continue
        out.distribution["channel:" + case["channel"]] += 1
        for r in case["read_routes"]:
            out.distribution["read-route:" + r] += 1
        if e["recs"]:
            out.nontrivial.add(repr(e["where"]))
        # correspondence: the model, given the pragmas the header object lists and the offered records' texts, writes the same bytes
        if case["channel"] in ("handle", "ctor") and n_model < ctx.scale(40, 400):
            n_model += 1
            reqs.append((model_req(ann, e["header_lines"], e["recs"], e["names"]), e["text"]))


UNION_TEXTS = ["1", "01", "007", "-3", "22", "0", "+5", "10"]


def union_value_cases(ctx, out, tmp):
    """A union-typed column (StringOrIntegerColumn / StringIntegerOrFloatColumn: Chromosome, NCBI_Build) assigned, through the
    API, a str that the column's own parser reads as a number.  A handful of cases per run.  The oracle marks a failure on
    such a column with api_value_not_canonical (not_canonical(): parsing the column's own text gives another value or type)."""
    import maflib.column_types as CT
    rng = ctx.rng("c02-api-union")
    layouts = [a for a in impl.builtin_annotations() if a.startswith("gdc-1.0.0")][:4]
    for _ in range(ctx.scale(4, 16)):
        ann = rng.choice(layouts)
        sch = impl.scheme_by_annotation(ann)
        union = [n for n in sch.column_names() if issubclass(sch.column_class(n), (CT.StringOrIntegerColumn, CT.StringIntegerOrFloatColumn))]
        if not union:
            continue
        lines = gen_records(rng, ann, rng.randrange(1, 3))
        edits = [[[rng.choice(union), enc_val(rng.choice(UNION_TEXTS))]] if (k == 0 or rng.random() < 0.5) else [] for k in range(len(lines))]
        case = {"scheme": ann, "header": gen_header(rng, ann), "lines": lines, "channel": rng.choice(impl.WRITER_CHANNELS), "derived": None,
                "edits": edits, "family": "api-union"}
        out.evaluations += 1
        e = eval_roundtrip(case, tmp, Toucher(stored=edits))
        out.failures += e["failures"]
        out.distribution["family:api-union (str read as a number in a union-typed column)"] += 1
        if e["text"] is None:
            out.distribution["writer-refused"] += 1
        elif e["recs"]:
            out.nontrivial.add(repr(e["where"]))


HASH_NAME_SETS = [["#chrom", "pos"], ["#Hugo_Symbol", "b", "c"], ["#id"], ["#a b", "c"]]


def hash_column_cases(ctx, out, tmp):
    """Scheme-less column sets whose FIRST column name starts with '#' (the header line symbol), 1-3 records.  A handful of
    cases per run.  The oracle marks every failure of such a case with first_column_starts_with_hash."""
    rng = ctx.rng("c02-hash-column")
    for _ in range(ctx.scale(4, 16)):
        names = rng.choice(HASH_NAME_SETS)
        texts = gen_rows(rng, names, rng.randrange(1, 4))
        case = {"scheme": None, "header": gen_header(rng, None), "lines": [], "channel": rng.choice(impl.WRITER_CHANNELS), "derived": None,
                "edits": None, "names": names, "family": "hash-column"}
        if rng.random() < 0.5:
            case["rows"] = [[enc_val(v) for v in r] for r in texts]
        else:
            case["lines"] = ["\t".join(r) for r in texts]
        out.evaluations += 1
        e = eval_roundtrip(case, tmp, None)
        out.failures += e["failures"]
        out.distribution["family:hash-column (first scheme-less column name starts with '#')"] += 1
        if e["text"] is not None and e["recs"]:
            out.nontrivial.add(repr(e["where"]))


def eval_reuse(case, tmp):
    """ONE record object re-used as a template: written, changed in place (column.value of some columns set to the values of
    another accepted line), written again, ...  What is supplied at each write is the record as it is at that moment; the
    expected text of each is rendered from FRESH column objects holding the values the record had (never from the
    record's own str(), which is part of what is being checked)."""
    from maflib.header import MafHeader
    from maflib.record import MafRecord
    from maflib.validation import ValidationStringency as VS
    from maflib.writer import MafWriter
    ann = case["scheme"]
    sch = impl.scheme_by_annotation(ann) if ann else None
    names = case.get("names")
    mode = VS.Strict if ann else VS.Silent
    src = [MafRecord.from_line(l, scheme=sch, column_names=names, validation_stringency=VS.Silent) for l in case["lines"]]
    rec = MafRecord.from_line(case["lines"][0], scheme=sch, column_names=names, validation_stringency=VS.Silent)
    h = MafHeader.from_lines(case["header"], validation_stringency=VS.Silent)
    channel = case["channel"]
    path = os.path.join(tmp, "reuse.maf" + (".gz" if channel == "gz" else ""))
    keep = {}
    if channel in ("handle", "ctor"):
        buf = io.StringIO()
        buf.close = lambda: keep.setdefault("text", buf.getvalue())
        w = MafWriter.from_fd(buf, h, validation_stringency=mode) if channel == "handle" else MafWriter(buf, h, validation_stringency=mode)
    else:
        w = MafWriter.from_path(path, h, validation_stringency=mode)
    expected = []
    failures = []
    where = {"family": "reused-record", "scheme": ann, "channel": channel}
    for k, step in enumerate(case["steps"]):
        for cname, j in step:
            rec[cname].value = src[j][cname].value
        if case.get("peek") and k in case["peek"]:
            str(rec)                      # the caller logs / inspects the record between edits
        fresh = [type(c)(c.key, c.value, c.column_index) for c in rec.values()]
        # a value that is not the parse of its own text (the single-null-element list, C04's listed finding) has no typed round trip: text only
        expected.append(("\t".join(str(c) for c in fresh), [None if not_canonical(c) else enc_val(c.value) for c in fresh]))
        try:
            w += rec
        except Exception as e:  # noqa
            w.close()
            return {"status": "writer refused write %d: %s" % (k, exc_name(e)), "failures": [], "expected": expected, "text": None}
    w.close()
    try:
        if channel in ("handle", "ctor"):
            text = keep["text"]
            hdr, cols, got, rd = read_back(channel, text, None, mode)
        else:
            hdr, cols, got, rd = read_back(channel, None, path, mode)
            text = None
    except Exception as e:  # noqa
        return {"status": "read-back failed", "failures": [dict(where, what="the file of %d writes of a re-used record cannot be read back: %s" % (len(expected), exc_name(e)), kind="reuse", case=case)],
                "expected": expected, "text": None}
    if len(got) != len(expected):
        failures.append(dict(where, what="%d writes of a re-used record, %d records read back" % (len(expected), len(got)), kind="reuse", case=case))
    for k, (g, (etext, evals)) in enumerate(zip(got, expected)):
        if str(g) != etext:
            diff = [(n, a, b) for n, a, b in zip(g.keys(), etext.split("\t"), str(g).split("\t")) if a != b][:4]
            failures.append(dict(where, what="write %d of a re-used record (changed in place between writes) reads back with different text: (column, supplied, read) %s" % (k, diff),
                                 kind="reuse", case=case))
            break
        if ann and any(ev is not None and enc_val(v) != ev for v, ev in zip(g.column_values(), evals)):
            failures.append(dict(where, what="write %d of a re-used record reads back with different typed values" % k, kind="reuse", case=case))
            break
    return {"status": "ok", "failures": failures, "expected": expected, "text": text, "read": len(got)}


def reuse_cases(ctx, out, tmp):
    rng = ctx.rng("c02-reuse")
    for _ in range(ctx.scale(24, 300)):
        ann = rng.choice([None, "gdc-1.0.0", "gdc-1.0.0", "gdc-1.0.0-public", "gdc-1.0.0-genie"])
        names = None if ann else ["Hugo_Symbol", "Chromosome", "Start_Position", "End_Position", "c5", "c6"]
        lines = gen_records(rng, ann, rng.randrange(2, 5))
        cols = impl.scheme_by_annotation(ann).column_names() if ann else names
        steps = [[]]
        for _k in range(rng.randrange(1, 4)):
            steps.append([[rng.choice(cols), rng.randrange(len(lines))] for _j in range(rng.randrange(1, 4))])
        case = {"scheme": ann, "names": names, "header": gen_header(rng, ann), "lines": lines, "channel": rng.choice(impl.WRITER_CHANNELS),
                "steps": steps, "peek": sorted(rng.sample(range(len(steps)), rng.randrange(0, len(steps))))}
        if ann and any(l.startswith("#sort.order") for l in case["header"]):
            case["header"] = [l for l in case["header"] if not l.startswith("#sort.order")]
        out.evaluations += 1
        e = eval_reuse(case, tmp)
        out.failures += e["failures"]
        out.distribution["family:reused-record (%s)" % ("round trip" if e["text"] is not None or e.get("read") is not None else "refused")] += 1
        if e.get("read"):
            out.nontrivial.add(("reuse", json.dumps(case, sort_keys=True, default=str)[:400]))


def search(ctx):
    return run(ctx)


# ------------------------------------------------------------------ replay
def _short(x, n=300):
    import json
    t = x if isinstance(x, str) else json.dumps(x, default=str, ensure_ascii=True)
    return t if len(t) <= n else t[:n] + "... (%d chars)" % len(t)


def replay_case(ctx, failure):
    """Re-evaluate the stored case (header, generated lines, channel, header derivation, API edits) on the current
    implementation; the failures it produces now ([] = it round-trips; None = inputs not stored: regenerate)."""
    case = failure.get("case")
    if failure.get("kind") == "reuse" and isinstance(case, dict) and all(k in case for k in ("scheme", "header", "lines", "channel", "steps")):
        with tempfile.TemporaryDirectory() as tmp:
            e = eval_reuse(case, tmp)
        print("replay C02: one %s record object written %d times on channel '%s', column values changed in place between writes: %s"
              % (case["scheme"] or "scheme-less", len(case["steps"]), case["channel"], _short(case["steps"], 300)))
        print("  implementation: %s; %s record(s) read back" % (e["status"], e.get("read")))
        print("  oracle: %d failure(s)%s" % (len(e["failures"]), "".join("\n    - " + x["what"] for x in e["failures"])))
        return e["failures"]
    if not isinstance(case, dict) or any(k not in case for k in ("scheme", "header", "lines", "channel", "derived", "edits")):
        return None
    ann = case["scheme"]
    if ann and impl.scheme_by_annotation(ann) is None:
        return None
    if case.get("header_spec") is not None and (not isinstance(case["header_spec"], dict) or case["header_spec"].get("route") not in HEADER_ROUTES):
        return None
    if case["channel"] not in impl.WRITER_CHANNELS or any(r not in READ_ROUTES for r in case.get("read_routes") or []):
        return None
    toucher = Toucher(stored=case["edits"]) if case["edits"] is not None else None
    with tempfile.TemporaryDirectory() as tmp:
        e = eval_roundtrip_after(dict(case), tmp, toucher)
    if case.get("history") == "parsed-lists-edited":
        print("replay C02: earlier in the process, lines of the layout were parsed and the lists the parsed records hand out were edited in place (value.append(...))")
    if case.get("header_spec"):
        sp = case["header_spec"]
        print("replay C02: header obtained by route '%s' (%s); it lists the pragmas %s" % (
            sp["route"], _short({k: v for k, v in sp.items() if k != "route"}, 400), _short(e["header_lines"], 300)))
        if case.get("read_routes"):
            print("  the written text is also read back through the reader route(s) %s" % case["read_routes"])
    if not ann:
        print("  scheme-less column names: %s" % (e["names"],))
    if case.get("rows") is not None:
        print("  %d scheme-less record(s) assembled through the API (MafRecord() + MafColumnRecord per column)" % len(case["rows"]))
    if case["edits"] is not None:
        for k, ed in enumerate(case["edits"]):
            for key, v in ed:
                print("  record %d: column %s assigned the value %s through the API" % (k, key, _short(v, 120)))
    print("replay C02: %s writer (%s mode) on channel '%s', header %s%s, %d record(s) parsed from the stored lines%s"
          % (ann or "scheme-less", "Strict" if ann else "Silent", case["channel"], _short(case["header"], 200),
             " (taken from a reader of the protected file, annotation.spec edited: %s)" % case["derived"] if case["derived"] else "",
             len(case["lines"]),
             ", %d value(s) assigned through the API" % sum(len(x) for x in case["edits"]) if case["edits"] is not None else ""))
    for r in e["recs"]:
        print("  offered: %s" % _short(r, 200))
    print("  implementation: %s" % (e["status"] if e["text"] is None or "read" not in e else
                                    "wrote %d chars; read back %d pragma(s), %s column names, %d record(s)"
                                    % (len(e["text"]), len(e["read"]["header"]),
                                       len(e["read"]["columns"]) if e["read"]["columns"] is not None else "no", len(e["read"]["records"]))))
    if e["text"] is not None:
        print("  written: %s" % _short(e["text"], 300))
    if case["channel"] in ("handle", "ctor") and e["text"] is not None:
        # the kind of case the module compares with the model
        m = ctx.driver.run([model_req(ann, e["header_lines"], e["recs"], e["names"])])[0]
        if has_unmodelled(m):
            print("  model: outside the model")
        else:
            mt = model_text(m)
            print("  model: %s" % ("writes the same text" if "init_exc" not in m and mt == e["text"] else
                                   "DIFFERS: %s" % _short(m.get("init_exc") or mt, 300)))
    print("  oracle: %d failure(s)%s" % (len(e["failures"]), "".join("\n    - " + x["what"] for x in e["failures"])))
    return e["failures"]

