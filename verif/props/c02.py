"""C02 - files written by the library read back identically (plain, gzip, handle)."""
import gzip
import io
import os
import tempfile

from .. import colcases, filecases, impl, sortcases as SC
from ..common import enc_val, exc_name, float_table, has_unmodelled
from ..runner import Outcome
from .c04 import py_eq

LEVEL = "proof"
ASSUMPTIONS = ["gzip / text-mode encoding round-trip the bytes (zlib, UTF-8 locale): observed on every generated file, not proved",
               "a 'record the writer accepts without validation errors' has no TAB/CR/LF inside a field (such records now carry a validation error)"]
CHANNELS = ["plain", "gz", "handle"]


def gen_header(rng, ann):
    """Any pragma the header grammar can carry: non-empty values without trailing blanks or line breaks, keys without blank."""
    lines = ["#version gdc-1.0.0"]
    if ann and ann != "gdc-1.0.0":
        lines.append("#annotation.spec " + ann)
    elif not ann:
        lines.append("#annotation.spec lab-own-spec")
    extra = ["#center broad.mit.edu", "#note several words here", "#n.samples 4", "#weird  two  blanks", "#x:y z=1;2", "#tab\tkey v\tw",
             "#unicode Ünï cødé", "#contigs chr1,chr2,chr10", "#sort.order Unsorted", "#sort.order Unknown", "#k #v", "#url http://x/y?z=1"]
    for e in rng.sample(extra, rng.randrange(0, 5)):
        if not any(l.split(" ")[0] == e.split(" ")[0] for l in lines):
            lines.append(e)
    rng.shuffle(lines)
    return lines


def gen_records(rng, ann, n):
    """Lines accepted under the layout (or arbitrary clean fields when scheme-less)."""
    if ann:
        out = []
        for _ in range(n):
            fields = colcases.valid_fields(ann, rng, prefer_nonnull=rng.choice([0.2, 0.7, 0.95]))
            # empty trailing fields where the layout allows
            out.append("\t".join(fields))
        return out
    names = ["Hugo_Symbol", "Chromosome", "Start_Position", "End_Position", "c5", "c6"]
    return ["\t".join(rng.choice(["", "a", "1", "x y", " lead", "é", "#x", "7;8", "-", "None"]) for _ in names) for _ in range(n)]


def api_touch(rec, rng):
    """Replace the value of some list-valued columns by lists built directly from element values
    (trailing / leading / inner null members, single elements), as the API allows."""
    import maflib.column_types as CT
    for col in list(rec.values()):
        if col is None or not isinstance(col, CT.SequenceOfValuesColumn) or rng.random() < 0.5:
            continue
        ecls = col.__column_class__()
        if issubclass(ecls, CT.EnumColumn):
            members = list(ecls.__enum_class__())
            vals = [rng.choice(members) for _ in range(rng.randrange(1, 4))]
            if rng.random() < 0.5 and hasattr(ecls.__enum_class__(), "Null"):
                vals.append(ecls.__enum_class__().Null)
            if len(vals) == 1 and str(vals[0]) == "":
                continue      # the known finding (C04): [Null] has no spelling
        elif issubclass(ecls, CT.IntegerColumn):
            vals = [rng.randrange(-5, 50) for _ in range(rng.randrange(1, 4))]
        else:
            vals = [rng.choice(["a", "b c", "x.y", "7"]) for _ in range(rng.randrange(1, 4))]
        col.value = vals
    return rec


def derived_header(rng, ann):
    """A header obtained from a reader of a *protected* file and edited in place to name another layout."""
    from maflib.header import MafHeader, MafHeaderAnnotationSpecRecord
    from maflib.reader import MafReader
    src = {"gdc-1.0.0-public": "gdc-1.0.0-protected", "gdc-2.0.0-aliquot-merged-masked": "gdc-2.0.0-aliquot-merged"}.get(ann)
    if not src:
        return None
    names = impl.scheme_by_annotation(src).column_names()
    reader = MafReader(lines=["#version gdc-1.0.0", "#annotation.spec " + src, "#center x", "\t".join(names)])
    reader.header().validate()
    h = MafHeader.from_reader(reader)
    h.validate()
    how = rng.choice(["inplace", "setitem"])
    if how == "inplace":
        h["annotation.spec"].value = ann
    else:
        h["annotation.spec"] = MafHeaderAnnotationSpecRecord(value=ann)
    return h, ["#version gdc-1.0.0", "#annotation.spec " + ann, "#center x"], how


def write_file(channel, header_lines, recs, scheme, names, mode, tmp, header_obj=None, touch=None):
    from maflib.header import MafHeader
    from maflib.record import MafRecord
    from maflib.validation import ValidationStringency as VS
    from maflib.writer import MafWriter
    h = header_obj if header_obj is not None else MafHeader.from_lines(header_lines, validation_stringency=VS.Silent)
    path = os.path.join(tmp, "f.maf" + (".gz" if channel == "gz" else ""))
    written = []
    if channel == "handle":
        buf = io.StringIO()
        keep = {}
        orig_close = buf.close
        buf.close = lambda: keep.setdefault("text", buf.getvalue())
        w = MafWriter.from_fd(buf, h, validation_stringency=mode)
    else:
        w = MafWriter.from_path(path, h, validation_stringency=mode)
    for line in recs:
        rec = MafRecord.from_line(line, scheme=scheme, column_names=names, validation_stringency=VS.Silent)
        if touch is not None:
            rec = api_touch(rec, touch)
        written.append((str(rec), [enc_val(v) for v in rec.column_values()]))
        w += rec
    w.close()
    write_file.last_written = written
    if channel == "handle":
        return keep["text"], None
    if channel == "gz":
        with gzip.open(path, "rt") as f:
            text = f.read()
    else:
        with open(path, "r", newline="") as f:
            text = f.read()
    return text, path


def read_back(channel, text, path, mode):
    from maflib.reader import MafReader
    if channel == "handle":
        rd = MafReader(lines=io.StringIO(text), validation_stringency=mode)
    else:
        rd = MafReader.reader_from(path, validation_stringency=mode)
    hdr = [(k, str(rd.header()[k])) for k in rd.header()]
    recs = list(rd)
    rd.close()
    return hdr, rd.scheme().column_names() if rd.scheme() else None, recs, rd


def run(ctx):
    from maflib.header import MafHeader
    from maflib.validation import ValidationStringency as VS
    out = Outcome()
    out.rule = ("headers over the pragma grammar (inner blanks, odd characters, the special keys) x recognised layouts (Strict) or scheme-less column sets (Silent) x 0-4 accepted records "
                "(empty trailing fields, null spellings, list- and enum-valued columns) x three channels (plain path, .gz path, caller handle); write, read back, write again; "
                "non-trivial = at least one record; distinct (header, records, channel)")
    rng = ctx.rng("c02")
    reqs = []
    with tempfile.TemporaryDirectory() as tmp:
        for _ in range(ctx.scale(150, 2500)):
            ann = rng.choice([None, "gdc-1.0.0", "gdc-1.0.0-public", "gdc-1.0.0-public", "gdc-2.0.0-aliquot-merged-masked", "gdc-1.0.0-genie"])
            header_lines = gen_header(rng, ann)
            scheme = impl.scheme_by_annotation(ann) if ann else None
            names = None if ann else ["Hugo_Symbol", "Chromosome", "Start_Position", "End_Position", "c5", "c6"]
            # the records offered to the writer: parsed from generated lines; their text is what must come back
            from maflib.record import MafRecord as _MR
            recs = [str(_MR.from_line(l, scheme=scheme, column_names=names, validation_stringency=VS.Silent))
                    for l in gen_records(rng, ann, rng.randrange(0, 5))]
            mode = VS.Strict if ann else VS.Silent
            channel = rng.choice(CHANNELS)
            out.evaluations += 1
            where = {"header": header_lines, "scheme": ann, "records": [r[:120] for r in recs], "channel": channel}
            hobj, how = None, None
            if ann in ("gdc-1.0.0-public", "gdc-2.0.0-aliquot-merged-masked") and rng.random() < 0.5:
                dh = derived_header(rng, ann)
                if rng.random() < 0.5:
                    recs = []          # a header-only file
                if dh:
                    hobj, header_lines, how = dh
                    where["header"] = header_lines
                    where["header_source"] = "from_reader + %s edit of annotation.spec" % how
            touch = rng if (ann and rng.random() < 0.4) else None
            try:
                text, path = write_file(channel, header_lines, recs, scheme, names, mode, tmp, header_obj=hobj, touch=touch)
                if touch is not None:
                    recs = [t for t, _v in write_file.last_written]
                    where["records"] = [r[:120] for r in recs]
                    where["api_values"] = True
            except Exception as e:  # noqa
                # not accepted by the writer: outside the property (must be the format exception though)
                if not exc_name(e).startswith("MafFormatException"):
                    out.failures.append(dict(where, what="writing failed with %s" % exc_name(e), kind="write-exception"))
                out.distribution["writer-refused"] += 1
                continue
            try:
                hdr, cols, got, rd = read_back(channel, text, path, mode)
            except Exception as e:  # noqa
                out.failures.append(dict(where, what="reading the written file back failed with %s" % exc_name(e), kind="read-back", text=text[:300]))
                continue
            h0 = MafHeader.from_lines(header_lines, validation_stringency=VS.Silent)
            if hdr != [(k, str(h0[k])) for k in h0]:
                out.failures.append(dict(where, what="header pragmas differ after the round trip", kind="header",
                                         expected=[(k, str(h0[k])) for k in h0], got=hdr))
            want_cols = scheme.column_names() if scheme else (names if recs else None)
            if cols != want_cols:
                out.failures.append(dict(where, what="column-name line differs after the round trip", kind="columns", expected=want_cols, got=cols))
            if [str(r) for r in got] != recs:
                out.failures.append(dict(where, what="records differ (text or order) after the round trip", kind="records",
                                         expected=recs, got=[str(r) for r in got]))
            elif scheme:
                from maflib.record import MafRecord
                for (line, a), r in zip(write_file.last_written, got):
                    b = [enc_val(v) for v in r.column_values()]
                    if any(not py_eq(x, y) and not (x.get("t") == "float" and x["v"] == "nan") for x, y in zip(a, b)):
                        out.failures.append(dict(where, what="typed values differ after the round trip", kind="values"))
                        break
            if rd.validation_errors and mode == VS.Strict:
                out.failures.append(dict(where, what="re-reading reported validation errors", kind="reread-errors"))
            # writing the re-read content again is byte-identical
            try:
                text2, _p = write_file(channel, [s for _k, s in hdr], [str(r) for r in got], scheme, names, mode, tmp)
                if text2 != text:
                    out.failures.append(dict(where, what="writing the re-read content again is not byte-identical", kind="rewrite",
                                             first=text[:200], second=text2[:200]))
            except Exception as e:  # noqa
                out.failures.append(dict(where, what="re-writing failed with %s" % exc_name(e), kind="rewrite"))
            out.distribution["channel:" + channel] += 1
            if recs:
                out.nontrivial.add(repr(where))
            if len(out.samples) < 3 and recs:
                out.sample({"header": header_lines, "scheme": ann, "channel": channel, "n_records": len(recs), "bytes": len(text)})
            # correspondence: the model writes the same bytes and reads them back the same way
            if channel == "handle" and len(reqs) < ctx.scale(60, 600):
                fields = [p for l in recs for p in l.split("\t")]
                ops = [{"k": "write", "rec": {"parse": ({"line": l, "scheme": ann} if ann else {"line": l, "names": names})}} for l in recs] + [{"k": "close"}]
                reqs.append(({"op": "writer.run", "header_lines": header_lines, "mode": "Strict" if ann else "Silent", "assume_sorted": True,
                              "ops": ops, "floats": float_table(fields)}, text))
    mo = ctx.driver.run([r for r, _ in reqs])
    for (r, text), m in zip(reqs, mo):
        if has_unmodelled(m):
            out.unmodelled += 1
            continue
        mt = m["steps"][-1]["out"] if "steps" in m and m["steps"] else m.get("init_out")
        if "init_exc" in m or mt != text:
            fields = [p for o in r["ops"] if o["k"] == "write" for p in o["rec"]["parse"]["line"].split("\t")]
            if any(colcases.dontcare_numeric(p) or colcases.dontcare_uuid(p) for f in fields for p in [f] + f.split(";")):
                out.dontcare += 1
            else:
                out.disagreements.append({"op": "writer.run", "header": r["header_lines"], "model": (m.get("init_exc") or mt[-200:]), "impl": text[-200:]})
    return out


def search(ctx):
    return run(ctx)

