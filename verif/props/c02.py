"""C02 - files written by the library read back identically (plain, gzip, handle)."""
import gzip
import io
import os
import tempfile

from .. import colcases, filecases, impl, sortcases as SC
from ..common import enc_val, exc_name, float_table, has_unmodelled
from ..runner import Outcome
from .c04 import py_eq

LEVEL = "proof"
ASSUMPTIONS = ["gzip / text-mode encoding round-trip the bytes (zlib, UTF-8 locale): observed on every generated file, not proved",
               "a 'record the writer accepts without validation errors' has no TAB/CR/LF inside a field (such records now carry a validation error)"]
CHANNELS = ["plain", "gz", "handle"]


def gen_header(rng, ann):
    """Any pragma the header grammar can carry: non-empty values without trailing blanks or line breaks, keys without blank."""
    lines = ["#version gdc-1.0.0"]
    if ann and ann != "gdc-1.0.0":
        lines.append("#annotation.spec " + ann)
    elif not ann:
        lines.append("#annotation.spec lab-own-spec")
    extra = ["#center broad.mit.edu", "#note several words here", "#n.samples 4", "#weird  two  blanks", "#x:y z=1;2", "#tab\tkey v\tw",
             "#unicode Ünï cødé", "#contigs chr1,chr2,chr10", "#sort.order Unsorted", "#sort.order Unknown", "#k #v", "#url http://x/y?z=1"]
    for e in rng.sample(extra, rng.randrange(0, 5)):
        if not any(l.split(" ")[0] == e.split(" ")[0] for l in lines):
            lines.append(e)
    rng.shuffle(lines)
    return lines


def gen_records(rng, ann, n):
    """Lines accepted under the layout (or arbitrary clean fields when scheme-less)."""
    if ann:
        out = []
        for _ in range(n):
            fields = colcases.valid_fields(ann, rng, prefer_nonnull=rng.choice([0.2, 0.7, 0.95]))
            # empty trailing fields where the layout allows
            out.append("\t".join(fields))
        return out
    names = ["Hugo_Symbol", "Chromosome", "Start_Position", "End_Position", "c5", "c6"]
    return ["\t".join(rng.choice(["", "a", "1", "x y", " lead", "é", "#x", "7;8", "-", "None"]) for _ in names) for _ in range(n)]


def api_touch(rec, rng):
    """Replace the value of some list-valued columns by lists built directly from element values
    (trailing / leading / inner null members, single elements), as the API allows.
    -> the edits made: [[column name, [encoded element values]], ...] (see apply_edits)."""
    import maflib.column_types as CT
    edits = []
    for col in list(rec.values()):
        if col is None or not isinstance(col, CT.SequenceOfValuesColumn) or rng.random() < 0.5:
            continue
        ecls = col.__column_class__()
        if issubclass(ecls, CT.EnumColumn):
            members = list(ecls.__enum_class__())
            vals = [rng.choice(members) for _ in range(rng.randrange(1, 4))]
            if rng.random() < 0.5 and hasattr(ecls.__enum_class__(), "Null"):
                vals.append(ecls.__enum_class__().Null)
            if len(vals) == 1 and str(vals[0]) == "":
                continue      # the known finding (C04): [Null] has no spelling
        elif issubclass(ecls, CT.IntegerColumn):
            vals = [rng.randrange(-5, 50) for _ in range(rng.randrange(1, 4))]
        else:
            vals = [rng.choice(["a", "b c", "x.y", "7"]) for _ in range(rng.randrange(1, 4))]
        col.value = vals
        edits.append([col.key, [enc_val(v) for v in vals]])
    return edits


def apply_edits(rec, edits):
    """Redo the edits api_touch made (replay): the same list values assigned to the same columns."""
    import maflib.column_types as CT
    for key, vals in edits:
        try:
            col = rec[key]
        except KeyError:
            col = None
        if col is None:
            continue
        ecls = col.__column_class__() if isinstance(col, CT.SequenceOfValuesColumn) else None
        out = []
        for v in vals:
            if v.get("t") == "enum" and ecls is not None and issubclass(ecls, CT.EnumColumn):
                out.append(ecls.__enum_class__()[v["m"]])
            else:
                out.append(impl.dec_val(v))
        col.value = out


class Toucher:
    """API edits of the records offered to the writer: drawn from `rng` (and logged) in a run, or the
    stored ones (per record, in order) in a replay."""

    def __init__(self, rng=None, stored=None):
        self.rng, self.stored, self.log = rng, stored, []

    def __call__(self, k, rec):
        if self.rng is not None:
            self.log.append(api_touch(rec, self.rng))
        else:
            edits = self.stored[k] if k < len(self.stored) else []
            apply_edits(rec, edits)
            self.log.append(edits)


DERIVED_FROM = {"gdc-1.0.0-public": "gdc-1.0.0-protected", "gdc-2.0.0-aliquot-merged-masked": "gdc-2.0.0-aliquot-merged"}


def derived_header(rng, ann):
    """A header obtained from a reader of a *protected* file and edited in place to name another layout."""
    if not DERIVED_FROM.get(ann):
        return None
    how = rng.choice(["inplace", "setitem"])
    h, lines = make_derived_header(ann, how)
    return h, lines, how


def make_derived_header(ann, how):
    from maflib.header import MafHeader, MafHeaderAnnotationSpecRecord
    from maflib.reader import MafReader
    src = DERIVED_FROM[ann]
    names = impl.scheme_by_annotation(src).column_names()
    reader = MafReader(lines=["#version gdc-1.0.0", "#annotation.spec " + src, "#center x", "\t".join(names)])
    reader.header().validate()
    h = MafHeader.from_reader(reader)
    h.validate()
    if how == "inplace":
        h["annotation.spec"].value = ann
    else:
        h["annotation.spec"] = MafHeaderAnnotationSpecRecord(value=ann)
    return h, ["#version gdc-1.0.0", "#annotation.spec " + ann, "#center x"]


def write_file(channel, header_lines, recs, scheme, names, mode, tmp, header_obj=None, touch=None):
    from maflib.header import MafHeader
    from maflib.record import MafRecord
    from maflib.validation import ValidationStringency as VS
    from maflib.writer import MafWriter
    h = header_obj if header_obj is not None else MafHeader.from_lines(header_lines, validation_stringency=VS.Silent)
    path = os.path.join(tmp, "f.maf" + (".gz" if channel == "gz" else ""))
    written = []
    if channel == "handle":
        buf = io.StringIO()
        keep = {}
        orig_close = buf.close
        buf.close = lambda: keep.setdefault("text", buf.getvalue())
        w = MafWriter.from_fd(buf, h, validation_stringency=mode)
    else:
        w = MafWriter.from_path(path, h, validation_stringency=mode)
    for k, line in enumerate(recs):
        rec = MafRecord.from_line(line, scheme=scheme, column_names=names, validation_stringency=VS.Silent)
        if touch is not None:
            touch(k, rec)
        written.append((str(rec), [enc_val(v) for v in rec.column_values()]))
        w += rec
    w.close()
    write_file.last_written = written
    if channel == "handle":
        return keep["text"], None
    if channel == "gz":
        with gzip.open(path, "rt") as f:
            text = f.read()
    else:
        with open(path, "r", newline="") as f:
            text = f.read()
    return text, path


def read_back(channel, text, path, mode):
    from maflib.reader import MafReader
    if channel == "handle":
        rd = MafReader(lines=io.StringIO(text), validation_stringency=mode)
    else:
        rd = MafReader.reader_from(path, validation_stringency=mode)
    hdr = [(k, str(rd.header()[k])) for k in rd.header()]
    recs = list(rd)
    rd.close()
    return hdr, rd.scheme().column_names() if rd.scheme() else None, recs, rd


NO_SCHEME_NAMES = ["Hugo_Symbol", "Chromosome", "Start_Position", "End_Position", "c5", "c6"]


def eval_roundtrip(case, tmp, toucher=None):
    """One case on the implementation: write, read back, compare, write again (the property's oracle).

    case = {"scheme": annotation or None, "header": header lines, "lines": the generated data lines,
            "channel": plain|gz|handle, "derived": None|"inplace"|"setitem" (header taken from a reader of the protected
            file and edited to name `scheme`), "edits": None or the API edits per record}.
    `toucher` draws (run) or re-applies (replay) the API edits; case["edits"] is filled in with what was applied."""
    from maflib.header import MafHeader
    from maflib.record import MafRecord
    from maflib.validation import ValidationStringency as VS
    ann, channel, header_lines = case["scheme"], case["channel"], case["header"]
    scheme = impl.scheme_by_annotation(ann) if ann else None
    names = None if ann else NO_SCHEME_NAMES
    mode = VS.Strict if ann else VS.Silent
    # the records offered to the writer: parsed from generated lines; their text is what must come back
    recs = [str(MafRecord.from_line(l, scheme=scheme, column_names=names, validation_stringency=VS.Silent))
            for l in case["lines"]]
    where = {"header": header_lines, "scheme": ann, "records": [r[:120] for r in recs], "channel": channel}
    hobj = None
    if case.get("derived"):
        hobj, _lines = make_derived_header(ann, case["derived"])
        where["header"] = header_lines
        where["header_source"] = "from_reader + %s edit of annotation.spec" % case["derived"]
    e = {"failures": [], "status": "done", "where": where, "recs": recs, "names": names, "text": None}
    fails = e["failures"]

    def fail(**kw):
        fails.append(dict(where, case=dict(case, edits=list(toucher.log) if toucher is not None else None), **kw))
    try:
        text, path = write_file(channel, header_lines, recs, scheme, names, mode, tmp, header_obj=hobj, touch=toucher)
        if toucher is not None:
            recs = e["recs"] = [t for t, _v in write_file.last_written]
            where["records"] = [r[:120] for r in recs]
            where["api_values"] = True
    except Exception as x:  # noqa
        # not accepted by the writer: outside the property (must be the format exception though)
        e["status"] = "writer-refused: " + exc_name(x)
        if not exc_name(x).startswith("MafFormatException"):
            fail(what="writing failed with %s" % exc_name(x), kind="write-exception")
        return e
    e["text"] = text
    try:
        hdr, cols, got, rd = read_back(channel, text, path, mode)
    except Exception as x:  # noqa
        e["status"] = "read-back failed: " + exc_name(x)
        fail(what="reading the written file back failed with %s" % exc_name(x), kind="read-back", text=text[:300])
        return e
    e["read"] = {"header": hdr, "columns": cols, "records": [str(r) for r in got]}
    h0 = MafHeader.from_lines(header_lines, validation_stringency=VS.Silent)
    if hdr != [(k, str(h0[k])) for k in h0]:
        fail(what="header pragmas differ after the round trip", kind="header",
             expected=[(k, str(h0[k])) for k in h0], got=hdr)
    want_cols = scheme.column_names() if scheme else (names if recs else None)
    if cols != want_cols:
        fail(what="column-name line differs after the round trip", kind="columns", expected=want_cols, got=cols)
    if [str(r) for r in got] != recs:
        fail(what="records differ (text or order) after the round trip", kind="records",
             expected=recs, got=[str(r) for r in got])
    elif scheme:
        for (line, a), r in zip(write_file.last_written, got):
            b = [enc_val(v) for v in r.column_values()]
            if any(not py_eq(x, y) and not (x.get("t") == "float" and x["v"] == "nan") for x, y in zip(a, b)):
                fail(what="typed values differ after the round trip", kind="values")
                break
    if rd.validation_errors and mode == VS.Strict:
        fail(what="re-reading reported validation errors", kind="reread-errors")
    # writing the re-read content again is byte-identical
    try:
        text2, _p = write_file(channel, [s for _k, s in hdr], [str(r) for r in got], scheme, names, mode, tmp)
        if text2 != text:
            fail(what="writing the re-read content again is not byte-identical", kind="rewrite",
                 first=text[:200], second=text2[:200])
    except Exception as x:  # noqa
        fail(what="re-writing failed with %s" % exc_name(x), kind="rewrite")
    return e


def model_req(ann, header_lines, recs, names):
    """writer.run request for the model: the same header and records through a caller handle."""
    fields = [p for l in recs for p in l.split("\t")]
    ops = [{"k": "write", "rec": {"parse": ({"line": l, "scheme": ann} if ann else {"line": l, "names": names})}} for l in recs] + [{"k": "close"}]
    return {"op": "writer.run", "header_lines": header_lines, "mode": "Strict" if ann else "Silent", "assume_sorted": True,
            "ops": ops, "floats": float_table(fields)}


def model_text(m):
    return m["steps"][-1]["out"] if "steps" in m and m["steps"] else m.get("init_out")


def run(ctx):
    out = Outcome()
    out.rule = ("headers over the pragma grammar (inner blanks, odd characters, the special keys) x recognised layouts (Strict) or scheme-less column sets (Silent) x 0-4 accepted records "
                "(empty trailing fields, null spellings, list- and enum-valued columns) x three channels (plain path, .gz path, caller handle); write, read back, write again; "
                "non-trivial = at least one record; distinct (header, records, channel)")
    rng = ctx.rng("c02")
    reqs = []
    with tempfile.TemporaryDirectory() as tmp:
        for _ in range(ctx.scale(150, 2500)):
            ann = rng.choice([None, "gdc-1.0.0", "gdc-1.0.0-public", "gdc-1.0.0-public", "gdc-2.0.0-aliquot-merged-masked", "gdc-1.0.0-genie"])
            header_lines = gen_header(rng, ann)
            lines = gen_records(rng, ann, rng.randrange(0, 5))
            channel = rng.choice(CHANNELS)
            out.evaluations += 1
            how = None
            if ann in ("gdc-1.0.0-public", "gdc-2.0.0-aliquot-merged-masked") and rng.random() < 0.5:
                dh = derived_header(rng, ann)
                if rng.random() < 0.5:
                    lines = []          # a header-only file
                if dh:
                    _hobj, header_lines, how = dh
            toucher = Toucher(rng=rng) if (ann and rng.random() < 0.4) else None
            case = {"scheme": ann, "header": header_lines, "lines": lines, "channel": channel, "derived": how, "edits": None}
            e = eval_roundtrip(case, tmp, toucher)
            out.failures += e["failures"]
            if e["text"] is None:
                out.distribution["writer-refused"] += 1
                continue
            if "read" not in e:
                continue
            where, recs, text = e["where"], e["recs"], e["text"]
            out.distribution["channel:" + channel] += 1
            if recs:
                out.nontrivial.add(repr(where))
            if len(out.samples) < 3 and recs:
                out.sample({"header": header_lines, "scheme": ann, "channel": channel, "n_records": len(recs), "bytes": len(text)})
            # correspondence: the model writes the same bytes and reads them back the same way
            if channel == "handle" and len(reqs) < ctx.scale(60, 600):
                reqs.append((model_req(ann, header_lines, recs, e["names"]), text))
    mo = ctx.driver.run([r for r, _ in reqs])
    for (r, text), m in zip(reqs, mo):
        if has_unmodelled(m):
            out.unmodelled += 1
            continue
        mt = model_text(m)
        if "init_exc" in m or mt != text:
            fields = [p for o in r["ops"] if o["k"] == "write" for p in o["rec"]["parse"]["line"].split("\t")]
            if any(colcases.dontcare_numeric(p) or colcases.dontcare_uuid(p) for f in fields for p in [f] + f.split(";")):
                out.dontcare += 1
            else:
                out.disagreements.append({"op": "writer.run", "header": r["header_lines"], "model": (m.get("init_exc") or mt[-200:]), "impl": text[-200:]})
    return out


def search(ctx):
    return run(ctx)


# ------------------------------------------------------------------ replay
def _short(x, n=300):
    import json
    t = x if isinstance(x, str) else json.dumps(x, default=str, ensure_ascii=True)
    return t if len(t) <= n else t[:n] + "... (%d chars)" % len(t)


def replay_case(ctx, failure):
    """Re-evaluate the stored case (header, generated lines, channel, header derivation, API edits) on the current
    implementation; the failures it produces now ([] = it round-trips; None = inputs not stored: regenerate)."""
    case = failure.get("case")
    if not isinstance(case, dict) or any(k not in case for k in ("scheme", "header", "lines", "channel", "derived", "edits")):
        return None
    ann = case["scheme"]
    if ann and impl.scheme_by_annotation(ann) is None:
        return None
    toucher = Toucher(stored=case["edits"]) if case["edits"] is not None else None
    with tempfile.TemporaryDirectory() as tmp:
        e = eval_roundtrip(dict(case), tmp, toucher)
    print("replay C02: %s writer (%s mode) on channel '%s', header %s%s, %d record(s) parsed from the stored lines%s"
          % (ann or "scheme-less", "Strict" if ann else "Silent", case["channel"], _short(case["header"], 200),
             " (taken from a reader of the protected file, annotation.spec edited: %s)" % case["derived"] if case["derived"] else "",
             len(case["lines"]),
             ", %d list value(s) assigned through the API" % sum(len(x) for x in case["edits"]) if case["edits"] is not None else ""))
    for r in e["recs"]:
        print("  offered: %s" % _short(r, 200))
    print("  implementation: %s" % (e["status"] if e["text"] is None or "read" not in e else
                                    "wrote %d chars; read back %d pragma(s), %s column names, %d record(s)"
                                    % (len(e["text"]), len(e["read"]["header"]),
                                       len(e["read"]["columns"]) if e["read"]["columns"] is not None else "no", len(e["read"]["records"]))))
    if e["text"] is not None:
        print("  written: %s" % _short(e["text"], 300))
    if case["channel"] == "handle" and e["text"] is not None:
        # the kind of case the module compares with the model
        m = ctx.driver.run([model_req(ann, case["header"], e["recs"], e["names"])])[0]
        if has_unmodelled(m):
            print("  model: outside the model")
        else:
            mt = model_text(m)
            print("  model: %s" % ("writes the same text" if "init_exc" not in m and mt == e["text"] else
                                   "DIFFERS: %s" % _short(m.get("init_exc") or mt, 300)))
    print("  oracle: %d failure(s)%s" % (len(e["failures"]), "".join("\n    - " + x["what"] for x in e["failures"])))
    return e["failures"]

